---------------------------- MODULE RattleScheme ----------------------------
(***************************************************************************)
(* RATTLE as a set of symbolic equations (C19), its time symmetry and its  *)
(* reversibility, and trace validation of recorded steps.                  *)
(*                                                                         *)
(* One step takes (q0, u0) on the constraint manifold to (q1, u1) through  *)
(* the midpoint velocity uh and the percussions P1, P2:                    *)
(*   kin    q1 - q0 = h/2 (B(q0) + B(q1)) uh                               *)
(*   mom1   M(q0) (uh - u0) = h/2 f(q0, uh) + W(q0) P1                     *)
(*   pos    g(q1) = 0                                                      *)
(*   mom2   M(q1) (u1 - uh) = h/2 f(q1, uh) + W(q1) P2                     *)
(*   vel    g_dot(q1, u1) = 0                                              *)
(* together with what holds on entry: g(q0) = 0, g_dot(q0, u0) = 0.        *)
(* An equation is a record; velocities carry a sign, the step size a sign. *)
(* Facts used by the normal form: B(q) u and g_dot(q, u) are linear in u;  *)
(* the forces of a conservative system are even in u (gyroscopic terms are *)
(* quadratic); percussions are free unknowns (their sign is immaterial).   *)
(*                                                                         *)
(*   adjoint      swap (q0, u0) <-> (q1, u1), P1 <-> P2, h -> -h           *)
(*   reflection   u -> -u for all velocities, h -> -h                      *)
(* A scheme is SYMMETRIC if its equation set is its own adjoint, and       *)
(* REVERSIBLE if it is invariant under the reflection: then stepping       *)
(* forward, flipping the velocities and stepping again returns to the      *)
(* start (rho Phi_h rho = Phi_h^-1).  A consistent symmetric one-step      *)
(* method has even order, i.e. at least two (Hairer, Lubich, Wanner,       *)
(* Geometric Numerical Integration, Thm. II.3.2).                          *)
(*                                                                         *)
(* Scheme = "rattle" is the scheme as implemented.  The other values are   *)
(* plausible deviations; TLC must accept "rattle" and reject the others:   *)
(*   "force_at_end"      stage 2 evaluates the forces at (q1, u1)          *)
(*   "explicit_kin"      kinematics with B(q0) only                        *)
(*   "mass_at_start"     stage 2 uses M(q0)                                *)
(*   "no_velocity_stage" u1 = uh (no projection to the velocity level)     *)
(*                                                                         *)
(* Mode "trace": per recorded step the residuals of these equations        *)
(* (evaluated by the harness from the real step's data with the System's   *)
(* routines) and the run-level observations (forward-backward return,      *)
(* energy-error ratio under step halving, energy trend) are classified;    *)
(* every block is enforced.                                                *)
(***************************************************************************)
EXTENDS Integers, Sequences, FiniteSets, TLC, Json, IOUtils

CONSTANTS Mode, Scheme

V(n, s) == [n |-> n, s |-> s]                 \* a velocity symbol with sign
Kin(a, b, Bs, v, h) == [k |-> "kin", a |-> a, b |-> b, B |-> Bs, v |-> v, h |-> h]
Mom(m, from, to, fq, fv, w, p, h) == [k |-> "mom", M |-> m, from |-> from, to |-> to, fq |-> fq, fv |-> fv, W |-> w, P |-> p, h |-> h]
Pos(q) == [k |-> "g", q |-> q]
Vel(q, v) == [k |-> "gdot", q |-> q, v |-> v]
Same(a, b) == [k |-> "same", a |-> a, b |-> b]

Eqs(S) ==
    {Pos("q0"), Vel("q0", V("u0", 1)), Pos("q1")} \cup
    {IF S = "explicit_kin" THEN Kin("q0", "q1", {"q0"}, V("uh", 1), 1) ELSE Kin("q0", "q1", {"q0", "q1"}, V("uh", 1), 1)} \cup
    {Mom("q0", V("u0", 1), V("uh", 1), "q0", "uh", "q0", "P1", 1)} \cup
    (IF S = "no_velocity_stage" THEN {Same(V("uh", 1), V("u1", 1))}
     ELSE {Mom(IF S = "mass_at_start" THEN "q0" ELSE "q1", V("uh", 1), V("u1", 1), "q1", IF S = "force_at_end" THEN "u1" ELSE "uh", "q1", "P2", 1),
           Vel("q1", V("u1", 1))})

\* ---- symbol maps
SwapQ(q) == IF q = "q0" THEN "q1" ELSE IF q = "q1" THEN "q0" ELSE q
SwapU(n) == IF n = "u0" THEN "u1" ELSE IF n = "u1" THEN "u0" ELSE n
SwapP(p) == IF p = "P1" THEN "P2" ELSE IF p = "P2" THEN "P1" ELSE p
Adj(e) ==
    CASE e.k = "kin" -> [e EXCEPT !.a = SwapQ(e.a), !.b = SwapQ(e.b), !.B = {SwapQ(x) : x \in e.B}, !.v = V(SwapU(e.v.n), e.v.s), !.h = 0 - e.h]
      [] e.k = "mom" -> [e EXCEPT !.M = SwapQ(e.M), !.from = V(SwapU(e.from.n), e.from.s), !.to = V(SwapU(e.to.n), e.to.s), !.fq = SwapQ(e.fq), !.fv = SwapU(e.fv),
                                  !.W = SwapQ(e.W), !.P = SwapP(e.P), !.h = 0 - e.h]
      [] e.k = "g" -> [e EXCEPT !.q = SwapQ(e.q)]
      [] e.k = "gdot" -> [e EXCEPT !.q = SwapQ(e.q), !.v = V(SwapU(e.v.n), e.v.s)]
      [] e.k = "same" -> [e EXCEPT !.a = V(SwapU(e.a.n), e.a.s), !.b = V(SwapU(e.b.n), e.b.s)]
Neg(v) == V(v.n, 0 - v.s)
Refl(e) ==
    CASE e.k = "kin" -> [e EXCEPT !.v = Neg(e.v), !.h = 0 - e.h]
      [] e.k = "mom" -> [e EXCEPT !.from = Neg(e.from), !.to = Neg(e.to), !.h = 0 - e.h]        \* forces are even in the velocity: fv keeps its name
      [] e.k = "g" -> e
      [] e.k = "gdot" -> [e EXCEPT !.v = Neg(e.v)]
      [] e.k = "same" -> [e EXCEPT !.a = Neg(e.a), !.b = Neg(e.b)]

\* ---- normal form: positive step size, positive velocities
Norm(e) ==
    CASE e.k = "kin" ->
            \* q_b - q_a = (h s) /2 sum B v : a negative product is the same equation read from b to a
            IF e.h * e.v.s = 1 THEN [e EXCEPT !.v = V(e.v.n, 1), !.h = 1] ELSE [e EXCEPT !.a = e.b, !.b = e.a, !.v = V(e.v.n, 1), !.h = 1]
      [] e.k = "mom" ->
            \* s M (to - from) = h/2 f + W P  (both velocities carry the same sign s; P is free): multiply by s
            LET s == e.to.s IN
            IF e.to.s # e.from.s THEN [e EXCEPT !.k = "malformed"]
            ELSE IF s * e.h = 1 THEN [e EXCEPT !.from = V(e.from.n, 1), !.to = V(e.to.n, 1), !.h = 1]
            ELSE [e EXCEPT !.from = V(e.to.n, 1), !.to = V(e.from.n, 1), !.h = 1]
      [] e.k = "g" -> e
      [] e.k = "gdot" -> [e EXCEPT !.v = V(e.v.n, 1)]                        \* linear in the velocity
      [] e.k = "same" -> IF e.a.s = e.b.s THEN [e EXCEPT !.a = V(e.a.n, 1), !.b = V(e.b.n, 1)] ELSE [e EXCEPT !.k = "malformed"]
NormSet(E) == {Norm(e) : e \in E}
\* "same" is symmetric in its arguments
Canon(E) == {IF e.k = "same" THEN [k |-> "same", ab |-> {e.a, e.b}] ELSE e : e \in E}

Symmetric(S) == Canon(NormSet({Adj(e) : e \in Eqs(S)})) = Canon(NormSet(Eqs(S)))
Reversible(S) == Canon(NormSet({Refl(e) : e \in Eqs(S)})) = Canon(NormSet(Eqs(S)))
\* the step ends on the manifold it started on (position and velocity level)
KeepsManifold(S) == {Pos("q1"), Vel("q1", V("u1", 1))} \subseteq Eqs(S)


\* ------------------------------------------------------------------ trace verdicts
Blocks == {"kin", "mom1", "pos", "mom2", "vel", "quat", "reversible", "order2", "nodrift"}
SeqToSet(q) == {q[i] : i \in DOMAIN q}
Verdict(r) ==
    LET bad == SeqToSet(r.violated) \cap Blocks IN
    IF bad = {} THEN ""
    ELSE IF "kin" \in bad THEN "a step does not satisfy the symmetric midpoint kinematics q1 - q0 = h/2 (B(q0) + B(q1)) u_half"
    ELSE IF "mom1" \in bad THEN "a step does not satisfy the first momentum stage M(q0)(u_half - u0) = h/2 f(q0, u_half) + W(q0) P1"
    ELSE IF "pos" \in bad THEN "a step does not end on the position-level constraints"
    ELSE IF "mom2" \in bad THEN "a step does not satisfy the second momentum stage M(q1)(u1 - u_half) = h/2 f(q1, u_half) + W(q1) P2"
    ELSE IF "vel" \in bad THEN "a step does not end on the velocity-level constraints"
    ELSE IF "quat" \in bad THEN "a stored orientation quaternion is not of unit length"
    ELSE IF "reversible" \in bad THEN "integrating forward, reversing the velocities and integrating again does not return to the initial state"
    ELSE IF "order2" \in bad THEN "the energy error does not shrink by about four when the step size is halved"
    ELSE "the energy error grows secularly"

VARIABLES l, verdicts
vars == <<l, verdicts>>
SchemeOK == l >= 1 /\ (Mode = "scheme" => (Symmetric(Scheme) /\ Reversible(Scheme) /\ KeepsManifold(Scheme)))
TraceLog == IF Mode = "trace" THEN ndJsonDeserialize(IOEnv.TRACE_FILE) ELSE <<>>
Init == l = 1 /\ verdicts = <<>>
Step ==
    /\ Mode = "trace"
    /\ \/ /\ l <= Len(TraceLog)
          /\ LET r == TraceLog[l]  v == Verdict(r) IN
             verdicts' = IF v = "" THEN verdicts ELSE Append(verdicts, [id |-> r.id, clause |-> v])
          /\ l' = l + 1
       \/ /\ l = Len(TraceLog) + 1
          /\ PrintT(<<"VERDICTS", verdicts>>)
          /\ l' = l + 1 /\ UNCHANGED verdicts
Next == Step
Spec == Init /\ [][Next]_vars
=============================================================================
