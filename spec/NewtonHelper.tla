---------------------------- MODULE NewtonHelper ----------------------------
(***************************************************************************)
(* Convergence contracts of cardillo.math.fsolve.fsolve and of the         *)
(* fixed-point helpers used by the dual Stoermer-Verlet scheme, on a       *)
(* family of problems whose iterates are exactly representable (dyadic     *)
(* rationals), so that the specification predicts every observable of the  *)
(* implementation exactly.                                                 *)
(*                                                                         *)
(* All numbers are dyadic: <<m, e>> stands for m * 2^-e.                   *)
(*                                                                         *)
(* Newton (fsolve):  f(x) = A (x - xs) in R^n, A = 2^j I, every component  *)
(* of x0 - xs equal to +-D.  The solver is given the Jacobian A/rho, so    *)
(* one step multiplies the residual by (1 - rho):                          *)
(*     rho = 1   -> exact Newton, converges in one step                    *)
(*     rho = 1/2 -> residual halves every step                             *)
(*     rho = 2   -> residual alternates in sign, never shrinks             *)
(*     rho = -1  -> residual doubles (divergence)                          *)
(* fsolve freezes scale = atol + |f(x0)| rtol and accepts an iterate iff   *)
(* ||f/scale|| / sqrt(n) < 1, i.e. (all components alike) |f_i| < scale_i. *)
(*                                                                         *)
(* Fixed point (plain helper): x -> c x + b in R^n with fixed point xs;    *)
(* iterates x_k = xs + c^k D.  It accepts x_{k+1} iff the scaled step      *)
(* |x_{k+1} - x_k| < atol + max(|x_k|, |x_{k+1}|) rtol and returns it with  *)
(* the iteration count, and raises after max_iter iterations.              *)
(* Impl = "as_found" is the pinned helper, which overwrote the scale by 1. *)
(***************************************************************************)
EXTENDS Integers, Sequences, FiniteSets, TLC

CONSTANTS Algo,      \* "newton" | "fixedpoint" | "momentum" | "fprime"
          Impl       \* "intended" | "as_found"

VARIABLES prob,      \* the problem and options (chosen in Init)
          k,         \* iterations done
          r,         \* newton: current residual component |f_i| ; fixedpoint: current offset x_k - xs  (dyadic, signed)
          status,    \* "running" | "converged" | "failed"
          warned     \* newton: a warning was emitted; fixedpoint: an exception was raised

vars == <<prob, k, r, status, warned>>

---------------------------------------------------------------------------
\* dyadic arithmetic
Pow2(n) == IF n = 0 THEN 1 ELSE 2 ^ n
Norm(a) == a      \* no reduction needed at these sizes
D(m, e) == <<m, e>>
MaxE(a, b) == IF a[2] > b[2] THEN a[2] ELSE b[2]
Num(a, E) == a[1] * Pow2(E - a[2])          \* numerator of a in units 2^-E, E >= a[2]
Less(a, b) == LET E == MaxE(a, b) IN Num(a, E) < Num(b, E)
Add(a, b) == LET E == MaxE(a, b) IN <<Num(a, E) + Num(b, E), E>>
Mul(a, b) == <<a[1] * b[1], a[2] + b[2]>>
Abs(a) == <<IF a[1] < 0 THEN 0 - a[1] ELSE a[1], a[2]>>
Neg(a) == <<0 - a[1], a[2]>>
MaxD(a, b) == IF Less(a, b) THEN b ELSE a
Sub(a, b) == Add(a, Neg(b))

---------------------------------------------------------------------------
\* problem spaces
Dims == {1, 2, 3}
NewtonProblems ==
    [n : Dims,
     jexp : {0, 2},                         \* A = 2^jexp * I
     d : {D(1, 0), D(1, 3), D(5, 1), D(8, 0)},      \* |x0 - xs| per component
     rho : {"1", "1/2", "2", "-1"},
     atol : {D(3, 4), D(3, 10)},
     rtol : {D(3, 6), D(3, 10)},
     maxit : {1, 2, 5, 8},
     jac : {"callable", "chord", "lu", "numerical"}]

\* one Newton step multiplies the residual by this factor
Factor(rho) == CASE rho = "1" -> D(0, 0) [] rho = "1/2" -> D(1, 1) [] rho = "2" -> D(0 - 1, 0) [] rho = "-1" -> D(2, 0)

FixProblems ==
    [n : Dims,
     c : {D(1, 1), D(0 - 1, 1), D(1, 2), D(1, 0), D(0, 0)},    \* contraction factor (1: no convergence unless already there)
     d : {D(1, 0), D(3, 2), D(8, 0), D(0, 0)},                  \* x0 - xs per component
     xs : {D(0, 0), D(5, 0), D(0 - 7, 1)},                      \* fixed point (all components)
     atol : {D(3, 4), D(3, 12), D(3, 0)},
     rtol : {D(3, 6), D(3, 12)},
     maxit : {1, 3, 6, 9}]

\* a numerical Jacobian differentiates the true f, so it only exists for rho = 1
WellPosed(p) ==
    IF Algo = "newton" THEN (p.jac = "numerical" => p.rho = "1")
    ELSE (p.c = D(1, 2) => p.maxit <= 6)        \* keeps the dyadic exponents inside 32-bit arithmetic

---------------------------------------------------------------------------
\* newton
F0(p) == Mul(D(Pow2(p.jexp), 0), p.d)                     \* |f_i(x0)|
ScaleN(p) == Add(p.atol, Mul(F0(p), p.rtol))               \* frozen scale
AcceptN(p, res) == Less(Abs(res), ScaleN(p))

InitNewton ==
    /\ prob \in {p \in NewtonProblems : WellPosed(p)}
    /\ k = 0
    /\ r = F0(prob)
    /\ warned = FALSE
    /\ status = IF AcceptN(prob, F0(prob)) THEN "converged" ELSE "running"

StepNewton ==
    /\ status = "running"
    /\ LET r1 == Mul(r, Factor(prob.rho))
           k1 == k + 1
       IN /\ r' = r1
          /\ k' = k1
          /\ IF AcceptN(prob, r1) THEN status' = "converged" /\ warned' = FALSE
             ELSE IF k1 = prob.maxit THEN status' = "failed" /\ warned' = TRUE
             ELSE status' = "running" /\ warned' = FALSE
    /\ UNCHANGED prob

---------------------------------------------------------------------------
\* fixed point:  r is the current offset x_k - xs
XofR(p, off) == Add(p.xs, off)
StepSize(p, off) == Abs(Sub(Mul(off, p.c), off))            \* |x_{k+1} - x_k|
ScaleF(p, off) ==
    IF Impl = "as_found" THEN D(1, 0)
    ELSE Add(p.atol, Mul(MaxD(Abs(XofR(p, off)), Abs(XofR(p, Mul(off, p.c)))), p.rtol))
AcceptF(p, off) == Less(StepSize(p, off), ScaleF(p, off))

\* what the documented tolerance demands of a returned point, independent of Impl
MeetsTolerance(p, off) ==
    Less(StepSize(p, off), Add(p.atol, Mul(MaxD(Abs(XofR(p, off)), Abs(XofR(p, Mul(off, p.c)))), p.rtol)))

InitFix ==
    /\ prob \in {p \in FixProblems : WellPosed(p)}
    /\ k = 0
    /\ r = prob.d
    /\ warned = FALSE
    /\ status = "running"

StepFix ==
    /\ status = "running"
    /\ LET r1 == Mul(r, prob.c)
           k1 == k + 1
       IN /\ k' = k1
          /\ IF AcceptF(prob, r)
               THEN /\ status' = "converged" /\ warned' = FALSE /\ r' = r1      \* returns x_{k+1}
               ELSE IF k1 = prob.maxit
                      THEN /\ status' = "failed" /\ warned' = TRUE /\ r' = r1   \* raises
                      ELSE /\ status' = "running" /\ warned' = FALSE /\ r' = r1
    /\ UNCHANGED prob

---------------------------------------------------------------------------
\* momentum helper (Nesterov weights are irrational): the spec only enumerates the contractive problems and
\* states the contract -- the returned point meets the given tolerance, or the helper raised; the harness
\* evaluates the scaled fixed-point residual at the returned point
InitMomentum ==
    /\ prob \in {p \in FixProblems : p.c \in {D(1, 1), D(0 - 1, 1), D(1, 2), D(0, 0)}}
    /\ k = 0 /\ r = prob.d /\ warned = FALSE /\ status = "contract-only"

\* finite differences of f(x) = a x^2 + b x (+ g x y for the mixed partial): value of df/dx the method returns
FprimeProblems ==
    [a : {0 - 3, 0, 1, 2}, b : {0 - 1, 0, 5}, g : {0, 3},
     x : {D(0, 0), D(3, 1), D(0 - 5, 2)}, y : {D(1, 0), D(0 - 3, 1)},
     h : {4, 10}, method : {"2-point", "3-point", "cs"}]
FprimeExpected(p) ==
    LET x2a == Mul(D(2 * p.a, 0), p.x)
        exact == Add(Add(x2a, D(p.b, 0)), Mul(D(p.g, 0), p.y))
    IN IF p.method = "2-point" THEN Add(exact, D(p.a, p.h)) ELSE exact     \* forward difference: + a h
InitFprime ==
    /\ prob \in FprimeProblems
    /\ k = 0 /\ r = FprimeExpected(prob) /\ warned = FALSE /\ status = "converged"

Init == CASE Algo = "newton" -> InitNewton [] Algo = "fixedpoint" -> InitFix
          [] Algo = "momentum" -> InitMomentum [] Algo = "fprime" -> InitFprime
Next == CASE Algo = "newton" -> StepNewton [] Algo = "fixedpoint" -> StepFix [] OTHER -> FALSE /\ UNCHANGED vars

\* accuracy clause for the finite differences: 3-point and complex step are exact on quadratics, the
\* forward difference is off by exactly a*h
FprimeAccuracy ==
    Algo = "fprime" =>
        LET exact == Add(Add(Mul(D(2 * prob.a, 0), prob.x), D(prob.b, 0)), Mul(D(prob.g, 0), prob.y))
        IN IF prob.method = "2-point" THEN Sub(r, exact) = D(prob.a, prob.h) \/ Num(Sub(r, exact), 12) = Num(D(prob.a, prob.h), 12)
           ELSE Num(Sub(r, exact), 12) = 0
Spec == Init /\ [][Next]_vars

Done == status # "running"

\* C22 (Newton): success is reported only when the scaled criterion holds at the returned point, and a
\* warning is emitted exactly when it does not
NewtonContract ==
    (Algo = "newton" /\ Done) =>
        /\ (status = "converged") <=> AcceptN(prob, r)
        /\ warned <=> (status = "failed")
        /\ k <= prob.maxit
        /\ (status = "failed") => k = prob.maxit

\* C22 (fixed point): a returned point meets the tolerance that was given, otherwise the helper raises.
\* the step that produced the returned point: offset before it is r / c when c # 0; we carry it explicitly instead
FixReturned ==
    [][ (Algo = "fixedpoint" /\ status' = "converged") => MeetsTolerance(prob, r) ]_vars

FixRaises == (Algo = "fixedpoint" /\ Done) => (warned <=> status = "failed")

\* the comparison is never closer than 1/1000 to the threshold (keeps float rounding out of the decision)
Separated(a, b) == LET E == MaxE(a, b) IN
                   LET x == Num(a, E)  y == Num(b, E) IN (x - y) * 1000 > y \/ (y - x) * 1000 > y
=============================================================================
