------------------------------ MODULE Scatter ------------------------------
(***************************************************************************)
(* What every evaluation method of cardillo.system.System means, as data:  *)
(* the global object returned by method m is the sum (vectors of disjoint  *)
(* owners: the juxtaposition) over all member contributions that carry the *)
(* callable attribute `prop`, of the contribution's local quantity `loc`   *)
(* evaluated at the listed local arguments and placed at the rows/columns  *)
(* of the index spaces `row`/`col`:                                         *)
(*    "myq"  the contribution's own coordinates  (my_qDOF)                 *)
(*    "q"    the coordinates it depends on       (qDOF; for couplings the  *)
(*           concatenation of its subsystems' coordinates)                 *)
(*    "u"    likewise for velocities (uDOF)                                *)
(*    "la_g", "la_gamma", "la_c", "la_tau", "tau", "la_S", "la_N", "la_F"  *)
(* Local argument names: q, u, u_dot are sliced with qDOF/uDOF, la_x with  *)
(* la_xDOF; "0u"/"0u_dot" stand for a zero velocity/acceleration (chi_*,   *)
(* zeta_* are the rate/acceleration terms at zero u/u_dot).                *)
(* Modes: assign (vector, disjoint owners), accum (vector, overlapping     *)
(* owners add up), mat (matrix, always accumulates), scalar (sum),         *)
(* massmat (constant parts are evaluated once at assembly at (t0,q0)),     *)
(* xi_N / xi_F (post-impact rate + restitution * pre-impact rate).         *)
(*                                                                         *)
(* The table is exported as JSON for the conformance harness, so that the  *)
(* dense reference assembly is driven by the specification, not by a       *)
(* second hand-written table.                                              *)
(***************************************************************************)
EXTENDS Integers, Sequences, FiniteSets, TLC, Json, IOUtils

Methods == <<
    [m |-> "q_dot", args |-> <<"t", "q", "u">>, prop |-> "q_dot", loc |-> "q_dot", largs |-> <<"t", "q", "u">>, row |-> "myq", col |-> "", mode |-> "assign"],
    [m |-> "q_dot_q", args |-> <<"t", "q", "u">>, prop |-> "q_dot_q", loc |-> "q_dot_q", largs |-> <<"t", "q", "u">>, row |-> "myq", col |-> "q", mode |-> "mat"],
    [m |-> "q_dot_u", args |-> <<"t", "q">>, prop |-> "q_dot_u", loc |-> "q_dot_u", largs |-> <<"t", "q">>, row |-> "myq", col |-> "u", mode |-> "mat"],
    [m |-> "E_pot", args |-> <<"t", "q">>, prop |-> "E_pot", loc |-> "E_pot", largs |-> <<"t", "q">>, row |-> "", col |-> "", mode |-> "scalar"],
    [m |-> "E_kin", args |-> <<"t", "q", "u">>, prop |-> "E_kin", loc |-> "E_kin", largs |-> <<"t", "q", "u">>, row |-> "", col |-> "", mode |-> "scalar"],
    [m |-> "M", args |-> <<"t", "q">>, prop |-> "M", loc |-> "M", largs |-> <<"t", "q">>, row |-> "u", col |-> "u", mode |-> "massmat"],
    [m |-> "Mu_q", args |-> <<"t", "q", "u">>, prop |-> "Mu_q", loc |-> "Mu_q", largs |-> <<"t", "q", "u">>, row |-> "u", col |-> "q", mode |-> "mat"],
    [m |-> "h", args |-> <<"t", "q", "u">>, prop |-> "h", loc |-> "h", largs |-> <<"t", "q", "u">>, row |-> "u", col |-> "", mode |-> "accum"],
    [m |-> "h_q", args |-> <<"t", "q", "u">>, prop |-> "h_q", loc |-> "h_q", largs |-> <<"t", "q", "u">>, row |-> "u", col |-> "q", mode |-> "mat"],
    [m |-> "h_u", args |-> <<"t", "q", "u">>, prop |-> "h_u", loc |-> "h_u", largs |-> <<"t", "q", "u">>, row |-> "u", col |-> "u", mode |-> "mat"],
    [m |-> "la_c", args |-> <<"t", "q", "u">>, prop |-> "c", loc |-> "la_c", largs |-> <<"t", "q", "u">>, row |-> "la_c", col |-> "", mode |-> "assign"],
    [m |-> "c", args |-> <<"t", "q", "u", "la_c">>, prop |-> "c", loc |-> "c", largs |-> <<"t", "q", "u", "la_c">>, row |-> "la_c", col |-> "", mode |-> "assign"],
    [m |-> "c_q", args |-> <<"t", "q", "u", "la_c">>, prop |-> "c_q", loc |-> "c_q", largs |-> <<"t", "q", "u", "la_c">>, row |-> "la_c", col |-> "q", mode |-> "mat"],
    [m |-> "c_u", args |-> <<"t", "q", "u", "la_c">>, prop |-> "c_u", loc |-> "c_u", largs |-> <<"t", "q", "u", "la_c">>, row |-> "la_c", col |-> "u", mode |-> "mat"],
    [m |-> "c_la_c", args |-> <<>>, prop |-> "c", loc |-> "c_la_c", largs |-> <<>>, row |-> "la_c", col |-> "la_c", mode |-> "mat"],
    [m |-> "W_c", args |-> <<"t", "q">>, prop |-> "c", loc |-> "W_c", largs |-> <<"t", "q">>, row |-> "u", col |-> "la_c", mode |-> "mat"],
    [m |-> "Wla_c_q", args |-> <<"t", "q", "la_c">>, prop |-> "c_q", loc |-> "Wla_c_q", largs |-> <<"t", "q", "la_c">>, row |-> "u", col |-> "q", mode |-> "mat"],
    [m |-> "W_tau", args |-> <<"t", "q">>, prop |-> "la_tau", loc |-> "W_tau", largs |-> <<"t", "q">>, row |-> "u", col |-> "la_tau", mode |-> "mat"],
    [m |-> "la_tau", args |-> <<"t", "q", "u">>, prop |-> "la_tau", loc |-> "la_tau", largs |-> <<"t", "q", "u">>, row |-> "la_tau", col |-> "", mode |-> "assign"],
    [m |-> "Wla_tau_q", args |-> <<"t", "q", "u">>, prop |-> "la_tau", loc |-> "Wla_tau_q", largs |-> <<"t", "q", "u">>, row |-> "u", col |-> "q", mode |-> "mat"],
    [m |-> "Wla_tau_u", args |-> <<"t", "q", "u">>, prop |-> "la_tau", loc |-> "Wla_tau_u", largs |-> <<"t", "q", "u">>, row |-> "u", col |-> "u", mode |-> "mat"],
    [m |-> "tau", args |-> <<"t">>, prop |-> "tau", loc |-> "tau", largs |-> <<"t">>, row |-> "tau", col |-> "", mode |-> "assign"],
    [m |-> "g", args |-> <<"t", "q">>, prop |-> "g", loc |-> "g", largs |-> <<"t", "q">>, row |-> "la_g", col |-> "", mode |-> "assign"],
    [m |-> "g_q", args |-> <<"t", "q">>, prop |-> "g", loc |-> "g_q", largs |-> <<"t", "q">>, row |-> "la_g", col |-> "q", mode |-> "mat"],
    [m |-> "g_q_T_mu_q", args |-> <<"t", "q", "la_g">>, prop |-> "g", loc |-> "g_q_T_mu_q", largs |-> <<"t", "q", "la_g">>, row |-> "q", col |-> "q", mode |-> "mat"],
    [m |-> "W_g", args |-> <<"t", "q">>, prop |-> "g", loc |-> "W_g", largs |-> <<"t", "q">>, row |-> "u", col |-> "la_g", mode |-> "mat"],
    [m |-> "Wla_g_q", args |-> <<"t", "q", "la_g">>, prop |-> "g", loc |-> "Wla_g_q", largs |-> <<"t", "q", "la_g">>, row |-> "u", col |-> "q", mode |-> "mat"],
    [m |-> "g_dot", args |-> <<"t", "q", "u">>, prop |-> "g", loc |-> "g_dot", largs |-> <<"t", "q", "u">>, row |-> "la_g", col |-> "", mode |-> "assign"],
    [m |-> "chi_g", args |-> <<"t", "q">>, prop |-> "g", loc |-> "g_dot", largs |-> <<"t", "q", "0u">>, row |-> "la_g", col |-> "", mode |-> "assign"],
    [m |-> "g_dot_u", args |-> <<"t", "q">>, prop |-> "g", loc |-> "g_dot_u", largs |-> <<"t", "q">>, row |-> "la_g", col |-> "u", mode |-> "mat"],
    [m |-> "g_dot_q", args |-> <<"t", "q", "u">>, prop |-> "g", loc |-> "g_dot_q", largs |-> <<"t", "q", "u">>, row |-> "la_g", col |-> "q", mode |-> "mat"],
    [m |-> "g_ddot", args |-> <<"t", "q", "u", "u_dot">>, prop |-> "g", loc |-> "g_ddot", largs |-> <<"t", "q", "u", "u_dot">>, row |-> "la_g", col |-> "", mode |-> "assign"],
    [m |-> "zeta_g", args |-> <<"t", "q", "u">>, prop |-> "g", loc |-> "g_ddot", largs |-> <<"t", "q", "u", "0u_dot">>, row |-> "la_g", col |-> "", mode |-> "assign"],
    [m |-> "gamma", args |-> <<"t", "q", "u">>, prop |-> "gamma", loc |-> "gamma", largs |-> <<"t", "q", "u">>, row |-> "la_gamma", col |-> "", mode |-> "assign"],
    [m |-> "chi_gamma", args |-> <<"t", "q">>, prop |-> "gamma", loc |-> "gamma", largs |-> <<"t", "q", "0u">>, row |-> "la_gamma", col |-> "", mode |-> "assign"],
    [m |-> "gamma_q", args |-> <<"t", "q", "u">>, prop |-> "gamma", loc |-> "gamma_q", largs |-> <<"t", "q", "u">>, row |-> "la_gamma", col |-> "q", mode |-> "mat"],
    [m |-> "gamma_u", args |-> <<"t", "q">>, prop |-> "gamma", loc |-> "gamma_u", largs |-> <<"t", "q">>, row |-> "la_gamma", col |-> "u", mode |-> "mat"],
    [m |-> "gamma_dot", args |-> <<"t", "q", "u", "u_dot">>, prop |-> "gamma", loc |-> "gamma_dot", largs |-> <<"t", "q", "u", "u_dot">>, row |-> "la_gamma", col |-> "", mode |-> "assign"],
    [m |-> "gamma_dot_q", args |-> <<"t", "q", "u", "u_dot">>, prop |-> "gamma", loc |-> "gamma_dot_q", largs |-> <<"t", "q", "u", "u_dot">>, row |-> "la_gamma", col |-> "q", mode |-> "mat"],
    [m |-> "gamma_dot_u", args |-> <<"t", "q", "u", "u_dot">>, prop |-> "gamma", loc |-> "gamma_dot_u", largs |-> <<"t", "q", "u", "u_dot">>, row |-> "la_gamma", col |-> "u", mode |-> "mat"],
    [m |-> "zeta_gamma", args |-> <<"t", "q", "u">>, prop |-> "gamma", loc |-> "gamma_dot", largs |-> <<"t", "q", "u", "0u_dot">>, row |-> "la_gamma", col |-> "", mode |-> "assign"],
    [m |-> "W_gamma", args |-> <<"t", "q">>, prop |-> "gamma", loc |-> "W_gamma", largs |-> <<"t", "q">>, row |-> "u", col |-> "la_gamma", mode |-> "mat"],
    [m |-> "Wla_gamma_q", args |-> <<"t", "q", "la_gamma">>, prop |-> "gamma", loc |-> "Wla_gamma_q", largs |-> <<"t", "q", "la_gamma">>, row |-> "u", col |-> "q", mode |-> "mat"],
    [m |-> "g_S", args |-> <<"t", "q">>, prop |-> "g_S", loc |-> "g_S", largs |-> <<"t", "q">>, row |-> "la_S", col |-> "", mode |-> "assign"],
    [m |-> "g_S_q", args |-> <<"t", "q">>, prop |-> "g_S", loc |-> "g_S_q", largs |-> <<"t", "q">>, row |-> "la_S", col |-> "q", mode |-> "mat"],
    [m |-> "g_N", args |-> <<"t", "q">>, prop |-> "g_N", loc |-> "g_N", largs |-> <<"t", "q">>, row |-> "la_N", col |-> "", mode |-> "assign"],
    [m |-> "g_N_q", args |-> <<"t", "q">>, prop |-> "g_N", loc |-> "g_N_q", largs |-> <<"t", "q">>, row |-> "la_N", col |-> "q", mode |-> "mat"],
    [m |-> "W_N", args |-> <<"t", "q">>, prop |-> "g_N", loc |-> "W_N", largs |-> <<"t", "q">>, row |-> "u", col |-> "la_N", mode |-> "mat"],
    [m |-> "g_N_dot", args |-> <<"t", "q", "u">>, prop |-> "g_N", loc |-> "g_N_dot", largs |-> <<"t", "q", "u">>, row |-> "la_N", col |-> "", mode |-> "assign"],
    [m |-> "g_N_ddot", args |-> <<"t", "q", "u", "u_dot">>, prop |-> "g_N", loc |-> "g_N_ddot", largs |-> <<"t", "q", "u", "u_dot">>, row |-> "la_N", col |-> "", mode |-> "assign"],
    [m |-> "xi_N", args |-> <<"t", "t2", "q", "q2", "u", "u2">>, prop |-> "g_N", loc |-> "g_N_dot", largs |-> <<>>, row |-> "la_N", col |-> "", mode |-> "xi_N"],
    [m |-> "xi_N_q", args |-> <<"t", "q", "u">>, prop |-> "g_N", loc |-> "g_N_dot_q", largs |-> <<"t", "q", "u">>, row |-> "la_N", col |-> "q", mode |-> "mat"],
    [m |-> "g_N_dot_u", args |-> <<"t", "q">>, prop |-> "g_N", loc |-> "g_N_dot_u", largs |-> <<"t", "q">>, row |-> "la_N", col |-> "u", mode |-> "mat"],
    [m |-> "Wla_N_q", args |-> <<"t", "q", "la_N">>, prop |-> "g_N", loc |-> "Wla_N_q", largs |-> <<"t", "q", "la_N">>, row |-> "u", col |-> "q", mode |-> "mat"],
    [m |-> "gamma_F", args |-> <<"t", "q", "u">>, prop |-> "gamma_F", loc |-> "gamma_F", largs |-> <<"t", "q", "u">>, row |-> "la_F", col |-> "", mode |-> "assign"],
    [m |-> "gamma_F_dot", args |-> <<"t", "q", "u", "u_dot">>, prop |-> "gamma_F", loc |-> "gamma_F_dot", largs |-> <<"t", "q", "u", "u_dot">>, row |-> "la_F", col |-> "", mode |-> "assign"],
    [m |-> "xi_F", args |-> <<"t", "t2", "q", "q2", "u", "u2">>, prop |-> "gamma_F", loc |-> "gamma_F", largs |-> <<>>, row |-> "la_F", col |-> "", mode |-> "xi_F"],
    [m |-> "xi_F_q", args |-> <<"t", "q", "u">>, prop |-> "gamma_F", loc |-> "gamma_F_q", largs |-> <<"t", "q", "u">>, row |-> "la_F", col |-> "q", mode |-> "mat"],
    [m |-> "gamma_F_q", args |-> <<"t", "q", "u">>, prop |-> "gamma_F_q", loc |-> "gamma_F_q", largs |-> <<"t", "q", "u">>, row |-> "la_F", col |-> "q", mode |-> "mat"],
    [m |-> "gamma_F_u", args |-> <<"t", "q">>, prop |-> "gamma_F", loc |-> "gamma_F_u", largs |-> <<"t", "q">>, row |-> "la_F", col |-> "u", mode |-> "mat"],
    [m |-> "gamma_F_dot_q", args |-> <<"t", "q", "u", "u_dot">>, prop |-> "gamma_F", loc |-> "gamma_F_dot_q", largs |-> <<"t", "q", "u", "u_dot">>, row |-> "la_F", col |-> "q", mode |-> "mat"],
    [m |-> "gamma_F_dot_u", args |-> <<"t", "q", "u", "u_dot">>, prop |-> "gamma_F", loc |-> "gamma_F_dot_u", largs |-> <<"t", "q", "u", "u_dot">>, row |-> "la_F", col |-> "u", mode |-> "mat"],
    [m |-> "W_F", args |-> <<"t", "q">>, prop |-> "gamma_F", loc |-> "W_F", largs |-> <<"t", "q">>, row |-> "u", col |-> "la_F", mode |-> "mat"],
    [m |-> "Wla_F_q", args |-> <<"t", "q", "la_F">>, prop |-> "gamma_F", loc |-> "Wla_F_q", largs |-> <<"t", "q", "la_F">>, row |-> "u", col |-> "q", mode |-> "mat"]
>>

Spaces == {"myq", "q", "u", "la_g", "la_gamma", "la_c", "la_tau", "tau", "la_S", "la_N", "la_F"}
Properties == {"E_kin", "E_pot", "M", "Mu_q", "h", "h_q", "h_u", "q_dot", "q_dot_q", "q_dot_u", "g", "gamma",
               "c", "c_q", "c_u", "g_S", "la_tau", "tau", "g_N", "gamma_F", "gamma_F_q"}
Modes == {"assign", "accum", "mat", "scalar", "massmat", "xi_N", "xi_F"}
ArgNames == {"t", "t2", "q", "q2", "u", "u2", "u_dot", "la_c", "la_g", "la_gamma", "la_N", "la_F", "0u", "0u_dot"}

WellFormed ==
    /\ \A i \in DOMAIN Methods :
         LET r == Methods[i] IN
         /\ r.prop \in Properties
         /\ r.mode \in Modes
         /\ r.mode \in {"mat", "massmat"} => (r.row \in Spaces /\ r.col \in Spaces)
         /\ r.mode \in {"assign", "accum", "xi_N", "xi_F"} => (r.row \in Spaces /\ r.col = "")
         /\ r.mode = "scalar" => (r.row = "" /\ r.col = "")
         /\ \A k \in DOMAIN r.args : r.args[k] \in ArgNames
         /\ \A k \in DOMAIN r.largs : r.largs[k] \in ArgNames
    /\ \A i, j \in DOMAIN Methods : i # j => Methods[i].m # Methods[j].m

ASSUME WellFormed
ASSUME "SCATTER_OUT" \in DOMAIN IOEnv => JsonSerialize(IOEnv.SCATTER_OUT, Methods)

VARIABLE dummy
Init == dummy = 0
Next == UNCHANGED dummy
Spec == Init /\ [][Next]_dummy
=============================================================================
