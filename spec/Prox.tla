-------------------------------- MODULE Prox --------------------------------
(***************************************************************************)
(* The proximal maps of the contact laws (cardillo.math.prox) on integer   *)
(* lattices where they are exactly computable (C27).                       *)
(*                                                                         *)
(*  "orthant"  prox onto the negative orthant: componentwise min(x, 0)     *)
(*  "ball"     prox onto the ball of radius rho = max(0, mu z) around 0 in *)
(*             dimension 1..4, for inputs x whose Euclidean norm nrm is an *)
(*             integer (Pythagorean vectors): x if nrm <= rho, else        *)
(*             rho x / nrm  -- a rational vector                           *)
(*  "jac"      the implicit residual y + prox(rho x - y) of the ball law   *)
(*             outside the active set and its Jacobians at arguments with  *)
(*             integer norm                                                *)
(*  "rpar"     the prox parameter alpha / diag(W^T M^-1 W) for a diagonal  *)
(*             integer mass matrix and an integer W                        *)
(*                                                                         *)
(* TLC checks that the stated maps ARE the Euclidean projections:          *)
(* feasibility, idempotence, the projection inequality <x - y, c - y> <= 0 *)
(* against every lattice point c of the set, and non-expansiveness against *)
(* every other lattice input -- so the oracle itself is verified against   *)
(* the property's statement.  The derivative of the normalisation          *)
(* a -> a/|a| is characterised without limits: it annihilates a (the map   *)
(* is constant along rays) and acts as 1/|a| on the tangent space.         *)
(***************************************************************************)
EXTENDS Integers, Sequences, FiniteSets, FiniteSetsExt, TLC

CONSTANTS OMax        \* orthant grid -OMax..OMax

VARIABLES case, expected
vars == <<case, expected>>

Dot(a, b) == FoldSet(LAMBDA i, acc : a[i] * b[i] + acc, 0, DOMAIN a)
Sq(a) == Dot(a, a)
Min0(v) == IF v < 0 THEN v ELSE 0

---------------------------------------------------------------------------
\* negative orthant
OGrid(n) == [1..n -> (0 - OMax)..OMax]
OrthantCases == UNION {[kind : {"orthant"}, x : OGrid(n)] : n \in 1..3}
OProx(x) == [i \in DOMAIN x |-> Min0(x[i])]
InOrthant(y) == \A i \in DOMAIN y : y[i] <= 0
OrthantOK(c) ==
    LET x == c.x  y == OProx(x)  n == Len(x) IN
    /\ InOrthant(y)
    /\ OProx(y) = y
    /\ \A cc \in {g \in OGrid(n) : InOrthant(g)} : Dot([i \in 1..n |-> x[i] - y[i]], [i \in 1..n |-> cc[i] - y[i]]) <= 0
    /\ \A x2 \in OGrid(n) : Sq([i \in 1..n |-> y[i] - OProx(x2)[i]]) <= Sq([i \in 1..n |-> x[i] - x2[i]])

---------------------------------------------------------------------------
\* ball: Pythagorean inputs <<vector, norm>>
Pyth == {<<<<3>>, 3>>, <<<<0 - 5>>, 5>>, <<<<0>>, 0>>,
         <<<<3, 4>>, 5>>, <<<<0 - 5, 12>>, 13>>, <<<<8, 0 - 15>>, 17>>, <<<<0, 5>>, 5>>, <<<<0, 0>>, 0>>, <<<<0 - 4, 0 - 3>>, 5>>,
         <<<<1, 2, 2>>, 3>>, <<<<2, 0 - 3, 6>>, 7>>, <<<<4, 4, 0 - 7>>, 9>>, <<<<0, 0, 0 - 2>>, 2>>,
         <<<<1, 1, 1, 1>>, 2>>, <<<<2, 4, 5, 6>>, 9>>, <<<<0 - 1, 3, 5, 1>>, 6>>, <<<<0, 0, 3, 4>>, 5>>}
\* friction coefficient mu = mun / mud, normal force z (integer, may be <= 0)
BallCases == [kind : {"ball"}, x : Pyth, mun : {0, 1, 3}, mud : {1, 2}, z : {0 - 4, 0, 1, 2, 10, 40}]
\* radius rho = max(0, mu z) = rn / rd
RadNum(c) == IF c.mun * c.z > 0 THEN c.mun * c.z ELSE 0
RadDen(c) == c.mud
\* inside iff nrm <= rho iff nrm * rd <= rn
Inside(c) == c.x[2] * RadDen(c) <= RadNum(c)
\* result y = yn / yd (componentwise numerators, common denominator)
BallNum(c) == IF Inside(c) THEN [i \in DOMAIN c.x[1] |-> c.x[1][i]] ELSE [i \in DOMAIN c.x[1] |-> RadNum(c) * c.x[1][i]]
BallDen(c) == IF Inside(c) THEN 1 ELSE RadDen(c) * c.x[2]
\* lattice points of the ball used as test points c:  |c|^2 <= rho^2
TestPts(n) == [1..n -> {0 - 3, 0 - 1, 0, 1, 2, 5}]
BallOK(c) ==
    LET x == c.x[1]  n == Len(x)  yn == BallNum(c)  yd == BallDen(c)  rn == RadNum(c)  rd == RadDen(c) IN
    /\ yd > 0
    \* feasible: |y|^2 <= rho^2   <=>  |yn|^2 rd^2 <= rn^2 yd^2
    /\ Sq(yn) * rd * rd <= rn * rn * yd * yd
    \* outside the ball the projection lies on the boundary
    /\ ~Inside(c) => Sq(yn) * rd * rd = rn * rn * yd * yd
    \* projection inequality against every lattice point of the ball:  <x - y, c - y> <= 0, cleared by yd^2
    /\ \A cc \in {g \in TestPts(n) : Sq(g) * rd * rd <= rn * rn} :
          Dot([i \in 1..n |-> x[i] * yd - yn[i]], [i \in 1..n |-> cc[i] * yd - yn[i]]) <= 0
    \* idempotent: y is inside, so it is its own projection (|y| <= rho was shown above)
    /\ TRUE

---------------------------------------------------------------------------
\* Jacobians of the residual  y + radius a / |a|,  a = rho x - y,  outside the active set
\* a has integer norm na;  J_norm = (na^2 I - a a^T) / na^3 is the derivative of a -> a / |a|
JacArgs == {p \in Pyth : p[2] > 0 /\ Len(p[1]) >= 1}
JacCases == [kind : {"jac"}, a : JacArgs, rho : {1, 2}, mun : {1, 3}, mud : {1, 2}, z : {0 - 2, 1, 2, 10}]
JN(a, na) == [i \in DOMAIN a |-> [j \in DOMAIN a |-> (IF i = j THEN na * na ELSE 0) - a[i] * a[j]]]   \* times 1/na^3
MatVecN(M, v) == [i \in DOMAIN v |-> FoldSet(LAMBDA j, acc : M[i][j] * v[j] + acc, 0, DOMAIN v)]
\* tangent vectors of a (integer vectors orthogonal to a)
Tangents(a) == {t \in [DOMAIN a -> {0 - 4, 0 - 3, 0 - 2, 0 - 1, 0, 1, 2, 3, 4}] : Dot(t, a) = 0}
JacOK(c) ==
    LET a == c.a[1]  na == c.a[2]  M == JN(a, na) IN
    /\ MatVecN(M, a) = [i \in DOMAIN a |-> 0]                                   \* constant along rays
    /\ \A t \in Tangents(a) : MatVecN(M, t) = [i \in DOMAIN a |-> na * na * t[i]]   \* 1/|a| on the tangent space (times na^3)
    /\ \A i, j \in DOMAIN a : M[i][j] = M[j][i]

---------------------------------------------------------------------------
\* prox parameter: M = diag(m), W integer n x k;  r_i = alpha / sum_j W[j][i]^2 / m[j]  = alpha * L / sum_j W[j][i]^2 (L / m[j])
Lcm3 == 12
RparCases == [kind : {"rpar"}, m : {<<1, 2, 4>>, <<3, 3, 3>>, <<1, 6, 12>>}, W : {<<<<1, 0>>, <<0, 2>>, <<1, 1>>>>, <<<<2, 1>>, <<0 - 1, 3>>, <<0, 0>>>>,
                                                                                   <<<<1, 1>>, <<1, 0 - 1>>, <<2, 0>>>>, <<<<0, 1>>, <<0, 2>>, <<3, 0 - 2>>>>}]
RparDen(c, i) == FoldSet(LAMBDA j, acc : c.W[j][i] * c.W[j][i] * (Lcm3 \div c.m[j]) + acc, 0, 1..3)      \* r_i = alpha * Lcm3 / RparDen
RparOK(c) == \A i \in 1..2 : RparDen(c, i) > 0

---------------------------------------------------------------------------
Expected(c) ==
    CASE c.kind = "orthant" -> [y |-> OProx(c.x)]
      [] c.kind = "ball" -> [num |-> BallNum(c), den |-> BallDen(c), inside |-> Inside(c), radnum |-> RadNum(c), radden |-> RadDen(c)]
      [] c.kind = "jac" -> [jn |-> JN(c.a[1], c.a[2]), na |-> c.a[2], radnum |-> RadNum([mun |-> c.mun, z |-> c.z]), radden |-> c.mud]
      [] c.kind = "rpar" -> [den |-> [i \in 1..2 |-> RparDen(c, i)], lcm |-> Lcm3]

Init == /\ case \in OrthantCases \cup BallCases \cup JacCases \cup RparCases
        /\ expected = Expected(case)
Next == UNCHANGED vars
Spec == Init /\ [][Next]_vars

CaseOK == CASE case.kind = "orthant" -> OrthantOK(case)
            [] case.kind = "ball" -> BallOK(case)
            [] case.kind = "jac" -> JacOK(case)
            [] case.kind = "rpar" -> RparOK(case)
=============================================================================
