------------------------------ MODULE SolverRun ------------------------------
(***************************************************************************)
(* One run of a cardillo solver as a labelled transition system over the   *)
(* events the verification hooks record:                                   *)
(*                                                                         *)
(*   Begin          the solver is constructed for a system that contains   *)
(*                  the model parts Parts                                  *)
(*   Site(s, ok)    a nonlinear solve / fixed-point loop / integrator call *)
(*                  of the current step finished, converged or not         *)
(*   Warn(namesT)   a warning was emitted; namesT: its text contains the   *)
(*                  time of the last accepted step                         *)
(*   Accept         the current step is stored as a new row                *)
(*   End(how, rows) solve() returned a solution with `rows` rows, or raised *)
(*                                                                         *)
(* The enabling conditions ARE the intended failure policy (C21): a step   *)
(* in which a site failed may only be accepted when                        *)
(* continue_with_unconverged is on and a warning was emitted in that step; *)
(* a run in which a site failed may only return when either that holds for *)
(* every such step, or (option off) the faulty step was not stored and a   *)
(* warning naming the stop time was emitted; raising is always allowed.    *)
(* A solver constructed for a system with a part it does not treat must    *)
(* warn or raise before it returns.  The number of returned rows is the    *)
(* number of accepted steps plus the initial row (C20).                    *)
(*                                                                         *)
(* Sites and capabilities per solver are transcribed from the code         *)
(* (DESIGN.md, Appendix A).  Model checking explores every fault plan      *)
(* (which site fails at which step, up to MaxFaults) and checks the        *)
(* property NeverSilent on the policy; trace validation (TraceSolverRun)   *)
(* checks that every recorded run of the real solvers is a behaviour of    *)
(* this system.                                                            *)
(***************************************************************************)
EXTENDS Integers, Sequences, FiniteSets, TLC

CONSTANTS Solvers,    \* subset of {"Moreau", "BackwardEuler", "Rattle", "DualStormerVerlet", "Newton", "Riks", "ScipyIVP", "ScipyDAE"}
          PartSets,   \* "all": every subset of AllParts; "some": a few representative subsets
          MaxSteps,   \* the time grid has 1..MaxSteps steps (load steps for the static solver)
          MaxFaults   \* fault budget of a behaviour (model checking only)

VARIABLES cfg,          \* [solver, cwu, parts, nsteps]: chosen at construction, constant during the run
          accepted,     \* steps stored so far
          stepFault,    \* a site failed in the current (not yet accepted) step
          stepWarned,   \* a warning was emitted in the current step
          stepWarnedT,  \* ... and it named the time of the last accepted step
          everFault, nFaults,
          warnings,     \* number of warnings so far
          badRows,      \* rows stored although a site of their step failed
          unsupported,  \* the system has a part the solver does not treat and nobody has said so yet
          status,       \* "init" | "running" | "returned" | "raised"
          rows          \* rows of the returned solution

vars == <<cfg, accepted, stepFault, stepWarned, stepWarnedT, everFault, nFaults, warnings, badRows, unsupported, status, rows>>

AllParts == {"g", "gamma", "c", "tau", "N", "F", "S"}

\* "nonfinite" is not a hook: the harness reports it when a stored row of an implicit solver contains NaN/inf
\* although every solve of that step claimed convergence (a solve that produces NaN has not converged)
\* "unmet" is not a hook either: the harness wraps the helpers the solvers call (fsolve, the fixed-point helpers of the dual Stoermer-Verlet
\* scheme) and, when a helper returns normally and claims convergence, evaluates the helper's documented criterion at the returned point
\* once more; a point that misses it by more than a factor is a nonlinear solve / fixed-point loop that failed -- whatever the helper said
Sites(s) ==
    CASE s = "Moreau"            -> {"moreau.fp"}
      [] s = "BackwardEuler"     -> {"fsolve", "backward_euler.fp", "nonfinite", "unmet"}
      [] s = "Rattle"            -> {"fsolve", "rattle.fp1", "rattle.fp2", "nonfinite", "unmet"}
      [] s = "DualStormerVerlet" -> {"unmet"}
      [] s = "Newton"            -> {"fsolve", "nonfinite", "unmet"}
      [] s = "Riks"              -> {"fsolve", "unmet"}
      [] s = "ScipyIVP"          -> {"integrator"}
      [] s = "ScipyDAE"          -> {"integrator"}

\* which parts of the model a solver treats
Cap(s) ==
    CASE s \in {"Moreau", "BackwardEuler", "Rattle"} -> {"g", "gamma", "c", "tau", "N", "F", "S"}
      [] s = "DualStormerVerlet" -> {"g", "gamma", "c", "N", "F", "S"}
      [] s \in {"ScipyIVP", "ScipyDAE"} -> {"g", "gamma", "c", "tau", "S"}
      [] s = "Newton" -> {"g", "c", "S", "N"}
      [] s = "Riks" -> {"g", "c", "S"}       \* the arc-length solver has no contact forces in its equilibrium rows

\* dynamic solvers store the initial state as row 0 before the first step; the static Newton solver computes
\* its first row (load factor 0) like every other load step; the arc-length solver stores the initial state and then
\* one point per step (the number of steps is not known in advance: NSteps is its upper bound max_load_steps)
Row0(s) == IF s = "Newton" THEN 0 ELSE 1

\* the wrappers around adaptive SciPy integrators produce all rows in one call: no per-step events, the rows
\* of the result are whatever the integrator delivered up to the time it stopped
Batch(s) == s \in {"ScipyIVP", "ScipyDAE"}

Solver == cfg.solver
CWU == cfg.cwu
Parts == cfg.parts
NSteps == cfg.nsteps

PartChoices == IF PartSets = "all" THEN SUBSET AllParts
               ELSE {{}, {"g"}, {"g", "c", "tau"}, {"N"}, {"N", "F"}, {"g", "N", "F"}, {"tau"}, {"gamma"}}
Configs == [solver : Solvers, cwu : BOOLEAN, parts : PartChoices, nsteps : 1..MaxSteps]

InitRun(c) ==
        /\ cfg = c
        /\ accepted = 0 /\ stepFault = FALSE /\ stepWarned = FALSE /\ stepWarnedT = FALSE
        /\ everFault = FALSE /\ nFaults = 0 /\ warnings = 0 /\ badRows = 0
        /\ unsupported = FALSE /\ status = "init" /\ rows = 0

Init == \E c \in Configs : InitRun(c)

Begin ==
    /\ status = "init"
    /\ status' = "running"
    /\ unsupported' = ~(Parts \subseteq Cap(Solver))
    /\ UNCHANGED <<cfg, accepted, stepFault, stepWarned, stepWarnedT, everFault, nFaults, warnings, badRows, rows>>

Site(s, ok) ==
    /\ status = "running"
    /\ s \in Sites(Solver)
    /\ IF ok THEN UNCHANGED <<stepFault, everFault, nFaults>>
       ELSE /\ stepFault' = TRUE /\ everFault' = TRUE /\ nFaults' = nFaults + 1
    /\ UNCHANGED <<cfg, accepted, stepWarned, stepWarnedT, warnings, badRows, unsupported, status, rows>>

Warn(namesT) ==
    /\ status \in {"init", "running"}
    /\ warnings' = warnings + 1
    /\ stepWarned' = TRUE
    /\ stepWarnedT' = (stepWarnedT \/ namesT)
    /\ unsupported' = FALSE            \* a warning before the run ends tells the user about untreated parts
    /\ UNCHANGED <<cfg, accepted, stepFault, everFault, nFaults, badRows, status, rows>>

\* the policy: a faulty step is stored only under cwu, with a warning
CanAccept == status = "running" /\ accepted < NSteps /\ (stepFault => (CWU /\ stepWarned))

Accept ==
    /\ CanAccept
    /\ accepted' = accepted + 1
    /\ badRows' = IF stepFault THEN badRows + 1 ELSE badRows
    /\ stepFault' = FALSE /\ stepWarned' = FALSE /\ stepWarnedT' = FALSE
    /\ UNCHANGED <<cfg, everFault, nFaults, warnings, unsupported, status, rows>>

\* returning: one row per stored instant plus the initial one; untreated parts were announced; if the run
\* stops in a faulty step, the option is off and the stop time was announced
CanReturn(r) ==
    /\ status = "running"
    /\ Batch(Solver) \/ r = accepted + Row0(Solver)
    /\ ~unsupported
    /\ stepFault => (~CWU /\ stepWarnedT)

EndReturned(r) ==
    /\ CanReturn(r)
    /\ status' = "returned" /\ rows' = r
    /\ UNCHANGED <<cfg, accepted, stepFault, stepWarned, stepWarnedT, everFault, nFaults, warnings, badRows, unsupported>>

EndRaised ==
    /\ status \in {"init", "running"}
    /\ status' = "raised"
    /\ UNCHANGED <<cfg, accepted, stepFault, stepWarned, stepWarnedT, everFault, nFaults, warnings, badRows, unsupported, rows>>

Next ==
    \/ Begin
    \/ \E s \in Sites(Solver) : Site(s, TRUE)
    \/ \E s \in Sites(Solver) : nFaults < MaxFaults /\ Site(s, FALSE)
    \/ \E b \in BOOLEAN : Warn(b)
    \/ Accept
    \/ \E r \in 1..(MaxSteps + 1) : EndReturned(r)
    \/ EndRaised

Spec == Init /\ [][Next]_vars

---------------------------------------------------------------------------
\* C21: non-convergence is never silent
NeverSilent ==
    (status = "returned" /\ everFault) =>
        \/ (CWU /\ warnings > 0 /\ ~stepFault)
        \/ (~CWU /\ badRows = 0 /\ stepFault /\ stepWarnedT)

\* under cwu every stored faulty row was announced; without it no faulty row is ever stored
OnlyConvergedRowsWithoutCWU == (~CWU) => badRows = 0

\* C21, capability clause
NoSilentIgnore == status = "returned" => ~unsupported

\* C20: rows of the returned solution
RowsMatch == (status = "returned" /\ ~Batch(Solver)) => rows = accepted + Row0(Solver)

\* bound for model checking: warnings do not need to be counted beyond a few
Bounded == warnings <= 3
=============================================================================
