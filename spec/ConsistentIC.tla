---------------------------- MODULE ConsistentIC ----------------------------
(***************************************************************************)
(* Consistent initial conditions (C16).                                    *)
(*                                                                         *)
(* kind "decide": the accept/reject decision of System.assemble as a       *)
(* function of abstract facts about the initial state -- bilateral         *)
(* constraints satisfied on position / velocity level, and per contact the *)
(* sign of the gap and of the gap rate.  Rejected: any bilateral           *)
(* violation, a penetrating contact, a closed contact that approaches.     *)
(*                                                                         *)
(* kind "scene": the acceleration-level Signorini-Coulomb problem of a     *)
(* point mass m resting on the plane z = 0 (contact closed, zero gap rate) *)
(* under an applied force F = (Fx, Fy, Fz) with friction coefficient       *)
(* mu = mun/mud and tangential velocity v.  All data are integers and      *)
(* tangential vectors have integer norm, so the solution is rational:      *)
(*   lift-off   Fz > 0          la_N = 0,  a = F / m                       *)
(*   slide      Fz <= 0, v # 0  la_N = -Fz, la_F = -mu la_N v/|v|          *)
(*   stick      Fz <= 0, v = 0, |F_t| <= mu la_N   la_F = -F_t, a_t = 0    *)
(*   break-away Fz <= 0, v = 0, |F_t| >  mu la_N   la_F = -mu la_N F_t/|F_t|*)
(* TLC checks that this constructive solution satisfies the DECLARATIVE    *)
(* conditions of the property (equations of motion, Signorini and Coulomb  *)
(* on acceleration level) on the whole lattice -- the oracle is verified   *)
(* against the statement before the implementation is compared with it.    *)
(***************************************************************************)
EXTENDS Integers, Sequences, FiniteSets, TLC, Json, IOUtils

CONSTANTS Mode      \* "cases": enumerate the decision table and the lattice scenes;  "trace": validate recorded assemblies

VARIABLES case, expected, l, verdicts
vars == <<case, expected, l, verdicts>>

\* ---------------------------------------------------------------- decision table
Signs == {"neg", "zero", "pos"}
DecideCases == [kind : {"decide"}, gOK : BOOLEAN, gdotOK : BOOLEAN, gammaOK : BOOLEAN, gap : Signs, gapRate : Signs]
Rejected(c) ==
    \/ ~c.gOK \/ ~c.gdotOK \/ ~c.gammaOK            \* a bilateral constraint is violated on position or velocity level
    \/ c.gap = "neg"                                 \* penetration
    \/ (c.gap = "zero" /\ c.gapRate = "neg")         \* a closed contact that approaches
\* the decision only looks at what the property names (sanity: an open contact may approach, a closed one may separate)
DecideOK(c) ==
    /\ (c.gOK /\ c.gdotOK /\ c.gammaOK /\ c.gap = "pos") => ~Rejected(c)
    /\ (c.gOK /\ c.gdotOK /\ c.gammaOK /\ c.gap = "zero" /\ c.gapRate # "neg") => ~Rejected(c)

\* ---------------------------------------------------------------- lattice scenes
\* tangential vectors with integer norm: <<x, y, norm>>
Tang == {<<0, 0, 0>>, <<3, 4, 5>>, <<0 - 4, 3, 5>>, <<5, 0, 5>>, <<0, 0 - 2, 2>>, <<6, 8, 10>>, <<0 - 5, 0 - 12, 13>>, <<1, 0, 1>>}
\* ap: acceleration of the plane (a translating frame that is at rest at t0).  The contact law is stated in the acceleration RELATIVE to
\* the plane, so F below is the force in the plane's frame (applied force minus m ap) and the absolute acceleration is AccNum/AccDen + ap.
SceneCases == [kind : {"scene"}, m : {1, 2, 4}, Ft : Tang, Fz : {0 - 20, 0 - 10, 0 - 4, 0, 3}, mun : {0, 1, 2}, mud : {1, 2}, v : {<<0, 0, 0>>, <<3, 4, 5>>, <<0, 0 - 2, 2>>, <<0 - 5, 0 - 12, 13>>},
               ap : {<<0, 0, 0>>, <<1, 0 - 2, 3>>}]

\* rationals as <<num, den>>, den > 0
LaN(c) == IF c.Fz > 0 THEN 0 ELSE 0 - c.Fz                 \* integer
Regime(c) ==
    IF c.Fz > 0 THEN "liftoff"
    ELSE IF c.v[3] # 0 THEN "slide"
    ELSE IF c.Ft[3] * c.mud <= c.mun * LaN(c) THEN "stick"
    ELSE "breakaway"
\* friction force components as fractions with common denominator LaFDen
LaFDen(c) == CASE Regime(c) = "slide" -> c.mud * c.v[3] [] Regime(c) = "breakaway" -> c.mud * c.Ft[3] [] OTHER -> 1
LaFNum(c) ==
    CASE Regime(c) = "liftoff"   -> <<0, 0>>
      [] Regime(c) = "slide"     -> <<0 - c.mun * LaN(c) * c.v[1], 0 - c.mun * LaN(c) * c.v[2]>>
      [] Regime(c) = "stick"     -> <<0 - c.Ft[1], 0 - c.Ft[2]>>
      [] Regime(c) = "breakaway" -> <<0 - c.mun * LaN(c) * c.Ft[1], 0 - c.mun * LaN(c) * c.Ft[2]>>
\* acceleration = (F + la_N e_z + la_F) / m, components with denominator m * LaFDen
AccDen(c) == c.m * LaFDen(c)
AccNum(c) == <<c.Ft[1] * LaFDen(c) + LaFNum(c)[1], c.Ft[2] * LaFDen(c) + LaFNum(c)[2], (c.Fz + LaN(c)) * LaFDen(c)>>

Abs(x) == IF x < 0 THEN 0 - x ELSE x
SceneOK(c) ==
    LET laN == LaN(c)  fd == LaFDen(c)  fn == LaFNum(c)  an == AccNum(c)  ad == AccDen(c) IN
    /\ fd > 0 /\ ad > 0
    \* Signorini on acceleration level: la_N >= 0, gap acceleration >= 0, complementary
    /\ laN >= 0 /\ an[3] >= 0 /\ laN * an[3] = 0
    \* Coulomb disk: |la_F|^2 <= (mu la_N)^2     (cleared: |fn|^2 mud^2 <= mun^2 laN^2 fd^2)
    /\ (fn[1] * fn[1] + fn[2] * fn[2]) * c.mud * c.mud <= c.mun * c.mun * laN * laN * fd * fd
    \* sliding contact: friction opposes the slip with maximal magnitude
    /\ (c.v[3] # 0 /\ laN > 0) =>
          /\ (fn[1] * fn[1] + fn[2] * fn[2]) * c.mud * c.mud = c.mun * c.mun * laN * laN * fd * fd
          /\ fn[1] * c.v[2] = fn[2] * c.v[1] /\ fn[1] * c.v[1] + fn[2] * c.v[2] <= 0
    \* sticking contact (v = 0): either no tangential acceleration, or friction opposes it with maximal magnitude
    /\ (c.v[3] = 0 /\ laN > 0) =>
          \/ (an[1] = 0 /\ an[2] = 0)
          \/ /\ (fn[1] * fn[1] + fn[2] * fn[2]) * c.mud * c.mud = c.mun * c.mun * laN * laN * fd * fd
             /\ fn[1] * an[2] = fn[2] * an[1] /\ fn[1] * an[1] + fn[2] * an[2] <= 0

Expected(c) ==
    IF c.kind = "decide" THEN [rejected |-> Rejected(c)]
    ELSE [regime |-> Regime(c), laN |-> LaN(c), laFnum |-> LaFNum(c), laFden |-> LaFDen(c),
          accnum |-> <<AccNum(c)[1] + c.ap[1] * AccDen(c), AccNum(c)[2] + c.ap[2] * AccDen(c), AccNum(c)[3] + c.ap[3] * AccDen(c)>>, accden |-> AccDen(c)]

\* ---------------------------------------------------------------- recorded assemblies (trace mode)
\* a record holds booleans computed by the harness from the quantities System.assemble returned:
\*   eom        M u_dot0 = h + W_g la_g + W_gamma la_gamma + W_c la_c + W_tau la_tau + W_N la_N + W_F la_F
\*   gddot, gammadot   acceleration-level bilateral constraints
\*   signorini  per closed contact: la_N >= 0, gap acceleration >= 0, complementary; open contacts carry no force
\*   coulomb    friction force in the disk; opposing the slip (sliding) or the tangential acceleration (sticking)
RecordLaw(r) == r.eom /\ r.gddot /\ r.gammadot /\ r.signorini /\ r.coulomb
RecordClause(r) ==
    IF ~r.eom THEN "initial accelerations and forces do not satisfy the equations of motion"
    ELSE IF ~r.gddot THEN "acceleration-level position constraints violated"
    ELSE IF ~r.gammadot THEN "acceleration-level velocity constraints violated"
    ELSE IF ~r.signorini THEN "acceleration-level Signorini condition violated"
    ELSE "acceleration-level Coulomb condition violated"

TraceLog == IF Mode = "trace" THEN ndJsonDeserialize(IOEnv.TRACE_FILE) ELSE <<>>
Dummy == [kind |-> "decide", gOK |-> TRUE, gdotOK |-> TRUE, gammaOK |-> TRUE, gap |-> "pos", gapRate |-> "pos"]

Init == IF Mode = "cases"
          THEN /\ case \in DecideCases \cup SceneCases
               /\ expected = Expected(case) /\ l = 0 /\ verdicts = <<>>
          ELSE /\ case = Dummy /\ expected = Expected(Dummy) /\ l = 1 /\ verdicts = <<>>
Next ==
    /\ Mode = "trace"
    /\ \/ /\ l <= Len(TraceLog)
          /\ verdicts' = IF RecordLaw(TraceLog[l]) THEN verdicts ELSE Append(verdicts, [id |-> TraceLog[l].id, clause |-> RecordClause(TraceLog[l])])
          /\ l' = l + 1
       \/ /\ l = Len(TraceLog) + 1 /\ PrintT(<<"VERDICTS", verdicts>>) /\ l' = l + 1 /\ UNCHANGED verdicts
    /\ UNCHANGED <<case, expected>>
Spec == Init /\ [][Next]_vars

CaseOK == IF case.kind = "decide" THEN DecideOK(case) ELSE SceneOK(case)
=============================================================================
