------------------------------- MODULE Export -------------------------------
(***************************************************************************)
(* The VTK export protocol (C29).                                          *)
(*                                                                         *)
(* An Export object thins the solution once (every frac-th row, frac =     *)
(* max(1, rows div max(1, floor(duration * fps)))) and then serves any     *)
(* number of export calls.  A call for a contribution (or a list) with a   *)
(* requested name picks the first unused collection name among             *)
(* name, name1, name2, ..., writes one data file per exported frame and    *)
(* one collection file that lists (time, data file) per frame.             *)
(*                                                                         *)
(* State:  pvd   collection name -> sequence of [t, file]                   *)
(*         disk  data file name  -> [call, frame]  (what the file holds)    *)
(* Names are token sequences (<<"a">>, <<"a", "1">> is the string "a1"), so  *)
(* that a derived collection name (name followed by the counter) can       *)
(* coincide with a name that another call requests; a data file name is    *)
(* the collection name followed by "_" and the frame index.                *)
(* Properties (checked by TLC for every sequence of calls up to the bound, *)
(* including repeated names and calls that request a name another call     *)
(* has been moved to):                                                     *)
(*   Listed      every collection lists exactly one entry per exported     *)
(*               frame, in time order, each naming a file on disk          *)
(*   NoClobber   every listed file still holds the frame of the call that  *)
(*               produced the collection (later calls never overwrite it)  *)
(* Impl = "shared_data_names" is the design in which only the collection   *)
(* name is made unique: TLC must find the clobbering history.              *)
(*                                                                         *)
(* Mode "trace": the harness runs the real Export on real solutions, reads *)
(* the folder back and reports per call the collection name, its entries   *)
(* and, per listed file, whether its content equals the contribution's     *)
(* geometry evaluated from the solution row of that frame; TLC checks the  *)
(* protocol clauses on every call.                                         *)
(***************************************************************************)
EXTENDS Integers, Sequences, FiniteSets, TLC, Json, IOUtils

CONSTANTS Mode,        \* "model" | "trace"
          Impl,        \* "intended" | "shared_data_names"
          Names,       \* requested names, e.g. {"a", "b"}
          MaxCalls, NFrames

\* "a", "a1" (which is also the name the second export of "a" is moved to) and "b"
NamesDef == {<<"a">>, <<"a", "1">>, <<"b">>}

VARIABLES pvd, disk, ncalls, owner, l, verdicts
vars == <<pvd, disk, ncalls, owner, l, verdicts>>

\* ------------------------------------------------------------------ frame selection
Frac(rows, target) == LET tf == IF target < 1 THEN 1 ELSE target  q == rows \div tf IN IF q < 1 THEN 1 ELSE q
Selected(rows, target) == {i \in 0..(rows - 1) : i % Frac(rows, target) = 0}
SelectionOK == \A rows \in 1..12 : \A target \in 0..14 :
    LET s == Selected(rows, target) IN 0 \in s /\ \A i \in s : i < rows /\ (i + Frac(rows, target) < rows => i + Frac(rows, target) \in s)

\* ------------------------------------------------------------------ the protocol
Digit(k) == CASE k = 1 -> "1" [] k = 2 -> "2" [] k = 3 -> "3" [] k = 4 -> "4" [] OTHER -> "5"
Coll(n, k) == IF k = 0 THEN n ELSE Append(n, Digit(k))
Unique(n) == LET k == CHOOSE k \in 0..MaxCalls : Coll(n, k) \notin DOMAIN pvd /\ \A m \in 0..(k - 1) : Coll(n, m) \in DOMAIN pvd IN Coll(n, k)
DataName(coll, req, i) == IF Impl = "intended" THEN coll \o <<"_", i>> ELSE req \o <<"_", i>>
ExportCall(n) ==
    /\ Mode = "model" /\ ncalls < MaxCalls
    /\ LET coll == Unique(n)  c == ncalls + 1 IN
       /\ pvd' = [x \in DOMAIN pvd \cup {coll} |-> IF x = coll THEN [i \in 1..NFrames |-> [t |-> i - 1, file |-> DataName(coll, n, i - 1)]] ELSE pvd[x]]
       /\ disk' = [f \in DOMAIN disk \cup {DataName(coll, n, i) : i \in 0..(NFrames - 1)} |->
                      IF \E i \in 0..(NFrames - 1) : f = DataName(coll, n, i) THEN [call |-> c, frame |-> CHOOSE i \in 0..(NFrames - 1) : f = DataName(coll, n, i)] ELSE disk[f]]
       /\ owner' = [x \in DOMAIN owner \cup {coll} |-> IF x = coll THEN c ELSE owner[x]]
       /\ ncalls' = c
    /\ UNCHANGED <<l, verdicts>>

Listed == \A c \in DOMAIN pvd : Len(pvd[c]) = NFrames /\ \A i \in 1..NFrames : pvd[c][i].t = i - 1 /\ pvd[c][i].file \in DOMAIN disk
NoClobber == \A c \in DOMAIN pvd : \A i \in 1..NFrames : disk[pvd[c][i].file] = [call |-> owner[c], frame |-> i - 1]
ProtocolOK == Mode = "model" => (Listed /\ NoClobber)

\* ------------------------------------------------------------------ trace validation
\* a record describes one export call after ALL calls of the session were made:
\*   frames: the frame indices the Export object selected, rows: number of solution rows, target: floor(duration * fps),
\*   entries: [t6 (time in microseconds), exists, content_call, content_frame]  as found on disk
TraceLog == IF Mode = "trace" THEN ndJsonDeserialize(IOEnv.TRACE_FILE) ELSE <<>>
SeqToSet(q) == {q[i] : i \in DOMAIN q}
Verdict(r) ==
    LET sel == Selected(r.rows, r.target) IN
    IF r.pvd_missing THEN "no collection file was written for the call"
    ELSE IF Len(r.entries) # Cardinality(sel) THEN "the collection does not list one data file per exported frame"
    ELSE IF \E i \in 1..Len(r.entries) : ~r.entries[i].exists THEN "the collection lists a data file that does not exist"
    ELSE IF \E i \in 1..(Len(r.entries) - 1) : r.entries[i].t6 > r.entries[i + 1].t6 THEN "the collection is not in time order"
    ELSE IF \E i \in 1..Len(r.entries) : r.entries[i].t6 # r.rowtimes6[i] THEN "a listed time is not the time of the exported solution row"
    ELSE IF \E i \in 1..Len(r.entries) : r.entries[i].content_call # r.call THEN "a listed data file holds the data of another export call"
    ELSE IF \E i \in 1..Len(r.entries) : r.entries[i].content_frame # i - 1 THEN "a listed data file holds the geometry of another frame"
    ELSE IF \E i \in 1..Len(r.entries) : ~r.entries[i].content_ok THEN "a data file does not contain the contribution's geometry evaluated from the solution"
    ELSE ""

Init == pvd = <<>> /\ disk = <<>> /\ owner = <<>> /\ ncalls = 0 /\ l = 1 /\ verdicts = <<>>
Step ==
    /\ Mode = "trace"
    /\ \/ /\ l <= Len(TraceLog)
          /\ LET r == TraceLog[l]  v == Verdict(r) IN
             verdicts' = IF v = "" THEN verdicts ELSE Append(verdicts, [id |-> r.id, clause |-> v])
          /\ l' = l + 1
       \/ /\ l = Len(TraceLog) + 1
          /\ PrintT(<<"VERDICTS", verdicts>>)
          /\ l' = l + 1 /\ UNCHANGED verdicts
    /\ UNCHANGED <<pvd, disk, ncalls, owner>>
Next == (\E n \in Names : ExportCall(n)) \/ Step
Spec == Init /\ [][Next]_vars
=============================================================================
