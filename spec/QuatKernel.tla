----------------------------- MODULE QuatKernel -----------------------------
(***************************************************************************)
(* The quaternion rotation kernel of cardillo.math.rotations in exact      *)
(* integer arithmetic (C01).                                               *)
(*                                                                         *)
(* For a quaternion P = (p0, p) with s = |P|^2 the normalising rotation    *)
(* matrix is R(P) = N(P) / s with N(P) = s I + 2 (p0 p~ + p~ p~), whose    *)
(* entries are integer polynomials of degree 2.  Every clause of C01 is a  *)
(* polynomial identity after multiplication by a power of s; a polynomial  *)
(* identity of per-variable degree <= d that holds on a grid with d + 1    *)
(* points per variable holds for all reals, so checking the cleared        *)
(* identities on G^4, G = -GMax..GMax, decides them for every real P.      *)
(* Derivatives are defined WITHOUT calculus by exact difference stencils   *)
(* (a quadratic's central difference with step 1 is its derivative).       *)
(*                                                                         *)
(* Every state is one lattice quaternion together with the integer         *)
(* numerators that the implementation's routines must return at that       *)
(* point; the conformance harness evaluates the real routines there.       *)
(***************************************************************************)
EXTENDS QuatAlg

CONSTANTS GMax,       \* grid -GMax..GMax per component
          QMax,       \* grid of the second factor in the homomorphism identity
          Points      \* "grid": the whole grid;  "extra": a few large-ratio quaternions (values only)

VARIABLES P, expected
vars == <<P, expected>>

G == (0 - GMax)..GMax
Quats == {q \in [1..4 -> G] : \E i \in 1..4 : q[i] # 0}

---------------------------------------------------------------------------
WBasis == {<<1, 0, 0>>, <<0, 1, 0>>, <<0, 0, 1>>, <<2, 0 - 1, 3>>}
QGrid == {q \in [1..4 -> (0 - QMax)..QMax] : TRUE}

Ortho == MatMul(N(P), MatT(N(P))) = MatScale(S(P) * S(P), I3)
DetOne == Det(N(P)) = S(P) * S(P) * S(P)
ScaleInvariant == \A c \in {0 - 2, 2, 3} : N(QScale(c, P)) = MatScale(c * c, N(P)) /\ S(QScale(c, P)) = c * c * S(P)
Homomorphism == \A q \in QGrid : N(QProd(P, q)) = MatMul(N(P), N(q)) /\ S(QProd(P, q)) = S(P) * S(q)
TangentInverse == TnTi(P) = MatScale(S(P), I3)
KeepsLength == \A w \in WBasis : LET pd == Pdot2(P, w) IN P[1] * pd[1] + P[2] * pd[2] + P[3] * pd[3] + P[4] * pd[4] = 0
\* body-fixed spin of the rotation along Pdot is w:  N^T (sum_k dN_k 2 Pdot_k) = 2 s^2 skew(w)
BodySpin ==
    \A w \in WBasis :
        LET pd == Pdot2(P, w)
            Rd == MatAdd(MatAdd(MatScale(pd[1], dN(P, 1)), MatScale(pd[2], dN(P, 2))), MatAdd(MatScale(pd[3], dN(P, 3)), MatScale(pd[4], dN(P, 4))))
        IN MatMul(MatT(N(P)), Rd) = MatScale(2 * S(P) * S(P), Skew(w))
\* the second difference of N is constant: N is quadratic, so the stencil derivative is exact
DegreeTwo == \A k \in 1..4 :
    LET e == Unit(k) IN
    MatSub(MatAdd(N(QAdd(P, QScale(2, e))), N(P)), MatScale(2, N(QAdd(P, e))))
      = MatSub(MatAdd(N(QAdd(P, e)), N(QAdd(P, QScale(0 - 1, e)))), MatScale(2, N(P)))
\* scale invariance in differential form: the stated derivative annihilates P (sum_k dR/dP_k P_k = 0)
DerivativeAnnihilatesP ==
    MatAdd(MatAdd(MatScale(P[1], dRnum(P, 1)), MatScale(P[2], dRnum(P, 2))), MatAdd(MatScale(P[3], dRnum(P, 3)), MatScale(P[4], dRnum(P, 4))))
      = MatScale(0, I3)

QFixed == <<<<1, 2, 0 - 1, 3>>, <<0, 1, 1, 0 - 2>>, <<2, 0, 0 - 3, 1>>>>
WFixed == <<2, 0 - 1, 3>>

Expected(q) ==
    [s |-> S(q), N |-> N(q),
     Nun |-> MatSub(N(q), MatScale(S(q) - 1, I3)),        \* the non-normalising variant I + 2 (p0 p~ + p~ p~)
     dR |-> [k \in 1..4 |-> dRnum(q, k)],                  \* s^2 dR/dP_k
     dRun |-> [k \in 1..4 |-> MatSub(dN(q, k), MatScale(2 * q[k], I3))],   \* derivative of the non-normalising variant
     Tn |-> Tn(q), Ti |-> Ti(q),
     dT |-> [k \in 1..4 |-> dTnum(q, k)],                  \* s^2 dT/dP_k
     dTi |-> [k \in 1..4 |-> dTi(q, k)],                   \* 2 dTinv/dP_k
     dTun |-> [k \in 1..4 |-> dTn(q, k)],                  \* the non-normalising variant 2 Tn is linear in P: half its derivative
     qprod |-> [i \in 1..3 |-> QProd(q, QFixed[i])], qprodr |-> [i \in 1..3 |-> QProd(QFixed[i], q)],
     skew |-> Skew(V(q)), skewsq |-> MatMul(Skew(V(q)), Skew(V(q))), cross |-> Cross(V(q), WFixed),
     pdot2 |-> Pdot2(q, WFixed)]

\* large-ratio points: a branch on the magnitude of a component would have to hide from these as well
ExtraQuats == {<<1, 100, 0, 0>>, <<0, 1, 0 - 100, 7>>, <<100, 1, 1, 1>>, <<1, 0, 0, 0>>, <<0, 0, 0, 1>>, <<0 - 1, 0, 0, 0>>,
               <<3, 0 - 50, 20, 1>>, <<1, 1, 1, 1>>, <<0, 60, 0 - 11, 0>>, <<0 - 7, 0, 0, 90>>, <<1, 0 - 1, 1, 0 - 1>>, <<0, 3, 4, 0>>}

Init == P \in (IF Points = "grid" THEN Quats ELSE ExtraQuats) /\ expected = Expected(P)
Next == UNCHANGED vars
Spec == Init /\ [][Next]_vars
=============================================================================
