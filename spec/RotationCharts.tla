--------------------------- MODULE RotationCharts ---------------------------
(***************************************************************************)
(* Rotation charts (C02) on the exact lattice of rational rotations.       *)
(*                                                                         *)
(* Every integer quaternion P gives an exact rotation matrix R = N(P)/s,   *)
(* s = |P|^2, including exact half-turns (p0 = 0) and rotations within     *)
(* 2/|p| of a half-turn (p0 = +-1, |p| large).                             *)
(*                                                                         *)
(* Spurrier's algorithm, with the square root factored out, is integer     *)
(* arithmetic: the branch index maximises (R11, R22, R33, tr R), which in  *)
(* cleared form is an index m maximising (p1^2, p2^2, p3^2, p0^2) (ties:   *)
(* any maximiser, rounding decides); on branch m the algorithm computes    *)
(*   |quat_m| = sqrt(s R_mm / 2 + (s - s tr R) / 4) / sqrt(s) = |P_m|/sqrt(s) *)
(* and the other components as quotients of matrix entries by 4 quat_m.    *)
(* TLC checks for every lattice quaternion and every admissible branch     *)
(* that these formulas return sign(P_m) P / sqrt(s): a unit quaternion     *)
(* that reproduces R.  Every state carries the admissible outputs and the  *)
(* exact matrix; the conformance harness feeds the matrix to the real      *)
(* Spurrier, Log_SO3, Exp_SO3, Log_SE3, Exp_SE3 and compares.              *)
(***************************************************************************)
EXTENDS QuatAlg

CONSTANTS GMax,      \* grid -GMax..GMax
          Points     \* "grid" | "halfturn": exact and near half-turns with large components

VARIABLES P, expected
vars == <<P, expected>>

G == (0 - GMax)..GMax
Quats == {q \in [1..4 -> G] : \E i \in 1..4 : q[i] # 0}
\* exact half-turns and rotations close to a half-turn (angle = pi - 2 atan(p0/|p|))
Near == {<<0, 1, 0, 0>>, <<0, 3, 0 - 4, 12>>, <<0, 0, 0 - 7, 0>>, <<0, 60, 11, 0 - 5>>, <<0, 1, 1, 1>>, <<0, 0 - 2, 2, 1>>,
         <<1, 100, 0, 0>>, <<0 - 1, 0, 100, 0>>, <<1, 0 - 70, 70, 10>>, <<1, 57, 58, 59>>, <<0 - 1, 3, 90, 0 - 40>>, <<1, 0, 0, 0 - 100>>,
         <<1, 20, 0 - 20, 20>>, <<2, 99, 98, 0 - 97>>, <<0 - 1, 0 - 33, 0 - 33, 0 - 34>>, <<1, 10, 0, 0>>, <<1, 0, 9, 0 - 9>>}

Sq(x) == x * x
\* index convention of the implementation: branch i in 1..3 for the vector part, 4 for the scalar part; component of P: i + 1 resp. 1
Comp(q, m) == IF m = 4 THEN q[1] ELSE q[m + 1]
Maximisers(q) == {m \in 1..4 : \A k \in 1..4 : Sq(Comp(q, m)) >= Sq(Comp(q, k))}
Sgn(x) == IF x < 0 THEN 0 - 1 ELSE 1

\* Spurrier on branch m with everything multiplied by sqrt(s): returns the 4-vector sqrt(s) * quat as integers
\* (Nm = N(q): s R;  4 quat_m quat_x = R_ab -+ R_ba  =>  sqrt(s) quat_x = (N_ab -+ N_ba) / (4 |P_m|))
SpurrierScaled(q, m) ==
    LET Nm == N(q)  a == Comp(q, m)  aa == IF a < 0 THEN 0 - a ELSE a IN
    IF m = 4
    THEN <<aa, (Nm[3][2] - Nm[2][3]) \div (4 * aa), (Nm[1][3] - Nm[3][1]) \div (4 * aa), (Nm[2][1] - Nm[1][2]) \div (4 * aa)>>
    ELSE LET i == m  j == (i % 3) + 1  k == (j % 3) + 1
             q0 == (Nm[k][j] - Nm[j][k]) \div (4 * aa)
             qj == (Nm[j][i] + Nm[i][j]) \div (4 * aa)
             qk == (Nm[k][i] + Nm[i][k]) \div (4 * aa)
         IN [x \in 1..4 |-> IF x = 1 THEN q0 ELSE IF x = i + 1 THEN aa ELSE IF x = j + 1 THEN qj ELSE qk]
\* the radicand of the branch is the square of the chosen component:  s R_mm / 2 + (s - s tr R) / 4 = P_m^2  (times 4 to stay integral)
Radicand4(q, m) == LET Nm == N(q)  tr == Nm[1][1] + Nm[2][2] + Nm[3][3] IN
                   IF m = 4 THEN S(q) + tr ELSE 2 * Nm[m][m] + S(q) - tr

SpurrierOK ==
    \A m \in Maximisers(P) :
        /\ Comp(P, m) # 0
        /\ Radicand4(P, m) = 4 * Sq(Comp(P, m))
        /\ SpurrierScaled(P, m) = QScale(Sgn(Comp(P, m)), P)          \* +- P: a unit quaternion after division by sqrt(s) ...
        /\ N(SpurrierScaled(P, m)) = N(P)                               \* ... that reproduces the rotation
\* the divisions above are exact
DivisionsExact ==
    \A m \in Maximisers(P) : LET Nm == N(P)  aa == 4 * (IF Comp(P, m) < 0 THEN 0 - Comp(P, m) ELSE Comp(P, m)) IN
        IF m = 4 THEN (Nm[3][2] - Nm[2][3]) % aa = 0 /\ (Nm[1][3] - Nm[3][1]) % aa = 0 /\ (Nm[2][1] - Nm[1][2]) % aa = 0
        ELSE LET i == m  j == (i % 3) + 1  k == (j % 3) + 1 IN
             (Nm[k][j] - Nm[j][k]) % aa = 0 /\ (Nm[j][i] + Nm[i][j]) % aa = 0 /\ (Nm[k][i] + Nm[i][k]) % aa = 0

Expected(q) == [s |-> S(q), N |-> N(q), outs |-> {QScale(Sgn(Comp(q, m)), q) : m \in Maximisers(q)}, half |-> q[1] = 0]

Init == P \in (IF Points = "grid" THEN Quats ELSE Near) /\ expected = Expected(P)
Next == UNCHANGED vars
Spec == Init /\ [][Next]_vars
=============================================================================
