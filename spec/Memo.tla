-------------------------------- MODULE Memo --------------------------------
(***************************************************************************)
(* Memoised kinematic evaluations of cardillo as LRU memo tables.          *)
(*                                                                         *)
(* A table has a maximal size, a KEY PROJECTION (the call arguments that   *)
(* form the cache key), the arguments its value really READS, HIDDEN       *)
(* DEPENDENCIES (object state read by the function that is not an          *)
(* argument) and the memoised functions it calls itself on a miss (SUBS:   *)
(* they fill their own tables as a side effect).  Mutators change a hidden *)
(* dependency; in the intended design they invalidate the tables that      *)
(* depend on it, in the as-found design of the pinned tree they do not.    *)
(*                                                                         *)
(* Families (transcribed from the code):                                   *)
(*  rigid : RigidBody.A_IB, A_IB_q, r_OP, v_P, J_P      (maxsize 1 each)   *)
(*  s2s   : Sphere2Sphere.n, n_q1_q2, t1t2, t1t2_q1_q2  (maxsize 1 each);  *)
(*          t1t2* read reference_contact_basis, which step_callback and    *)
(*          (re)assembly change                                            *)
(*  mesh  : Mesh1D.eval_basis(xi, el)                   (maxsize MeshSize) *)
(*  rod   : CosseratRod._eval / _deval keyed on (qe, xi)(maxsize RodSize)  *)
(*                                                                         *)
(* Arguments are abstract: every argument ranges over 0..Pool-1.  The true *)
(* value of a call is abstracted to its "stamp": the read arguments plus   *)
(* the current versions of the hidden dependencies.  A stale hit is a hit  *)
(* whose stored stamp differs from the current true stamp.                 *)
(***************************************************************************)
EXTENDS Integers, Sequences, FiniteSets, TLC

CONSTANTS Family,    \* "rigid" | "s2s" | "s2sf" | "mesh" | "rod"
          Pool,      \* values per argument
          MaxOps,
          Impl,      \* "intended" | "as_found"
          MeshSize, RodSize

VARIABLES cache,     \* table name -> sequence of [key, stamp], least recently used first
          ver,       \* hidden dependency -> version
          nops,
          last       \* [op, f, args, hit, stale]

vars == <<cache, ver, nops, last>>

ArgNames == {"t", "q", "u", "b", "xi", "el"}
NoArg == 0 - 1

\* table definitions: name |-> [size, key, reads, deps, subs]
Tables ==
    CASE Family = "rigid" ->
           [A_IB   |-> [size |-> 1, key |-> {"t", "q"}, reads |-> {"q"}, deps |-> {}, subs |-> <<>>],
            A_IB_q |-> [size |-> 1, key |-> {"t", "q"}, reads |-> {"q"}, deps |-> {}, subs |-> <<>>],
            r_OP   |-> [size |-> 1, key |-> {"t", "q", "b"}, reads |-> {"q", "b"}, deps |-> {}, subs |-> <<"A_IB">>],
            v_P    |-> [size |-> 1, key |-> {"t", "q", "u", "b"}, reads |-> {"q", "u", "b"}, deps |-> {}, subs |-> <<"A_IB">>],
            J_P    |-> [size |-> 1, key |-> {"t", "q", "b"}, reads |-> {"q", "b"}, deps |-> {}, subs |-> <<"A_IB">>]]
      [] Family = "s2s" ->
           [n          |-> [size |-> 1, key |-> {"t", "q"}, reads |-> {"q"}, deps |-> {}, subs |-> <<>>],
            n_q1_q2    |-> [size |-> 1, key |-> {"t", "q"}, reads |-> {"q"}, deps |-> {}, subs |-> <<"n">>],
            t1t2       |-> [size |-> 1, key |-> {"t", "q"}, reads |-> {"q"}, deps |-> {"basis"}, subs |-> <<"n">>],
            t1t2_q1_q2 |-> [size |-> 1, key |-> {"t", "q"}, reads |-> {"q"}, deps |-> {"basis"},
                            subs |-> <<"n", "n_q1_q2", "t1t2">>]]
      [] Family = "s2sf" ->   \* Sphere2Sphere whose first subsystem is a time-driven Frame: everything reads t as well
           [n          |-> [size |-> 1, key |-> {"t", "q"}, reads |-> {"t", "q"}, deps |-> {}, subs |-> <<>>],
            n_q1_q2    |-> [size |-> 1, key |-> {"t", "q"}, reads |-> {"t", "q"}, deps |-> {}, subs |-> <<"n">>],
            t1t2       |-> [size |-> 1, key |-> {"t", "q"}, reads |-> {"t", "q"}, deps |-> {"basis"}, subs |-> <<"n">>],
            t1t2_q1_q2 |-> [size |-> 1, key |-> {"t", "q"}, reads |-> {"t", "q"}, deps |-> {"basis"},
                            subs |-> <<"n", "n_q1_q2", "t1t2">>]]
      [] Family = "mesh" ->
           [eval_basis |-> [size |-> MeshSize, key |-> {"xi", "el"}, reads |-> {"xi", "el"}, deps |-> {}, subs |-> <<>>]]
      [] Family = "rod" ->
           [eval  |-> [size |-> RodSize, key |-> {"q", "xi"}, reads |-> {"q", "xi"}, deps |-> {}, subs |-> <<>>],
            deval |-> [size |-> RodSize, key |-> {"q", "xi"}, reads |-> {"q", "xi"}, deps |-> {}, subs |-> <<>>]]

TableNames == DOMAIN Tables
Deps == UNION {Tables[f].deps : f \in TableNames}

\* arguments a call of f takes (union of key and reads); others are NoArg
ArgsOf(f) == Tables[f].key \cup Tables[f].reads
CallArgs(f) == {[x \in ArgNames |-> IF x \in ArgsOf(f) THEN b[x] ELSE NoArg] : b \in [ArgsOf(f) -> 0..(Pool-1)]}

KeyOf(f, a) == [x \in Tables[f].key |-> a[x]]
Stamp(f, a, v) == [args |-> [x \in Tables[f].reads |-> a[x]], deps |-> [d \in Tables[f].deps |-> v[d]]]

\* restriction of the caller's arguments to what the callee takes
SubArgs(g, a) == [x \in ArgNames |-> IF x \in ArgsOf(g) THEN a[x] ELSE NoArg]

Find(c, k) == {i \in 1..Len(c) : c[i].key = k}
Without(c, i) == [j \in 1..(Len(c) - 1) |-> IF j < i THEN c[j] ELSE c[j + 1]]

\* LRU lookup / insert in one table: returns the new table
Touch(c, k, st, size) ==
    IF Find(c, k) # {}
      THEN LET i == CHOOSE i \in Find(c, k) : TRUE IN Append(Without(c, i), c[i])      \* hit: move to the end
      ELSE LET c1 == Append(c, [key |-> k, stamp |-> st])
           IN IF Len(c1) > size THEN Tail(c1) ELSE c1                                    \* miss: insert, evict LRU

\* effect of calling f(a) on all tables: on a miss the sub-calls are made first (in order), then f is stored
RECURSIVE DoCall(_, _, _, _)
RECURSIVE DoSubs(_, _, _, _, _)
DoSubs(cc, f, a, v, i) ==
    IF i > Len(Tables[f].subs) THEN cc
    ELSE DoSubs(DoCall(cc, Tables[f].subs[i], SubArgs(Tables[f].subs[i], a), v), f, a, v, i + 1)
DoCall(cc, f, a, v) ==
    LET k == KeyOf(f, a) IN
    IF Find(cc[f], k) # {}
      THEN [cc EXCEPT ![f] = Touch(cc[f], k, Stamp(f, a, v), Tables[f].size)]
      ELSE LET c2 == DoSubs(cc, f, a, v, 1)
           IN [c2 EXCEPT ![f] = Touch(c2[f], k, Stamp(f, a, v), Tables[f].size)]

\* what the call returns: the stored stamp on a hit, the true stamp on a miss
Returned(cc, f, a, v) ==
    LET k == KeyOf(f, a) IN
    IF Find(cc[f], k) # {} THEN cc[f][CHOOSE i \in Find(cc[f], k) : TRUE].stamp ELSE Stamp(f, a, v)

Init == /\ cache = [f \in TableNames |-> <<>>]
        /\ ver = [d \in Deps |-> 0]
        /\ nops = 0
        /\ last = [op |-> "init"]

Call(f, a) ==
    /\ cache' = DoCall(cache, f, a, ver)
    /\ last' = [op |-> "call", f |-> f, args |-> a, hit |-> Find(cache[f], KeyOf(f, a)) # {},
                stale |-> Returned(cache, f, a, ver) # Stamp(f, a, ver)]
    /\ nops' = nops + 1
    /\ UNCHANGED ver

\* Sphere2Sphere.step_callback(t, q, u): evaluates n(t, q), then replaces the reference basis
StepCallback(a) ==
    /\ Family \in {"s2s", "s2sf"}
    /\ LET c1 == DoCall(cache, "n", SubArgs("n", a), ver)
       IN cache' = IF Impl = "intended"
                     THEN [c1 EXCEPT !["t1t2"] = <<>>, !["t1t2_q1_q2"] = <<>>]
                     ELSE c1
    /\ ver' = [ver EXCEPT !["basis"] = (@ + 1) % 3]
    /\ last' = [op |-> "step_callback", args |-> a]
    /\ nops' = nops + 1

\* (re)assembly recomputes the reference basis from the initial configuration (argument q = 0, t = 0)
Reassemble ==
    /\ Family \in {"s2s", "s2sf"}
    /\ LET a0 == [x \in ArgNames |-> IF x \in {"t", "q"} THEN 0 ELSE NoArg]
           c1 == DoCall(cache, "n", a0, ver)
       IN cache' = IF Impl = "intended"
                     THEN [c1 EXCEPT !["t1t2"] = <<>>, !["t1t2_q1_q2"] = <<>>]
                     ELSE c1
    /\ ver' = [ver EXCEPT !["basis"] = (@ + 1) % 3]
    /\ last' = [op |-> "reassemble"]
    /\ nops' = nops + 1

Next ==
    /\ nops < MaxOps
    /\ \/ \E f \in TableNames : \E a \in CallArgs(f) : Call(f, a)
       \/ Family \in {"s2s", "s2sf"} /\ \E a \in CallArgs("n") : StepCallback(a)
       \/ Family \in {"s2s", "s2sf"} /\ Reassemble

Spec == Init /\ [][Next]_vars

---------------------------------------------------------------------------
\* C26: a memoised evaluation returns what an unmemoised evaluation would return
NoStaleHit == last.op = "call" => ~last.stale

\* every stored entry is current (stronger, inductive form)
AllEntriesCurrent ==
    \A f \in TableNames : \A i \in 1..Len(cache[f]) :
        cache[f][i].stamp.deps = [d \in Tables[f].deps |-> ver[d]]

SizesRespected == \A f \in TableNames : Len(cache[f]) <= Tables[f].size

\* the key determines everything the value reads from the arguments (no argument outside the key is read)
KeyCoversReads == \A f \in TableNames : Tables[f].reads \subseteq Tables[f].key
=============================================================================
