-------------------------------- MODULE Mesh --------------------------------
(***************************************************************************)
(* Finite-element layer under the rods (C13), in exact integer / rational  *)
(* arithmetic.  Every state is one case; four kinds of cases:              *)
(*                                                                         *)
(*  "conn"   connectivity of a 1-D mesh with nel elements of degree p and  *)
(*           dim coordinates per node, continuous ("Lagrange") or          *)
(*           discontinuous ("Lagrange_Disc"): node a of element e is the   *)
(*           global node e*p + a (e*(p+1) + a), component i of node n is   *)
(*           the degree of freedom n + i*nnodes.                           *)
(*  "lookup" element containing a parameter xi for an integer knot         *)
(*           partition (all numbers doubled so that midpoints are integers)*)
(*  "basis"  Lagrange basis of degree p on an element [a, b] at a rational *)
(*           point: values and first derivatives as exact fractions        *)
(*  "quad"   exact integral of x^k over [a, b]                             *)
(***************************************************************************)
EXTENDS Integers, Sequences, FiniteSets, FiniteSetsExt, TLC

CONSTANTS MaxP, MaxNel, MaxQuadN

VARIABLES case
vars == <<case>>

---------------------------------------------------------------------------
\* connectivity
NNodes(p, nel, disc) == IF disc THEN (p + 1) * nel ELSE p * nel + 1
Node(p, e, a, disc) == IF disc THEN e * (p + 1) + a ELSE e * p + a            \* zero based
ElDOF(p, nel, dim, disc, e) ==
    [k \in 1..(dim * (p + 1)) |->
        LET i == (k - 1) \div (p + 1)   a == (k - 1) % (p + 1)
        IN Node(p, e, a, disc) + i * NNodes(p, nel, disc)]
NodalDOF(p, nel, dim, disc, n) == [i \in 1..dim |-> n + (i - 1) * NNodes(p, nel, disc)]
NodalDOFElement(p, dim, a) == [i \in 1..dim |-> a + (i - 1) * (p + 1)]

ConnCases == [kind : {"conn"}, p : 1..MaxP, nel : 1..MaxNel, dim : {3, 4, 7}, disc : BOOLEAN]

SetOf(s) == {s[k] : k \in DOMAIN s}

ConnOK(c) ==
    LET p == c.p  nel == c.nel  dim == c.dim  disc == c.disc
        nq == NNodes(p, nel, disc) * dim
        dofs(e) == SetOf(ElDOF(p, nel, dim, disc, e))
    IN /\ \A e \in 0..(nel - 1) : Cardinality(dofs(e)) = dim * (p + 1)
       \* every degree of freedom belongs to some element
       /\ UNION {dofs(e) : e \in 0..(nel - 1)} = 0..(nq - 1)
       \* neighbouring elements share exactly the degrees of freedom of their common node (none when discontinuous)
       /\ \A e \in 0..(nel - 2) :
            dofs(e) \cap dofs(e + 1) =
              IF disc THEN {} ELSE SetOf(NodalDOF(p, nel, dim, disc, Node(p, e, p, disc)))
       /\ \A e1, e2 \in 0..(nel - 1) : (e2 > e1 + 1) => dofs(e1) \cap dofs(e2) = {}
       \* element-local node selection composed with the element map is the global node selection
       /\ \A e \in 0..(nel - 1), a \in 0..p :
            [i \in 1..dim |-> ElDOF(p, nel, dim, disc, e)[NodalDOFElement(p, dim, a)[i] + 1]]
              = NodalDOF(p, nel, dim, disc, Node(p, e, a, disc))

---------------------------------------------------------------------------
\* element lookup: knots 0 = k_0 < k_1 < ... < k_nel (doubled integers), xi doubled integer in [0, k_nel]
Partitions == {<<0, 2, 4>>, <<0, 2, 8>>, <<0, 6, 8>>, <<0, 2, 4, 6>>, <<0, 2, 6, 12>>, <<0, 4, 6, 8, 12>>, <<0, 12>>, <<0, 2, 10, 12, 14, 20>>}
LookupCases == UNION {[kind : {"lookup"}, knots : {k}, xi : 0..k[Len(k)]] : k \in Partitions}
ElementOf(knots, xi) ==
    LET nel == Len(knots) - 1 IN
    IF xi = knots[nel + 1] THEN nel - 1
    ELSE CHOOSE e \in 0..(nel - 1) : knots[e + 1] <= xi /\ xi < knots[e + 2]
LookupOK(c) == LET e == ElementOf(c.knots, c.xi) IN c.knots[e + 1] <= c.xi /\ c.xi <= c.knots[e + 2]

---------------------------------------------------------------------------
\* Lagrange basis on [a, b] at xi = a + (b - a) r / s : values N_j / D and derivatives dN_j / (D (b - a) ... )
\* with nu = r / s the local coordinate and equally spaced nodes nu_m = m / p:
\*    L_j(nu) = prod_{m # j} (r p - m s) / (s (j - m))
ProdOver(S, f(_)) == FoldSet(LAMBDA x, acc : f(x) * acc, 1, S)
SumOver(S, f(_)) == FoldSet(LAMBDA x, acc : f(x) + acc, 0, S)
Fact(n) == ProdOver(1..n, LAMBDA x : x)
Binom(n, k) == Fact(n) \div (Fact(k) * Fact(n - k))
Sign(n) == IF n % 2 = 0 THEN 1 ELSE 0 - 1

\* L_j = NumL(j) * Sign(p - j) * Binom(p, j) / (s^p * p!)
NumL(p, r, s, j) == ProdOver((0..p) \ {j}, LAMBDA m : r * p - m * s)
DenCommon(p, s) == ProdOver(1..p, LAMBDA x : s) * Fact(p)
ValNum(p, r, s, j) == NumL(p, r, s, j) * Sign(p - j) * Binom(p, j)
\* dL_j/dnu = sum_{k # j} p/(j-k) prod_{m # j,k} (r p - m s)/(s (j - m))
\*          = [ sum_{k # j} p * s * prod_{m # j, k}(r p - m s) ] * Sign(p - j) * Binom(p, j) / (s^p p!)
DerNum(p, r, s, j) ==
    SumOver((0..p) \ {j}, LAMBDA k : p * s * ProdOver((0..p) \ {j, k}, LAMBDA m : r * p - m * s)) * Sign(p - j) * Binom(p, j)

BasisCases == [kind : {"basis"}, p : 1..MaxP, a : {0, 1, 0 - 2}, len : {1, 2, 3}, r : 0..6, s : {1, 2, 3, 5, 6}]
BasisWellFormed(c) == c.r <= c.s
BasisOK(c) ==
    LET p == c.p  r == c.r  s == c.s IN
    \* partition of unity and zero-sum derivatives
    /\ SumOver(0..p, LAMBDA j : ValNum(p, r, s, j)) = DenCommon(p, s)
    /\ SumOver(0..p, LAMBDA j : DerNum(p, r, s, j)) = 0
    \* Kronecker property at the nodes nu = k / p
    /\ \A k \in 0..p : (r * p = k * s) => \A j \in 0..p : ValNum(p, r, s, j) = (IF j = k THEN DenCommon(p, s) ELSE 0)

---------------------------------------------------------------------------
\* exact integrals of monomials: int_a^b x^k dx = (b^(k+1) - a^(k+1)) / (k + 1)
Pow(x, n) == ProdOver(1..n, LAMBDA i : x)
QuadCases == [kind : {"quad"}, rule : {"gauss", "lobatto"}, n : 1..MaxQuadN, k : 0..(2 * MaxQuadN - 1), a : {0 - 1, 0, 1, 0 - 3}, len : {1, 2, 3}]
QuadWellFormed(c) == IF c.rule = "gauss" THEN c.k <= 2 * c.n - 1 ELSE (c.n >= 2 /\ c.k <= 2 * c.n - 3)
IntNum(c) == Pow(c.a + c.len, c.k + 1) - Pow(c.a, c.k + 1)
IntDen(c) == c.k + 1
\* the exact value lies between the bounds len * min|x|^k .. len * max|x|^k (sanity of the oracle itself)
QuadOK(c) == (c.k % 2 = 0) => IntNum(c) > 0

---------------------------------------------------------------------------
Expected(c) ==
    CASE c.kind = "conn" ->
           [nnodes |-> NNodes(c.p, c.nel, c.disc),
            elDOF |-> [e \in 1..c.nel |-> ElDOF(c.p, c.nel, c.dim, c.disc, e - 1)],
            nodalDOF |-> [n \in 1..NNodes(c.p, c.nel, c.disc) |-> NodalDOF(c.p, c.nel, c.dim, c.disc, n - 1)],
            nodalDOF_element |-> [a \in 1..(c.p + 1) |-> NodalDOFElement(c.p, c.dim, a - 1)]]
      [] c.kind = "lookup" -> [el |-> ElementOf(c.knots, c.xi)]
      [] c.kind = "basis" ->
           [den |-> DenCommon(c.p, c.s),
            val |-> [j \in 1..(c.p + 1) |-> ValNum(c.p, c.r, c.s, j - 1)],
            der |-> [j \in 1..(c.p + 1) |-> DerNum(c.p, c.r, c.s, j - 1)]]
      [] c.kind = "quad" -> [num |-> IntNum(c), den |-> IntDen(c)]

VARIABLE expected
Init == /\ case \in ConnCases \cup LookupCases \cup {c \in BasisCases : BasisWellFormed(c)} \cup {c \in QuadCases : QuadWellFormed(c)}
        /\ expected = Expected(case)
Next == UNCHANGED <<case, expected>>
Spec == Init /\ [][Next]_<<case, expected>>

CaseOK == CASE case.kind = "conn" -> ConnOK(case)
            [] case.kind = "lookup" -> LookupOK(case)
            [] case.kind = "basis" -> BasisOK(case)
            [] case.kind = "quad" -> QuadOK(case)
=============================================================================
