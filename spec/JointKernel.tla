----------------------------- MODULE JointKernel -----------------------------
(***************************************************************************)
(* The kinematic hierarchy of the bilateral joints (C05) in exact integer  *)
(* arithmetic.                                                             *)
(*                                                                         *)
(* A joint sees its two subsystems only through the joint points and the   *)
(* joint bases                                                             *)
(*      X = [r1, r2, E1, E2]        (E_i: 3x3, columns = joint axes)       *)
(* and their motion                                                        *)
(*      U = [v1, v2, O1, O2]        velocities of the joint points and     *)
(*                                  angular velocities (inertial basis)    *)
(*      A = [a1, a2, Y1, Y2]        accelerations, angular accelerations   *)
(* with the flow   r_i' = v_i,  E_i' = skew(O_i) E_i,  v_i' = a_i,         *)
(* O_i' = Y_i.  The position-level constraint G(j, X) of every joint type  *)
(* is a polynomial of total degree <= 2 in X:                              *)
(*      full translation      r2 - r1                     (3 components)   *)
(*      projected translation (r2 - r1) . E1[:, ax]                         *)
(*      rotation pair (a, b)  E1[:, a] . E2[:, b]                          *)
(*      fixed distance        |r2 - r1|^2 - d2                             *)
(* The velocity and acceleration levels and every partial derivative are   *)
(* DEFINED here without calculus, as exact central-difference stencils of  *)
(* G along the flow (a polynomial of degree <= 2 along a line is           *)
(* differentiated exactly by the 2-point stencil, degree <= 4 by the       *)
(* 5-point stencil).  Mode "identities": TLC checks on an integer lattice  *)
(* that these definitions agree with the textbook closed forms, that the   *)
(* degree bounds hold and that the velocity level is linear in U.          *)
(* Mode "trace": every record carries X, U, A and the derivative           *)
(* directions obtained from the subsystems' own kinematics at a lattice    *)
(* state (all scaled to integers by the harness) together with what the    *)
(* joint's routines returned; TLC recomputes every level from the kernel   *)
(* and names the first routine that differs.                               *)
(***************************************************************************)
EXTENDS QuatAlg, Json, IOUtils

CONSTANTS Mode,     \* "identities" | "trace"
          Thin      \* TRUE: a thinner lattice for the identities (quick tier)

VAdd(a, b) == <<a[1] + b[1], a[2] + b[2], a[3] + b[3]>>
VSub(a, b) == <<a[1] - b[1], a[2] - b[2], a[3] - b[3]>>
VScale(c, a) == <<c * a[1], c * a[2], c * a[3]>>
Col(E, j) == <<E[1][j], E[2][j], E[3][j]>>
Z3 == <<0, 0, 0>>
ZM == <<Z3, Z3, Z3>>

\* ------------------------------------------------------------------ state algebra
XAdd(X, c, D) == [r1 |-> VAdd(X.r1, VScale(c, D.r1)), r2 |-> VAdd(X.r2, VScale(c, D.r2)),
                  E1 |-> MatAdd(X.E1, MatScale(c, D.E1)), E2 |-> MatAdd(X.E2, MatScale(c, D.E2))]
VVAdd(U, c, D) == [v1 |-> VAdd(U.v1, VScale(c, D.v1)), v2 |-> VAdd(U.v2, VScale(c, D.v2)),
                   O1 |-> VAdd(U.O1, VScale(c, D.O1)), O2 |-> VAdd(U.O2, VScale(c, D.O2))]
\* the flow of X under U
Xdot(X, U) == [r1 |-> U.v1, r2 |-> U.v2, E1 |-> MatMul(Skew(U.O1), X.E1), E2 |-> MatMul(Skew(U.O2), X.E2)]
\* the flow of U under A (same record shape as U)
AsV(A) == [v1 |-> A.a1, v2 |-> A.a2, O1 |-> A.Y1, O2 |-> A.Y2]
ZeroV == [v1 |-> Z3, v2 |-> Z3, O1 |-> Z3, O2 |-> Z3]

\* ------------------------------------------------------------------ position level
\* j = [full : BOOLEAN, axes : Seq(1..3), pairs : Seq(<<a, b>>), fd : BOOLEAN, d2 : Int]
NG(j) == (IF j.fd THEN 1 ELSE 0) + (IF j.full THEN 3 ELSE 0) + Len(j.axes) + Len(j.pairs)
G(j, X) ==
    LET r12 == VSub(X.r2, X.r1)
        fdp == IF j.fd THEN <<Dot3(r12, r12) - j.d2>> ELSE <<>>
        tr == IF j.full THEN r12 ELSE <<>>
        pr == [i \in 1..Len(j.axes) |-> Dot3(r12, Col(X.E1, j.axes[i]))]
        ro == [i \in 1..Len(j.pairs) |-> Dot3(Col(X.E1, j.pairs[i][1]), Col(X.E2, j.pairs[i][2]))]
    IN fdp \o tr \o pr \o ro

\* ------------------------------------------------------------------ derivatives by exact stencils
Half(a, b) == [i \in 1..Len(a) |-> (a[i] - b[i]) \div 2]
\* directional derivative of G at X along D (G has degree <= 2 along any line)
DG(j, X, D) == Half(G(j, XAdd(X, 1, D)), G(j, XAdd(X, 0 - 1, D)))
\* velocity level: rate of G along the flow
GDot(j, X, U) == DG(j, X, Xdot(X, U))
\* acceleration level: rate of GDot along the flow of (X, U); tau -> GDot(X + tau X', U + tau U') has degree <= 4
GDotAt(j, X, U, A, tau) == GDot(j, XAdd(X, tau, Xdot(X, U)), VVAdd(U, tau, AsV(A)))
GDDot(j, X, U, A) ==
    LET p1 == GDotAt(j, X, U, A, 1)  m1 == GDotAt(j, X, U, A, 0 - 1)
        p2 == GDotAt(j, X, U, A, 2)  m2 == GDotAt(j, X, U, A, 0 - 2)
    IN [i \in 1..NG(j) |-> (8 * (p1[i] - m1[i]) - (p2[i] - m2[i])) \div 12]
\* partial derivative of the velocity level along a direction (dX, dV) of (X, U): GDot is quadratic in X and linear in U
DGDot(j, X, U, dX, dV) ==
    LET a == Half(GDot(j, XAdd(X, 1, dX), U), GDot(j, XAdd(X, 0 - 1, dX), U))
        b == GDot(j, X, dV)
    IN [i \in 1..NG(j) |-> a[i] + b[i]]
\* generalized force direction of the velocity direction dV (one row of W^T): GDot is linear in U
WRow(j, X, dV) == GDot(j, X, dV)
\* derivative of (W la) . e_j along dX, where dV = velocity direction of u_j and ddV its derivative along dX
Dot(a, b) == IF Len(a) = 0 THEN 0 ELSE LET f[i \in 0..Len(a)] == IF i = 0 THEN 0 ELSE f[i - 1] + a[i] * b[i] IN f[Len(a)]
DWla(j, X, dV, dX, ddV, la) == Dot(DGDot(j, X, dV, dX, ddV), la)

\* ------------------------------------------------------------------ mode "identities"
VARIABLES case, l, verdicts
vars == <<case, l, verdicts>>

RSet == {<<0, 0, 0>>, <<1, 0 - 2, 3>>, <<2, 1, 0 - 1>>}
VSet == {<<0, 0, 0>>, <<1, 0 - 1, 2>>, <<0 - 2, 0, 1>>}
\* joint bases need not be orthonormal for the identities (the flow E' = skew(O) E is all that is used)
ESet == {I3, <<<<0, 0 - 1, 0>>, <<1, 0, 0>>, <<0, 0, 1>>>>, <<<<1, 2, 0>>, <<0 - 1, 1, 1>>, <<0, 3, 0 - 2>>>>}
JSet == {[full |-> TRUE, axes |-> <<>>, pairs |-> <<>>, fd |-> FALSE, d2 |-> 0],
         [full |-> TRUE, axes |-> <<>>, pairs |-> <<<<2, 3>>, <<3, 1>>, <<1, 2>>>>, fd |-> FALSE, d2 |-> 0],
         [full |-> TRUE, axes |-> <<>>, pairs |-> <<<<3, 1>>, <<3, 2>>>>, fd |-> FALSE, d2 |-> 0],
         [full |-> FALSE, axes |-> <<2, 3>>, pairs |-> <<<<1, 2>>, <<2, 3>>, <<3, 1>>>>, fd |-> FALSE, d2 |-> 0],
         [full |-> FALSE, axes |-> <<1, 3>>, pairs |-> <<<<2, 1>>, <<2, 3>>>>, fd |-> FALSE, d2 |-> 0],
         [full |-> FALSE, axes |-> <<3>>, pairs |-> <<<<3, 1>>, <<3, 2>>>>, fd |-> FALSE, d2 |-> 0],
         [full |-> FALSE, axes |-> <<>>, pairs |-> <<>>, fd |-> TRUE, d2 |-> 5]}
One == {<<1, 0 - 1, 2>>}
IdCases == [j : JSet, r2 : RSet, E1 : ESet, E2 : ESet, v1 : IF Thin THEN One ELSE VSet \ {Z3}, O1 : VSet, O2 : VSet \ {Z3},
            a2 : IF Thin THEN One ELSE VSet \ {Z3}, Y1 : IF Thin THEN {<<0 - 2, 0, 1>>} ELSE VSet \ {Z3}]
XOf(c) == [r1 |-> <<1, 1, 0 - 1>>, r2 |-> c.r2, E1 |-> c.E1, E2 |-> c.E2]
VOf(c) == [v1 |-> c.v1, v2 |-> <<0, 2, 1>>, O1 |-> c.O1, O2 |-> c.O2]
AOf(c) == [a1 |-> <<1, 0, 0 - 1>>, a2 |-> c.a2, Y1 |-> c.Y1, Y2 |-> <<0, 1, 1>>]

\* textbook closed forms
ClosedGDot(j, X, U) ==
    LET r12 == VSub(X.r2, X.r1)  v12 == VSub(U.v2, U.v1)  O21 == VSub(U.O1, U.O2)
        fdp == IF j.fd THEN <<2 * Dot3(r12, v12)>> ELSE <<>>
        tr == IF j.full THEN v12 ELSE <<>>
        pr == [i \in 1..Len(j.axes) |-> LET e == Col(X.E1, j.axes[i]) IN Dot3(e, v12) + Dot3(Cross(e, r12), U.O1)]
        ro == [i \in 1..Len(j.pairs) |-> Dot3(Cross(Col(X.E1, j.pairs[i][1]), Col(X.E2, j.pairs[i][2])), O21)]
    IN fdp \o tr \o pr \o ro
ClosedGDDot(j, X, U, A) ==
    LET r12 == VSub(X.r2, X.r1)  v12 == VSub(U.v2, U.v1)  a12 == VSub(A.a2, A.a1)
        O21 == VSub(U.O1, U.O2)  Y21 == VSub(A.Y1, A.Y2)
        fdp == IF j.fd THEN <<2 * Dot3(v12, v12) + 2 * Dot3(r12, a12)>> ELSE <<>>
        tr == IF j.full THEN a12 ELSE <<>>
        pr == [i \in 1..Len(j.axes) |->
                 LET e == Col(X.E1, j.axes[i])  ed == Cross(U.O1, e) IN
                 Dot3(e, a12) + Dot3(v12, ed) + Dot3(Cross(e, r12), A.Y1) + Dot3(Cross(e, v12), U.O1) + Dot3(Cross(ed, r12), U.O1)]
        ro == [i \in 1..Len(j.pairs) |->
                 LET ea == Col(X.E1, j.pairs[i][1])  eb == Col(X.E2, j.pairs[i][2]) IN
                 Dot3(VAdd(Cross(Cross(U.O1, ea), eb), Cross(ea, Cross(U.O2, eb))), O21) + Dot3(Cross(ea, eb), Y21)]
    IN fdp \o tr \o pr \o ro

DotIsClosedForm(c) == GDot(c.j, XOf(c), VOf(c)) = ClosedGDot(c.j, XOf(c), VOf(c))
DDotIsClosedForm(c) == GDDot(c.j, XOf(c), VOf(c), AOf(c)) = ClosedGDDot(c.j, XOf(c), VOf(c), AOf(c))
\* degree bound of the position level: the step-2 stencil gives the same derivative
DegreeTwo(c) == LET X == XOf(c)  D == Xdot(XOf(c), VOf(c)) IN
    [i \in 1..NG(c.j) |-> G(c.j, XAdd(X, 2, D))[i] - G(c.j, XAdd(X, 0 - 2, D))[i]] = [i \in 1..NG(c.j) |-> 4 * DG(c.j, X, D)[i]]
\* the velocity level is linear in U (so W = (dGDot/du)^T is obtained one direction at a time)
LinearInV(c) == LET X == XOf(c)  a == GDot(c.j, X, VOf(c))  b == GDot(c.j, X, AsV(AOf(c)))
                    s == GDot(c.j, X, VVAdd(VOf(c), 1, AsV(AOf(c)))) IN
                s = [i \in 1..NG(c.j) |-> a[i] + b[i]]
\* the acceleration level at zero accelerations plus the velocity level of the accelerations (g_ddot = g_dot_q q_dot + g_dot_u u_dot)
SplitsInA(c) == LET X == XOf(c)  U == VOf(c)  A == AOf(c)
                    z == GDDot(c.j, X, U, [a1 |-> Z3, a2 |-> Z3, Y1 |-> Z3, Y2 |-> Z3])  w == GDot(c.j, X, AsV(A)) IN
                GDDot(c.j, X, U, A) = [i \in 1..NG(c.j) |-> z[i] + w[i]]
\* a change of the unit of length by the factor k (positions, velocities and accelerations of the joint points times k, bases and spins as they
\* are, the squared reference distance times k^2) multiplies every component of every level by a power of k that depends on the kind of the
\* component only: fixed distance 2, translations (full or projected) 1, rotation pairs 0.  No length is "small enough to be neglected".
UnitPower(j) == (IF j.fd THEN <<2>> ELSE <<>>) \o (IF j.full THEN <<1, 1, 1>> ELSE <<>>) \o [i \in 1..Len(j.axes) |-> 1] \o [i \in 1..Len(j.pairs) |-> 0]
KPow(k, p) == IF p = 0 THEN 1 ELSE IF p = 1 THEN k ELSE k * k
ScaleJ(j, k) == [j EXCEPT !.d2 = k * k * j.d2]
ScaleX(X, k) == [X EXCEPT !.r1 = VScale(k, X.r1), !.r2 = VScale(k, X.r2)]
ScaleV(U, k) == [U EXCEPT !.v1 = VScale(k, U.v1), !.v2 = VScale(k, U.v2)]
ScaleA(A, k) == [A EXCEPT !.a1 = VScale(k, A.a1), !.a2 = VScale(k, A.a2)]
Homogeneous(c) ==
    LET X == XOf(c)  U == VOf(c)  A == AOf(c)  p == UnitPower(c.j) IN
    \A k \in {2, 3} :
        /\ G(ScaleJ(c.j, k), ScaleX(X, k)) = [i \in 1..NG(c.j) |-> KPow(k, p[i]) * G(c.j, X)[i]]
        /\ GDot(ScaleJ(c.j, k), ScaleX(X, k), ScaleV(U, k)) = [i \in 1..NG(c.j) |-> KPow(k, p[i]) * GDot(c.j, X, U)[i]]
        /\ GDDot(ScaleJ(c.j, k), ScaleX(X, k), ScaleV(U, k), ScaleA(A, k)) = [i \in 1..NG(c.j) |-> KPow(k, p[i]) * GDDot(c.j, X, U, A)[i]]
IdentitiesOK == Mode = "identities" => (DotIsClosedForm(case) /\ DDotIsClosedForm(case) /\ DegreeTwo(case) /\ LinearInV(case) /\ SplitsInA(case) /\ Homogeneous(case))

\* ------------------------------------------------------------------ mode "trace"
TraceLog == IF Mode = "trace" THEN ndJsonDeserialize(IOEnv.TRACE_FILE) ELSE <<>>

\* first differing routine of a record, or "" (records are produced by harness/vf/checks/c05.py)
FirstBad(ss) == IF ss = {} THEN "" ELSE CHOOSE x \in ss : TRUE
Verdict(r) ==
    LET j == r.j  X == r.X  U == r.U  A == r.A
        qbad == {k \in 1..Len(r.qdirs) : r.qdirs[k].gq # DG(j, X, r.qdirs[k].dX)}
        qdbad == {k \in 1..Len(r.qdirs) : r.qdirs[k].gdotq # DGDot(j, X, U, r.qdirs[k].dX, r.qdirs[k].dV)}
        ubad == {k \in 1..Len(r.udirs) : r.udirs[k].w # WRow(j, X, r.udirs[k].dV) \/ r.udirs[k].gdotu # WRow(j, X, r.udirs[k].dV)}
        wbad == {k \in 1..Len(r.wla) : r.wla[k].val # DWla(j, X, r.udirs[r.wla[k].j].dV, r.qdirs[r.wla[k].k].dX, r.wla[k].ddV, r.la)}
    IN IF Len(r.g) # NG(j) THEN "g has the wrong number of components"
       ELSE IF r.g # G(j, X) THEN "g is not the joint's position-level constraint"
       ELSE IF r.gdot # GDot(j, X, U) THEN "g_dot is not the time derivative of g"
       ELSE IF r.ddot /\ r.gddot # GDDot(j, X, U, A) THEN "g_ddot is not the time derivative of g_dot"
       ELSE IF ubad # {} THEN "W_g / g_dot_u is not the transposed u-derivative of g_dot"
       ELSE IF qbad # {} THEN "g_q is not the q-derivative of g"
       ELSE IF qdbad # {} THEN "g_dot_q is not the q-derivative of g_dot"
       ELSE IF wbad # {} THEN "Wla_g_q is not the q-derivative of W_g la_g"
       ELSE ""

Init == IF Mode = "identities" THEN case \in IdCases /\ l = 0 /\ verdicts = <<>>
        ELSE case = <<>> /\ l = 1 /\ verdicts = <<>>

Step ==
    /\ Mode = "trace"
    /\ \/ /\ l <= Len(TraceLog)
          /\ LET r == TraceLog[l]  v == Verdict(r) IN
             verdicts' = IF v = "" THEN verdicts ELSE Append(verdicts, [id |-> r.id, clause |-> v])
          /\ l' = l + 1
       \/ /\ l = Len(TraceLog) + 1
          /\ PrintT(<<"VERDICTS", verdicts>>)
          /\ l' = l + 1 /\ UNCHANGED verdicts
    /\ UNCHANGED case

Next == Step
Spec == Init /\ [][Next]_vars
=============================================================================
