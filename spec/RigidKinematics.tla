--------------------------- MODULE RigidKinematics ---------------------------
(***************************************************************************)
(* Kinematics of a rigid body q = (r, P), u = (v, w) with w the angular    *)
(* velocity in the body-fixed basis, of a point mass and of a frame with   *)
(* prescribed motion, in exact integer arithmetic (C04).                   *)
(*                                                                         *)
(* With s = |P|^2 and N = N(P) (QuatAlg) a body point with body-fixed      *)
(* offset b has                                                            *)
(*    position       r + N b / s                                           *)
(*    velocity       v + N (w x b) / s                                     *)
(*    acceleration   a + N (psi x b + w x (w x b)) / s      (u_dot=(a,psi))*)
(* and the kinematic equation is q_dot = (v, Ti w / 2).  The property's    *)
(* clauses are checked as cleared polynomial identities by TLC:            *)
(* the velocity is the rate of the position along the kinematic equation   *)
(* (position derivative by exact stencil, NOT by these formulas), the      *)
(* Jacobian is the u-derivative of the velocity, the acceleration is the   *)
(* rate of the velocity, the quaternion length is kept, gyroscopic forces  *)
(* do no work, the mass matrix is symmetric positive definite.             *)
(* For a frame the rotation is R(P(t)) with the polynomial quaternion      *)
(* P(t) = P0 + t P1, whose body angular velocity is T(P) P1 = 2 Tn P1 / s. *)
(*                                                                         *)
(* Every state carries the integer numerators of what the routines of      *)
(* RigidBody / PointMass / Frame must return at that lattice point.        *)
(***************************************************************************)
EXTENDS QuatAlg

CONSTANTS GMax,     \* quaternion grid
          Stride,   \* the binding cases use every Stride-th quaternion of the grid (1: all)
          Bind      \* TRUE: every state carries the numerators the routines must return; FALSE: identities only

VARIABLES case, expected
vars == <<case, expected>>

G == (0 - GMax)..GMax
AllQuats == {q \in [1..4 -> G] : \E i \in 1..4 : q[i] # 0}
\* a deterministic thinning of the grid that keeps every residue class of every component
Quats == {q \in AllQuats : (q[1] + 3 * q[2] + 7 * q[3] + 13 * q[4]) % Stride = 0}
Vecs == {<<0, 0, 0>>, <<0, 0 - 2, 1>>, <<2, 1, 0 - 1>>}
VAdd(a, b) == <<a[1] + b[1], a[2] + b[2], a[3] + b[3]>>
VScale(c, a) == <<c * a[1], c * a[2], c * a[3]>>
E3(j) == [i \in 1..3 |-> IF i = j THEN 1 ELSE 0]

\* -------------------------------------------------------------- rigid body
\* numerators over s
PosNum(P, r, b) == VAdd(VScale(S(P), r), MatVec(N(P), b))                     \* s * r_OP
VelNum(P, v, w, b) == VAdd(VScale(S(P), v), MatVec(N(P), Cross(w, b)))         \* s * v_P
AccBody(w, psi, b) == VAdd(Cross(psi, b), Cross(w, Cross(w, b)))
AccNum(P, a, w, psi, b) == VAdd(VScale(S(P), a), MatVec(N(P), AccBody(w, psi, b)))   \* s * a_P
QdotP2(P, w) == Pdot2(P, w)                                                  \* 2 * P_dot

\* the position's derivative with respect to P_k by exact stencil on its numerator and the quotient rule, times s^2:
\*   d/dP_k (N b / s) = (s dN_k b - 2 P_k N b) / s^2 = dRnum_k b / s^2
dPos_dP(P, b, k) == MatVec(dRnum(P, k), b)

RigidCases == [kind : {"rigid"}, P : Quats, r : {<<1, 0 - 2, 3>>}, b : Vecs, v : {<<1, 0, 0 - 1>>, <<0, 2, 1>>}, w : Vecs, a : {<<0, 1, 0 - 2>>}, psi : {<<1, 0 - 1, 2>>, <<0, 0, 0>>}]

\* velocity is the rate of the position:  v + sum_k d(N b/s)/dP_k Pdot_k = v + N (w x b)/s ;  times 2 s^2
VelocityIsRate(c) ==
    LET pd == QdotP2(c.P, c.w)
        rate == VAdd(VAdd(VScale(pd[1], dPos_dP(c.P, c.b, 1)), VScale(pd[2], dPos_dP(c.P, c.b, 2))),
                     VAdd(VScale(pd[3], dPos_dP(c.P, c.b, 3)), VScale(pd[4], dPos_dP(c.P, c.b, 4))))
    IN rate = VScale(2 * S(c.P), MatVec(N(c.P), Cross(c.w, c.b)))
\* acceleration is the rate of the velocity: d/dt [N (w x b)/s] = sum_k dR_k (w x b) Pdot_k + R (psi x b), and the first part equals R (w x (w x b))
AccelerationIsRate(c) ==
    LET pd == QdotP2(c.P, c.w)
        wb == Cross(c.w, c.b)
        rate == VAdd(VAdd(VScale(pd[1], MatVec(dRnum(c.P, 1), wb)), VScale(pd[2], MatVec(dRnum(c.P, 2), wb))),
                     VAdd(VScale(pd[3], MatVec(dRnum(c.P, 3), wb)), VScale(pd[4], MatVec(dRnum(c.P, 4), wb))))
    IN rate = VScale(2 * S(c.P), MatVec(N(c.P), Cross(c.w, wb)))
\* Jacobian: the velocity is linear in u; d v_P / d w_j = N (e_j x b) / s
KeepsLength(c) == LET pd == QdotP2(c.P, c.w) IN c.P[1] * pd[1] + c.P[2] * pd[2] + c.P[3] * pd[3] + c.P[4] * pd[4] = 0
\* gyroscopic forces -w x Theta w do no work, Theta symmetric positive definite (integer)
Theta == <<<<4, 1, 0>>, <<1, 5, 0 - 2>>, <<0, 0 - 2, 6>>>>
Gyro(w) == VScale(0 - 1, Cross(w, MatVec(Theta, w)))
GyroNoWork(c) == Dot3(c.w, Gyro(c.w)) = 0
ThetaSPD == /\ MatT(Theta) = Theta /\ Theta[1][1] > 0 /\ Theta[1][1] * Theta[2][2] - Theta[1][2] * Theta[2][1] > 0 /\ Det(Theta) > 0

RigidOK(c) == VelocityIsRate(c) /\ AccelerationIsRate(c) /\ KeepsLength(c) /\ GyroNoWork(c) /\ ThetaSPD

RigidExpected(c) ==
    LET P == c.P  s == S(c.P) IN
    [s |-> s,
     r_OP |-> PosNum(P, c.r, c.b),                                            \* / s
     v_P |-> VelNum(P, c.v, c.w, c.b),                                         \* / s
     a_P |-> AccNum(P, c.a, c.w, c.psi, c.b),                                  \* / s
     kappa_P |-> MatVec(N(P), Cross(c.w, Cross(c.w, c.b))),                    \* / s
     qdotP2 |-> QdotP2(P, c.w),                                                \* / 2
     r_OP_P |-> [k \in 1..4 |-> dPos_dP(P, c.b, k)],                           \* / s^2
     v_P_P |-> [k \in 1..4 |-> MatVec(dRnum(P, k), Cross(c.w, c.b))],          \* / s^2
     a_P_P |-> [k \in 1..4 |-> MatVec(dRnum(P, k), AccBody(c.w, c.psi, c.b))], \* / s^2
     J_P_w |-> [j \in 1..3 |-> MatVec(N(P), Cross(E3(j), c.b))],               \* / s   (columns for w_j)
     J_P_wP |-> [j \in 1..3 |-> [k \in 1..4 |-> MatVec(dRnum(P, k), Cross(E3(j), c.b))]],   \* / s^2
     kappa_P_P |-> [k \in 1..4 |-> MatVec(dRnum(P, k), Cross(c.w, Cross(c.w, c.b)))],         \* / s^2
     qdot_P |-> [k \in 1..4 |-> [i \in 1..4 |-> dTi(P, k)[i][1] * c.w[1] + dTi(P, k)[i][2] * c.w[2] + dTi(P, k)[i][3] * c.w[3]]],   \* 2 d(P_dot)/dP_k
     Ti |-> Ti(P),                                                             \* 2 d(P_dot)/dw
     A |-> N(P), A_P |-> [k \in 1..4 |-> dRnum(P, k)],                          \* / s, / s^2
     a_P_w |-> [j \in 1..3 |-> MatVec(N(P), VAdd(Cross(E3(j), Cross(c.w, c.b)), Cross(c.w, Cross(E3(j), c.b))))],   \* / s
     h |-> Gyro(c.w), theta |-> Theta,
     h_w |-> [j \in 1..3 |-> VScale(0 - 1, VAdd(Cross(E3(j), MatVec(Theta, c.w)), Cross(c.w, MatVec(Theta, E3(j)))))]]

\* -------------------------------------------------------------- frame with polynomial motion
\* r(t) = r0 + r1 t + r2 t^2,  P(t) = P0 + t P1
FrameCases == [kind : {"frame"}, P0 : {<<1, 0, 0, 0>>, <<1, 2, 0 - 1, 0>>, <<0, 1, 1, 1>>}, P1 : {<<0, 0, 0, 0>>, <<0, 1, 0, 0>>, <<1, 0 - 1, 2, 1>>},
               t : {0, 1, 2}, b : {<<0, 0, 0>>, <<2, 1, 0 - 1>>}]
R0 == <<1, 0 - 2, 0>>   R1 == <<0, 3, 1>>   R2 == <<2, 0, 0 - 1>>
Pt(c) == [i \in 1..4 |-> c.P0[i] + c.t * c.P1[i]]
FrameWellFormed(c) == \E i \in 1..4 : Pt(c)[i] # 0
\* body angular velocity of R(P(t)):  T(P) Pdot = 2 Tn(P) P1 / s
OmegaNum(c) == LET T == Tn(Pt(c)) IN [i \in 1..3 |-> 2 * (T[i][1] * c.P1[1] + T[i][2] * c.P1[2] + T[i][3] * c.P1[3] + T[i][4] * c.P1[4])]
\* s(t) and N(P(t)) are quadratic in t: central differences with step 1 are their exact time derivatives
PtAt(c, tt) == [i \in 1..4 |-> c.P0[i] + tt * c.P1[i]]
Sdot(c) == (S(PtAt(c, c.t + 1)) - S(PtAt(c, c.t - 1))) \div 2
Ndot(c) == LET a == N(PtAt(c, c.t + 1))  b == N(PtAt(c, c.t - 1)) IN [i \in 1..3 |-> [j \in 1..3 |-> (a[i][j] - b[i][j]) \div 2]]
\* s^2 Psi: the body angular acceleration is the rate of Omega = OmegaNum / s, and OmegaNum does not depend on t
PsiNum(c) == VScale(0 - Sdot(c), OmegaNum(c))
\* the reported angular velocity is that of the rotation:  R_dot = R skew(Omega), cleared by s^2:  s N_dot - s_dot N = N skew(OmegaNum)
FrameSpinIsRate(c) == LET P == Pt(c) IN MatSub(MatScale(S(P), Ndot(c)), MatScale(Sdot(c), N(P))) = MatMul(N(P), Skew(OmegaNum(c)))
OmegaNumConstant(c) == LET T1 == Tn(PtAt(c, c.t + 1))  T0 == Tn(Pt(c)) IN
    \A i \in 1..3 : T1[i][1] * c.P1[1] + T1[i][2] * c.P1[2] + T1[i][3] * c.P1[3] + T1[i][4] * c.P1[4] = T0[i][1] * c.P1[1] + T0[i][2] * c.P1[2] + T0[i][3] * c.P1[3] + T0[i][4] * c.P1[4]
FrameOK(c) == FrameSpinIsRate(c) /\ OmegaNumConstant(c)
FrameExpected(c) ==
    LET P == Pt(c)  s == S(P)  om == OmegaNum(c)  r_t == VAdd(R1, VScale(2 * c.t, R2)) IN
    [s |-> s, P |-> P,
     r |-> VAdd(VAdd(R0, VScale(c.t, R1)), VScale(c.t * c.t, R2)),
     r_t |-> r_t, r_tt |-> VScale(2, R2),
     A |-> N(P),                                                              \* / s
     r_OP |-> VAdd(VScale(s, VAdd(VAdd(R0, VScale(c.t, R1)), VScale(c.t * c.t, R2))), MatVec(N(P), c.b)),   \* / s
     Omega |-> om,                                                            \* / s   (body-fixed)
     Psi |-> PsiNum(c),                                                       \* / s^2 (body-fixed)
     v_P |-> VAdd(VScale(s * s, r_t), MatVec(N(P), Cross(om, c.b))),           \* / s^2
     a_P |-> VAdd(VScale(s * s * s, VScale(2, R2)), MatVec(N(P), VAdd(Cross(PsiNum(c), c.b), Cross(om, Cross(om, c.b)))))]   \* / s^3

\* -------------------------------------------------------------- point mass
PointCases == [kind : {"point"}, r : {<<1, 0 - 2, 3>>, <<0, 0, 0>>}, v : Vecs, a : {<<0, 1, 0 - 2>>}, b : Vecs, m : {1, 3}]
PointExpected(c) ==
    [r_OP |-> VAdd(c.r, c.b), v_P |-> c.v, a_P |-> c.a, M |-> MatScale(c.m, I3), ekin2 |-> c.m * Dot3(c.v, c.v)]
\* twice the kinetic energy is u^T M u, and M is symmetric positive definite
PointOK(c) == LET e == PointExpected(c) IN e.ekin2 = Dot3(c.v, MatVec(e.M, c.v)) /\ c.m > 0 /\ MatT(e.M) = e.M

Init == /\ case \in RigidCases \cup {c \in FrameCases : FrameWellFormed(c)} \cup PointCases
        /\ expected = IF ~Bind THEN <<>> ELSE CASE case.kind = "rigid" -> RigidExpected(case) [] case.kind = "frame" -> FrameExpected(case) [] OTHER -> PointExpected(case)
Next == UNCHANGED vars
Spec == Init /\ [][Next]_vars
CaseOK == CASE case.kind = "rigid" -> RigidOK(case) [] case.kind = "frame" -> FrameOK(case) [] OTHER -> PointOK(case)
=============================================================================
