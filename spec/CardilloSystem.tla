--------------------------- MODULE CardilloSystem ---------------------------
(***************************************************************************)
(* cardillo.system.System: the registry of contributions (add / remove /   *)
(* pop / extend, names and the name map) and assemble (degree-of-freedom   *)
(* layout, repeated assembly).  One action per public call.                *)
(*                                                                         *)
(* Contributions are ids 1..NC; id 0 is the origin frame every System      *)
(* creates for itself.  KindOf gives each id a kind, and a kind fixes the  *)
(* sizes of its blocks in the ten global index spaces ("fields").  Coupling *)
(* kinds (joint, law, contact, actuator) act on other contributions and    *)
(* take their coordinate/velocity index sets from them; "intlaw" (a force  *)
(* law with an internal coordinate, like MaxwellElement) owns a coordinate  *)
(* AND depends on its subsystems' coordinates.                             *)
(*                                                                         *)
(* Names are token sequences so that a generated name can collide with a   *)
(* user-chosen one:  <<"x">> = "x",  <<"x",3>> = "x_contr3",               *)
(* <<"#",3>> = "contr3" (the default for an unnamed contribution),         *)
(* <<"x",3,5>> = "x_contr3_contr5".                                        *)
(***************************************************************************)
EXTENDS Integers, Sequences, FiniteSets, TLC, Json, IOUtils

CONSTANTS NC,        \* contributions 1..NC besides the origin
          MaxOps,    \* bound on the number of operations in a behaviour
          MaxSuffix, \* user-chosen names may look like generated ones: "x_contr<k>", k <= MaxSuffix
          Impl,      \* "intended" | "as_found" (pinned tree before the fix: commits)
          Start      \* "empty": a fresh System();  "full": contributions 1..NC already added (unnamed)

VARIABLES list,      \* system.contributions: sequence of ids
          cmap,      \* system.contributions_map: name -> id
          name,      \* id -> current name (NoName until first added without a name)
          ncontr,    \* system.ncontr: number of successful adds so far
          layout,    \* NoLayout, or [total |-> field -> n, rng |-> id -> field -> <<start, size>>]
          nops,
          last       \* last operation and its outcome (for replay)

vars == <<list, cmap, name, ncontr, layout, nops, last>>

Ids == 0..NC
NoName == <<>>
NoLayout == [total |-> <<>>, rng |-> <<>>]
Origin == <<"origin">>

UserNames == {<<"x">>} \cup {<<"x", k>> : k \in 1..MaxSuffix} \cup {<<"#", k>> : k \in 1..MaxSuffix}

---------------------------------------------------------------------------
\* kinds and sizes
Fields == {"q", "u", "la_g", "la_gamma", "la_c", "la_tau", "tau", "la_S", "la_N", "la_F"}

KindSeq == <<"body", "joint", "contact", "law", "pmass", "actuator", "intlaw">>
KindOf(c) == IF c = 0 THEN "frame" ELSE KindSeq[((c - 1) % Len(KindSeq)) + 1]

Size(kind, f) ==
    CASE kind = "frame"    -> 0
      [] kind = "body"     -> (CASE f = "q" -> 3 [] f = "u" -> 2 [] f = "la_S" -> 1 [] OTHER -> 0)
      [] kind = "pmass"    -> (CASE f = "q" -> 1 [] f = "u" -> 1 [] OTHER -> 0)
      [] kind = "joint"    -> (CASE f = "la_g" -> 2 [] f = "la_gamma" -> 1 [] OTHER -> 0)
      [] kind = "contact"  -> (CASE f = "la_N" -> 1 [] f = "la_F" -> 2 [] OTHER -> 0)
      [] kind = "law"      -> (CASE f = "la_c" -> 1 [] OTHER -> 0)
      [] kind = "actuator" -> (CASE f = "la_tau" -> 1 [] f = "tau" -> 1 [] OTHER -> 0)
      [] kind = "intlaw"   -> (CASE f = "q" -> 1 [] OTHER -> 0)   \* a law with an internal coordinate (Maxwell)

\* which fields a kind *has* (hasattr in the code); frames have q and u of size 0
Has(kind, f) ==
    CASE kind = "frame"    -> f \in {"q", "u"}
      [] kind = "body"     -> f \in {"q", "u", "la_S"}
      [] kind = "pmass"    -> f \in {"q", "u"}
      [] kind = "joint"    -> f \in {"la_g", "la_gamma"}
      [] kind = "contact"  -> f \in {"la_N", "la_F"}
      [] kind = "law"      -> f \in {"la_c"}
      [] kind = "actuator" -> f \in {"la_tau", "tau"}
      [] kind = "intlaw"   -> f \in {"q"}

Coupling(kind) == kind \in {"joint", "contact", "law", "actuator", "intlaw"}

\* the subsystems a coupling contribution acts on: the origin and the nearest body-like id below it,
\* or two body-like ids when there are two
BodyLike(c) == KindOf(c) \in {"body", "pmass"}
Subs(c) ==
    IF ~Coupling(KindOf(c)) THEN <<>>
    ELSE LET below == {b \in 1..NC : BodyLike(b) /\ b # c}
         IN IF below = {} THEN <<0, 0>>
            ELSE LET b1 == CHOOSE b \in below : \A b2 \in below : b <= b2
                     rest == below \ {b1}
                 IN IF rest = {} \/ c % 2 = 0 THEN <<0, b1>>
                    ELSE <<b1, CHOOSE b \in rest : \A b2 \in rest : b <= b2>>

\* constants of the model the conformance harness needs to build matching stub contributions
Export == [kinds |-> [c \in 1..NC |-> KindOf(c)],
           subs  |-> [c \in 1..NC |-> Subs(c)],
           sizes |-> [c \in 1..NC |-> [f \in Fields |-> IF Has(KindOf(c), f) THEN Size(KindOf(c), f) ELSE 0 - 1]]]
ASSUME "SYSTEM_OUT" \in DOMAIN IOEnv => JsonSerialize(IOEnv.SYSTEM_OUT, Export)

---------------------------------------------------------------------------
InList(c) == \E i \in 1..Len(list) : list[i] = c
Members == {list[i] : i \in 1..Len(list)}
RemoveAt(s, i) == [j \in 1..(Len(s) - 1) |-> IF j < i THEN s[j] ELSE s[j + 1]]
IndexOf(c) == CHOOSE i \in 1..Len(list) : list[i] = c

Ext(f, k, v) == [x \in DOMAIN f \cup {k} |-> IF x = k THEN v ELSE f[x]]
Drop(f, k) == [x \in DOMAIN f \ {k} |-> f[x]]

\* the name a contribution ends up with: its own name unless taken, else suffixes are appended
\* until the name is free (the pinned code appended one suffix and did not look again)
RECURSIVE Fresh(_, _)
Fresh(n, m) == IF n \in DOMAIN m THEN Fresh(Append(n, ncontr), m) ELSE n
Renamed(n0) ==
    IF Impl = "as_found"
      THEN IF n0 \in DOMAIN cmap THEN Append(n0, ncontr) ELSE n0
      ELSE Fresh(n0, cmap)

Init == IF Start = "full"
        THEN /\ list = [i \in 1..(NC + 1) |-> i - 1]
             /\ cmap = [n \in {Origin} \cup {<<"#", c>> : c \in 1..NC} |-> IF n = Origin THEN 0 ELSE n[2]]
             /\ name = [c \in Ids |-> IF c = 0 THEN Origin ELSE <<"#", c>>]
             /\ ncontr = NC + 1
             /\ layout = NoLayout
             /\ nops = 0
             /\ last = [op |-> "init"]
        ELSE
        /\ list = <<0>>
        /\ cmap = (Origin :> 0)
        /\ name = [c \in Ids |-> IF c = 0 THEN Origin ELSE NoName]
        /\ ncontr = 1
        /\ layout = NoLayout
        /\ nops = 0
        /\ last = [op |-> "init"]

\* system.add(c); pref is the name the user gave the object (NoName: none); it only matters while the
\* object has no name yet
Add(c, pref) ==
    /\ c \in 1..NC
    /\ (name[c] # NoName) => pref = NoName
    /\ nops' = nops + 1
    /\ IF InList(c)
         THEN /\ last' = [op |-> "add", c |-> c, pref |-> pref, outcome |-> "ValueError"]
              /\ UNCHANGED <<list, cmap, name, ncontr, layout>>
         ELSE LET n0 == IF name[c] # NoName THEN name[c]
                        ELSE IF pref # NoName THEN pref ELSE <<"#", ncontr>>
                  n1 == Renamed(n0)
              IN /\ list' = Append(list, c)
                 /\ name' = [name EXCEPT ![c] = n1]
                 /\ cmap' = Ext(cmap, n1, c)
                 /\ ncontr' = ncontr + 1
                 /\ last' = [op |-> "add", c |-> c, pref |-> pref, outcome |-> "ok"]
                 /\ UNCHANGED layout

\* system.remove(c)
Remove(c) ==
    /\ c \in Ids
    /\ nops' = nops + 1
    /\ IF InList(c)
         THEN /\ list' = RemoveAt(list, IndexOf(c))
              /\ cmap' = IF Impl = "as_found" THEN cmap ELSE Drop(cmap, name[c])
              /\ last' = [op |-> "remove", c |-> c, outcome |-> "ok"]
              /\ UNCHANGED <<name, ncontr, layout>>
         ELSE /\ last' = [op |-> "remove", c |-> c, outcome |-> "ValueError"]
              /\ UNCHANGED <<list, cmap, name, ncontr, layout>>

\* system.pop(i) with Python list indexing (negative from the end)
Pop(i) ==
    /\ nops' = nops + 1
    /\ LET pos == IF i >= 0 THEN i + 1 ELSE Len(list) + i + 1
       IN IF pos \in 1..Len(list)
            THEN /\ list' = RemoveAt(list, pos)
                 /\ cmap' = IF Impl = "as_found" THEN cmap ELSE Drop(cmap, name[list[pos]])
                 /\ last' = [op |-> "pop", i |-> i, outcome |-> "ok"]
                 /\ UNCHANGED <<name, ncontr, layout>>
            ELSE /\ last' = [op |-> "pop", i |-> i, outcome |-> "IndexError"]
                 /\ UNCHANGED <<list, cmap, name, ncontr, layout>>

\* the layout assemble computes: walk the list, give every contribution that has field f the next
\* Size(kind, f) indices of f
RECURSIVE StartOf(_, _, _)
StartOf(f, l, k) ==   \* start of the k-th member's block of field f
    IF k = 1 THEN 0 ELSE StartOf(f, l, k - 1) + Size(KindOf(l[k - 1]), f)
LayoutOf(l) ==
    [total |-> [f \in Fields |-> IF Len(l) = 0 THEN 0 ELSE StartOf(f, l, Len(l)) + Size(KindOf(l[Len(l)]), f)],
     rng   |-> [c \in {l[i] : i \in 1..Len(l)} |->
                  [f \in {g \in Fields : Has(KindOf(c), g)} |->
                      LET k == CHOOSE i \in 1..Len(l) : l[i] = c
                      IN <<StartOf(f, l, k), Size(KindOf(c), f)>>]]]

\* every subsystem of a member is a member (otherwise assembling is a user error and not modelled)
Closed == \A c \in Members : \A i \in DOMAIN Subs(c) : Subs(c)[i] \in Members

Assemble ==
    /\ Closed
    /\ nops' = nops + 1
    /\ layout' = LayoutOf(list)
    /\ last' = [op |-> "assemble", outcome |-> "ok"]
    /\ UNCHANGED <<list, cmap, name, ncontr>>

Next ==
    /\ nops < MaxOps
    /\ \/ \E c \in 1..NC, pref \in UserNames \cup {NoName} : Add(c, pref)
       \/ \E c \in Ids : Remove(c)
       \/ \E i \in {0 - 1, 0, 1, 5} : Pop(i)
       \/ Assemble

Spec == Init /\ [][Next]_vars

---------------------------------------------------------------------------
\* C14, registry clause
NamesUnique == \A i, j \in 1..Len(list) : i # j => name[list[i]] # name[list[j]]
RegistryExact ==
    /\ DOMAIN cmap = {name[list[i]] : i \in 1..Len(list)}
    /\ \A i \in 1..Len(list) : cmap[name[list[i]]] = list[i]
NoDuplicates == \A i, j \in 1..Len(list) : i # j => list[i] # list[j]

\* C14, layout clause: for every field the members' ranges tile 0..total-1 in list order
Range(r) == {r[1] + d : d \in 0..(r[2] - 1)}
LayoutPartitions ==
    layout # NoLayout =>
      \A f \in Fields :
        LET owners == {c \in DOMAIN layout.rng : f \in DOMAIN layout.rng[c]}
        IN /\ UNION {Range(layout.rng[c][f]) : c \in owners} = 0..(layout.total[f] - 1)
           /\ \A c1, c2 \in owners : c1 # c2 => Range(layout.rng[c1][f]) \cap Range(layout.rng[c2][f]) = {}

\* C14, repeatability: assembling again without changing anything leaves the layout unchanged
AssembleIdempotent ==
    [][ (last'.op = "assemble" /\ last.op = "assemble") => layout' = layout ]_vars

\* the layout only depends on the current list (not on the history of adds and removes)
LayoutIsFunctionOfList ==
    [][ last'.op = "assemble" => layout' = LayoutOf(list) ]_vars
=============================================================================
