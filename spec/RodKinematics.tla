---------------------------- MODULE RodKinematics ----------------------------
(***************************************************************************)
(* Cross-section kinematics and kinematic equations of Cosserat rod        *)
(* elements (the rational part of C11), in dual numbers over exact         *)
(* rationals (DualAlg).                                                    *)
(*                                                                         *)
(* An element has nn nodes with positions r_i, (not necessarily unit)      *)
(* quaternions P_i, velocities v_i and body-fixed angular velocities om_i. *)
(* At the parameter xi the shape functions have the values N_i and the     *)
(* derivatives N'_i (given; the mesh layer is C13's).                      *)
(*   centreline      r = sum N_i r_i,   r' = sum N'_i r_i                  *)
(*   orientation     "quat": P = sum N_i P_i, P' = sum N'_i P_i,           *)
(*                           A = R(P) (normalising),                       *)
(*                           Kappa = 2 (p0 p' - p0' p - p x p') / |P|^2    *)
(*                   "r12":  A = sum N_i R(P_i), A' = sum N'_i R(P_i),     *)
(*                           Kappa_1 = (d3.d2' - d2.d3') / 2, cyclic       *)
(*   strains         Gamma = A^T r'                                        *)
(*   cross-section   r_OP = r + A B_r;  B_Omega = sum N_i om_i;            *)
(*                   v_P = sum N_i v_i + A (B_Omega x B_r)                 *)
(*   node            P_dot = (-p.om, p0 om + p x om) / 2   (linear in P:   *)
(*                   no normalisation),  g_S = |P|^2 - 1                   *)
(* Moving one nodal coordinate (of q or of u) by eps and evaluating in     *)
(* dual arithmetic gives the value and the column of every Jacobian the    *)
(* rod reports for that coordinate: r_OP_q, A_IB_q, v_P_q, J_P, J_P_q,     *)
(* B_J_R, the strain Jacobians of _deval, q_dot_q, q_dot_u, g_S_q; the     *)
(* element's weak form (internal forces of the displacement-based rods,    *)
(* W_c la_c and the compliance residual of the mixed rods) is a sum over   *)
(* quadrature points of expressions in these quantities and is evaluated   *)
(* the same way (records from rods whose quadrature abscissae are          *)
(* rational: the one-point rule as it is, rational points substituted for  *)
(* the higher Gauss rules -- points and weights are data).                 *)
(*                                                                         *)
(* Mode "identities" (TLC on a lattice): the interpolated orientation of   *)
(* the quaternion family is a rotation and stays one to first order        *)
(* (A^T A = I, (A^T A)' = 0); the curvature formula is the axial vector of *)
(* A^T A' (A' the change of A along P'); at a node (N = unit vector) the   *)
(* cross-section has the nodal position, orientation and velocity; q_dot   *)
(* keeps |P|^2 constant to first order (P . P_dot = 0).  ObjectivityOK     *)
(* (C10): under a rigid motion of the element (r_i -> R0 r_i + d,          *)
(* P_i -> Q0 o P_i) the strain measures and the body-fixed nodal couples   *)
(* are unchanged, the nodal forces turn with R0, and the nodal forces of   *)
(* an element have zero resultant.                                         *)
(* Impl = "as_found": q_dot_u built from the normalised quaternion (the    *)
(* pinned tree) -- rejected on non-unit quaternions.                       *)
(* Mode "trace": records from real rod elements are recomputed.            *)
(***************************************************************************)
EXTENDS Integers, Sequences, FiniteSets, TLC, DualAlg, Json, IOUtils

CONSTANTS Mode, Impl, Thin

One == RI(1)
Zero == RI(0)
\* nodal data as duals: the coordinate (kind, node, comp) is moved by eps
Seed(r, kind, node, comp) == IF r.dk = kind /\ r.dnode = node /\ r.dcomp = comp THEN One ELSE Zero
NodeR(r, i) == <<DD(R(r.r[i][1]), Seed(r, "q", i, 1)), DD(R(r.r[i][2]), Seed(r, "q", i, 2)), DD(R(r.r[i][3]), Seed(r, "q", i, 3))>>
NodeP(r, i) == <<DD(R(r.P[i][1]), Seed(r, "q", i, 3 + 1)), DD(R(r.P[i][2]), Seed(r, "q", i, 3 + 2)), DD(R(r.P[i][3]), Seed(r, "q", i, 3 + 3)), DD(R(r.P[i][4]), Seed(r, "q", i, 3 + 4))>>
NodeV(r, i) == <<DD(R(r.v[i][1]), Seed(r, "u", i, 1)), DD(R(r.v[i][2]), Seed(r, "u", i, 2)), DD(R(r.v[i][3]), Seed(r, "u", i, 3))>>
NodeO(r, i) == <<DD(R(r.om[i][1]), Seed(r, "u", i, 3 + 1)), DD(R(r.om[i][2]), Seed(r, "u", i, 3 + 2)), DD(R(r.om[i][3]), Seed(r, "u", i, 3 + 3))>>

\* sum_{i <= n} w[i] * X(i)   for dual X(i) and rational weights (elements have two or three nodes)
SumTo(n, w, X(_)) ==
    LET a == DAdd(DScale(R(w[1]), X(1)), DScale(R(w[2]), X(2)))
    IN IF n = 2 THEN a ELSE DAdd(a, DScale(R(w[3]), X(3)))

Section(r) ==
    LET nn == Len(r.N)
        \* nodal data, evaluated once (tuples)
        NR == IF nn = 2 THEN <<NodeR(r, 1), NodeR(r, 2)>> ELSE <<NodeR(r, 1), NodeR(r, 2), NodeR(r, 3)>>
        NP == IF nn = 2 THEN <<NodeP(r, 1), NodeP(r, 2)>> ELSE <<NodeP(r, 1), NodeP(r, 2), NodeP(r, 3)>>
        NV == IF nn = 2 THEN <<NodeV(r, 1), NodeV(r, 2)>> ELSE <<NodeV(r, 1), NodeV(r, 2), NodeV(r, 3)>>
        NO == IF nn = 2 THEN <<NodeO(r, 1), NodeO(r, 2)>> ELSE <<NodeO(r, 1), NodeO(r, 2), NodeO(r, 3)>>
        rc == <<SumTo(nn, r.N, LAMBDA i : NR[i][1]), SumTo(nn, r.N, LAMBDA i : NR[i][2]), SumTo(nn, r.N, LAMBDA i : NR[i][3])>>
        rp == <<SumTo(nn, r.Nxi, LAMBDA i : NR[i][1]), SumTo(nn, r.Nxi, LAMBDA i : NR[i][2]), SumTo(nn, r.Nxi, LAMBDA i : NR[i][3])>>
        Pc == <<SumTo(nn, r.N, LAMBDA i : NP[i][1]), SumTo(nn, r.N, LAMBDA i : NP[i][2]), SumTo(nn, r.N, LAMBDA i : NP[i][3]), SumTo(nn, r.N, LAMBDA i : NP[i][4])>>
        Pp == <<SumTo(nn, r.Nxi, LAMBDA i : NP[i][1]), SumTo(nn, r.Nxi, LAMBDA i : NP[i][2]), SumTo(nn, r.Nxi, LAMBDA i : NP[i][3]), SumTo(nn, r.Nxi, LAMBDA i : NP[i][4])>>
        Rn == IF nn = 2 THEN <<DQuatR(NP[1]), DQuatR(NP[2])>> ELSE <<DQuatR(NP[1]), DQuatR(NP[2]), DQuatR(NP[3])>>
        A == IF r.interp = "quat" THEN DQuatR(Pc)
             ELSE <<<<SumTo(nn, r.N, LAMBDA i : Rn[i][1][1]), SumTo(nn, r.N, LAMBDA i : Rn[i][1][2]), SumTo(nn, r.N, LAMBDA i : Rn[i][1][3])>>, <<SumTo(nn, r.N, LAMBDA i : Rn[i][2][1]), SumTo(nn, r.N, LAMBDA i : Rn[i][2][2]), SumTo(nn, r.N, LAMBDA i : Rn[i][2][3])>>, <<SumTo(nn, r.N, LAMBDA i : Rn[i][3][1]), SumTo(nn, r.N, LAMBDA i : Rn[i][3][2]), SumTo(nn, r.N, LAMBDA i : Rn[i][3][3])>>>>
        Ap == <<<<SumTo(nn, r.Nxi, LAMBDA i : Rn[i][1][1]), SumTo(nn, r.Nxi, LAMBDA i : Rn[i][1][2]), SumTo(nn, r.Nxi, LAMBDA i : Rn[i][1][3])>>, <<SumTo(nn, r.Nxi, LAMBDA i : Rn[i][2][1]), SumTo(nn, r.Nxi, LAMBDA i : Rn[i][2][2]), SumTo(nn, r.Nxi, LAMBDA i : Rn[i][2][3])>>, <<SumTo(nn, r.Nxi, LAMBDA i : Rn[i][3][1]), SumTo(nn, r.Nxi, LAMBDA i : Rn[i][3][2]), SumTo(nn, r.Nxi, LAMBDA i : Rn[i][3][3])>>>>      \* r12 only
        pv == <<Pc[2], Pc[3], Pc[4]>>  ppv == <<Pp[2], Pp[3], Pp[4]>>
        cr == DCross(pv, ppv)
        s == DQuatS(Pc)
        KapQ == <<DDiv(DMul(DTwo, DSub(DSub(DMul(Pc[1], ppv[1]), DMul(Pp[1], pv[1])), cr[1])), s), DDiv(DMul(DTwo, DSub(DSub(DMul(Pc[1], ppv[2]), DMul(Pp[1], pv[2])), cr[2])), s), DDiv(DMul(DTwo, DSub(DSub(DMul(Pc[1], ppv[3]), DMul(Pp[1], pv[3])), cr[3])), s)>>
        col(M, j) == <<M[1][j], M[2][j], M[3][j]>>
        half == DC(<<1, 2>>)
        KapR == <<DMul(half, DSub(DDot3(col(A, 3), col(Ap, 2)), DDot3(col(A, 2), col(Ap, 3)))),
                  DMul(half, DSub(DDot3(col(A, 1), col(Ap, 3)), DDot3(col(A, 3), col(Ap, 1)))),
                  DMul(half, DSub(DDot3(col(A, 2), col(Ap, 1)), DDot3(col(A, 1), col(Ap, 2))))>>
        Br == <<DC(R(r.Br[1])), DC(R(r.Br[2])), DC(R(r.Br[3]))>>
        ABr == DMatVec(A, Br)
        BOm == <<SumTo(nn, r.N, LAMBDA i : NO[i][1]), SumTo(nn, r.N, LAMBDA i : NO[i][2]), SumTo(nn, r.N, LAMBDA i : NO[i][3])>>
        vc == <<SumTo(nn, r.N, LAMBDA i : NV[i][1]), SumTo(nn, r.N, LAMBDA i : NV[i][2]), SumTo(nn, r.N, LAMBDA i : NV[i][3])>>
        w == DMatVec(A, DCross(BOm, Br))
    IN [r |-> rc, A |-> A, Gam |-> DMatTVec(A, rp), Kap |-> IF r.interp = "quat" THEN KapQ ELSE KapR,
        rOP |-> <<DAdd(rc[1], ABr[1]), DAdd(rc[2], ABr[2]), DAdd(rc[3], ABr[3])>>, BOm |-> BOm, vP |-> <<DAdd(vc[1], w[1]), DAdd(vc[2], w[2]), DAdd(vc[3], w[3])>>]

\* the point Jacobian J_P[:, (node j, comp c)] = v_P for the unit velocity of that coordinate (v_P is linear in u); its change along the direction
JPcol(r, node, comp) ==
    LET ru == [r EXCEPT !.v = [i \in 1..Len(r.N) |-> [c \in 1..3 |-> IF i = node /\ c = comp THEN <<1, 1>> ELSE <<0, 1>>]],
                        !.om = [i \in 1..Len(r.N) |-> [c \in 1..3 |-> IF i = node /\ c + 3 = comp THEN <<1, 1>> ELSE <<0, 1>>]],
                        !.dk = IF r.dk = "q" THEN "q" ELSE "none"]
    IN Section(ru).vP

\* ------------------------------------------------------------------ the weak form of an element
\* At every quadrature point g (parameter with shape-function values g.N, g.Nxi; test functions of the virtual
\* rotations g.Np, g.Npxi; weight g.w, reference length g.J, reference strains g.Gam0, g.Kap0) the stress
\* resultants are  n = C_n (Gamma_bar / J - Gamma0), m = C_m (Kappa_bar / J - Kappa0)  (displacement based,
\* diagonal stiffnesses Ei, Fi)  or the interpolated independent fields g.n, g.m (mixed).  Virtual work:
\*   f_r[node] = - sum_g N'_node (A n) w
\*   f_p[node] =   sum_g (- Np'_node m + Np_node (Gamma_bar x n + Kappa_bar x m)) w
\* compliance residual (mixed):  c[node] = sum_g Nla_node (J C^-1 (n, m) - (strain_bar - J strain0)) w
QP(r, g) ==
    LET x == Section([r EXCEPT !.N = g.N, !.Nxi = g.Nxi])
        Ji == RInv(R(g.J))  Jg == R(g.J)
        nd(c) == IF r.form = "db" THEN DScale(R(r.Ei[c]), DSub(DScale(Ji, x.Gam[c]), DC(R(g.Gam0[c])))) ELSE DC(R(g.n[c]))
        md(c) == IF r.form = "db" THEN DScale(R(r.Fi[c]), DSub(DScale(Ji, x.Kap[c]), DC(R(g.Kap0[c])))) ELSE DC(R(g.m[c]))
        n == <<nd(1), nd(2), nd(3)>>  m == <<md(1), md(2), md(3)>>
        An == DMatVec(x.A, n)
        c1 == DCross(x.Gam, n)  c2 == DCross(x.Kap, m)
        w == R(g.w)
        cn(c) == DScale(w, DSub(DScale(RMul(Jg, RInv(R(r.Ei[c]))), n[c]), DSub(x.Gam[c], DC(RMul(Jg, R(g.Gam0[c]))))))
        cm(c) == DScale(w, DSub(DScale(RMul(Jg, RInv(R(r.Fi[c]))), m[c]), DSub(x.Kap[c], DC(RMul(Jg, R(g.Kap0[c]))))))
    IN [An |-> <<DScale(w, An[1]), DScale(w, An[2]), DScale(w, An[3])>>,
        m |-> <<DScale(w, m[1]), DScale(w, m[2]), DScale(w, m[3])>>,
        cr |-> <<DScale(w, DAdd(c1[1], c2[1])), DScale(w, DAdd(c1[2], c2[2])), DScale(w, DAdd(c1[3], c2[3]))>>,
        c |-> <<cn(1), cn(2), cn(3), cm(1), cm(2), cm(3)>>]
SumQ(n, F(_)) == IF n = 1 THEN F(1) ELSE IF n = 2 THEN DAdd(F(1), F(2)) ELSE DAdd(DAdd(F(1), F(2)), F(3))
Weak(r) ==
    LET nq == Len(r.qps)  nn == Len(r.qps[1].N)  nla == Len(r.qps[1].Nla)
        Qs == IF nq = 1 THEN <<QP(r, r.qps[1])>> ELSE IF nq = 2 THEN <<QP(r, r.qps[1]), QP(r, r.qps[2])>> ELSE <<QP(r, r.qps[1]), QP(r, r.qps[2]), QP(r, r.qps[3])>>
        fr(node, c) == DNeg(SumQ(nq, LAMBDA g : DScale(R(r.qps[g].Nxi[node]), Qs[g].An[c])))
        fp(node, c) == SumQ(nq, LAMBDA g : DSub(DScale(R(r.qps[g].Np[node]), Qs[g].cr[c]), DScale(R(r.qps[g].Npxi[node]), Qs[g].m[c])))
        cc(node, k) == SumQ(nq, LAMBDA g : DScale(R(r.qps[g].Nla[node]), Qs[g].c[k]))
    IN [f |-> [i \in 1..(nn * 6) |-> LET node == ((i - 1) \div 6) + 1  c == ((i - 1) % 6) + 1 IN IF c <= 3 THEN fr(node, c) ELSE fp(node, c - 3)],
        c |-> [i \in 1..(nla * 6) |-> cc(((i - 1) \div 6) + 1, ((i - 1) % 6) + 1)]]

\* kinematic equation of one node
Node(r) ==
    LET P == [c \in 1..4 |-> DD(R(r.P[c]), IF r.dk = "q" /\ r.dcomp = c THEN One ELSE Zero)]
        om == [c \in 1..3 |-> DD(R(r.om[c]), IF r.dk = "u" /\ r.dcomp = c THEN One ELSE Zero)]
        pv == <<P[2], P[3], P[4]>>
        cr == DCross(pv, om)
        half == DC(<<1, 2>>)
        qd == <<DMul(half, DNeg(DDot3(pv, om)))>> \o [c \in 1..3 |-> DMul(half, DAdd(DMul(P[1], om[c]), cr[c]))]
    IN [qd |-> qd, gS |-> DSub(DQuatS(P), DC(One)), P |-> P]

\* ------------------------------------------------------------------ trace verdicts
Has(r, f) == \E i \in 1..Len(r.has) : r.has[i] = f
VecIs(seq, duals, part) == /\ Len(seq) = Len(duals)
                           /\ \A j \in 1..Len(seq) : R(seq[j]) = (IF part = "v" THEN duals[j].v ELSE duals[j].d)
Flat(A) == <<A[1][1], A[1][2], A[1][3], A[2][1], A[2][2], A[2][3], A[3][1], A[3][2], A[3][3]>>
XVerdict(r) ==
    LET x == Section(r) IN
    IF Has(r, "r") /\ ~VecIs(r.o_r, x.r, "v") THEN "_eval: centreline position"
    ELSE IF Has(r, "A") /\ ~VecIs(r.o_A, Flat(x.A), "v") THEN "_eval / A_IB: cross-section orientation"
    ELSE IF Has(r, "Gam") /\ ~VecIs(r.o_Gam, x.Gam, "v") THEN "_eval: B_Gamma_bar is not A^T r'"
    ELSE IF Has(r, "Kap") /\ ~VecIs(r.o_Kap, x.Kap, "v") THEN "_eval: B_Kappa_bar"
    ELSE IF Has(r, "rOP") /\ ~VecIs(r.o_rOP, x.rOP, "v") THEN "r_OP is not r + A B_r"
    ELSE IF Has(r, "vP") /\ ~VecIs(r.o_vP, x.vP, "v") THEN "v_P is not v + A (B_Omega x B_r)"
    ELSE IF Has(r, "BOm") /\ ~VecIs(r.o_BOm, x.BOm, "v") THEN "B_Omega is not the interpolated nodal angular velocity"
    ELSE IF Has(r, "dr") /\ ~VecIs(r.o_dr, x.r, "d") THEN "_deval: r_OP_qe is not the derivative of the centreline position"
    ELSE IF Has(r, "dA") /\ ~VecIs(r.o_dA, Flat(x.A), "d") THEN "_deval: A_IB_qe is not the derivative of A_IB"
    ELSE IF Has(r, "dAq") /\ ~VecIs(r.o_dAq, Flat(x.A), "d") THEN "A_IB_q is not the derivative of A_IB"
    ELSE IF Has(r, "dGam") /\ ~VecIs(r.o_dGam, x.Gam, "d") THEN "_deval: B_Gamma_bar_qe is not the derivative of B_Gamma_bar"
    ELSE IF Has(r, "dKap") /\ ~VecIs(r.o_dKap, x.Kap, "d") THEN "_deval: B_Kappa_bar_qe is not the derivative of B_Kappa_bar"
    ELSE IF Has(r, "drOP") /\ ~VecIs(r.o_drOP, x.rOP, "d") THEN "r_OP_q is not the derivative of r_OP"
    ELSE IF Has(r, "dvP") /\ ~VecIs(r.o_dvP, x.vP, "d") THEN "v_P_q / J_P is not the derivative of v_P"
    ELSE IF Has(r, "dBOm") /\ ~VecIs(r.o_dBOm, x.BOm, "d") THEN "B_Omega_q / B_J_R is not the derivative of B_Omega"
    ELSE IF Has(r, "dJP") /\ \E n \in 1..Len(r.N), c \in 1..6 : ~VecIs(r.o_dJP[(n - 1) * 6 + c], JPcol(r, n, c), "d")
         THEN "J_P_q is not the derivative of J_P"
    ELSE IF Has(r, "JP") /\ \E n \in 1..Len(r.N), c \in 1..6 : ~VecIs(r.o_JP[(n - 1) * 6 + c], JPcol(r, n, c), "v")
         THEN "J_P is not the velocity of the point for unit generalized velocities"
    ELSE ""
WVerdict(r) ==
    LET w == Weak(r) IN
    IF Has(r, "f") /\ ~VecIs(r.o_f, w.f, "v") THEN "f_int_el / W_c_el la_c is not the virtual work of the stress resultants"
    ELSE IF Has(r, "df") /\ ~VecIs(r.o_df, w.f, "d") THEN "f_int_el_qe / Wla_c_el_qe is not the derivative of the internal forces"
    ELSE IF Has(r, "c") /\ ~VecIs(r.o_c, w.c, "v") THEN "c_el is not the weak compliance residual"
    ELSE IF Has(r, "dc") /\ ~VecIs(r.o_dc, w.c, "d") THEN "c_el_qe is not the derivative of c_el"
    ELSE ""
KVerdict(r) ==
    LET k == Node(r) IN
    IF Has(r, "qd") /\ ~VecIs(r.o_qd, k.qd, "v") THEN "q_dot of a nodal quaternion"
    ELSE IF Has(r, "dqd") /\ ~VecIs(r.o_dqd, k.qd, "d") THEN "q_dot_q / q_dot_u is not the derivative of q_dot"
    ELSE IF Has(r, "gS") /\ R(r.o_gS) # k.gS.v THEN "g_S is not |P|^2 - 1"
    ELSE IF Has(r, "dgS") /\ R(r.o_dgS) # k.gS.d THEN "g_S_q is not the derivative of g_S"
    ELSE ""

\* ------------------------------------------------------------------ lattice for the identities
VARIABLES case, l, verdicts
vars == <<case, l, verdicts>>
Q(n) == <<n, 1>>
Quats == {<<1, 0, 0, 0>>, <<1, 1, 0, 0>>, <<0, 1, 0 - 1, 0>>, <<1, 1, 1, 1>>, <<2, 1, 0, 0>>, <<1, 0 - 2, 0, 2>>, <<0, 0, 3, 0>>, <<1, 1, 0 - 1, 2>>}
Ws == {<<<<1, 2>>, <<1, 2>>>>, <<<<3, 4>>, <<1, 4>>>>, <<<<1, 1>>, <<0, 1>>>>}
QuatsUsed == IF Thin THEN {<<1, 1, 0, 0>>, <<1, 1, 1, 1>>, <<2, 1, 0, 0>>, <<1, 0 - 2, 0, 2>>} ELSE Quats
Cases == [P1 : QuatsUsed, P2 : QuatsUsed, w : Ws, interp : {"quat", "r12"}, comp : 4..7, om : {<<1, 0 - 2, 1>>, <<0, 3, 1>>}]
QV(p) == [c \in 1..Len(p) |-> Q(p[c])]
CaseRec(c) == [interp |-> c.interp, N |-> c.w, Nxi |-> <<<<0 - 1, 1>>, <<1, 1>>>>,
               r |-> <<QV(<<0, 1, 0 - 1>>), QV(<<2, 0, 1>>)>>, P |-> <<QV(c.P1), QV(c.P2)>>,
               v |-> <<QV(<<1, 0, 2>>), QV(<<0, 0 - 1, 1>>)>>, om |-> <<QV(c.om), QV(<<1, 1, 0>>)>>, Br |-> QV(<<1, 0 - 1, 2>>),
               dk |-> "q", dnode |-> 1, dcomp |-> c.comp, form |-> "db", Ei |-> <<>>, Fi |-> <<>>, qps |-> <<>>]
MatTMat(A, B, part) ==  \* (A^T B) with the chosen parts, rational
    [i \in 1..3 |-> [j \in 1..3 |-> RAdd(RAdd(RMul(A[1][i][part[1]], B[1][j][part[2]]), RMul(A[2][i][part[1]], B[2][j][part[2]])), RMul(A[3][i][part[1]], B[3][j][part[2]]))]]
Id3 == [i \in 1..3 |-> [j \in 1..3 |-> IF i = j THEN One ELSE Zero]]
Z33 == [i \in 1..3 |-> [j \in 1..3 |-> Zero]]
RMatAdd(A, B) == [i \in 1..3 |-> [j \in 1..3 |-> RAdd(A[i][j], B[i][j])]]
SectionOK(c) ==
    LET r == CaseRec(c)  x == Section(r)
        PcZero == \A k \in 1..4 : RAdd(RMul(R(c.w[1]), Q(c.P1[k])), RMul(R(c.w[2]), Q(c.P2[k]))) = Zero
        \* direction = the interpolated quaternion's own change along xi: P' as the eps part
        rx == [r EXCEPT !.dk = "none"]
        nodal == c.w[2] = <<0, 1>>
    IN PcZero \/
       /\ (c.interp = "quat" =>
             /\ MatTMat(x.A, x.A, <<"v", "v">>) = Id3                                             \* a rotation ...
             /\ RMatAdd(MatTMat(x.A, x.A, <<"d", "v">>), MatTMat(x.A, x.A, <<"v", "d">>)) = Z33)  \* ... to first order
       /\ (nodal =>                                                                               \* at a node: the nodal values
             /\ \A k \in 1..3 : x.r[k].v = R(r.r[1][k])
             /\ Flat(x.A) = Flat(DQuatR(NodeP(r, 1)))
             /\ \A k \in 1..3 : x.BOm[k].v = Q(c.om[k]))
\* the curvature formula is the axial vector of A^T A' (A' = change of A when P moves along P')
CurvatureOK(c) ==
    LET P == [k \in 1..4 |-> DD(Q(c.P1[k]), Q(c.P2[k]))]          \* P1 + eps P2: P' = P2
        A == DQuatR(P)
        W == MatTMat(A, A, <<"v", "d">>)                          \* A^T A'
        s == DQuatS(P).v
        pv == <<P[2], P[3], P[4]>>
        p0 == P[1].v  p0p == P[1].d
        cr == <<RSub(RMul(pv[2].v, pv[3].d), RMul(pv[3].v, pv[2].d)), RSub(RMul(pv[3].v, pv[1].d), RMul(pv[1].v, pv[3].d)), RSub(RMul(pv[1].v, pv[2].d), RMul(pv[2].v, pv[1].d))>>
        kap == [k \in 1..3 |-> RMul(RMul(RI(2), RSub(RSub(RMul(p0, pv[k].d), RMul(p0p, pv[k].v)), cr[k])), RInv(s))]
    IN /\ W[3][2] = kap[1] /\ W[1][3] = kap[2] /\ W[2][1] = kap[3]
       /\ RAdd(W[3][2], W[2][3]) = Zero /\ RAdd(W[1][3], W[3][1]) = Zero /\ RAdd(W[2][1], W[1][2]) = Zero
NodeOK(c) ==
    LET u == [P |-> QV(c.P1), om |-> QV(c.om), dk |-> "u", dcomp |-> c.comp - 4 + 1]
        k == Node([u EXCEPT !.dcomp = IF c.comp - 3 <= 3 THEN c.comp - 3 ELSE 1])
        dot(a, b) == RAdd(RAdd(RMul(a[1], b[1]), RMul(a[2], b[2])), RAdd(RMul(a[3], b[3]), RMul(a[4], b[4])))
        Pv == [i \in 1..4 |-> k.P[i].v]
        s == dot(Pv, Pv)
        \* the as-found q_dot_u: the column of T_inv built from P / |P| (only rational if |P| is; compare squares: |col|^2 s = |true col|^2)
        col == [i \in 1..4 |-> k.qd[i].d]
    IN /\ dot(Pv, [i \in 1..4 |-> k.qd[i].v]) = Zero                   \* q_dot keeps |P|^2 (to first order)
       /\ dot(Pv, col) = Zero
       /\ (Impl = "as_found" => s = One)                               \* the normalised column is the derivative only for unit quaternions
       /\ RMul(RI(4), dot(col, col)) = s                               \* |dP_dot/dom_c|^2 = |P|^2 / 4 : the true column scales with |P|
\* ---- objectivity and self-equilibrium (C10), on the same lattice
\* a rigid motion of the whole element: r_i -> R(Q0) r_i + d,  P_i -> Q0 o P_i
Moved(r, Q0, d) ==
    LET Qd == [k \in 1..4 |-> DC(Q(Q0[k]))]
        R0 == DQuatR(Qd)
        mv(x) == LET y == DMatVec(R0, <<DC(R(x[1])), DC(R(x[2])), DC(R(x[3]))>>) IN <<RAdd(y[1].v, Q(d[1])), RAdd(y[2].v, Q(d[2])), RAdd(y[3].v, Q(d[3]))>>
        mp(x) == LET y == DQProd(Qd, <<DC(R(x[1])), DC(R(x[2])), DC(R(x[3])), DC(R(x[4]))>>) IN <<y[1].v, y[2].v, y[3].v, y[4].v>>
    IN [r EXCEPT !.r = <<mv(r.r[1]), mv(r.r[2])>>, !.P = <<mp(r.P[1]), mp(r.P[2])>>]
WeakRec(r) == [r EXCEPT !.form = "db", !.Ei = QV(<<5, 1, 2>>), !.Fi = QV(<<1, 2, 3>>),
                        !.qps = <<[N |-> r.N, Nxi |-> r.Nxi, Np |-> r.N, Npxi |-> r.Nxi, w |-> <<3, 2>>, J |-> <<2, 1>>, Gam0 |-> QV(<<1, 0, 0>>), Kap0 |-> QV(<<0, 0, 0>>),
                                    n |-> QV(<<0, 0, 0>>), m |-> QV(<<0, 0, 0>>), Nla |-> <<<<1, 1>>>>]>>]
Vals(x) == [k \in 1..Len(x) |-> x[k].v]
ObjectiveOK(c) ==
    LET r0 == [CaseRec(c) EXCEPT !.dk = "none"]
        r == r0
        Q0 == IF c.comp % 2 = 0 THEN <<1, 1, 0, 0>> ELSE <<1, 0 - 1, 1, 1>>
        rm == Moved(r, Q0, <<1, 0 - 2, 3>>)
        PcZero == \A k \in 1..4 : RAdd(RMul(R(c.w[1]), Q(c.P1[k])), RMul(R(c.w[2]), Q(c.P2[k]))) = Zero
        x == Section(r)  y == Section(rm)
        R0 == DQuatR([k \in 1..4 |-> DC(Q(Q0[k]))])
        w == Weak(WeakRec(r))  wm == Weak(WeakRec(rm))
        fr(ww, node) == <<ww.f[(node - 1) * 6 + 1], ww.f[(node - 1) * 6 + 2], ww.f[(node - 1) * 6 + 3]>>
    IN PcZero \/
       /\ Vals(y.Gam) = Vals(x.Gam) /\ Vals(y.Kap) = Vals(x.Kap)                                  \* strain measures are objective
       /\ \A node \in 1..2 : /\ Vals(fr(wm, node)) = Vals(DMatVec(R0, fr(w, node)))               \* nodal forces turn with the motion
                              /\ \A k \in 4..6 : wm.f[(node - 1) * 6 + k].v = w.f[(node - 1) * 6 + k].v   \* body-fixed couples are unchanged
       /\ \A k \in 1..3 : RAdd(w.f[k].v, w.f[6 + k].v) = Zero                                     \* the nodal forces have zero resultant
IdentitiesOK == Mode = "identities" => (SectionOK(case) /\ CurvatureOK(case) /\ NodeOK(case))
ObjectivityOK == Mode = "identities" => ObjectiveOK(case)

TraceLog == IF Mode = "trace" THEN ndJsonDeserialize(IOEnv.TRACE_FILE) ELSE <<>>
Init == IF Mode = "identities" THEN case \in Cases /\ l = 0 /\ verdicts = <<>> ELSE case = <<>> /\ l = 1 /\ verdicts = <<>>
Step ==
    /\ Mode = "trace"
    /\ \/ /\ l <= Len(TraceLog)
          /\ LET r == TraceLog[l]  v == IF r.kind = "X" THEN XVerdict(r) ELSE IF r.kind = "W" THEN WVerdict(r) ELSE KVerdict(r) IN
             verdicts' = IF v = "" THEN verdicts ELSE Append(verdicts, [id |-> r.id, clause |-> v])
          /\ l' = l + 1
       \/ /\ l = Len(TraceLog) + 1
          /\ PrintT(<<"VERDICTS", verdicts>>)
          /\ l' = l + 1 /\ UNCHANGED verdicts
    /\ UNCHANGED case
Next == Step
Spec == Init /\ [][Next]_vars
=============================================================================
