-------------------------- MODULE ForceLawAssembly --------------------------
(***************************************************************************)
(* Assembly of a scalar force law (Spring, KelvinVoigtElement in force or  *)
(* compliance form, MaxwellElement) attached without a reference length to *)
(* a subsystem that provides a scalar coordinate l (TwoPointInteraction or *)
(* Revolute joint), as System.assemble performs it (C09).                  *)
(*                                                                         *)
(* Phase 1 walks the contribution list and gives every member its t0 and,  *)
(* if it owns coordinates, its index sets and q0/u0.  Phase 2 calls the    *)
(* assembler callbacks in list order.  A callback READS attributes of      *)
(* other objects and PROVIDES attributes of its own object; reading an     *)
(* attribute nobody has provided is the AttributeError of the code.        *)
(* A force law computes its default reference length in its callback as    *)
(* l(t0, q0) of its subsystem, so it needs the subsystem's t0, q0 and l.   *)
(*                                                                         *)
(* Impl = "as_found" is the pinned tree: Revolute joints never provide q0  *)
(* and MaxwellElement does not run its subsystem's callback itself.        *)
(***************************************************************************)
EXTENDS Integers, Sequences, FiniteSets, TLC

CONSTANTS Impl

VARIABLES cfg,    \* [law, sub, reg, angle0]  the configuration under study
          order,  \* contribution list (sequence of object names) for this configuration
          prov,   \* object -> set of attributes provided so far
          pc,     \* 0: before phase 1; k >= 1: next callback is the k-th member; Len+1: done
          err,    \* "none" or the missing attribute
          lref    \* "unset" | "l(t0,q0)"  the law's reference length after assembly

vars == <<cfg, order, prov, pc, err, lref>>

Laws == {"Spring_c", "Spring_f", "KelvinVoigt_c", "KelvinVoigt_f", "Maxwell"}
Subs == {"TwoPoint", "Revolute"}
Regs == {"not_added", "before", "after"}     \* is the subsystem object itself added to the system, before/after the law

Objects == {"body", "origin", "sub", "law"}

\* combinations the library documents (docstrings: "e.g., Revolute, TwoPointInteraction") and that make sense:
\* a joint is a constraint and is always part of the system
Supported(c) == ~(c.sub = "Revolute" /\ c.reg = "not_added")

ListOf(c) ==
    CASE c.reg = "not_added" -> <<"origin", "body", "law">>
      [] c.reg = "before"    -> <<"origin", "body", "sub", "law">>
      [] c.reg = "after"     -> <<"origin", "body", "law", "sub">>

\* body: the second subsystem is a rigid body or the tip cross-section of a multi-element Cosserat rod (whose
\* element coordinates are a non-contiguous subset of the rod's coordinates);  history: the configuration is
\* built in a fresh session, or after another system containing a default Maxwell element was simulated and
\* re-initialised with set_new_initial_state in the same session (objects must not share initial-state arrays)
\* history "late_add": the system (body and, if registered, the subsystem) was assembled, moved to a new configuration with
\* set_new_initial_state (the joint rotated / the points moved apart), and only then the law is added and the system assembled
\* again: the default reference is the value of the scalar coordinate at the CURRENT t0, q0
\* history "used_then_reset": the assembled system is used (the law is evaluated at configurations away from the initial one, the joint turned
\* forward and back beyond its initial angle, the points moved), then System.reset() is called: the initial configuration is stress free again
Configs == [law : Laws, sub : Subs, reg : Regs, angle0 : {"zero", "nonzero"}, body : {"rigid", "rod"},
            history : {"fresh", "after_restart", "late_add", "used_then_reset"}]

Init == /\ cfg \in {c \in Configs : /\ (c.sub = "TwoPoint" => c.angle0 = "zero")
                                   /\ (c.body = "rod" => c.sub = "TwoPoint")
                                   /\ (c.history = "late_add" => (c.reg # "after" /\ c.body = "rigid"))
                                   /\ (c.history = "used_then_reset" => c.body = "rigid")}
        /\ order = ListOf(cfg)
        /\ prov = [o \in Objects |-> {}]
        /\ pc = 0 /\ err = "none" /\ lref = "unset"

Members == {order[i] : i \in 1..Len(order)}

\* phase 1: t0 for every member; owners of coordinates get index sets and initial state
Phase1 ==
    /\ pc = 0
    /\ prov' = [o \in Objects |->
                  IF o \notin Members THEN {}
                  ELSE IF o \in {"body", "origin"} THEN {"t0", "qDOF", "uDOF", "q0", "u0"}
                  ELSE IF o = "law" /\ cfg.law = "Maxwell" THEN {"t0", "my_qDOF", "q0"}
                  ELSE {"t0"}]
    /\ pc' = 1
    /\ UNCHANGED <<cfg, order, err, lref>>

\* what the subsystem's own callback reads and provides
SubReads == {<<"body", "qDOF">>, <<"body", "uDOF">>, <<"body", "q0">>, <<"body", "t0">>,
             <<"origin", "qDOF">>, <<"origin", "q0">>, <<"origin", "t0">>}
SubProvides ==
    IF cfg.sub = "TwoPoint" THEN {"qDOF", "uDOF", "t0", "q0", "u0", "l"}
    ELSE IF Impl = "as_found" THEN {"qDOF", "uDOF", "l"}          \* Revolute: no q0
    ELSE {"qDOF", "uDOF", "l", "q0", "u0"}

Missing(p, reads) == {r \in reads : r[2] \notin p[r[1]]}

\* run the subsystem callback on attribute map p: result [p, err]
RunSub(p) ==
    LET m == Missing(p, SubReads) IN
    IF m # {} THEN [p |-> p, err |-> (CHOOSE r \in m : TRUE)[2]]
    ELSE [p |-> [p EXCEPT !["sub"] = @ \cup SubProvides], err |-> "none"]

LawRunsSubCallback == cfg.law # "Maxwell" \/ Impl = "intended"

LawReads == {<<"sub", "qDOF">>, <<"sub", "uDOF">>, <<"sub", "t0">>, <<"sub", "q0">>, <<"sub", "l">>}
            \cup (IF cfg.law = "Maxwell" THEN {<<"law", "my_qDOF">>} ELSE {})

RunLaw(p) ==
    LET r1 == IF LawRunsSubCallback THEN RunSub(p) ELSE [p |-> p, err |-> "none"] IN
    IF r1.err # "none" THEN r1
    ELSE LET m == Missing(r1.p, LawReads) IN
         IF m # {} THEN [p |-> r1.p, err |-> (CHOOSE r \in m : TRUE)[2]]
         ELSE [p |-> [r1.p EXCEPT !["law"] = @ \cup {"qDOF", "uDOF", "l_ref"}], err |-> "none"]

Callback ==
    /\ pc \in 1..Len(order)
    /\ err = "none"
    /\ LET o == order[pc]
           res == CASE o = "sub" -> RunSub(prov)
                    [] o = "law" -> RunLaw(prov)
                    [] OTHER     -> [p |-> prov, err |-> "none"]
       IN /\ prov' = res.p
          /\ err' = res.err
          /\ lref' = IF o = "law" /\ res.err = "none" THEN "l(t0,q0)" ELSE lref
    /\ pc' = pc + 1
    /\ UNCHANGED <<cfg, order>>

Next == Phase1 \/ Callback
Spec == Init /\ [][Next]_vars

Done == pc = Len(order) + 1 \/ err # "none"

\* C09: every supported configuration assembles ...
CallbackPreconditionsMet == Supported(cfg) => err = "none"
\* ... and the default reference length is the initial value of the scalar coordinate (zero force, zero energy)
DefaultIsStressFree == (Supported(cfg) /\ pc = Len(order) + 1 /\ err = "none") => lref = "l(t0,q0)"
=============================================================================
