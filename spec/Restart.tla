------------------------------- MODULE Restart -------------------------------
(***************************************************************************)
(* Restarting a simulation (C24): deepcopy -> set_new_initial_state ->      *)
(* assemble -> solve, on a planar two-link mechanism with a joint between  *)
(* the two MOVING links that carries a rotational spring.                  *)
(*                                                                         *)
(* Poses are sectors of an N-sector circle: a is the absolute rotation of  *)
(* link 1, b the rotation of link 2 relative to link 1 (accumulated).      *)
(* When a joint is assembled it CAPTURES, from the poses of its two bodies *)
(* and from the world point/frame that define it, a body-fixed joint point *)
(* and body-fixed joint bases.  The world data belong to the pose at which *)
(* the joint was defined (defPose); the body poses used in the capture are *)
(* capPose.  The captured body-fixed data are those of the original joint  *)
(* iff capPose = defPose.  The joint angle is tracked like in              *)
(* RevoluteAngle (full-turn counter + previous quadrant).                  *)
(*                                                                         *)
(* Actions (one per public call):                                          *)
(*   Advance(da, db)  solver steps: the mechanism moves, the spring on the *)
(*                    joint queries the angle at the new pose              *)
(*   DeepCopy         system.deepcopy(); work continues on the copy        *)
(*   Restart          set_new_initial_state(q, u, t) at the current state  *)
(*                    (re-assembles); a new solve leg starts here          *)
(*   PostProcess      the end of a solve whose solver evaluates the system *)
(*                    a posteriori along the stored rows of the leg, FROM  *)
(*                    ITS FIRST ROW (ScipyIVP computes accelerations and   *)
(*                    multipliers this way): the force law on the joint    *)
(*                    queries the angle at every row again                 *)
(*                                                                         *)
(* Impl = "intended": re-assembly keeps the captured data and the angle    *)
(* tracker.  Impl = "as_found" (pinned tree): re-assembly captures again   *)
(* from the CURRENT body poses but the ORIGINAL world data, and resets the *)
(* tracker.  Impl = "post_as_found" (ScipyIVP before its fix): the a        *)
(* posteriori evaluation retraces the rows with the tracker in the state   *)
(* the integration left it in, and leaves it wherever the retrace ends;    *)
(* intended: the retrace starts from the tracker state of the first row    *)
(* and the state reached by the integration is put back afterwards.        *)
(*                                                                         *)
(* Mode = "plans" only enumerates split plans of an NSteps-step run (the    *)
(* sequences of segment lengths, with nested splits), which the harness    *)
(* executes with every solver and compares with the uninterrupted run.     *)
(***************************************************************************)
EXTENDS Integers, Sequences, FiniteSets, TLC

CONSTANTS N,        \* sectors per turn (multiple of 4)
          MaxOps,
          Impl,
          Mode,     \* "mechanism" | "plans"
          NSteps    \* plans: steps of the uninterrupted run

VARIABLES a, b,          \* current pose
          defPose,       \* pose at which the joint was defined (its world data)
          capPose,       \* body poses used in the last capture
          nfull, prevq,  \* angle tracker of the joint
          angle,         \* last reported angle minus angle0, in sectors
          copies, restarts, nops,
          segs,          \* plans: segment lengths so far
          traj,          \* relative rotations b at the rows of the current solve leg, first row = its initial state
          snap,          \* tracker state that belongs to the first row of the leg
          rows,          \* angles the joint reported during the last a posteriori evaluation
          solved,        \* the leg has ended (a new one needs a restart)
          last

vars == <<a, b, defPose, capPose, nfull, prevq, angle, copies, restarts, nops, segs, traj, snap, rows, solved, last>>

Q == N \div 4
Quad(m) == IF m < Q THEN 1 ELSE IF m < 2 * Q THEN 2 ELSE IF m < 3 * Q THEN 3 ELSE 4

\* the relative rotation the joint SEES: measured from the frames it captured
Seen == b - capPose.b

Init == /\ a = 0 /\ b = 0
        /\ defPose = [a |-> 0, b |-> 0] /\ capPose = [a |-> 0, b |-> 0]
        /\ nfull = 0 /\ prevq = 1 /\ angle = 0
        /\ copies = 0 /\ restarts = 0 /\ nops = 0 /\ segs = <<>>
        /\ traj = <<0>> /\ snap = [nfull |-> 0, prevq |-> 1] /\ rows = <<>> /\ solved = FALSE
        /\ last = [op |-> "assemble"]

TrackFrom(tr, seen) ==
    LET q2 == Quad(seen % N)
        n2 == IF tr.prevq = 4 /\ q2 = 1 THEN tr.nfull + 1 ELSE IF tr.prevq = 1 /\ q2 = 4 THEN tr.nfull - 1 ELSE tr.nfull
    IN [nfull |-> n2, prevq |-> q2, angle |-> n2 * N + (seen % N)]
Track(seen) == TrackFrom([nfull |-> nfull, prevq |-> prevq], seen)

\* the joint evaluated at rows i.. of the leg, one after the other, starting with tracker state tr
RECURSIVE Retrace(_, _, _)
Retrace(tr, i, acc) ==
    IF i > Len(traj) THEN [tr |-> tr, angles |-> acc]
    ELSE LET t == TrackFrom(tr, traj[i] - capPose.b)
         IN Retrace([nfull |-> t.nfull, prevq |-> t.prevq], i + 1, Append(acc, t.angle))

Advance(da, db) ==
    /\ Mode = "mechanism" /\ ~solved
    /\ a' = a + da /\ b' = b + db
    /\ LET t == Track(b + db - capPose.b) IN nfull' = t.nfull /\ prevq' = t.prevq /\ angle' = t.angle
    /\ traj' = Append(traj, b + db)
    /\ last' = [op |-> "advance", da |-> da, db |-> db]
    /\ nops' = nops + 1
    /\ UNCHANGED <<defPose, capPose, copies, restarts, segs, snap, rows, solved>>

DeepCopy ==
    /\ Mode = "mechanism"
    /\ copies' = copies + 1
    /\ last' = [op |-> "deepcopy"]
    /\ nops' = nops + 1
    /\ UNCHANGED <<a, b, defPose, capPose, nfull, prevq, angle, restarts, segs, traj, snap, rows, solved>>

Restart ==
    /\ Mode = "mechanism"
    /\ restarts' = restarts + 1
    /\ IF Impl # "as_found"
         THEN UNCHANGED <<capPose, nfull, prevq, angle>>
         ELSE /\ capPose' = [a |-> a, b |-> b]        \* captured again from the current poses ...
              /\ nfull' = 0 /\ prevq' = 1 /\ angle' = 0  \* ... and the tracker starts over
    /\ traj' = <<b>> /\ snap' = [nfull |-> nfull', prevq |-> prevq'] /\ solved' = FALSE
    /\ last' = [op |-> "restart"]
    /\ nops' = nops + 1
    /\ UNCHANGED <<a, b, defPose, copies, segs, rows>>

PostProcess ==
    /\ Mode = "mechanism" /\ ~solved /\ Len(traj) >= 2
    /\ solved' = TRUE
    /\ IF Impl = "post_as_found"
         THEN LET r == Retrace([nfull |-> nfull, prevq |-> prevq], 1, <<>>)
              IN /\ rows' = r.angles
                 /\ nfull' = r.tr.nfull /\ prevq' = r.tr.prevq /\ angle' = r.angles[Len(r.angles)]
         ELSE LET r == Retrace(snap, 1, <<>>)
              IN /\ rows' = r.angles
                 /\ UNCHANGED <<nfull, prevq, angle>>      \* the state reached by the integration is put back
    /\ last' = [op |-> "postprocess"]
    /\ nops' = nops + 1
    /\ UNCHANGED <<a, b, defPose, capPose, copies, restarts, segs, traj, snap>>

\* split plans
Segment(k) ==
    /\ Mode = "plans"
    /\ LET done == IF segs = <<>> THEN 0 ELSE segs[Len(segs)].upto IN
       /\ done + k <= NSteps
       /\ segs' = Append(segs, [len |-> k, upto |-> done + k, copy |-> (Len(segs) % 2 = 0)])
    /\ last' = [op |-> "segment", k |-> k]
    /\ nops' = nops + 1
    /\ UNCHANGED <<a, b, defPose, capPose, nfull, prevq, angle, copies, restarts, traj, snap, rows, solved>>

Steps == {0 - 1, 0, 1}

Next ==
    /\ nops < MaxOps
    /\ \/ \E da \in Steps, db \in Steps : Advance(da, db)
       \/ DeepCopy
       \/ Restart
       \/ PostProcess
       \/ \E k \in 1..NSteps : Segment(k)

Spec == Init /\ [][Next]_vars

---------------------------------------------------------------------------
\* C24: re-initialising a system does not change the model it describes
ModelUnchanged == capPose = defPose
\* the joint angle keeps its meaning: initial angle plus the accumulated relative rotation
AngleKeepsMeaning == last.op = "advance" => angle = b
\* the tracker itself (not only the last reported angle) belongs to the current pose
TrackerKeepsMeaning == nfull * N + ((b - capPose.b) % N) = b
\* the a posteriori evaluation reports, for every row of the leg, the accumulated rotation at that row
RowsKeepMeaning == last.op = "postprocess" => (Len(rows) = Len(traj) /\ \A i \in 1..Len(rows) : rows[i] = traj[i])
\* plans: segments never overshoot the run
PlanOK == segs = <<>> \/ segs[Len(segs)].upto <= NSteps
=============================================================================
