------------------------------- MODULE UrdfFK -------------------------------
(***************************************************************************)
(* Forward kinematics of URDF trees (C28) by URDF semantics, in integer    *)
(* arithmetic over the octahedral rotation group.                          *)
(*                                                                         *)
(* A robot is a sequence of joints; joint i connects link parent[i] < i    *)
(* (0 = root link) to link i.  A joint has an origin (xyz, rpy) in the     *)
(* parent link frame -- rpy in quarter turns, R = Rz(yaw) Ry(pitch)        *)
(* Rx(roll) -- an axis (a signed coordinate axis of the joint frame), a    *)
(* type, a coordinate and a rate:                                          *)
(*   fixed                 no motion                                       *)
(*   revolute, continuous  rotation by q quarter turns about the axis      *)
(*   prismatic             displacement q along the axis                   *)
(*   planar                displacement (q, q2) in the joint frame's       *)
(*                         x-y plane (axis = z)                            *)
(*   floating              arbitrary displacement and octahedral rotation  *)
(* Every link has an inertial frame (xyz, rpy) in the link frame; the      *)
(* imported body must sit at the link's centre of mass with that           *)
(* orientation, and move with the twist that URDF semantics give it:       *)
(* the twist of the parent, plus the joint rate about/along the axis.      *)
(* The oracle is written from the URDF definition, not from the importer.  *)
(***************************************************************************)
EXTENDS QuatAlg

CONSTANTS Family,     \* "single" | "tree" : which cases are enumerated
          Stride      \* every Stride-th case (1: all)

VARIABLES case, frames, expected
vars == <<case, frames, expected>>

VAdd(a, b) == <<a[1] + b[1], a[2] + b[2], a[3] + b[3]>>
VScale(c, a) == <<c * a[1], c * a[2], c * a[3]>>
Z3 == <<0, 0, 0>>

\* ------------------------------------------------------------------ rotations by quarter turns
Cq(k) == CASE k % 4 = 0 -> 1 [] k % 4 = 1 -> 0 [] k % 4 = 2 -> 0 - 1 [] OTHER -> 0
Sq(k) == CASE k % 4 = 0 -> 0 [] k % 4 = 1 -> 1 [] k % 4 = 2 -> 0 [] OTHER -> 0 - 1
Rx(k) == <<<<1, 0, 0>>, <<0, Cq(k), 0 - Sq(k)>>, <<0, Sq(k), Cq(k)>>>>
Ry(k) == <<<<Cq(k), 0, Sq(k)>>, <<0, 1, 0>>, <<0 - Sq(k), 0, Cq(k)>>>>
Rz(k) == <<<<Cq(k), 0 - Sq(k), 0>>, <<Sq(k), Cq(k), 0>>, <<0, 0, 1>>>>
Rpy(t) == MatMul(Rz(t[3]), MatMul(Ry(t[2]), Rx(t[1])))          \* fixed-axis roll, pitch, yaw
\* rotation by k quarter turns about the signed coordinate axis a:  I + sin skew(a) + (1 - cos) skew(a)^2
RotAxis(a, k) == MatAdd(I3, MatAdd(MatScale(Sq(k), Skew(a)), MatScale(1 - Cq(k), MatMul(Skew(a), Skew(a)))))

\* ------------------------------------------------------------------ forward kinematics
\* frame = [r, A, v, w]: origin, basis, velocity of the origin, angular velocity (all in the inertial basis)
JointMotion(j) ==       \* [dr, dA, dv, dw] of the child frame relative to the joint frame, expressed in the joint frame
    CASE j.type = "fixed" -> [dr |-> Z3, dA |-> I3, dv |-> Z3, dw |-> Z3]
      [] j.type \in {"revolute", "continuous"} -> [dr |-> Z3, dA |-> RotAxis(j.axis, j.q), dv |-> Z3, dw |-> VScale(j.qd, j.axis)]
      [] j.type = "prismatic" -> [dr |-> VScale(j.q, j.axis), dA |-> I3, dv |-> VScale(j.qd, j.axis), dw |-> Z3]
      [] j.type = "planar" -> [dr |-> <<j.q, j.q2, 0>>, dA |-> I3, dv |-> <<j.qd, j.qd2, 0>>, dw |-> Z3]
      [] j.type = "floating" -> [dr |-> j.fr, dA |-> Rpy(j.frpy), dv |-> j.fv, dw |-> j.fw]
ChildFrame(p, j) ==
    LET Aj == MatMul(p.A, Rpy(j.rpy))                          \* joint frame
        rj == VAdd(p.r, MatVec(p.A, j.xyz))
        vj == VAdd(p.v, Cross(p.w, MatVec(p.A, j.xyz)))          \* velocity of the joint origin (fixed to the parent)
        m == JointMotion(j)
        off == MatVec(Aj, m.dr)
    IN [r |-> VAdd(rj, off),
        A |-> MatMul(Aj, m.dA),
        v |-> VAdd(VAdd(vj, Cross(p.w, off)), MatVec(Aj, m.dv)),
        w |-> VAdd(p.w, MatVec(Aj, m.dw))]
\* the body of a link: centre of mass and inertial basis
Body(f, inert) ==
    LET c == MatVec(f.A, inert.xyz)  AB == MatMul(f.A, Rpy(inert.rpy)) IN
    [r_OC |-> VAdd(f.r, c), A_IB |-> AB, v_C |-> VAdd(f.v, Cross(f.w, c)), B_Omega |-> MatVec(MatT(AB), f.w)]

RootFrame(c) == [r |-> c.root.r, A |-> Rpy(c.root.rpy), v |-> c.root.v, w |-> MatVec(Rpy(c.root.rpy), c.root.wR)]
\* the frames are built one joint per step (variable frames: frames[1] = root link, frames[i + 1] = link i)
NJ == Len(case.joints)
Complete == Len(frames) = NJ + 1
ExpectedNow == [root |-> Body(frames[1], case.root.inert), links |-> [i \in 1..NJ |-> Body(frames[i + 1], case.joints[i].inert)]]

\* ------------------------------------------------------------------ invariants of the oracle itself
IsRotation(M) == MatMul(M, MatT(M)) = I3 /\ Det(M) = 1
\* a joint of any type keeps the child on its joint manifold: the joint axis is the same vector in both frames (revolute, prismatic),
\* the child's origin stays on the axis (revolute) and a fixed joint transmits the parent's twist
OracleOK ==
    Complete =>
    \A i \in 1..NJ :
        LET j == case.joints[i]  p == frames[j.parent + 1]  c == frames[i + 1]  Aj == MatMul(p.A, Rpy(j.rpy))  ax == MatVec(Aj, j.axis) IN
        /\ IsRotation(c.A)
        /\ (j.type \in {"revolute", "continuous", "prismatic", "fixed"} => MatVec(c.A, j.axis) = ax)
        /\ (j.type \in {"revolute", "continuous"} => c.r = VAdd(p.r, MatVec(p.A, j.xyz)))
        /\ (j.type \in {"prismatic", "fixed", "planar"} => c.A = Aj)
        /\ (j.type = "fixed" => (c.w = p.w /\ c.v = VAdd(p.v, Cross(p.w, MatVec(p.A, j.xyz)))))

\* ------------------------------------------------------------------ cases
Inert0 == [xyz |-> Z3, rpy |-> <<0, 0, 0>>]
Inert1 == [xyz |-> <<1, 0, 2>>, rpy |-> <<1, 0, 3>>]
Inert2 == [xyz |-> <<0, 0 - 1, 0>>, rpy |-> <<0, 2, 1>>]
AxesAll == {<<1, 0, 0>>, <<0, 1, 0>>, <<0, 0, 1>>, <<0 - 1, 0, 0>>, <<0, 0 - 1, 0>>, <<0, 0, 0 - 1>>}
RpyFew == {<<0, 0, 0>>, <<1, 0, 0>>, <<0, 1, 0>>, <<0, 0, 1>>, <<1, 2, 3>>, <<3, 1, 0>>, <<2, 0, 1>>, <<0, 3, 2>>}
\* A floating joint takes a displacement fr, an orientation frpy, a linear rate fv and a relative angular velocity fw, all in the joint frame.
\* URDF does not say whether fv is the rate of fr or the velocity of the child-fixed point at the joint origin; the two readings differ by fw x fr,
\* so the cases with a relative spin (rate 2) have no displacement.
J(type, axis, xyz, rpy, q, qd, parent, inert) ==
    [type |-> type, axis |-> axis, xyz |-> xyz, rpy |-> rpy, q |-> q, qd |-> qd, q2 |-> 1 - q, qd2 |-> 2, parent |-> parent, inert |-> inert,
     fr |-> IF qd = 2 THEN <<0, 0, 0>> ELSE <<q, 1, 0 - 2>>, frpy |-> <<q, 1, 2>>, fv |-> <<qd, 0, 1>>, fw |-> IF qd = 2 THEN <<1, 2, 0 - 1>> ELSE <<0, 0, 0>>]
Roots == {[r |-> Z3, rpy |-> <<0, 0, 0>>, v |-> Z3, wR |-> Z3, floating |-> FALSE, inert |-> Inert0],
          [r |-> <<1, 0 - 2, 3>>, rpy |-> <<1, 0, 2>>, v |-> Z3, wR |-> Z3, floating |-> FALSE, inert |-> Inert1],
          [r |-> <<0, 1, 1>>, rpy |-> <<0, 3, 1>>, v |-> <<1, 0, 0 - 1>>, wR |-> <<0, 2, 1>>, floating |-> TRUE, inert |-> Inert2]}
Types == {"fixed", "revolute", "continuous", "prismatic", "planar", "floating"}
SingleCases ==
    {[root |-> r, joints |-> <<J(t, IF t = "planar" THEN <<0, 0, 1>> ELSE a, <<2, 0 - 1, 1>>, o, q, qd, 0, Inert1)>>] :
        r \in Roots, t \in Types, a \in AxesAll, o \in RpyFew, q \in {0, 1, 3}, qd \in {0, 2}}
\* trees: three joints drawn from a menu, every parent assignment
Menu == {J("revolute", <<0, 0, 1>>, <<1, 0, 0>>, <<0, 0, 0>>, 1, 1, 0, Inert1),
         J("continuous", <<0, 0 - 1, 0>>, <<0, 2, 1>>, <<1, 0, 3>>, 2, 0 - 1, 0, Inert2),
         J("prismatic", <<1, 0, 0>>, <<0, 0, 1>>, <<0, 1, 0>>, 2, 1, 0, Inert1),
         J("fixed", <<1, 0, 0>>, <<1, 1, 0>>, <<2, 0, 1>>, 0, 0, 0, Inert2),
         J("floating", <<1, 0, 0>>, <<0, 1, 0>>, <<0, 0, 2>>, 1, 2, 0, Inert1),
         J("planar", <<0, 0, 1>>, <<0, 0, 1>>, <<1, 3, 0>>, 2, 1, 0, Inert0),
         J("revolute", <<1, 0, 0>>, <<0 - 1, 0, 2>>, <<3, 0, 1>>, 3, 2, 0, Inert0)}
WithParent(j, p) == [j EXCEPT !.parent = p]
TreeCases ==
    {[root |-> r, joints |-> <<WithParent(a, 0), WithParent(b, pb), WithParent(c, pc)>>] :
        r \in Roots, a \in Menu, b \in Menu, c \in Menu, pb \in 0..1, pc \in 0..2}

\* a deterministic thinning that keeps every joint type, axis and root
Hash(c) == LET h[i \in 0..Len(c.joints)] == IF i = 0 THEN c.root.r[1] + 2 * c.root.rpy[1]
                                             ELSE h[i - 1] * 7 + c.joints[i].q + 3 * c.joints[i].qd + 5 * c.joints[i].rpy[1] + 11 * c.joints[i].rpy[3] + 13 * c.joints[i].axis[2]
                                                  + 17 * c.joints[i].axis[3] + 19 * c.joints[i].parent + 23 * Len(c.joints[i].type)
           IN h[Len(c.joints)]
Init == /\ case \in (IF Family = "single" THEN SingleCases ELSE TreeCases)
        /\ Hash(case) % Stride = 0
        /\ frames = <<RootFrame(case)>>
        /\ expected = <<>>
AddLink == /\ ~Complete
           /\ LET i == Len(frames)  j == case.joints[i] IN frames' = Append(frames, ChildFrame(frames[j.parent + 1], j))
           /\ UNCHANGED <<case, expected>>
Finish == /\ Complete /\ expected = <<>>
          /\ expected' = ExpectedNow
          /\ UNCHANGED <<case, frames>>
Next == AddLink \/ Finish
Spec == Init /\ [][Next]_vars
=============================================================================
