---------------------------- MODULE ForceElements ----------------------------
(***************************************************************************)
(* Force elements (C07) in exact rational arithmetic.                      *)
(*                                                                         *)
(* Scalar force laws act on a scalar elongation l with rate ldot:          *)
(*   spring        la = -k e,            e = l - lref,     E = k e^2 / 2   *)
(*   Kelvin-Voigt  la = -k e - d ldot,                     E = k e^2 / 2   *)
(*   Maxwell       la = -k e,            e = l - ld - lref, E = k e^2 / 2, *)
(*                 ld' = (k / eta) e     (internal damper elongation)      *)
(* The generalized force is la W_l with W_l^T u = ldot (plus the rate due   *)
(* to prescribed motion), so the power the element delivers is la ldot.  The compliance form states   *)
(* the same law as  c(l, ldot, la) = la / k + e + (d / k) ldot = 0.        *)
(* The spec states the laws and the energy; the energy rate is obtained by *)
(* an exact central difference of E along the motion.  TLC checks on a     *)
(* rational lattice: the force is minus the energy's derivative plus the   *)
(* damper force, the compliance residual vanishes at the force-form force, *)
(* and power + energy rate = -d ldot^2 resp. -(k^2/eta) e^2 <= 0.          *)
(* A dead load F at a body point r has E = -F.r and power F.v.             *)
(*                                                                         *)
(* Mode "trace": records taken from the real Spring / KelvinVoigtElement / *)
(* MaxwellElement on real TwoPointInteractions at configurations with      *)
(* integer point distance, and from real Force objects, are recomputed.    *)
(***************************************************************************)
EXTENDS Integers, Sequences, FiniteSets, TLC, RatAlg, Json, IOUtils

CONSTANTS Mode

RSq(x) == RMul(x, x)
\* elongation of the spring
Elong(r) == IF r.law = "maxwell" THEN RSub(RSub(r.l, r.ld), r.lref) ELSE RSub(r.l, r.lref)
Damp(r) == IF r.law = "kv" THEN r.d ELSE RI(0)
LaC(r) == RSub(RNeg(RMul(r.k, Elong(r))), RMul(Damp(r), r.ldot))
E2of(r, e) == RMul(r.k, RSq(e))                                        \* twice the stored energy
LdRate(r) == IF r.law = "maxwell" THEN RMul(RMul(r.k, RNorm(<<r.d[2], r.d[1]>>)), Elong(r)) ELSE RI(0)      \* (k / eta) e, eta = r.d
\* rate of the elongation along the motion and the energy rate by an exact central difference of the quadratic E
ERate(r) == RSub(r.ldot, LdRate(r))
EDot(r) == LET e == Elong(r)  de == ERate(r) IN RMul(RSub(E2of(r, RAdd(e, de)), E2of(r, RSub(e, de))), <<1, 4>>)
Power(r) == RMul(LaC(r), r.ldot)
\* compliance residual at a force la
CRes(r, la) == RAdd(RAdd(RMul(la, RNorm(<<r.k[2], r.k[1]>>)), Elong(r)), RMul(RMul(Damp(r), RNorm(<<r.k[2], r.k[1]>>)), r.ldot))
Dissipation(r) == RAdd(Power(r), EDot(r))

LawOK(r) ==
    /\ CRes(r, LaC(r)) = RI(0)                                           \* compliance form describes the same force
    /\ Dissipation(r) = (IF r.law = "maxwell" THEN RNeg(RMul(RMul(RSq(r.k), RNorm(<<r.d[2], r.d[1]>>)), RSq(Elong(r))))
                         ELSE RNeg(RMul(Damp(r), RSq(r.ldot))))          \* exactly the damper's dissipation
    /\ RLeq(Dissipation(r), RI(0))                                        \* never generates energy
    /\ (r.law = "spring" => Dissipation(r) = RI(0))                       \* a spring does exactly the work its energy predicts

\* ------------------------------------------------------------------ trace verdicts
R(x) == RNorm(<<x[1], x[2]>>)
Rec(r) == [law |-> r.law, k |-> R(r.k), d |-> R(r.d), lref |-> R(r.lref), l |-> R(r.l), ldot |-> R(r.ldot), ld |-> R(r.ld)]
LVerdict(r) ==
    LET c == Rec(r) IN
    IF R(r.ldotgeo) # c.ldot THEN "l_dot is not the rate of the distance of the two points"
    ELSE IF R(r.Wlu) # R(r.wlugeo) THEN "W_l^T u is not the part of the distance rate that is due to u (force direction and elongation rate disagree)"
    ELSE IF R(r.la) # LaC(c) THEN "the force is not the law's force"
    ELSE IF R(r.E2) # E2of(c, Elong(c)) THEN "the potential energy is not k e^2 / 2"
    ELSE IF r.compliance /\ R(r.cres) # RI(0) THEN "the compliance residual does not vanish at the force-form force"
    ELSE IF r.compliance /\ R(r.claforce) # CRes(c, R(r.laprobe)) THEN "the compliance residual is not la/k + e + (d/k) l_dot"
    ELSE IF R(r.hu) # RMul(LaC(c), R(r.Wlu)) THEN "the generalized force power h.u is not la_c W_l^T u"
    ELSE IF r.law = "maxwell" /\ R(r.qd) # LdRate(c) THEN "the damper elongation rate is not (k/eta) e"
    ELSE IF ~LawOK(c) THEN "the element generates energy"
    ELSE ""
Dot3(a, b) == a[1] * b[1] + a[2] * b[2] + a[3] * b[3]
FVerdict(r) ==
    IF r.E # 0 - Dot3(r.F, r.r) THEN "the dead load's potential energy is not -F . r_OP at its point of attack"
    ELSE IF r.hu # Dot3(r.F, r.v) THEN "the dead load's power h.u is not F . v_P (minus the rate of its potential energy)"
    ELSE ""

\* ------------------------------------------------------------------ lattice for the identities
VARIABLES case, l, verdicts
vars == <<case, l, verdicts>>
Rs == {<<0, 1>>, <<2, 1>>, <<0 - 3, 2>>, <<5, 3>>}
Cases == [law : {"spring", "kv", "maxwell"}, k : {<<2, 1>>, <<3, 2>>}, d : {<<1, 1>>, <<5, 2>>}, lref : {<<1, 1>>, <<0, 1>>}, l : {<<3, 1>>, <<5, 2>>, <<1, 3>>},
          ldot : Rs, ld : {<<0, 1>>, <<1, 2>>}]
IdentitiesOK == Mode = "identities" => LawOK(case)

TraceLog == IF Mode = "trace" THEN ndJsonDeserialize(IOEnv.TRACE_FILE) ELSE <<>>
Init == IF Mode = "identities" THEN case \in Cases /\ l = 0 /\ verdicts = <<>> ELSE case = <<>> /\ l = 1 /\ verdicts = <<>>
Step ==
    /\ Mode = "trace"
    /\ \/ /\ l <= Len(TraceLog)
          /\ LET r == TraceLog[l]  v == IF r.kind = "L" THEN LVerdict(r) ELSE FVerdict(r) IN
             verdicts' = IF v = "" THEN verdicts ELSE Append(verdicts, [id |-> r.id, clause |-> v])
          /\ l' = l + 1
       \/ /\ l = Len(TraceLog) + 1
          /\ PrintT(<<"VERDICTS", verdicts>>)
          /\ l' = l + 1 /\ UNCHANGED verdicts
    /\ UNCHANGED case
Next == Step
Spec == Init /\ [][Next]_vars
=============================================================================
