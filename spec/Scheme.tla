------------------------------- MODULE Scheme -------------------------------
(***************************************************************************)
(* Which residual blocks every integrator enforces at which point of a     *)
(* step (C17), and trace validation of recorded steps against that table.  *)
(*                                                                         *)
(* Blocks                                                                  *)
(*   "g"        position-level bilateral constraints at the stored state   *)
(*   "gdot"     velocity-level bilateral constraints at the stored state   *)
(*   "gdot_mid" velocity-level constraints at the step's midpoint          *)
(*              configuration with the end-of-step velocity                *)
(*   "quat"     unit length of every stored orientation quaternion         *)
(*   "eom"      equations of motion with the reported accelerations and    *)
(*              multipliers                                                *)
(*   "gddot"    acceleration-level constraints with the reported           *)
(*              accelerations                                              *)
(*   "drift"    no growth of the constraint residual over the run          *)
(* Static solvers (C23): every returned load step / arc-length point       *)
(*   "equilibrium"  h(t, q, 0) + W_g la_g + W_c la_c + W_N la_N = 0        *)
(*   "c"            compliance equations                                   *)
(*   "signorini"    min(la_N, g_N) = 0                                     *)
(*   "frame"        the equilibria of the rigidly moved problem are the    *)
(*                  moved equilibria                                       *)
(* The harness evaluates the residuals of every stored step from the       *)
(* returned Solution with System.g / g_dot / g_ddot / M / h / W_*, and     *)
(* classifies each block as "ok", "borderline" (within a factor 100 of the *)
(* threshold: not judged) or "violated"; TLC evaluates the table on every  *)
(* record.                                                                 *)
(***************************************************************************)
EXTENDS Integers, Sequences, FiniteSets, TLC, Json, IOUtils

CONSTANTS Mode      \* "table" | "trace"

Blocks == {"g", "gdot", "gdot_mid", "quat", "eom", "gddot", "drift", "equilibrium", "c", "signorini", "frame"}
Solvers == {"Rattle", "BackwardEuler", "DualStormerVerlet", "Moreau", "ScipyDAE", "ScipyIVP", "Newton", "Riks"}
Static == {"Newton", "Riks"}
Enforced(s) ==
    CASE s = "Rattle"            -> {"g", "gdot", "quat"}
      [] s = "BackwardEuler"     -> {"g", "quat"}
      [] s = "DualStormerVerlet" -> {"g", "quat"}
      [] s = "Moreau"            -> {"gdot_mid", "quat"}
      [] s = "ScipyDAE"          -> {"g", "gdot", "drift"}
      [] s = "ScipyIVP"          -> {"eom", "gddot"}
      [] s = "Newton"            -> {"equilibrium", "g", "c", "quat", "signorini", "frame"}
      [] s = "Riks"              -> {"equilibrium", "g", "c", "quat", "frame"}
\* every solver enforces something on the bilateral constraints, and only known blocks
TableOK == /\ \A s \in Solvers : Enforced(s) \subseteq Blocks /\ Enforced(s) \cap {"g", "gdot", "gdot_mid", "gddot"} # {}
           /\ \A s \in Static : {"equilibrium", "g", "c", "quat"} \subseteq Enforced(s)      \* a returned point is an equilibrium of the whole model

SeqToSet(q) == {q[i] : i \in DOMAIN q}
Verdict(r) ==
    IF r.solver \notin Solvers THEN "MACHINERY: unknown solver"
    ELSE LET bad == SeqToSet(r.violated) \cap Enforced(r.solver) IN
         IF bad = {} THEN ""
         ELSE IF "g" \in bad THEN "a stored step violates the position-level constraints"
         ELSE IF "gdot" \in bad THEN "a stored step violates the velocity-level constraints"
         ELSE IF "gdot_mid" \in bad THEN "the velocity-level constraints are violated at the step's midpoint configuration"
         ELSE IF "quat" \in bad THEN "a stored orientation quaternion is not of unit length"
         ELSE IF "eom" \in bad THEN "reported accelerations and multipliers do not satisfy the equations of motion"
         ELSE IF "gddot" \in bad THEN "reported accelerations violate the acceleration-level constraints"
         ELSE IF "equilibrium" \in bad THEN "a returned load step is not in static equilibrium"
         ELSE IF "c" \in bad THEN "a returned load step violates the compliance equations"
         ELSE IF "signorini" \in bad THEN "a returned load step violates the static Signorini conditions"
         ELSE IF "frame" \in bad THEN "the equilibria of the rigidly moved problem are not the moved equilibria"
         ELSE "the constraint residual drifts"

VARIABLES l, verdicts
vars == <<l, verdicts>>
TraceLog == IF Mode = "trace" THEN ndJsonDeserialize(IOEnv.TRACE_FILE) ELSE <<>>
Init == l = 1 /\ verdicts = <<>>
Step ==
    /\ Mode = "trace"
    /\ \/ /\ l <= Len(TraceLog)
          /\ LET r == TraceLog[l]  v == Verdict(r) IN
             verdicts' = IF v = "" THEN verdicts ELSE Append(verdicts, [id |-> r.id, clause |-> v])
          /\ l' = l + 1
       \/ /\ l = Len(TraceLog) + 1
          /\ PrintT(<<"VERDICTS", verdicts>>)
          /\ l' = l + 1 /\ UNCHANGED verdicts
Next == Step
Spec == Init /\ [][Next]_vars
=============================================================================
