---------------------------- MODULE ForceJacobians ----------------------------
(***************************************************************************)
(* Jacobians of force elements and actuators (C08), decided in DUAL        *)
(* NUMBERS OVER EXACT RATIONALS.                                           *)
(*                                                                         *)
(* A dual number a + eps b (eps^2 = 0) is a record [v |-> a, d |-> b] of   *)
(* rationals.  If a quantity is evaluated with its arguments moved by eps  *)
(* along a direction, its d-part is its derivative along that direction:   *)
(* no limit is taken and nothing is approximated.                          *)
(*   sqrt:  the root s of a.v is GIVEN (configurations with rational point *)
(*          distance) and checked, sqrt(a) = s + eps a.d / (2 s)           *)
(*   angle: the angle of the planar vector (x, y) enters only through its  *)
(*          derivative (x y' - y x') / (x^2 + y^2); the law's elongation   *)
(*          l - l_ref is a given lattice number                            *)
(*                                                                         *)
(* Layer 1, the scalar interaction (what a law or actuator acts on):       *)
(*   two points   l = |r|, r = r2 - r1;  l_dot = n . (v2 - v1), n = r / l; *)
(*                W_l[j] = n . J[j]  (J[j] = d(v2 - v1)/du_j)              *)
(*   revolute     l = angle of (x, y) = (ea2 . ea1, ea2 . eb1);            *)
(*                l_dot = Om . ec1 (Om = Omega2 - Omega1);                 *)
(*                W_l[j] = ec1 . J[j]  (J[j] = dOm/du_j)                   *)
(* Layer 2, the element:                                                   *)
(*   spring / Kelvin-Voigt   la = -k e - d l_dot, e = l - l_ref;           *)
(*                           h = la W_l;  c = la_c / k + e + (d/k) l_dot;  *)
(*                           W_c la_c = la_c W_l                           *)
(*   Maxwell                 e = l - l_d - l_ref, la = -k e, h = la W_l,   *)
(*                           l_d' = (k / eta) e                            *)
(*   motor                   la_tau = tau,          W_tau la_tau           *)
(*   PD controller           la_tau = -(kp (l - tau0) + kd (l_dot - tau1)) *)
(*   PID controller          la_tau = -(ki I + kp (..) + kd (..)),         *)
(*                           I' = l - tau0                                 *)
(*   forces and moments      h[j] = F . J[j]  with F = F_I (dead load) or  *)
(*                           F = A F_B (follower load), J the point or     *)
(*                           rotation Jacobian in the matching basis       *)
(*                                                                         *)
(* Mode "identities": TLC checks the dual results against closed forms on  *)
(* a lattice of small configurations.  Impl = "as_found": the Maxwell      *)
(* element's derivative with respect to its damper coordinate as the       *)
(* pinned tree reported it (wrong sign) -- must be rejected.               *)
(* Mode "trace": one record per (element, direction) taken from real       *)
(* objects; every reported Jacobian column is recomputed.                  *)
(***************************************************************************)
EXTENDS Integers, Sequences, FiniteSets, TLC, DualAlg, Json, IOUtils

CONSTANTS Mode, Impl

\* ------------------------------------------------------------------ layer 1
TwoPoint(r) ==
    LET Rv == DV(r.r, r.dr)
        sq == DDot3(Rv, Rv)
        L  == DSqrt(sq, R(r.l))
        Nn == [i \in 1..3 |-> DDiv(Rv[i], L)]
        Vv == DV(r.v, r.dv)
    IN [ok |-> RMul(R(r.l), R(r.l)) = sq.v,
        L |-> L, Ldot |-> DDot3(Nn, Vv),
        W |-> [j \in 1..Len(r.J) |-> DDot3(Nn, DV(r.J[j], r.dJ[j]))]]

Revolute(r) ==
    LET Ea1 == DV(r.ea1, r.dea1)  Eb1 == DV(r.eb1, r.deb1)  Ec1 == DV(r.ec1, r.dec1)  Ea2 == DV(r.ea2, r.dea2)
        X == DDot3(Ea2, Ea1)  Y == DDot3(Ea2, Eb1)
    IN [ok |-> RAdd(RMul(X.v, X.v), RMul(Y.v, Y.v)) # RI(0),
        L |-> DD(R(r.l), AngleRate(X, Y)), Ldot |-> DDot3(DV(r.v, r.dv), Ec1),
        W |-> [j \in 1..Len(r.J) |-> DDot3(Ec1, DV(r.J[j], r.dJ[j]))]]

Interaction(r) == IF r.sub = "two" THEN TwoPoint(r) ELSE Revolute(r)

\* ------------------------------------------------------------------ layer 2
\* everything an element reports, as dual numbers: value and derivative along the record's direction
Element(r) ==
    LET S == Interaction(r)
        k == R(r.k)  d == R(r.d)  ki == R(r.ki)
        Ld == DD(R(r.ld), R(r.dld))                \* internal coordinate (damper elongation / integral error)
        E == DSub(S.L, DC(R(r.lref)))               \* l - l_ref   (controllers: l - tau0)
        Em == DSub(E, Ld)
        Rate == DSub(S.Ldot, DC(R(r.tau1)))
        La == CASE r.law = "spring"  -> DNeg(DScale(k, E))
                [] r.law = "kv"      -> DNeg(DAdd(DScale(k, E), DScale(d, S.Ldot)))
                [] r.law = "maxwell" -> IF Impl = "as_found" THEN DD(RNeg(RMul(k, Em.v)), RNeg(RAdd(RMul(k, E.d), RMul(k, Ld.d))))
                                        ELSE DNeg(DScale(k, Em))
                [] r.law = "motor"   -> DC(R(r.tau0))
                [] r.law = "pd"      -> DNeg(DAdd(DScale(k, E), DScale(d, Rate)))
                [] r.law = "pid"     -> DNeg(DAdd(DScale(ki, Ld), DAdd(DScale(k, E), DScale(d, Rate))))
                [] OTHER             -> DC(RI(0))
        lac == R(r.lac)
    IN [ok |-> S.ok, L |-> S.L, Ldot |-> S.Ldot, W |-> S.W, La |-> La,
        H |-> [j \in 1..Len(S.W) |-> DMul(La, S.W[j])],
        C |-> DAdd(DAdd(DC(RMul(lac, RInv(k))), E), DScale(RMul(IF r.law = "kv" THEN d ELSE RI(0), RInv(k)), S.Ldot)),
        Cla |-> RInv(k),
        WlaC |-> [j \in 1..Len(S.W) |-> DScale(lac, S.W[j])],
        Qd |-> IF r.law = "maxwell" THEN DScale(RMul(k, RInv(d)), Em) ELSE E]

\* forces and moments: h[j] = F . J[j]
Load(r) ==
    LET F == IF r.follower
               THEN [i \in 1..3 |-> DDot3([c \in 1..3 |-> DD(R(r.A[i][c]), R(r.dA[i][c]))], [c \in 1..3 |-> DC(R(r.F[c]))])]
               ELSE [i \in 1..3 |-> DC(R(r.F[i]))]
    IN [j \in 1..Len(r.J) |-> DDot3(F, DV(r.J[j], r.dJ[j]))]

\* ------------------------------------------------------------------ trace verdicts
Has(r, f) == \E i \in 1..Len(r.has) : r.has[i] = f
VecIs(seq, duals, part) == /\ Len(seq) = Len(duals)
                           /\ \A j \in 1..Len(seq) : R(seq[j]) = (IF part = "v" THEN duals[j].v ELSE duals[j].d)
EVerdict(r) ==
    LET e == Element(r) IN
    IF ~e.ok THEN "the configuration is not on the lattice (distance not the given rational)"
    ELSE IF Has(r, "l") /\ R(r.o_l) # e.L.v THEN "l"
    ELSE IF Has(r, "ldot") /\ R(r.o_ldot) # e.Ldot.v THEN "l_dot"
    ELSE IF Has(r, "W") /\ ~VecIs(r.o_W, e.W, "v") THEN "W_l"
    ELSE IF Has(r, "lq") /\ R(r.o_lq) # e.L.d THEN "l_q is not the derivative of l"
    ELSE IF Has(r, "ldotq") /\ R(r.o_ldotq) # e.Ldot.d THEN "l_dot_q / l_dot_u is not the derivative of l_dot"
    ELSE IF Has(r, "Wq") /\ ~VecIs(r.o_Wq, e.W, "d") THEN "W_l_q is not the derivative of W_l"
    ELSE IF Has(r, "la") /\ R(r.o_la) # e.La.v THEN "the element's force is not the law's force"
    ELSE IF Has(r, "h") /\ ~VecIs(r.o_h, e.H, "v") THEN "the generalized force is not la W_l"
    ELSE IF Has(r, "hq") /\ ~VecIs(r.o_hq, e.H, "d") THEN "the derivative of the generalized force (h_q / h_u / Wla_tau_q / Wla_tau_u) is not the true derivative"
    ELSE IF Has(r, "c") /\ R(r.o_c) # e.C.v THEN "the compliance residual is not la_c / k + e + (d / k) l_dot"
    ELSE IF Has(r, "cq") /\ R(r.o_cq) # e.C.d THEN "c_q / c_u is not the derivative of the compliance residual"
    ELSE IF Has(r, "cla") /\ R(r.o_cla) # e.Cla THEN "c_la_c is not 1 / k"
    ELSE IF Has(r, "Wlacq") /\ ~VecIs(r.o_Wlacq, e.WlaC, "d") THEN "Wla_c_q is not the derivative of W_c la_c"
    ELSE IF Has(r, "qd") /\ R(r.o_qd) # e.Qd.v THEN "q_dot of the internal coordinate"
    ELSE IF Has(r, "qdq") /\ R(r.o_qdq) # e.Qd.d THEN "q_dot_q is not the derivative of the internal kinematic equation"
    ELSE ""
FVerdict(r) ==
    LET h == Load(r) IN
    IF Has(r, "h") /\ ~VecIs(r.o_h, h, "v") THEN "the load's generalized force is not F . J"
    ELSE IF Has(r, "hq") /\ ~VecIs(r.o_hq, h, "d") THEN "h_q of the load is not the derivative of its generalized force"
    ELSE ""

\* ------------------------------------------------------------------ lattice for the identities
VARIABLES case, l, verdicts
vars == <<case, l, verdicts>>
Q(n) == <<n, 1>>
V3(a, b, c) == <<Q(a), Q(b), Q(c)>>
Pyth == {<<V3(1, 2, 2), 3>>, <<V3(0 - 2, 6, 3), 7>>, <<V3(0, 4, 0 - 3), 5>>, <<V3(2, 0, 0), 2>>}
Dirs == {V3(1, 0, 0), V3(0, 1, 0 - 1), V3(2, 0 - 1, 3)}
Vels == {V3(0, 0, 0), V3(1, 0 - 2, 1)}
Laws == {"spring", "kv", "maxwell", "pd", "pid"}
TwoCases == [p : Pyth, dr : Dirs, v : Vels, dv : Dirs, J1 : Dirs, dJ1 : Dirs, law : Laws, dld : {0, 1}]
RevCases == [x : {<<3, 4>>, <<0 - 1, 2>>, <<0, 0 - 5>>}, dx : {<<1, 0>>, <<2, 0 - 3>>}, sc : {1, 2, 3}]
CaseRec(c) == [sub |-> "two", r |-> c.p[1], l |-> Q(c.p[2]), dr |-> c.dr, v |-> c.v, dv |-> c.dv, J |-> <<c.J1, c.v>>, dJ |-> <<c.dJ1, c.dr>>,
               law |-> c.law, k |-> <<3, 2>>, d |-> <<5, 1>>, ki |-> <<2, 1>>, lref |-> <<1, 2>>, ld |-> <<1, 3>>, dld |-> Q(c.dld),
               tau0 |-> <<1, 1>>, tau1 |-> <<1, 4>>, lac |-> <<7, 2>>]
V3Dot(a, b) == RAdd(RAdd(RMul(R(a[1]), R(b[1])), RMul(R(a[2]), R(b[2]))), RMul(R(a[3]), R(b[3])))
TwoOK(c) ==
    LET r == CaseRec(c)  e == Element(r)  li == RInv(R(r.l))
        n == [i \in 1..3 |-> RMul(R(r.r[i]), li)]
        ndr == V3Dot(n, r.dr)
        dn == [i \in 1..3 |-> RMul(RSub(R(r.dr[i]), RMul(n[i], ndr)), li)]      \* (I - n n^T) dr / l
        k == R(r.k)  d == R(r.d)
        dla == CASE r.law = "spring" -> RNeg(RMul(k, e.L.d))
                 [] r.law = "kv" -> RNeg(RAdd(RMul(k, e.L.d), RMul(d, e.Ldot.d)))
                 [] r.law = "maxwell" -> RNeg(RMul(k, RSub(e.L.d, R(r.dld))))
                 [] r.law = "pd" -> RNeg(RAdd(RMul(k, e.L.d), RMul(d, e.Ldot.d)))
                 [] r.law = "pid" -> RNeg(RAdd(RMul(R(r.ki), R(r.dld)), RAdd(RMul(k, e.L.d), RMul(d, e.Ldot.d))))
    IN /\ e.ok
       /\ e.L.d = ndr                                                                  \* l_q = n . dr
       /\ DMul(e.L, e.L) = DDot3(DV(r.r, r.dr), DV(r.r, r.dr))                         \* the root rule is the derivative of l^2 = r . r
       /\ e.Ldot.d = RAdd(V3Dot(dn, r.v), V3Dot(n, r.dv))                              \* l_dot_q
       /\ \A j \in 1..2 : e.W[j].d = RAdd(V3Dot(dn, r.J[j]), V3Dot(n, r.dJ[j]))        \* W_l_q
       /\ e.La.d = dla                                                                 \* chain rule of the law
       /\ \A j \in 1..2 : e.H[j].d = RAdd(RMul(e.La.v, e.W[j].d), RMul(dla, e.W[j].v)) \* product rule of h = la W_l
\* Maxwell: along the damper coordinate alone h changes by +k W_l
MaxwellOK(c) ==
    c.law = "maxwell" =>
        LET r == [CaseRec(c) EXCEPT !.dr = V3(0, 0, 0), !.dv = V3(0, 0, 0), !.dJ = <<V3(0, 0, 0), V3(0, 0, 0)>>, !.dld = Q(1)]
            e == Element(r)
        IN \A j \in 1..2 : e.H[j].d = RMul(R(r.k), e.W[j].v)
\* the angle derivative does not depend on the length of the planar vector, and vanishes along the vector itself
RevOK(c) ==
    LET x == DD(Q(c.x[1]), Q(c.dx[1]))  y == DD(Q(c.x[2]), Q(c.dx[2]))
        xs == DScale(Q(c.sc), x)  ys == DScale(Q(c.sc), y)
    IN /\ AngleRate(x, y) = AngleRate(xs, ys)
       /\ AngleRate(DD(x.v, x.v), DD(y.v, y.v)) = RI(0)
       /\ AngleRate(DD(x.v, RNeg(y.v)), DD(y.v, x.v)) = RI(1)            \* a rotation of the vector by eps turns the angle by eps
IdentitiesOK == Mode = "identities" => (IF case.t = "two" THEN TwoOK(case.c) /\ MaxwellOK(case.c) ELSE RevOK(case.c))

TraceLog == IF Mode = "trace" THEN ndJsonDeserialize(IOEnv.TRACE_FILE) ELSE <<>>
Init == IF Mode = "identities" THEN (case \in ([t : {"two"}, c : TwoCases] \cup [t : {"rev"}, c : RevCases])) /\ l = 0 /\ verdicts = <<>>
        ELSE case = <<>> /\ l = 1 /\ verdicts = <<>>
Step ==
    /\ Mode = "trace"
    /\ \/ /\ l <= Len(TraceLog)
          /\ LET r == TraceLog[l]  v == IF r.kind = "E" THEN EVerdict(r) ELSE FVerdict(r) IN
             verdicts' = IF v = "" THEN verdicts ELSE Append(verdicts, [id |-> r.id, clause |-> v])
          /\ l' = l + 1
       \/ /\ l = Len(TraceLog) + 1
          /\ PrintT(<<"VERDICTS", verdicts>>)
          /\ l' = l + 1 /\ UNCHANGED verdicts
    /\ UNCHANGED case
Next == Step
Spec == Init /\ [][Next]_vars
=============================================================================
