------------------------- MODULE RotationDerivatives -------------------------
(***************************************************************************)
(* Derivatives of the rotation-vector maps of SO(3) (C03), derived by TLC  *)
(* in exact arithmetic for a whole ray of rotation vectors at once.        *)
(*                                                                         *)
(* psi = eps n with an integer vector n of integer length |n| and a scale  *)
(* eps that stays a SYMBOL; the angle is a = |n| eps.  The maps            *)
(*   Exp(psi)   = I + alpha psi~ + beta psi~^2,  alpha = sin a / a,        *)
(*                                               beta = (1 - cos a) / a^2  *)
(*   T(psi)     = I - beta psi~ + gamma psi~^2,  gamma = (1 - alpha) / a^2 *)
(*   Tinv(psi)  = I + psi~ / 2 + delta psi~^2,                             *)
(*                delta = (1 - (a / 2) cot(a / 2)) / a^2                   *)
(* are LINEAR in the transcendental numbers s = sin a, c = cos a,          *)
(* k = cot(a/2) with coefficients that are Laurent polynomials in eps      *)
(* with rational coefficients.  Such an expression is an ELEMENT: for each *)
(* of the symbols 1, s, c, k, k^2 a tuple of rationals, one per power      *)
(* eps^-5 .. eps^2.  Scalars (components of psi, the angle, their          *)
(* quotients) are monomials q eps^e.  Dual numbers over both (value and    *)
(* change along a direction of psi) with the rules                         *)
(*   d s = c da,   d c = -s da,   d k = -(1 + k^2)/2 da,   da = n.dpsi/|n| *)
(* give value and derivative of every entry of the three maps as elements: *)
(* exact for every eps.  TLC writes them into `expected`; the harness      *)
(* substitutes eps = 2^-j (psi is then exactly representable), evaluates   *)
(* with sin, cos, cot to 40 digits and compares with Exp_SO3_psi,          *)
(* T_SO3_psi, T_SO3_dot, T_SO3_inv_psi (and the maps themselves).          *)
(*                                                                         *)
(* Checked by TLC on every case: the axis is fixed (Exp psi = psi,         *)
(* T psi = psi, Tinv psi = psi, as elements: exactly, and to first order); *)
(* nothing was shifted out of the window of powers of eps.                 *)
(***************************************************************************)
EXTENDS Integers, Sequences, FiniteSets, TLC, RatAlg

CONSTANTS Stride     \* 1: all rays; 2: the base rays only

R(x) == RNorm(<<x[1], x[2]>>)
RInv(x) == RNorm(<<x[2], x[1]>>)
Zero == RI(0)
\* ---- Laurent polynomials in eps: 8 coefficients for eps^-5 .. eps^2 (position = exponent + 6)
ZP == <<Zero, Zero, Zero, Zero, Zero, Zero, Zero, Zero>>
PAdd(p, q) == <<RAdd(p[1], q[1]), RAdd(p[2], q[2]), RAdd(p[3], q[3]), RAdd(p[4], q[4]), RAdd(p[5], q[5]), RAdd(p[6], q[6]), RAdd(p[7], q[7]), RAdd(p[8], q[8])>>
Coef(p, i) == IF i >= 1 /\ i <= 8 THEN p[i] ELSE Zero
\* multiply by the monomial m = [c, e]: shift by e
PMono(p, m) == <<RMul(m.c, Coef(p, 1 - m.e)), RMul(m.c, Coef(p, 2 - m.e)), RMul(m.c, Coef(p, 3 - m.e)), RMul(m.c, Coef(p, 4 - m.e)),
                 RMul(m.c, Coef(p, 5 - m.e)), RMul(m.c, Coef(p, 6 - m.e)), RMul(m.c, Coef(p, 7 - m.e)), RMul(m.c, Coef(p, 8 - m.e))>>
\* a coefficient that would leave the window
PLost(p, m) == \E i \in 1..8 : p[i] # Zero /\ m.c # Zero /\ (i + m.e < 1 \/ i + m.e > 8)
\* ---- elements: symbols 1, s, c, k, kk
ZE == <<ZP, ZP, ZP, ZP, ZP>>
EAdd(x, y) == <<PAdd(x[1], y[1]), PAdd(x[2], y[2]), PAdd(x[3], y[3]), PAdd(x[4], y[4]), PAdd(x[5], y[5])>>
EMono(x, m) == <<PMono(x[1], m), PMono(x[2], m), PMono(x[3], m), PMono(x[4], m), PMono(x[5], m)>>
ENeg(x) == EMono(x, [c |-> RI(0 - 1), e |-> 0])
ELost(x, m) == \E sy \in 1..5 : PLost(x[sy], m)
UnitP == <<Zero, Zero, Zero, Zero, Zero, RI(1), Zero, Zero>>      \* eps^0
Unit(sy) == <<IF sy = 1 THEN UnitP ELSE ZP, IF sy = 2 THEN UnitP ELSE ZP, IF sy = 3 THEN UnitP ELSE ZP, IF sy = 4 THEN UnitP ELSE ZP, IF sy = 5 THEN UnitP ELSE ZP>>
\* ---- monomials and their duals (value, change along the direction); a change lowers the power of eps by one
Mono(q, e) == [c |-> q, e |-> e]
MMul(p, q) == Mono(RMul(p.c, q.c), p.e + q.e)
MInv(p) == Mono(RInv(p.c), 0 - p.e)
MAdd(p, q) == IF p.c = Zero THEN q ELSE IF q.c = Zero THEN p ELSE IF p.e = q.e THEN Mono(RAdd(p.c, q.c), p.e) ELSE Assert(FALSE, "monomials of different degree added")
MNeg(p) == Mono(RNeg(p.c), p.e)
SD(v, d) == [v |-> v, d |-> d]
SMul(x, y) == SD(MMul(x.v, y.v), MAdd(MMul(x.v, y.d), MMul(x.d, y.v)))
SAdd(x, y) == SD(MAdd(x.v, y.v), MAdd(x.d, y.d))
SNeg(x) == SD(MNeg(x.v), MNeg(x.d))
SInv(x) == LET iv == MInv(x.v) IN SD(iv, MNeg(MMul(x.d, MMul(iv, iv))))
SConst(q) == SD(Mono(q, 0), Mono(Zero, 0))
\* ---- dual elements and their products with dual monomials
ED(v, d) == [v |-> v, d |-> d]
EDAdd(x, y) == ED(EAdd(x.v, y.v), EAdd(x.d, y.d))
EDNeg(x) == ED(ENeg(x.v), ENeg(x.d))
EDSub(x, y) == EDAdd(x, EDNeg(y))
EDMul(x, s) == ED(EMono(x.v, s.v), EAdd(EMono(x.v, s.d), EMono(x.d, s.v)))
EDLost(x, s) == ELost(x.v, s.v) \/ ELost(x.v, s.d) \/ ELost(x.d, s.v)

\* ------------------------------------------------------------------ the maps along the ray eps n, direction dpsi
Maps(n, len, dir) ==
    LET psi == [i \in 1..3 |-> SD(Mono(RI(n[i]), 1), Mono(R(dir[i]), 0))]
        ndir == RAdd(RAdd(RMul(RI(n[1]), R(dir[1])), RMul(RI(n[2]), R(dir[2]))), RMul(RI(n[3]), R(dir[3])))
        a == SD(Mono(RI(len), 1), Mono(RMul(ndir, RInv(RI(len))), 0))
        ia == SInv(a)  ia2 == SMul(ia, ia)
        One == ED(Unit(1), ZE)
        S == ED(Unit(2), EMono(Unit(3), a.d))
        C == ED(Unit(3), EMono(Unit(2), MNeg(a.d)))
        K == ED(Unit(4), EMono(EAdd(Unit(1), Unit(5)), MMul(Mono(<<0 - 1, 2>>, 0), a.d)))
        alpha == EDMul(S, ia)
        beta == EDMul(EDSub(One, C), ia2)
        gamma == EDMul(EDSub(One, alpha), ia2)
        delta == EDMul(EDSub(One, EDMul(K, SMul(SConst(<<1, 2>>), a))), ia2)
        z == SD(Mono(Zero, 1), Mono(Zero, 0))
        sk == <<<<z, SNeg(psi[3]), psi[2]>>, <<psi[3], z, SNeg(psi[1])>>, <<SNeg(psi[2]), psi[1], z>>>>
        sk2(i, j) == SAdd(SAdd(SMul(sk[i][1], sk[1][j]), SMul(sk[i][2], sk[2][j])), SMul(sk[i][3], sk[3][j]))
        sq == <<<<sk2(1, 1), sk2(1, 2), sk2(1, 3)>>, <<sk2(2, 1), sk2(2, 2), sk2(2, 3)>>, <<sk2(3, 1), sk2(3, 2), sk2(3, 3)>>>>
        I(i, j) == IF i = j THEN One ELSE ED(ZE, ZE)
        half == SConst(<<1, 2>>)
        ExpE(i, j) == EDAdd(I(i, j), EDAdd(EDMul(alpha, sk[i][j]), EDMul(beta, sq[i][j])))
        TE(i, j) == EDAdd(I(i, j), EDAdd(EDNeg(EDMul(beta, sk[i][j])), EDMul(gamma, sq[i][j])))
        TiE(i, j) == EDAdd(I(i, j), EDAdd(EDMul(One, SMul(half, sk[i][j])), EDMul(delta, sq[i][j])))
        M3(F(_, _)) == <<<<F(1, 1), F(1, 2), F(1, 3)>>, <<F(2, 1), F(2, 2), F(2, 3)>>, <<F(3, 1), F(3, 2), F(3, 3)>>>>
    IN [Exp |-> M3(ExpE), T |-> M3(TE), Tinv |-> M3(TiE), psi |-> psi,
        lost |-> \/ EDLost(S, ia) \/ EDLost(EDSub(One, C), ia2) \/ EDLost(EDSub(One, alpha), ia2)
                 \/ \E i \in 1..3, j \in 1..3 : EDLost(gamma, sq[i][j]) \/ EDLost(delta, sq[i][j]) \/ EDLost(beta, sq[i][j])]

\* ------------------------------------------------------------------ cases
VARIABLES case, expected
vars == <<case, expected>>
BaseRays == {<<<<1, 2, 2>>, 3>>, <<<<2, 0 - 3, 6>>, 7>>, <<<<0, 3, 0 - 4>>, 5>>, <<<<0 - 2, 0, 0>>, 2>>, <<<<4, 4, 0 - 7>>, 9>>, <<<<0, 1, 0>>, 1>>}
MoreRays == {<<<<0 - 1, 4, 8>>, 9>>, <<<<6, 0 - 2, 0 - 3>>, 7>>, <<<<3, 4, 12>>, 13>>, <<<<0, 0, 0 - 3>>, 3>>, <<<<2, 6, 0 - 9>>, 11>>, <<<<0 - 4, 0, 3>>, 5>>, <<<<1, 0, 0>>, 1>>,
             <<<<0 - 2, 0 - 1, 2>>, 3>>, <<<<6, 6, 7>>, 11>>, <<<<0, 0 - 5, 12>>, 13>>}
Rays == IF Stride = 1 THEN BaseRays \cup MoreRays ELSE BaseRays
Dirs == {<<<<1, 1>>, <<0, 1>>, <<0, 1>>>>, <<<<0, 1>>, <<1, 1>>, <<0, 1>>>>, <<<<0, 1>>, <<0, 1>>, <<1, 1>>>>, <<<<1, 1>>, <<0 - 2, 1>>, <<1, 2>>>>}
\* the four fixed directions, and the direction of the ray itself (the rate of a rotation about a fixed axis)
AllCases == [ray : Rays, dir : Dirs] \cup {[ray |-> r, dir |-> <<<<r[1][1], 1>>, <<r[1][2], 1>>, <<r[1][3], 1>>>>] : r \in Rays}
Cases == AllCases
Proj(m) == [Exp |-> m.Exp, T |-> m.T, Tinv |-> m.Tinv]
Init == /\ case \in Cases
        /\ expected = Proj(Maps(case.ray[1], case.ray[2], case.dir))
Next == UNCHANGED vars
Spec == Init /\ [][Next]_vars

\* the axis is fixed by all three maps, exactly and to first order:  M(psi) psi = psi
RowTimesPsi(M, psi, i) == EDAdd(EDAdd(EDMul(M[i][1], psi[1]), EDMul(M[i][2], psi[2])), EDMul(M[i][3], psi[3]))
AxisFixed ==
    LET m == Maps(case.ray[1], case.ray[2], case.dir)
        One == ED(Unit(1), ZE)
    IN \A i \in 1..3 : /\ RowTimesPsi(m.Exp, m.psi, i) = EDMul(One, m.psi[i])
                       /\ RowTimesPsi(m.T, m.psi, i) = EDMul(One, m.psi[i])
                       /\ RowTimesPsi(m.Tinv, m.psi, i) = EDMul(One, m.psi[i])
NothingLost == ~Maps(case.ray[1], case.ray[2], case.dir).lost
\* the window of powers of eps is wide enough: the outermost coefficients of every result are zero
EdgesZero == \A f \in {"Exp", "T", "Tinv"}, i \in 1..3, j \in 1..3, part \in {"v", "d"}, sy \in 1..5 :
                 expected[f][i][j][part][sy][1] = Zero /\ expected[f][i][j][part][sy][8] = Zero
=============================================================================
