--------------------------- MODULE RevoluteAngle ---------------------------
(***************************************************************************)
(* Quadrant tracker of cardillo.constraints.revolute.Revolute.l            *)
(*                                                                         *)
(* The circle is divided into N sectors (N a multiple of 4).  The relative *)
(* rotation about the joint axis is k sectors (k \in Int, accumulated, so  *)
(* k = N is one full turn).  The implementation only sees k mod N (the     *)
(* projections x = cos, y = sin), classifies it into a quadrant, and       *)
(* counts full turns when the quadrant jumps 4 -> 1 or 1 -> 4.             *)
(*                                                                         *)
(* One action per public call of the code:                                 *)
(*   Query(d)  -- joint.l(t, q) after the relative rotation changed by d   *)
(*               sectors, |d| < N/4  (d = 0: repeated query)               *)
(*   Reset     -- joint.reset()                                            *)
(*   Assemble  -- system.assemble() at the current configuration; the      *)
(*               tracker restarts and the current configuration becomes    *)
(*               the reference (angle0 is *kept*, see C24)                 *)
(***************************************************************************)
EXTENDS Integers, Sequences, TLC

CONSTANTS N,        \* sectors per turn, multiple of 4
          MaxTurns, \* |k| <= MaxTurns * N in the bounded model
          Impl,     \* "code": boundary conventions as in the code
          Dir       \* 0: any increment; 1 / 2: only non-negative / non-positive increments (drift)

ASSUME N % 4 = 0 /\ N >= 8

VARIABLES k,      \* accumulated relative rotation in sectors since (re)assembly
          nfull,  \* joint.n_full_rotations
          prevq,  \* joint.previous_quadrant
          angle,  \* last reported angle - angle0, in sectors (what l() returned)
          last    \* last action, for replay: [op, d]

vars == <<k, nfull, prevq, angle, last>>

Q == N \div 4

\* quadrant of a sector position m \in 0..N-1 with the code's boundary
\* conventions:  x>0,y>=0 -> 1 ; x<=0,y>0 -> 2 ; x<0,y<=0 -> 3 ; x>=0,y<0 -> 4
Quad(m) == IF m < Q THEN 1 ELSE IF m < 2*Q THEN 2 ELSE IF m < 3*Q THEN 3 ELSE 4

Pos(kk) == kk % N      \* TLA+ % is the mathematical modulus: result in 0..N-1

\* angle inside the quadrant as the code computes it (arctan branch per quadrant):
\* quadrant base + offset, which is exactly Pos(kk)
Within(kk) == Pos(kk)

Init == /\ k = 0 /\ nfull = 0 /\ prevq = 1 /\ angle = 0
        /\ last = [op |-> "Assemble", d |-> 0]

Steps == {d \in (1 - Q)..(Q - 1) : Dir = 0 \/ (Dir = 1 /\ d >= 0) \/ (Dir = 2 /\ d <= 0)}

Query(d) ==
    /\ d \in Steps
    /\ LET k2 == k + d
           q2 == Quad(Pos(k2))
           n2 == IF prevq = 4 /\ q2 = 1 THEN nfull + 1
                 ELSE IF prevq = 1 /\ q2 = 4 THEN nfull - 1
                 ELSE nfull
       IN /\ k' = k2
          /\ prevq' = q2
          /\ nfull' = n2
          /\ angle' = n2 * N + Within(k2)
    /\ last' = [op |-> "Query", d |-> d]

Reset ==
    /\ nfull' = 0 /\ prevq' = 1
    /\ UNCHANGED <<k, angle>>
    /\ last' = [op |-> "Reset", d |-> 0]

\* the user resets the whole simulation: tracker reset and back to the
\* configuration of the last assembly
ResetHome ==
    /\ nfull' = 0 /\ prevq' = 1 /\ k' = 0
    /\ UNCHANGED angle
    /\ last' = [op |-> "ResetHome", d |-> 0]

Next == (\E d \in Steps : Query(d)) \/ Reset \/ ResetHome

Spec == Init /\ [][Next]_vars

----------------------------------------------------------------------------
\* The tracker is "in sync" when it has seen every configuration since the
\* last (re)assembly, i.e. no Reset happened away from the first turn.
InSync == nfull * N + Pos(k) = k /\ prevq = Quad(Pos(k))

TypeOK == /\ k \in Int /\ nfull \in Int /\ prevq \in 1..4 /\ angle \in Int

\* C25 main clause: the reported angle equals the accumulated rotation.
\* A Reset away from the first turn deliberately forgets the turns (that is
\* what "restores the initial tracking state" means), so the clause is stated
\* for histories without such a reset via the history-free inductive form:
AngleTracks == InSync => (last.op = "Query" => angle = k)

\* Inductive invariant for reset-free behaviours (checked with SpecNoReset).
IndInv == InSync /\ (last.op = "Query" => angle = k)

NextNoReset == \E d \in Steps : Query(d)
SpecNoReset == Init /\ [][NextNoReset]_vars

\* Requery: a query with d = 0 changes nothing that is observable.
RequeryIdempotent ==
    [][ (last'.op = "Query" /\ last'.d = 0 /\ last.op = "Query")
          => (angle' = angle /\ nfull' = nfull /\ prevq' = prevq) ]_vars

\* Reset restores the initial tracking state.
ResetRestores == [][ last'.op \in {"Reset", "ResetHome"} => (nfull' = 0 /\ prevq' = 1) ]_vars

Bound == k \in (0 - MaxTurns * N)..(MaxTurns * N)
=============================================================================
