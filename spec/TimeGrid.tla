------------------------------ MODULE TimeGrid ------------------------------
(***************************************************************************)
(* The Solution contract of the solvers (C20), in exact arithmetic.        *)
(*                                                                         *)
(* Times are integers in ticks (one tick is 0.1, 0.01, 0.001, 0.25 or 1/64 *)
(* in the harness, i.e. the decimal literals a user types).  For initial   *)
(* time t0, final time t1 > t0 and step dt > 0 a fixed-step solver stores  *)
(* the instants t0 + k dt, k = 0..n, where n is the index of the first     *)
(* grid point at or after t1.  A run truncated after m accepted steps      *)
(* stores the instants k = 0..m.  Every stored field has one row per       *)
(* instant and the width of the system dimension it belongs to; iterating  *)
(* the solution yields one record per instant; saving and loading          *)
(* preserves every field.                                                  *)
(***************************************************************************)
EXTENDS Integers, Sequences, FiniteSets, TLC, Json, IOUtils

CONSTANTS MaxT0, MaxDt, MaxSpan,    \* bounds in ticks
          BigT0,                    \* additional large initial times in ticks (restarts: t1 - t0 cancels in floating point)
          LongRuns                  \* additional triples <<t0, t1, dt>> in fine ticks: thousands of steps, t1 just before / on / just after a grid point
                                    \* (a tolerance on (t1 - t0) / dt that grows with the number of steps would drop or add a step there)

\* the long runs the checks use (ticks of 1e-6): 1000 .. 20000 steps
LongRunsDefault == {<<0, 1000004, 1000>>, <<0, 1000000, 1000>>, <<0, 999996, 1000>>, <<250000, 1250004, 1000>>, <<0, 2000010, 100>>, <<0, 2000000, 100>>, <<3, 1200011, 400>>,
                    \* late initial times in ticks of 1e-3 (a day, an hour): (t1 - t0) / dt is off by many ulps there, an ABSOLUTE tolerance on it adds a step
                    <<86400000, 86400100, 1>>, <<86400000, 86400050, 1>>, <<86400000, 86400020, 1>>, <<3600000, 3600100, 1>>}

VARIABLES t0, t1, dt, m     \* m: number of accepted steps (m = N for a complete run)

vars == <<t0, t1, dt, m>>

\* number of steps: index of the first grid point at or after t1 ...
NDecl(a, b, d) == CHOOSE n \in 1..(MaxSpan + 1) : a + n * d >= b /\ a + (n - 1) * d < b
\* ... which is the ceiling of (t1 - t0) / dt
NCeil(a, b, d) == ((b - a) + d - 1) \div d

Grid(a, d, n) == [k \in 0..n |-> a + k * d]

Init == \/ /\ t0 \in (0..MaxT0) \cup BigT0
           /\ dt \in 1..MaxDt
           /\ t1 \in (t0 + 1)..(t0 + MaxSpan)
           /\ m \in {NCeil(t0, t1, dt)} \cup {k \in 0..2 : k < NCeil(t0, t1, dt)}
        \/ \E tr \in LongRuns : t0 = tr[1] /\ t1 = tr[2] /\ dt = tr[3] /\ m = NCeil(tr[1], tr[2], tr[3])
Next == UNCHANGED vars
Spec == Init /\ [][Next]_vars

N == NCeil(t0, t1, dt)
Stored == Grid(t0, dt, m)

\* the two definitions of the step count agree
CountsAgree == /\ t0 + N * dt >= t1 /\ t0 + (N - 1) * dt < t1
               /\ (<<t0, t1, dt>> \notin LongRuns => NDecl(t0, t1, dt) = NCeil(t0, t1, dt))
\* C20, grid clause
StartsAtT0 == Stored[0] = t0
StepIsDt == \A k \in 1..m : Stored[k] - Stored[k - 1] = dt
EndsAtFirstPointAtOrAfterT1 == (m = N) => (Stored[m] >= t1 /\ (m > 0 => Stored[m - 1] < t1))
Truncated == (m < N) => Stored[m] < t1
Rows == m + 1

---------------------------------------------------------------------------
\* which system dimension gives the width of a stored field, by field name
FieldDim == [q |-> "nq", q_dot |-> "nq", u |-> "nu", u_dot |-> "nu",
             la_g |-> "nla_g", P_g |-> "nla_g", mu_g |-> "nla_g",
             la_gamma |-> "nla_gamma", P_gamma |-> "nla_gamma",
             la_c |-> "nla_c", la_N |-> "nla_N", P_N |-> "nla_N", la_F |-> "nla_F", P_F |-> "nla_F"]
ASSUME "FIELDS_OUT" \in DOMAIN IOEnv => JsonSerialize(IOEnv.FIELDS_OUT, FieldDim)
=============================================================================
