-------------------------------- MODULE Coo --------------------------------
(***************************************************************************)
(* cardillo.utility.coo_matrix.CooMatrix as an accumulate-into-dense state *)
(* machine.                                                                *)
(*                                                                         *)
(* State: the container's shape, the triplet list it holds (trip, built    *)
(* the way __setitem__ builds it: data = block.ravel(C), row = repeat(rows, *)
(* ncols), col = tile(cols, nrows)), and acc, the dense matrix obtained by *)
(* the mathematical definition "add every written block at its indices".   *)
(* One action per __setitem__ call; the write descriptor is kept in `last` *)
(* so that behaviours can be replayed into the implementation.             *)
(*                                                                         *)
(* Index forms: integer arrays (any order, repeats), Python slices         *)
(* (start, stop, step with None), plain integers.  Value kinds: dense 2-D  *)
(* block, 1-D vector (numpy atleast_2d makes it a 1 x n row), scalar,      *)
(* scipy sparse array (coo/csr/csc; possibly holding duplicate entries),   *)
(* nested CooMatrix (itself filled by writes), None, and each of them with *)
(* an inconsistent shape (must be rejected, state unchanged).              *)
(***************************************************************************)
EXTENDS Integers, Sequences, FiniteSets, TLC

CONSTANTS MaxM, MaxN,  \* largest shape
          ShapeMode,   \* "one": only <<MaxM, MaxN>>;  "all": every shape up to it
          MaxWrites,   \* bound on the number of writes in a behaviour
          IdxMode,     \* "full" | "reduced" : size of the index-form catalogue
          None,        \* model value standing for Python's None
          Pick,        \* "all": enumerate the whole catalogue (model checking); "random": TLC picks one
                       \* index pair per step with RandomElement (simulation of long write sequences)
          Group        \* 0: all write kinds; 1..4: one group of kinds (lets several TLC runs share the catalogue)

VARIABLES shape, acc, trip, nwrites, last,
          kid          \* the nested container handed in most recently, which the caller still holds: its shape and dense meaning ([nr |-> 0, ...]: none).
                       \* Parent and child are separate objects: a later write into one of them does not change the other (PokeKid below).

Shapes == IF ShapeMode = "one" THEN {<<MaxM, MaxN>>} ELSE {<<m, n>> : m \in 1..MaxM, n \in 1..MaxN}

vars == <<shape, acc, trip, nwrites, last, kid>>

---------------------------------------------------------------------------
\* Python semantics of slice(start, stop, step).indices(n) followed by arange

Min(a, b) == IF a < b THEN a ELSE b
Max(a, b) == IF a > b THEN a ELSE b

SliceRange(st, sp, step0, n) ==
    LET step == IF step0 = None THEN 1 ELSE step0
        lo   == IF step > 0 THEN 0 ELSE 0 - 1
        hi   == IF step > 0 THEN n ELSE n - 1
        Clamp(v) == IF v < 0 THEN Max(v + n, lo) ELSE Min(v, hi)
        start == IF st = None THEN (IF step > 0 THEN lo ELSE hi) ELSE Clamp(st)
        stop  == IF sp = None THEN (IF step > 0 THEN hi ELSE lo) ELSE Clamp(sp)
        len   == IF step > 0
                   THEN (IF stop > start THEN (stop - start + step - 1) \div step ELSE 0)
                   ELSE (IF stop < start THEN (start - stop - step - 1) \div (0 - step) ELSE 0)
    IN [i \in 1..len |-> start + (i - 1) * step]

\* an index descriptor is a record; Resolve gives the integer index sequence
Resolve(ix, n) ==
    CASE ix.form = "arr"   -> ix.arr
      [] ix.form = "int"   -> <<ix.i>>
      [] ix.form = "slice" -> SliceRange(ix.start, ix.stop, ix.step, n)

SeqsUpTo(S, k) == UNION {[1..m -> S] : m \in 1..k}

ArrForms(n) ==
    IF IdxMode = "alias" THEN {[form |-> "arr", arr |-> [i \in 1..n |-> i - 1]]}        \* the identity index array
    ELSE IF IdxMode = "full"
      THEN {[form |-> "arr", arr |-> s] : s \in SeqsUpTo(0..(n-1), 2)}
             \cup {[form |-> "arr", arr |-> [i \in 1..n |-> n - i]]}        \* reversed full range
      ELSE IF IdxMode = "sim"
      THEN {[form |-> "arr", arr |-> s] : s \in SeqsUpTo(0..(n-1), 3)}
             \cup {[form |-> "arr", arr |-> [i \in 1..n |-> n - i]]}
      ELSE {[form |-> "arr", arr |-> s] : s \in SeqsUpTo(0..(n-1), 2)}

IntForms(n) == IF IdxMode = "alias" THEN {[form |-> "int", i |-> 0]} ELSE {[form |-> "int", i |-> i] : i \in 0..(n-1)}

SliceForms(n) ==
    IF IdxMode = "alias" THEN {[form |-> "slice", start |-> None, stop |-> None, step |-> None], [form |-> "slice", start |-> 1, stop |-> None, step |-> None]}
    ELSE IF IdxMode \in {"full", "sim"}
      THEN {[form |-> "slice", start |-> a, stop |-> b, step |-> c] :
               a \in {None, 0, 1, 0 - 1}, b \in {None, 1, n, 0 - 1}, c \in {None, 2, 0 - 1}}
      ELSE {[form |-> "slice", start |-> None, stop |-> None, step |-> None],
            [form |-> "slice", start |-> 1, stop |-> None, step |-> None],
            [form |-> "slice", start |-> None, stop |-> None, step |-> 0 - 1]}

IdxForms(n) == ArrForms(n) \cup IntForms(n) \cup SliceForms(n)

---------------------------------------------------------------------------
\* block values: deterministic families so that every position is distinguishable
Fams == {"pos", "neg", "mix"}
Val(fam, i, j, nc) ==        \* i, j zero-based position in the block, nc = number of block columns
    CASE fam = "pos" -> 1 + i * nc + j
      [] fam = "neg" -> 0 - (1 + i * nc + j)
      [] fam = "mix" -> IF (i + j) % 2 = 0 THEN 0 ELSE 2

\* value kinds.  For every kind BlockOf gives the dense meaning of the value
\* as a function on 0..nr-1 x 0..nc-1 (what the write must add), and TripOf the
\* triplets the container appends, as <<rowpos, colpos, v>> in block-local
\* zero-based positions, in the order the implementation appends them.
Kinds == {"dense", "sparse_coo", "sparse_csr", "sparse_csc", "sparse_dup", "nested_full", "nested_dup", "nested_empty"}

BlockOf(kind, fam, nr, nc) ==
    [p \in (0..(nr-1)) \X (0..(nc-1)) |->
        CASE kind \in {"dense", "sparse_coo", "sparse_csr", "sparse_csc", "nested_full"} -> Val(fam, p[1], p[2], nc)
          [] kind \in {"sparse_dup", "nested_dup"} ->
                \* the first row is present twice
                IF p[1] = 0 THEN 2 * Val(fam, p[1], p[2], nc) ELSE Val(fam, p[1], p[2], nc)
          [] kind = "nested_empty" -> 0]

\* row-major enumeration of block positions
RowMajor(nr, nc) == [k \in 1..(nr * nc) |-> <<(k - 1) \div nc, (k - 1) % nc>>]

TripOf(kind, fam, nr, nc) ==
    LET rm == RowMajor(nr, nc)
        full == [k \in 1..(nr * nc) |-> <<rm[k][1], rm[k][2], Val(fam, rm[k][1], rm[k][2], nc)>>]
        firstrow == [k \in 1..(IF nr > 0 THEN nc ELSE 0) |-> <<0, k - 1, Val(fam, 0, k - 1, nc)>>]
    IN CASE kind \in {"dense", "nested_full", "sparse_coo", "sparse_csr", "sparse_csc"} -> full
         [] kind \in {"sparse_dup", "nested_dup"} -> full \o firstrow
         [] kind = "nested_empty" -> <<>>

---------------------------------------------------------------------------
Zero(M, N) == [p \in (0..(M-1)) \X (0..(N-1)) |-> 0]

\* dense meaning of a triplet list (what any conversion must return)
RECURSIVE DenseOf(_, _, _)
DenseOf(t, M, N) ==
    IF t = <<>> THEN Zero(M, N)
    ELSE LET d == DenseOf(Tail(t), M, N)
             h == Head(t)
         IN [d EXCEPT ![<<h[1], h[2]>>] = @ + h[3]]

\* the definition: add block[i][j] at (rows[i], cols[j]) for all i, j
RECURSIVE AddBlock(_, _, _, _, _)
AddBlock(a, rows, cols, blk, k) ==      \* k runs over 1..nr*nc
    LET nr == Len(rows)  nc == Len(cols) IN
    IF k > nr * nc THEN a
    ELSE LET i == (k - 1) \div nc   j == (k - 1) % nc
         IN AddBlock([a EXCEPT ![<<rows[i+1], cols[j+1]>>] = @ + blk[<<i, j>>]], rows, cols, blk, k + 1)

NoKid == [nr |-> 0, nc |-> 0, acc |-> << >>]
Nested == {"nested_full", "nested_dup", "nested_empty"}

Init == /\ shape \in Shapes
        /\ acc = Zero(shape[1], shape[2])
        /\ trip = <<>>
        /\ nwrites = 0
        /\ last = [op |-> "init"]
        /\ kid = NoKid

\* a consistent write
Write(rix, cix, kind, fam) ==
    LET rows == Resolve(rix, shape[1])
        cols == Resolve(cix, shape[2])
        nr == Len(rows)   nc == Len(cols)
        t  == TripOf(kind, fam, nr, nc)
    IN /\ nwrites < MaxWrites
       /\ acc'  = AddBlock(acc, rows, cols, BlockOf(kind, fam, nr, nc), 1)
       /\ trip' = trip \o [k \in 1..Len(t) |-> <<rows[t[k][1] + 1], cols[t[k][2] + 1], t[k][3]>>]
       /\ nwrites' = nwrites + 1
       /\ last' = [op |-> "write", rix |-> rix, cix |-> cix, kind |-> kind, fam |-> fam,
                   nr |-> nr, nc |-> nc, outcome |-> "ok"]
       /\ kid' = IF kind \in Nested THEN [nr |-> nr, nc |-> nc, acc |-> BlockOf(kind, fam, nr, nc)] ELSE kid
       /\ UNCHANGED shape

\* the caller writes a dense block (family fam, all rows and columns) into the child it still holds: the child's meaning changes, the parent's does not
PokeKid(fam) ==
    /\ nwrites < MaxWrites
    /\ kid.nr > 0 /\ kid.nc > 0
    /\ kid' = [kid EXCEPT !.acc = [p \in DOMAIN kid.acc |-> kid.acc[p] + Val(fam, p[1], p[2], kid.nc)]]
    /\ nwrites' = nwrites + 1
    /\ last' = [op |-> "poke", fam |-> fam]
    /\ UNCHANGED <<shape, acc, trip>>

\* value None: nothing happens
WriteNone(rix, cix) ==
    /\ nwrites < MaxWrites
    /\ nwrites' = nwrites + 1
    /\ last' = [op |-> "none", rix |-> rix, cix |-> cix]
    /\ UNCHANGED <<shape, acc, trip, kid>>

\* 1-D vector value of length n: numpy's atleast_2d turns it into a 1 x n block, so it is
\* consistent exactly when there is one row index and n column indices
WriteVector(rix, cix, fam, n) ==
    LET rows == Resolve(rix, shape[1])
        cols == Resolve(cix, shape[2])
        ok == Len(rows) = 1 /\ Len(cols) = n
        t  == TripOf("dense", fam, 1, n)
    IN /\ nwrites < MaxWrites
       /\ nwrites' = nwrites + 1
       /\ IF ok
            THEN /\ acc' = AddBlock(acc, rows, cols, BlockOf("dense", fam, 1, n), 1)
                 /\ trip' = trip \o [k \in 1..Len(t) |-> <<rows[1], cols[t[k][2] + 1], t[k][3]>>]
            ELSE UNCHANGED <<acc, trip>>
       /\ last' = [op |-> "vector", rix |-> rix, cix |-> cix, fam |-> fam, n |-> n,
                   outcome |-> IF ok THEN "ok" ELSE "rejected"]
       /\ UNCHANGED <<shape, kid>>

\* any kind with a block of the wrong shape (dr, dc added to the right shape): rejected
WriteBad(rix, cix, kind, fam, dr, dc) ==
    LET rows == Resolve(rix, shape[1])
        cols == Resolve(cix, shape[2])
    IN /\ nwrites < MaxWrites
       /\ <<dr, dc>> # <<0, 0>>
       /\ Len(rows) + dr >= 0 /\ Len(cols) + dc >= 0
       \* a 2-D block that numpy/scipy can build and whose shape differs
       /\ nwrites' = nwrites + 1
       /\ last' = [op |-> "bad", rix |-> rix, cix |-> cix, kind |-> kind, fam |-> fam,
                   nr |-> Len(rows) + dr, nc |-> Len(cols) + dc, outcome |-> "rejected"]
       /\ UNCHANGED <<shape, acc, trip, kid>>

BadKinds == {"dense", "sparse_coo", "nested_full"}

Sel(S) == IF Pick = "random" THEN {RandomElement(S)} ELSE S

KindsOf(g) == CASE g = 0 -> Kinds
                 [] g = 1 -> {"dense", "sparse_coo"}
                 [] g = 2 -> {"sparse_csr", "sparse_csc", "sparse_dup"}
                 [] g = 3 -> {"nested_full", "nested_dup", "nested_empty"}
                 [] g = 5 -> {"nested_full", "dense"}          \* aliasing histories: nested containers, later writes into parent and child
                 [] OTHER -> {}
FamsOf(g) == IF g = 5 THEN {"pos"} ELSE Fams

Next ==
    /\ nwrites < MaxWrites
    /\ \E rix \in Sel(IdxForms(shape[1])), cix \in Sel(IdxForms(shape[2])) :
           \/ \E kind \in KindsOf(Group), fam \in FamsOf(Group) : Write(rix, cix, kind, fam)
           \/ Group \in {0, 5} /\ PokeKid("pos")
           \/ Group \in {0, 4} /\ WriteNone(rix, cix)
           \/ Group \in {0, 4} /\ \E fam \in {"pos"}, n \in 1..2 : WriteVector(rix, cix, fam, n)
           \/ Group \in {0, 4} /\ \E kind \in BadKinds, d \in {<<1, 0>>, <<0, 1>>, <<0 - 1, 0>>} :
                                     WriteBad(rix, cix, kind, "pos", d[1], d[2])


Spec == Init /\ [][Next]_vars

---------------------------------------------------------------------------
TypeOK == /\ shape \in Shapes
          /\ nwrites \in 0..MaxWrites

\* C15: whatever was written, the container's content means the dense sum
AccumulatesExactly == DenseOf(trip, shape[1], shape[2]) = acc

\* every index the container stores is inside the matrix
IndicesInRange == \A k \in 1..Len(trip) : trip[k][1] \in 0..(shape[1]-1) /\ trip[k][2] \in 0..(shape[2]-1)

\* rejected writes and None leave the container unchanged
RejectedUnchanged ==
    [][ (last'.op \in {"bad", "none"} \/ (last'.op = "vector" /\ last'.outcome = "rejected"))
          => (acc' = acc /\ trip' = trip) ]_vars
\* a write into the child the caller still holds leaves the parent as it is, a write into the parent leaves the child as it is
KidIndependent ==
    [][ /\ (last'.op = "poke" => (acc' = acc /\ trip' = trip))
        /\ ((last'.op # "poke" /\ ~(last'.op = "write" /\ last'.kind \in Nested)) => kid' = kid) ]_vars
=============================================================================
