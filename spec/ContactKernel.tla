---------------------------- MODULE ContactKernel ----------------------------
(***************************************************************************)
(* Contact kinematics (C06) in exact arithmetic.                           *)
(*                                                                         *)
(* PART P  sphere against a plane of constant orientation.                 *)
(*   The plane is given by a point rQ and a constant basis F (columns      *)
(*   t1, t2, n), the sphere by its centre rP and radius rho; the motion is *)
(*   U = [vP, vQ, O] (O: angular velocity of the body that carries the     *)
(*   sphere, inertial basis), A = [aP, aQ, Y].                             *)
(*     gap            GN  = n . (rP - rQ) - rho       signed distance of   *)
(*                                                    the sphere surface   *)
(*     slip velocity  GF  = diag(al) [t1; t2] (vS - vQ),                   *)
(*                    vS = vP + O x (-rho n)  velocity of the sphere's     *)
(*                    material point that touches the plane                *)
(*   The gap rate, gap acceleration and slip acceleration are DEFINED as   *)
(*   exact difference stencils along the flow rP' = vP, rQ' = vQ,          *)
(*   vP' = aP, vQ' = aQ, O' = Y; W_N, W_F and all q/u-derivatives as       *)
(*   stencils along the derivative directions supplied by the subsystem.   *)
(*                                                                         *)
(* PART S  sphere against sphere, on configurations whose centre distance  *)
(*   d and whose |t2ref x r12| = m are integers, in exact rational         *)
(*   arithmetic.  With r = r2 - r1, w = t2ref x r:                          *)
(*     n = r / d,  t1 = w / m,  t2 = (r x w) / (d m)                        *)
(*     gap GN = d - rho1 - rho2                                            *)
(*     slip GF_i = t_i . (v2 - v1 - Os x n),  Os = rho1 O1 + rho2 O2        *)
(*   Every quantity is a sum of terms c P / (d^a m^b) with P a polynomial  *)
(*   of the state; a term's derivative along a direction follows from      *)
(*   differentiating the polynomial identities d^2 = r.r and m^2 = w.w     *)
(*   (2 d d' = (r.r)', 2 m m' = (w.w)') with the polynomials differentiated*)
(*   by exact 5-point stencils -- no limit is taken anywhere.              *)
(*                                                                         *)
(* Mode "identities": TLC checks the definitions against closed forms and  *)
(* geometric facts (orthonormal contact basis, |GF|^2 = tangential part of *)
(* the relative velocity, gap acceleration = n.a + centripetal term).      *)
(* Mode "trace": records taken from the real Sphere2Plane / Sphere2Sphere  *)
(* objects at lattice states are recomputed and the first differing        *)
(* routine is named.                                                       *)
(***************************************************************************)
EXTENDS QuatAlg, RatAlg, Json, IOUtils

CONSTANTS Mode

VAdd(a, b) == <<a[1] + b[1], a[2] + b[2], a[3] + b[3]>>
VSub(a, b) == <<a[1] - b[1], a[2] - b[2], a[3] - b[3]>>
VScale(c, a) == <<c * a[1], c * a[2], c * a[3]>>
Col(E, j) == <<E[1][j], E[2][j], E[3][j]>>
Z3 == <<0, 0, 0>>

\* =================================================================== PART P
PX(X, c, D) == [rP |-> VAdd(X.rP, VScale(c, D.rP)), rQ |-> VAdd(X.rQ, VScale(c, D.rQ))]
PU(U, c, D) == [vP |-> VAdd(U.vP, VScale(c, D.vP)), vQ |-> VAdd(U.vQ, VScale(c, D.vQ)), O |-> VAdd(U.O, VScale(c, D.O))]
PXdot(U) == [rP |-> U.vP, rQ |-> U.vQ]
PAasU(A) == [vP |-> A.aP, vQ |-> A.aQ, O |-> A.Y]
ZeroPX == [rP |-> Z3, rQ |-> Z3]
ZeroPU == [vP |-> Z3, vQ |-> Z3, O |-> Z3]

\* The plane basis is the rational matrix F / s (an integer matrix F with a common denominator s, s = 1 for axis-aligned planes), lengths
\* and translational velocities / accelerations are given as integer multiples of 1 / S:  PGN is s S times the gap, PGF s^2 S times the
\* sliding velocity (every routine below is a difference of these and inherits the factor).
PGN(p, X) == Dot3(Col(p.F, 3), VSub(X.rP, X.rQ)) - p.s * p.S * p.rho
PGF(p, X, U) ==
    LET n == Col(p.F, 3)
        vrel == VSub(VSub(VScale(p.s, U.vP), VScale(p.S * p.rho, Cross(U.O, n))), VScale(p.s, U.vQ))
    IN <<p.al[1] * Dot3(Col(p.F, 1), vrel), p.al[2] * Dot3(Col(p.F, 2), vrel)>>
\* rates along the flow (central differences, exact for these polynomials of degree <= 2 along a line)
PGNdot(p, X, U) == (PGN(p, PX(X, 1, PXdot(U))) - PGN(p, PX(X, 0 - 1, PXdot(U)))) \div 2
PGNddot(p, X, U, A) == (PGNdot(p, PX(X, 1, PXdot(U)), PU(U, 1, PAasU(A))) - PGNdot(p, PX(X, 0 - 1, PXdot(U)), PU(U, 0 - 1, PAasU(A)))) \div 2
Half2(a, b) == <<(a[1] - b[1]) \div 2, (a[2] - b[2]) \div 2>>
PGFdot(p, X, U, A) == Half2(PGF(p, PX(X, 1, PXdot(U)), PU(U, 1, PAasU(A))), PGF(p, PX(X, 0 - 1, PXdot(U)), PU(U, 0 - 1, PAasU(A))))
\* derivative of a function f(X, U, A) along (dX, dU, dA)
PDGN(p, X, dX) == (PGN(p, PX(X, 1, dX)) - PGN(p, PX(X, 0 - 1, dX))) \div 2
PDGNdot(p, X, U, dX, dU) == (PGNdot(p, PX(X, 1, dX), PU(U, 1, dU)) - PGNdot(p, PX(X, 0 - 1, dX), PU(U, 0 - 1, dU))) \div 2
PDGF(p, X, U, dX, dU) == Half2(PGF(p, PX(X, 1, dX), PU(U, 1, dU)), PGF(p, PX(X, 0 - 1, dX), PU(U, 0 - 1, dU)))
PAdd(A, c, D) == [aP |-> VAdd(A.aP, VScale(c, D.aP)), aQ |-> VAdd(A.aQ, VScale(c, D.aQ)), Y |-> VAdd(A.Y, VScale(c, D.Y))]
PDGFdot(p, X, U, A, dX, dU, dA) ==
    Half2(PGFdot(p, PX(X, 1, dX), PU(U, 1, dU), PAdd(A, 1, dA)), PGFdot(p, PX(X, 0 - 1, dX), PU(U, 0 - 1, dU), PAdd(A, 0 - 1, dA)))
ZeroPA == [aP |-> Z3, aQ |-> Z3, Y |-> Z3]

PVerdict(r) ==
    LET p == r.p  X == r.X  U == r.U  A == r.A  fr == r.friction
        qN == {k \in 1..Len(r.qdirs) : r.qdirs[k].gNq # PDGN(p, X, r.qdirs[k].dX)}
        qNd == {k \in 1..Len(r.qdirs) : r.qdirs[k].gNdotq # PDGNdot(p, X, U, r.qdirs[k].dX, r.qdirs[k].dU)}
        qF == {k \in 1..Len(r.qdirs) : fr /\ r.qdirs[k].gFq # PDGF(p, X, U, r.qdirs[k].dX, r.qdirs[k].dU)}
        qFd == {k \in 1..Len(r.qdirs) : fr /\ r.qdirs[k].gFdotq # PDGFdot(p, X, U, A, r.qdirs[k].dX, r.qdirs[k].dU, r.qdirs[k].dA)}
        uN == {k \in 1..Len(r.udirs) : r.udirs[k].wN # PGNdot(p, X, r.udirs[k].dU) \/ r.udirs[k].gNdotu # PGNdot(p, X, r.udirs[k].dU)}
        uF == {k \in 1..Len(r.udirs) : fr /\ (r.udirs[k].wF # PGF(p, X, r.udirs[k].dU) \/ r.udirs[k].gFu # PGF(p, X, r.udirs[k].dU))}
        uFd == {k \in 1..Len(r.udirs) : fr /\ r.udirs[k].gFdotu # PDGFdot(p, X, U, A, ZeroPX, r.udirs[k].dU, r.udirs[k].dA)}
        wN == {k \in 1..Len(r.wla) : r.wla[k].wlaN # r.laN * (PDGNdot(p, X, r.udirs[r.wla[k].j].dU, r.qdirs[r.wla[k].k].dX, r.wla[k].ddU))}
        wF == {k \in 1..Len(r.wla) : fr /\
                 LET g == PDGF(p, X, r.udirs[r.wla[k].j].dU, r.qdirs[r.wla[k].k].dX, r.wla[k].ddU) IN
                 r.wla[k].wlaF # r.laF[1] * g[1] + r.laF[2] * g[2]}
    IN IF r.gN # PGN(p, X) THEN "g_N is not the signed distance between sphere and plane"
       ELSE IF r.gNdot # PGNdot(p, X, U) THEN "g_N_dot is not the time derivative of g_N"
       ELSE IF r.gNddot # PGNddot(p, X, U, A) THEN "g_N_ddot is not the time derivative of g_N_dot"
       ELSE IF fr /\ r.gF # PGF(p, X, U) THEN "gamma_F is not the tangential relative velocity of the touching points"
       ELSE IF fr /\ r.gFdot # PGFdot(p, X, U, A) THEN "gamma_F_dot is not the time derivative of gamma_F"
       ELSE IF uN # {} THEN "W_N / g_N_dot_u is not the transposed u-derivative of g_N_dot"
       ELSE IF uF # {} THEN "W_F / gamma_F_u is not the transposed u-derivative of gamma_F"
       ELSE IF qN # {} THEN "g_N_q is not the q-derivative of g_N"
       ELSE IF qNd # {} THEN "g_N_dot_q is not the q-derivative of g_N_dot"
       ELSE IF qF # {} THEN "gamma_F_q is not the q-derivative of gamma_F"
       ELSE IF qFd # {} THEN "gamma_F_dot_q is not the q-derivative of gamma_F_dot"
       ELSE IF uFd # {} THEN "gamma_F_dot_u is not the u-derivative of gamma_F_dot"
       ELSE IF wN # {} THEN "Wla_N_q is not the q-derivative of W_N la_N"
       ELSE IF wF # {} THEN "Wla_F_q is not the q-derivative of W_F la_F"
       ELSE ""

\* =================================================================== PART S
\* state Z = [r, v, Os]  (r = r2 - r1, v = v2 - v1, Os = rho1 O1 + rho2 O2); a direction has the same shape
ZAdd(Z, c, D) == [r |-> VAdd(Z.r, VScale(c, D.r)), v |-> VAdd(Z.v, VScale(c, D.v)), Os |-> VAdd(Z.Os, VScale(c, D.Os))]
ZeroZ == [r |-> Z3, v |-> Z3, Os |-> Z3]
W(tr, Z) == Cross(tr, Z.r)
\* the polynomials
Poly(id, tr, Z) ==
    CASE id = "D2" -> Dot3(Z.r, Z.r)
      [] id = "M2" -> Dot3(W(tr, Z), W(tr, Z))
      [] id = "P5" -> Dot3(Z.r, Z.v)                                   \* g_N_dot = P5 / d
      [] id = "P1" -> Dot3(W(tr, Z), Z.v)                              \* gamma_1 = P1 / m - P2 / (m d)
      [] id = "P2" -> Dot3(W(tr, Z), Cross(Z.Os, Z.r))
      [] id = "P3" -> Dot3(Cross(Z.r, W(tr, Z)), Z.v)                  \* gamma_2 = P3 / (d m) - P4 / (d^2 m)
      [] id = "P4" -> Dot3(Cross(Z.r, W(tr, Z)), Cross(Z.Os, Z.r))
\* exact derivative of a polynomial of degree <= 4 along a line
St5(id, tr, Z, D) == (8 * (Poly(id, tr, ZAdd(Z, 1, D)) - Poly(id, tr, ZAdd(Z, 0 - 1, D)))
                      - (Poly(id, tr, ZAdd(Z, 2, D)) - Poly(id, tr, ZAdd(Z, 0 - 2, D)))) \div 12
\* value and derivative of the term  P / (d^a m^b)
TVal(id, a, b, g, Z) == RNorm(<<Poly(id, g.tr, Z), IPow(g.d, a) * IPow(g.m, b)>>)
TD(id, a, b, g, Z, D) ==
    LET P == Poly(id, g.tr, Z)  DP == St5(id, g.tr, Z, D)
        dd == RNorm(<<St5("D2", g.tr, Z, D), 2 * g.d>>)         \* d' from 2 d d' = (r.r)'
        dm == RNorm(<<St5("M2", g.tr, Z, D), 2 * g.m>>)         \* m' from 2 m m' = (w.w)'
        den == IPow(g.d, a) * IPow(g.m, b)
        t0 == RNorm(<<DP, den>>)
        t1 == RMul(RMul(RI(a * P), dd), RNorm(<<1, den * g.d>>))
        t2 == RMul(RMul(RI(b * P), dm), RNorm(<<1, den * g.m>>))
    IN RSub(RSub(t0, t1), t2)
SGN(g) == g.d - g.rho1 - g.rho2
SGNdot(g, Z) == TVal("P5", 1, 0, g, Z)
SGF(g, Z) == <<RSub(TVal("P1", 0, 1, g, Z), TVal("P2", 1, 1, g, Z)), RSub(TVal("P3", 1, 1, g, Z), TVal("P4", 2, 1, g, Z))>>
SDGNdot(g, Z, D) == TD("P5", 1, 0, g, Z, D)
SDGF(g, Z, D) == <<RSub(TD("P1", 0, 1, g, Z, D), TD("P2", 1, 1, g, Z, D)), RSub(TD("P3", 1, 1, g, Z, D), TD("P4", 2, 1, g, Z, D))>>
\* flow: r' = v, v' = a, Os' = Ys
Flow(Z, Acc) == [r |-> Z.v, v |-> Acc.a, Os |-> Acc.Ys]
GeoOK(g, Z) == g.d > 0 /\ g.m > 0 /\ g.d * g.d = Poly("D2", g.tr, Z) /\ g.m * g.m = Poly("M2", g.tr, Z)

RV(x) == RNorm(<<x[1], x[2]>>)
RV2(x) == <<RV(x[1]), RV(x[2])>>
SVerdict(rec) ==
    LET g == rec.g  Z == rec.Z  fr == rec.friction
        vel(k) == [r |-> Z3, v |-> rec.udirs[k].dZ.v, Os |-> rec.udirs[k].dZ.Os]          \* the state in which (v, Os) is the velocity direction of u_k
        qN == {k \in 1..Len(rec.qdirs) : RV(rec.qdirs[k].gNq) # RNorm(<<Dot3(Z.r, rec.qdirs[k].dZ.r), g.d>>)}
        qF == {k \in 1..Len(rec.qdirs) : fr /\ RV2(rec.qdirs[k].gFq) # SDGF(g, Z, rec.qdirs[k].dZ)}
        uN == {k \in 1..Len(rec.udirs) : RV(rec.udirs[k].wN) # SGNdot(g, ZAdd(vel(k), 1, [r |-> Z.r, v |-> Z3, Os |-> Z3]))
                                         \/ RV(rec.udirs[k].gNdotu) # SGNdot(g, ZAdd(vel(k), 1, [r |-> Z.r, v |-> Z3, Os |-> Z3]))}
        uF == {k \in 1..Len(rec.udirs) : fr /\ (RV2(rec.udirs[k].wF) # SGF(g, ZAdd(vel(k), 1, [r |-> Z.r, v |-> Z3, Os |-> Z3]))
                                               \/ RV2(rec.udirs[k].gFu) # SGF(g, ZAdd(vel(k), 1, [r |-> Z.r, v |-> Z3, Os |-> Z3])))}
        wN == {k \in 1..Len(rec.wla) :
                 LET zz == ZAdd(vel(rec.wla[k].j), 1, [r |-> Z.r, v |-> Z3, Os |-> Z3])
                     dd == [r |-> rec.qdirs[rec.wla[k].k].dZ.r, v |-> rec.wla[k].ddZ.v, Os |-> rec.wla[k].ddZ.Os] IN
                 RV(rec.wla[k].wlaN) # RMul(RI(rec.laN), SDGNdot(g, zz, dd))}
        wF == {k \in 1..Len(rec.wla) : fr /\
                 LET zz == ZAdd(vel(rec.wla[k].j), 1, [r |-> Z.r, v |-> Z3, Os |-> Z3])
                     dd == [r |-> rec.qdirs[rec.wla[k].k].dZ.r, v |-> rec.wla[k].ddZ.v, Os |-> rec.wla[k].ddZ.Os]
                     gg == SDGF(g, zz, dd) IN
                 RV(rec.wla[k].wlaF) # RAdd(RMul(RI(rec.laF[1]), gg[1]), RMul(RI(rec.laF[2]), gg[2]))}
    IN IF ~GeoOK(g, Z) THEN "MACHINERY: the record is not on the Pythagorean lattice"
       ELSE IF RV(rec.gN) # RI(SGN(g)) THEN "g_N is not the distance between the sphere surfaces"
       ELSE IF RV(rec.gNdot) # SGNdot(g, Z) THEN "g_N_dot is not the time derivative of g_N"
       ELSE IF RV(rec.gNddot) # SDGNdot(g, Z, Flow(Z, rec.Acc)) THEN "g_N_ddot is not the time derivative of g_N_dot"
       ELSE IF fr /\ RV2(rec.gF) # SGF(g, Z) THEN "gamma_F is not the tangential relative velocity of the touching points"
       ELSE IF fr /\ RV2(rec.gFdot) # SDGF(g, Z, Flow(Z, rec.Acc)) THEN "gamma_F_dot is not the time derivative of gamma_F"
       ELSE IF uN # {} THEN "W_N / g_N_dot_u is not the transposed u-derivative of g_N_dot"
       ELSE IF uF # {} THEN "W_F / gamma_F_u is not the transposed u-derivative of gamma_F"
       ELSE IF qN # {} THEN "g_N_q is not the q-derivative of g_N"
       ELSE IF qF # {} THEN "gamma_F_q is not the q-derivative of gamma_F"
       ELSE IF wN # {} THEN "Wla_N_q is not the q-derivative of W_N la_N"
       ELSE IF wF # {} THEN "Wla_F_q is not the q-derivative of W_F la_F"
       ELSE ""

\* =================================================================== the contact interface of System
\* every contact method the system exposes returns a value or is explicitly declared unimplemented
ApiMethods == {"g_N", "g_N_q", "W_N", "g_N_dot", "g_N_ddot", "xi_N", "xi_N_q", "chi_N", "g_N_dot_u", "Wla_N_q", "gamma_F", "gamma_F_dot",
               "xi_F", "xi_F_q", "gamma_F_q", "gamma_F_u", "gamma_F_dot_q", "gamma_F_dot_u", "W_F", "Wla_F_q"}
\* the quantities the property itself lists must be values, the remaining derivatives may be declared unimplemented
MustBeValue == {"g_N", "g_N_q", "W_N", "g_N_dot", "g_N_ddot", "xi_N", "Wla_N_q", "gamma_F", "gamma_F_dot", "xi_F", "W_F", "Wla_F_q"}
AVerdict(r) ==
    IF r.method \notin ApiMethods THEN "MACHINERY: unknown method"
    ELSE IF r.outcome = "value" THEN ""
    ELSE IF r.outcome = "NotImplementedError" /\ r.method \notin MustBeValue THEN ""
    ELSE IF r.outcome = "NotImplementedError" THEN "a quantity of the contact hierarchy is declared unimplemented"
    ELSE "a contact derivative the system exposes fails instead of being exact or declared unimplemented"

\* =================================================================== mode "identities"
VARIABLES case, l, verdicts
vars == <<case, l, verdicts>>

OctF == {I3, <<<<0, 0 - 1, 0>>, <<1, 0, 0>>, <<0, 0, 1>>>>, <<<<0, 0, 1>>, <<1, 0, 0>>, <<0, 1, 0>>>>, <<<<1, 0, 0>>, <<0, 0, 1>>, <<0, 0 - 1, 0>>>>}
VS == {<<0, 0, 0>>, <<1, 0 - 1, 2>>, <<0 - 2, 0, 1>>, <<0, 3, 1>>}
\* tilted plane bases: rotations of the integer quaternions (2,1,0,0) and (1,1,1,0), as integer matrix and common denominator
Bases == {[F |-> f, s |-> 1] : f \in OctF} \cup
         {[F |-> <<<<5, 0, 0>>, <<0, 3, 0 - 4>>, <<0, 4, 3>>>>, s |-> 5], [F |-> <<<<1, 2, 2>>, <<2, 1, 0 - 2>>, <<0 - 2, 2, 0 - 1>>>>, s |-> 3]}
PCases == [kind : {"P"}, B : Bases, S : {1, 3}, rho : {0, 2}, al : {<<1, 1>>, <<2, 3>>}, rP : {<<1, 0 - 2, 3>>, <<0, 1, 1>>}, vP : VS, vQ : {Z3, <<1, 1, 0>>}, O : VS, aP : {<<2, 0, 0 - 1>>}, Y : {<<1, 1, 0 - 1>>}]
PythR == {<<3, 4, 0>>, <<0 - 4, 3, 0>>, <<0, 3, 0 - 4>>, <<4, 0, 3>>, <<0, 0, 2>>, <<5, 0, 0>>, <<0, 0 - 3, 0>>}
Axes == {<<1, 0, 0>>, <<0, 1, 0>>, <<0, 0, 0 - 1>>}
ISqrt(x) == IF \E k \in 0..30 : k * k = x THEN CHOOSE k \in 0..30 : k * k = x ELSE 0
SCases == {c \in [kind : {"S"}, r : PythR, tr : Axes, v : VS \ {Z3}, Os : VS, a : {<<2, 0, 0 - 1>>, <<0, 1, 1>>}, Ys : {<<1, 1, 0 - 1>>}] :
             ISqrt(Dot3(Cross(c.tr, c.r), Cross(c.tr, c.r))) > 0}
GOf(c) == [tr |-> c.tr, d |-> ISqrt(Dot3(c.r, c.r)), m |-> ISqrt(Dot3(Cross(c.tr, c.r), Cross(c.tr, c.r))), rho1 |-> 1, rho2 |-> 2]
ZOf(c) == [r |-> c.r, v |-> c.v, Os |-> c.Os]

PIdent(c) ==
    LET p == [F |-> c.B.F, rho |-> c.rho, al |-> c.al, s |-> c.B.s, S |-> c.S]
        X == [rP |-> c.rP, rQ |-> <<1, 1, 0 - 1>>]  U == [vP |-> c.vP, vQ |-> c.vQ, O |-> c.O]
        A == [aP |-> c.aP, aQ |-> <<0, 1, 0>>, Y |-> c.Y]  n == Col(p.F, 3)       \* s times the unit normal; lengths in units of 1 / S
        Sp == VSub(VScale(p.s, X.rP), VScale(p.S * c.rho, n))                   \* s S times the sphere's point closest to the plane
    IN /\ Dot3(n, n) = p.s * p.s /\ Dot3(Col(p.F, 1), Col(p.F, 2)) = 0 /\ Dot3(Col(p.F, 1), n) = 0 /\ Dot3(Col(p.F, 2), n) = 0
       /\ Cross(Col(p.F, 1), Col(p.F, 2)) = VScale(p.s, n)                      \* F / s is a rotation
       /\ p.s * PGN(p, X) = Dot3(n, VSub(Sp, VScale(p.s, X.rQ)))                \* the gap is the signed distance of that point
       /\ PGNdot(p, X, U) = Dot3(n, VSub(U.vP, U.vQ))
       /\ PGNddot(p, X, U, A) = Dot3(n, VSub(A.aP, A.aQ))
       /\ PGFdot(p, X, U, A) = PGF(p, X, PAasU(A))
       \* the slip velocity misses exactly the normal part of the relative velocity of the touching points
       /\ LET vrel == VSub(VSub(VScale(p.s, U.vP), VScale(p.S * c.rho, Cross(U.O, n))), VScale(p.s, U.vQ))       \* s S times the relative velocity
              gf == PGF([p EXCEPT !.al = <<1, 1>>], X, U) IN
          gf[1] * gf[1] + gf[2] * gf[2] = p.s * p.s * Dot3(vrel, vrel) - Dot3(n, vrel) * Dot3(n, vrel)
SIdent(c) ==
    LET g == GOf(c)  Z == ZOf(c)  Acc == [a |-> c.a, Ys |-> c.Ys]
        w == W(c.tr, Z)  wr == Cross(Z.r, w)
        nv == RNorm(<<Dot3(Z.r, Z.v), g.d>>)
        gf == SGF(g, Z)
        \* relative velocity of the touching points times d:  d v - Os x r
        vr == VSub(VScale(g.d, Z.v), Cross(Z.Os, Z.r))
    IN /\ GeoOK(g, Z)
       /\ Dot3(w, Z.r) = 0 /\ Dot3(wr, Z.r) = 0 /\ Dot3(wr, w) = 0 /\ Dot3(wr, wr) = g.d * g.d * g.m * g.m      \* orthonormal contact basis
       \* gap acceleration: n . a + (|v|^2 - (n . v)^2) / d
       /\ SDGNdot(g, Z, Flow(Z, Acc)) = RAdd(RNorm(<<Dot3(Z.r, c.a), g.d>>), RMul(RSub(RI(Dot3(Z.v, Z.v)), RMul(nv, nv)), RNorm(<<1, g.d>>)))
       \* |gamma_F|^2 is the squared tangential part of the relative velocity
       /\ RAdd(RMul(gf[1], gf[1]), RMul(gf[2], gf[2])) =
            RSub(RNorm(<<Dot3(vr, vr), g.d * g.d>>), RMul(RNorm(<<Dot3(Z.r, vr), g.d * g.d>>), RNorm(<<Dot3(Z.r, vr), g.d * g.d>>)))
IdentitiesOK == Mode = "identities" => (IF case.kind = "P" THEN PIdent(case) ELSE SIdent(case))

\* =================================================================== mode "trace"
TraceLog == IF Mode = "trace" THEN ndJsonDeserialize(IOEnv.TRACE_FILE) ELSE <<>>
Init == IF Mode = "identities" THEN case \in PCases \cup SCases /\ l = 0 /\ verdicts = <<>>
        ELSE case = <<>> /\ l = 1 /\ verdicts = <<>>
Step ==
    /\ Mode = "trace"
    /\ \/ /\ l <= Len(TraceLog)
          /\ LET r == TraceLog[l]  v == CASE r.kind = "P" -> PVerdict(r) [] r.kind = "S" -> SVerdict(r) [] OTHER -> AVerdict(r) IN
             verdicts' = IF v = "" THEN verdicts ELSE Append(verdicts, [id |-> r.id, clause |-> v])
          /\ l' = l + 1
       \/ /\ l = Len(TraceLog) + 1
          /\ PrintT(<<"VERDICTS", verdicts>>)
          /\ l' = l + 1 /\ UNCHANGED verdicts
    /\ UNCHANGED case
Next == Step
Spec == Init /\ [][Next]_vars
=============================================================================
