--------------------------- MODULE TraceSolverRun ---------------------------
(***************************************************************************)
(* Trace validation for SolverRun: consumes an ndjson file of events       *)
(* recorded from real solver runs (many runs per file, each introduced by  *)
(* a "begin" event) and checks that every run is a behaviour of SolverRun. *)
(* The trace is fully logged, so the check is deterministic and linear.    *)
(* A run that leaves the specification is recorded in `verdicts` with the  *)
(* line and the violated clause, and the rest of that run is skipped, so   *)
(* one TLC invocation yields a verdict for every run in the file.          *)
(***************************************************************************)
EXTENDS SolverRun, Json, IOUtils

TraceLog == ndJsonDeserialize(IOEnv.TRACE_FILE)

VARIABLES l,         \* next line of the trace
          skipping,  \* the current run was rejected: skip to the next "begin"
          verdicts   \* sequence of [tid, line, clause]

tvars == <<vars, l, skipping, verdicts>>

SeqToSet(s) == {s[i] : i \in DOMAIN s}

Dummy == [solver |-> "Moreau", cwu |-> FALSE, parts |-> {}, nsteps |-> 1]

TraceInit == InitRun(Dummy) /\ l = 1 /\ skipping = TRUE /\ verdicts = <<>>

Ev == TraceLog[l]

Reject(clause) ==
    /\ verdicts' = Append(verdicts, [tid |-> Ev.tid, line |-> l, clause |-> clause])
    /\ skipping' = TRUE
    /\ UNCHANGED vars

Keep == UNCHANGED <<skipping, verdicts>>

DoBegin ==
    LET c == [solver |-> Ev.solver, cwu |-> Ev.cwu, parts |-> SeqToSet(Ev.parts), nsteps |-> Ev.nsteps] IN
    /\ cfg' = c
    /\ accepted' = 0 /\ stepFault' = FALSE /\ stepWarned' = FALSE /\ stepWarnedT' = FALSE
    /\ everFault' = FALSE /\ nFaults' = 0 /\ warnings' = 0 /\ badRows' = 0 /\ rows' = 0
    /\ status' = "running"
    /\ unsupported' = ~(c.parts \subseteq Cap(c.solver))
    /\ skipping' = FALSE
    /\ UNCHANGED verdicts

DoSite ==
    IF status # "running" THEN Reject("event after the run ended")
    ELSE IF Ev.site \notin Sites(Solver) THEN Reject("site is not part of this solver's grammar")
    ELSE Site(Ev.site, Ev.ok) /\ Keep

DoWarn ==
    IF status \notin {"init", "running"} THEN Reject("event after the run ended")
    ELSE Warn(Ev.namesT) /\ Keep

DoAccept ==
    IF CanAccept THEN Accept /\ Keep
    ELSE IF status # "running" THEN Reject("event after the run ended")
    ELSE IF accepted >= NSteps THEN Reject("more steps stored than the time grid has")
    ELSE IF ~CWU THEN Reject("a step in which a site failed was stored although continue_with_unconverged is off")
    ELSE Reject("a step in which a site failed was stored without any warning")

DoEnd ==
    IF Ev.how = "raised" THEN EndRaised /\ Keep
    ELSE IF CanReturn(Ev.rows) THEN EndReturned(Ev.rows) /\ Keep
    ELSE IF status # "running" THEN Reject("event after the run ended")
    ELSE IF ~Batch(Solver) /\ Ev.rows # accepted + Row0(Solver) THEN Reject("returned rows differ from the stored steps (a row of a step that was not accepted is returned, or a stored row is missing)")
    ELSE IF unsupported THEN Reject("the system has a part the solver does not treat and the run returned without warning")
    ELSE IF CWU THEN Reject("returned in a step in which a site failed although continue_with_unconverged is on")
    ELSE IF ~stepWarned THEN Reject("a site failed and the solver returned without any warning")
    ELSE Reject("a site failed and the solver returned with a warning that does not name the stop time")

TraceNext ==
    \/ /\ l <= Len(TraceLog)
       /\ l' = l + 1
       /\ IF Ev.e = "begin" THEN DoBegin
          ELSE IF skipping THEN UNCHANGED <<vars, skipping, verdicts>>
          ELSE CASE Ev.e = "site"   -> DoSite
                 [] Ev.e = "warn"   -> DoWarn
                 [] Ev.e = "accept" -> DoAccept
                 [] Ev.e = "end"    -> DoEnd
                 [] OTHER           -> Reject("unknown event")
    \/ /\ l = Len(TraceLog) + 1
       /\ PrintT(<<"VERDICTS", verdicts>>)
       /\ l' = l + 1
       /\ UNCHANGED <<vars, skipping, verdicts>>

TraceSpec == TraceInit /\ [][TraceNext]_tvars

\* the invariants of SolverRun are evaluated on every state of every accepted run as well
TraceInv == NeverSilent /\ OnlyConvergedRowsWithoutCWU /\ NoSilentIgnore /\ RowsMatch
=============================================================================
