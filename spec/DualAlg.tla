------------------------------- MODULE DualAlg -------------------------------
(***************************************************************************)
(* Dual numbers a + eps b (eps^2 = 0) over the exact rationals of RatAlg:  *)
(* records [v |-> a, d |-> b].  A quantity evaluated with its arguments    *)
(* moved by eps along a direction has its derivative along that direction  *)
(* as d-part; no limit is taken.  Square roots need the (rational) root of *)
(* the value, which is given by the caller and checked there; the angle of *)
(* a planar vector contributes its derivative only.                        *)
(***************************************************************************)
EXTENDS Integers, Sequences, RatAlg

R(x) == RNorm(<<x[1], x[2]>>)
RInv(x) == RNorm(<<x[2], x[1]>>)
DD(a, b) == [v |-> a, d |-> b]
DC(a) == [v |-> a, d |-> RI(0)]
DAdd(a, b) == [v |-> RAdd(a.v, b.v), d |-> RAdd(a.d, b.d)]
DSub(a, b) == [v |-> RSub(a.v, b.v), d |-> RSub(a.d, b.d)]
DNeg(a) == [v |-> RNeg(a.v), d |-> RNeg(a.d)]
DMul(a, b) == [v |-> RMul(a.v, b.v), d |-> RAdd(RMul(a.v, b.d), RMul(a.d, b.v))]
DScale(c, a) == [v |-> RMul(c, a.v), d |-> RMul(c, a.d)]
DDiv(a, b) == LET iv == RInv(b.v) IN
              [v |-> RMul(a.v, iv), d |-> RMul(RSub(RMul(a.d, b.v), RMul(a.v, b.d)), RMul(iv, iv))]
\* square root with the given root s of a.v
DSqrt(a, s) == [v |-> s, d |-> RMul(a.d, RInv(RMul(RI(2), s)))]
DDot3(a, b) == DAdd(DAdd(DMul(a[1], b[1]), DMul(a[2], b[2])), DMul(a[3], b[3]))
DCross(a, b) == <<DSub(DMul(a[2], b[3]), DMul(a[3], b[2])), DSub(DMul(a[3], b[1]), DMul(a[1], b[3])), DSub(DMul(a[1], b[2]), DMul(a[2], b[1]))>>
\* derivative of the angle of the planar vector (x, y)
AngleRate(x, y) == RMul(RSub(RMul(x.v, y.d), RMul(y.v, x.d)), RInv(RAdd(RMul(x.v, x.v), RMul(y.v, y.v))))
\* a 3-vector and its change along the direction
DV(a, da) == <<DD(R(a[1]), R(da[1])), DD(R(a[2]), R(da[2])), DD(R(a[3]), R(da[3]))>>      \* tuples are evaluated once, functions at every use
\* the rotation matrix of the (not necessarily unit) quaternion P, R(P) = I + 2 (p0 p~ + p~ p~) / |P|^2, in dual arithmetic
DTwo == DC(RI(2))
DQuatS(P) == DAdd(DAdd(DMul(P[1], P[1]), DMul(P[2], P[2])), DAdd(DMul(P[3], P[3]), DMul(P[4], P[4])))
DQuatN(P) ==      \* |P|^2 R(P), a quadratic form
    LET a == P[1]  b == P[2]  c == P[3]  e == P[4]
        aa == DMul(a, a)  bb == DMul(b, b)  cc == DMul(c, c)  ee == DMul(e, e)
        ab == DMul(a, b)  ac == DMul(a, c)  ae == DMul(a, e)  bc == DMul(b, c)  be == DMul(b, e)  ce == DMul(c, e)
    IN <<<<DSub(DAdd(aa, bb), DAdd(cc, ee)), DMul(DTwo, DSub(bc, ae)), DMul(DTwo, DAdd(be, ac))>>,
         <<DMul(DTwo, DAdd(bc, ae)), DSub(DAdd(aa, cc), DAdd(bb, ee)), DMul(DTwo, DSub(ce, ab))>>,
         <<DMul(DTwo, DSub(be, ac)), DMul(DTwo, DAdd(ce, ab)), DSub(DAdd(aa, ee), DAdd(bb, cc))>>>>
DQuatR(P) == LET s == DQuatS(P)  Nm == DQuatN(P) IN
    <<<<DDiv(Nm[1][1], s), DDiv(Nm[1][2], s), DDiv(Nm[1][3], s)>>, <<DDiv(Nm[2][1], s), DDiv(Nm[2][2], s), DDiv(Nm[2][3], s)>>,
      <<DDiv(Nm[3][1], s), DDiv(Nm[3][2], s), DDiv(Nm[3][3], s)>>>>
\* quaternion product a o b
DQProd(a, b) == LET av == <<a[2], a[3], a[4]>>  bv == <<b[2], b[3], b[4]>>  cr == DCross(av, bv) IN
    <<DSub(DMul(a[1], b[1]), DDot3(av, bv)),
      DAdd(DAdd(DMul(a[1], bv[1]), DMul(b[1], av[1])), cr[1]), DAdd(DAdd(DMul(a[1], bv[2]), DMul(b[1], av[2])), cr[2]), DAdd(DAdd(DMul(a[1], bv[3]), DMul(b[1], av[3])), cr[3])>>
DMatVec(A, x) == <<DDot3(A[1], x), DDot3(A[2], x), DDot3(A[3], x)>>
DMatTCol(A, x, i) == DAdd(DAdd(DMul(A[1][i], x[1]), DMul(A[2][i], x[2])), DMul(A[3][i], x[3]))
DMatTVec(A, x) == <<DMatTCol(A, x, 1), DMatTCol(A, x, 2), DMatTCol(A, x, 3)>>
=============================================================================
