------------------------------- MODULE QuatAlg -------------------------------
(***************************************************************************)
(* Integer linear algebra for the exact-lattice specifications: 3-vectors, *)
(* 3x3 matrices, quaternions, the cleared rotation matrix                  *)
(* N(P) = |P|^2 R(P), the tangent maps Tn, Ti and exact stencil            *)
(* derivatives.  No variables: EXTENDed by QuatKernel, RigidKinematics,    *)
(* JointLattice and ContactGeometry.                                       *)
(***************************************************************************)
EXTENDS Integers, Sequences, FiniteSets, TLC

---------------------------------------------------------------------------
\* 3-vectors and 3x3 matrices as functions
Vec(a, b, c) == <<a, b, c>>
I3 == <<<<1, 0, 0>>, <<0, 1, 0>>, <<0, 0, 1>>>>
MatMul(A, B) == [i \in 1..3 |-> [j \in 1..3 |-> A[i][1] * B[1][j] + A[i][2] * B[2][j] + A[i][3] * B[3][j]]]
MatT(A) == [i \in 1..3 |-> [j \in 1..3 |-> A[j][i]]]
MatScale(c, A) == [i \in 1..3 |-> [j \in 1..3 |-> c * A[i][j]]]
MatAdd(A, B) == [i \in 1..3 |-> [j \in 1..3 |-> A[i][j] + B[i][j]]]
MatSub(A, B) == [i \in 1..3 |-> [j \in 1..3 |-> A[i][j] - B[i][j]]]
MatVec(A, v) == [i \in 1..3 |-> A[i][1] * v[1] + A[i][2] * v[2] + A[i][3] * v[3]]
Det(A) == A[1][1] * (A[2][2] * A[3][3] - A[2][3] * A[3][2])
        - A[1][2] * (A[2][1] * A[3][3] - A[2][3] * A[3][1])
        + A[1][3] * (A[2][1] * A[3][2] - A[2][2] * A[3][1])
Skew(v) == <<<<0, 0 - v[3], v[2]>>, <<v[3], 0, 0 - v[1]>>, <<0 - v[2], v[1], 0>>>>
Cross(a, b) == <<a[2] * b[3] - a[3] * b[2], a[3] * b[1] - a[1] * b[3], a[1] * b[2] - a[2] * b[1]>>
Dot3(a, b) == a[1] * b[1] + a[2] * b[2] + a[3] * b[3]

\* quaternions
S(q) == q[1] * q[1] + q[2] * q[2] + q[3] * q[3] + q[4] * q[4]
V(q) == <<q[2], q[3], q[4]>>
QProd(a, b) ==
    LET va == V(a)  vb == V(b)  c == Cross(va, vb) IN
    <<a[1] * b[1] - Dot3(va, vb),
      a[1] * vb[1] + b[1] * va[1] + c[1], a[1] * vb[2] + b[1] * va[2] + c[2], a[1] * vb[3] + b[1] * va[3] + c[3]>>
QScale(c, q) == [i \in 1..4 |-> c * q[i]]
Unit(k) == [i \in 1..4 |-> IF i = k THEN 1 ELSE 0]
QAdd(a, b) == [i \in 1..4 |-> a[i] + b[i]]

\* N(P) = s I + 2 (p0 p~ + p~ p~)
N(q) == LET sk == Skew(V(q)) IN MatAdd(MatScale(S(q), I3), MatScale(2, MatAdd(MatScale(q[1], sk), MatMul(sk, sk))))

\* exact derivative of the quadratic N with respect to component k: central difference with step 1
dN(q, k) == LET a == N(QAdd(q, Unit(k)))  b == N(QAdd(q, QScale(0 - 1, Unit(k))))
            IN [i \in 1..3 |-> [j \in 1..3 |-> (a[i][j] - b[i][j]) \div 2]]
\* the derivative of R = N / s, cleared by s^2:  s^2 dR/dP_k = s dN_k - 2 P_k N
dRnum(q, k) == MatSub(MatScale(S(q), dN(q, k)), MatScale(2 * q[k], N(q)))

\* tangent map T(P) = 2 Tn / s  (3 x 4)  and its stated inverse Ti / 2  (4 x 3)
Tn(q) == LET sk == Skew(V(q)) IN
         [i \in 1..3 |-> [j \in 1..4 |-> IF j = 1 THEN 0 - q[i + 1] ELSE (IF i = j - 1 THEN q[1] ELSE 0) - sk[i][j - 1]]]
Ti(q) == LET sk == Skew(V(q)) IN
         [i \in 1..4 |-> [j \in 1..3 |-> IF i = 1 THEN 0 - q[j + 1] ELSE (IF i - 1 = j THEN q[1] ELSE 0) + sk[i - 1][j]]]
TnTi(q) == [i \in 1..3 |-> [j \in 1..3 |-> Tn(q)[i][1] * Ti(q)[1][j] + Tn(q)[i][2] * Ti(q)[2][j] + Tn(q)[i][3] * Ti(q)[3][j] + Tn(q)[i][4] * Ti(q)[4][j]]]
\* twice the quaternion rate that belongs to the angular velocity w:  2 Pdot = Ti w
Pdot2(q, w) == [i \in 1..4 |-> Ti(q)[i][1] * w[1] + Ti(q)[i][2] * w[2] + Ti(q)[i][3] * w[3]]
\* derivative of T = 2 Tn / s cleared by s^2: 2 s dTn_k - 4 P_k Tn   (Tn is linear: one-sided difference is exact)
dTn(q, k) == [i \in 1..3 |-> [j \in 1..4 |-> Tn(QAdd(q, Unit(k)))[i][j] - Tn(q)[i][j]]]
dTnum(q, k) == [i \in 1..3 |-> [j \in 1..4 |-> 2 * S(q) * dTn(q, k)[i][j] - 4 * q[k] * Tn(q)[i][j]]]
dTi(q, k) == [i \in 1..4 |-> [j \in 1..3 |-> Ti(QAdd(q, Unit(k)))[i][j] - Ti(q)[i][j]]]

=============================================================================
