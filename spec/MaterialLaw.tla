----------------------------- MODULE MaterialLaw -----------------------------
(***************************************************************************)
(* Rod material laws (C12) in exact rational arithmetic.                   *)
(*                                                                         *)
(* Simo1986   W = 1/2 dG.E dG + 1/2 dK.F dK          (dG = G - G0, ...)    *)
(* Harsch2021 W = 1/2 dG.E' dG + 1/2 E1 (l - l0)^2 + 1/2 dK.F dK,          *)
(*            E' = diag(0, E2, E3), l = |G|, l0 = |G0|                     *)
(* on strain states whose |G| and |G0| are integers (Pythagorean triples,  *)
(* ANY length of G0), integer curvatures and positive integer stiffnesses. *)
(*                                                                         *)
(* The spec states the energy only.  Forces/couples are DEFINED as its     *)
(* gradient and the tangents as the gradients of the forces, without       *)
(* calculus: polynomial parts are differentiated by exact central          *)
(* differences, and l by differentiating the polynomial identity           *)
(* l^2 = G.G  (2 l l' = (G.G)').  TLC checks on the lattice that these     *)
(* definitions agree with the closed forms of the literature, that the     *)
(* tangent is symmetric (hyperelasticity), and for the quadratic law that  *)
(* the complementary energy and compliances are the Legendre duals.        *)
(* Every state carries what the routines of the implementation must        *)
(* return there.                                                           *)
(***************************************************************************)
EXTENDS Integers, Sequences, FiniteSets, TLC, RatAlg

CONSTANTS Deep     \* TRUE: larger strain / stiffness sets (thorough tier)

VARIABLES case, expected
vars == <<case, expected>>

E3(j) == [i \in 1..3 |-> IF i = j THEN 1 ELSE 0]
VAdd(a, b) == <<a[1] + b[1], a[2] + b[2], a[3] + b[3]>>
VSub(a, b) == <<a[1] - b[1], a[2] - b[2], a[3] - b[3]>>
VScale(c, a) == <<c * a[1], c * a[2], c * a[3]>>
Dot3(a, b) == a[1] * b[1] + a[2] * b[2] + a[3] * b[3]
ISqrt(x) == IF \E k \in 0..40 : k * k = x THEN CHOOSE k \in 0..40 : k * k = x ELSE 0 - 1
Len3(a) == ISqrt(Dot3(a, a))

\* ------------------------------------------------------------------ twice the polynomial part of the energy
\* Q2(law, c, G, K) = dG.Eq dG + dK.F dK with Eq = E (Simo) or E' (Harsch)
Eq(c) == IF c.law = "Simo1986" THEN c.E ELSE <<0, c.E[2], c.E[3]>>
Q2(c, G, K) ==
    LET dG == VSub(G, c.G0)  dK == VSub(K, c.K0)  e == Eq(c) IN
    e[1] * dG[1] * dG[1] + e[2] * dG[2] * dG[2] + e[3] * dG[3] * dG[3] + c.F[1] * dK[1] * dK[1] + c.F[2] * dK[2] * dK[2] + c.F[3] * dK[3] * dK[3]
\* twice the energy as a rational
W2(c) == LET l == Len3(c.G)  l0 == Len3(c.G0) IN
         RI(Q2(c, c.G, c.K) + (IF c.law = "Harsch2021" THEN c.E[1] * (l - l0) * (l - l0) ELSE 0))

\* ------------------------------------------------------------------ gradient without calculus
\* derivative of Q2 along a strain direction (dG, dK): central difference, exact for a quadratic
DQ2(c, G, K, dG, dK) == (Q2(c, VAdd(G, dG), VAdd(K, dK)) - Q2(c, VSub(G, dG), VSub(K, dK))) \div 2
\* l' along dG from 2 l l' = (G.G)' (the latter by central difference)
DL(G, dG) == RNorm(<<(Dot3(VAdd(G, dG), VAdd(G, dG)) - Dot3(VSub(G, dG), VSub(G, dG))) \div 2, 2 * Len3(G)>>)
\* the energy's derivative along (dG, dK):  1/2 DQ2 + E1 (l - l0) l'
DW(c, G, K, dG, dK) ==
    LET l == Len3(G)  l0 == Len3(c.G0) IN
    RAdd(RNorm(<<DQ2(c, G, K, dG, dK), 2>>), IF c.law = "Harsch2021" THEN RMul(RI(c.E[1] * (l - l0)), DL(G, dG)) ELSE RI(0))
Z3 == <<0, 0, 0>>
ForceN(c) == [i \in 1..3 |-> DW(c, c.G, c.K, E3(i), Z3)]          \* contact force  n = dW/dG
CoupleM(c) == [i \in 1..3 |-> DW(c, c.G, c.K, Z3, E3(i))]         \* contact couple m = dW/dK

\* the closed forms of the literature (and, for Harsch, what the gradient of l (l - l0) gives)
ClosedN(c) ==
    LET dG == VSub(c.G, c.G0)  e == Eq(c)  l == Len3(c.G)  l0 == Len3(c.G0) IN
    [i \in 1..3 |-> RAdd(RI(e[i] * dG[i]), IF c.law = "Harsch2021" THEN RNorm(<<c.E[1] * (l - l0) * c.G[i], l>>) ELSE RI(0))]
ClosedM(c) == [i \in 1..3 |-> RI(c.F[i] * (c.K[i] - c.K0[i]))]

\* tangent dn_i/dG_j: differentiate ClosedN's pieces; the term E1 (1 - l0/l) G_i gives E1 [(1 - l0/l) delta_ij + l0 G_i l'_j / l^2]
TangentNG(c) ==
    LET e == Eq(c)  l == Len3(c.G)  l0 == Len3(c.G0) IN
    [i \in 1..3 |-> [j \in 1..3 |->
        RAdd(RI(IF i = j THEN e[i] ELSE 0),
             IF c.law = "Harsch2021"
             THEN RAdd(IF i = j THEN RNorm(<<c.E[1] * (l - l0), l>>) ELSE RI(0),
                       RMul(RNorm(<<c.E[1] * l0 * c.G[i], l * l>>), DL(c.G, E3(j))))
             ELSE RI(0))]]
TangentMK(c) == [i \in 1..3 |-> [j \in 1..3 |-> RI(IF i = j THEN c.F[i] ELSE 0)]]
ZeroM == [i \in 1..3 |-> [j \in 1..3 |-> RI(0)]]

\* the tangent really is the derivative of the force: n(G + h e_j) is not on the lattice, so the claim is checked through the
\* identity it must satisfy -- differentiating  l n_i = l e_i dG_i + E1 (l - l0) G_i  (a polynomial identity in G, l) along e_j:
\*     l'_j n_i + l T_ij = l'_j e_i dG_i + l e_i delta_ij + E1 l'_j G_i + E1 (l - l0) delta_ij
TangentIsDerivative(c) ==
    c.law = "Harsch2021" =>
    LET e == Eq(c)  l == Len3(c.G)  l0 == Len3(c.G0)  dG == VSub(c.G, c.G0)  n == ClosedN(c)  T == TangentNG(c) IN
    \A i \in 1..3 : \A j \in 1..3 :
        LET lj == DL(c.G, E3(j))  dij == IF i = j THEN 1 ELSE 0 IN
        RAdd(RMul(lj, n[i]), RMul(RI(l), T[i][j]))
          = RAdd(RAdd(RMul(lj, RI(e[i] * dG[i])), RI(l * e[i] * dij)), RAdd(RMul(lj, RI(c.E[1] * c.G[i])), RI(c.E[1] * (l - l0) * dij)))

\* Legendre duality of the quadratic law:  W + W*(n, m) = n.dG + m.dK  with W* = 1/2 n.E^-1 n + 1/2 m.F^-1 m
Wc2(c) == LET n == ClosedN(c)  m == ClosedM(c) IN
          RAdd(RAdd(RAdd(RMul(RMul(n[1], n[1]), RNorm(<<1, c.E[1]>>)), RMul(RMul(n[2], n[2]), RNorm(<<1, c.E[2]>>))), RMul(RMul(n[3], n[3]), RNorm(<<1, c.E[3]>>))),
               RAdd(RAdd(RMul(RMul(m[1], m[1]), RNorm(<<1, c.F[1]>>)), RMul(RMul(m[2], m[2]), RNorm(<<1, c.F[2]>>))), RMul(RMul(m[3], m[3]), RNorm(<<1, c.F[3]>>))))
Legendre(c) == c.law = "Simo1986" =>
    LET n == ClosedN(c)  m == ClosedM(c)  dG == VSub(c.G, c.G0)  dK == VSub(c.K, c.K0) IN
    RAdd(W2(c), Wc2(c)) = RMul(RI(2), RAdd(RDot(n, RVec(dG)), RDot(m, RVec(dK))))

Symmetric(T) == \A i \in 1..3 : \A j \in 1..3 : T[i][j] = T[j][i]
CaseOK == /\ ForceN(case) = ClosedN(case) /\ CoupleM(case) = ClosedM(case)      \* forces are the gradient of the energy
          /\ TangentIsDerivative(case) /\ Symmetric(TangentNG(case))
          /\ Legendre(case)

\* ------------------------------------------------------------------ cases
Gs == {<<1, 0, 0>>, <<0, 3, 4>>, <<2, 1, 2>>, <<0 - 1, 2, 0 - 2>>, <<2, 3, 6>>, <<3, 0, 0 - 4>>, <<0, 0, 2>>}
      \cup (IF Deep THEN {<<0 - 6, 2, 3>>, <<4, 4, 7>>, <<1, 4, 8>>, <<0, 0 - 5, 12>>, <<0 - 3, 0, 0>>, <<6, 6, 7>>, <<0, 1, 0>>, <<8, 0 - 4, 1>>} ELSE {})
G0s == {<<1, 0, 0>>, <<2, 0, 0>>, <<1, 2, 2>>, <<0, 0 - 3, 4>>} \cup (IF Deep THEN {<<0, 1, 0>>, <<2, 0 - 6, 3>>, <<0, 0, 0 - 2>>} ELSE {})
Ks == {<<0, 0, 0>>, <<1, 0 - 2, 3>>} \cup (IF Deep THEN {<<0 - 4, 1, 1>>} ELSE {})
K0s == {<<0, 0, 0>>, <<0, 1, 0 - 1>>}
Stiff == {<<5, 1, 2>>, <<3, 3, 3>>} \cup (IF Deep THEN {<<1, 7, 2>>, <<12, 5, 9>>} ELSE {})
Cases == [law : {"Simo1986", "Harsch2021"}, E : Stiff, F : {<<1, 2, 4>>}, G : Gs, G0 : G0s, K : Ks, K0 : K0s]

Expected(c) ==
    [W2 |-> W2(c), n |-> ClosedN(c), m |-> ClosedM(c), nG |-> TangentNG(c), mK |-> TangentMK(c),
     Wc2 |-> IF c.law = "Simo1986" THEN Wc2(c) ELSE RI(0)]

Init == case \in Cases /\ expected = Expected(case)
Next == UNCHANGED vars
Spec == Init /\ [][Next]_vars
=============================================================================
