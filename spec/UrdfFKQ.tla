------------------------------- MODULE UrdfFKQ -------------------------------
(***************************************************************************)
(* Forward kinematics of URDF trees (C28) by URDF semantics in exact       *)
(* RATIONAL arithmetic: the oblique companion of UrdfFK.                   *)
(*                                                                         *)
(* UrdfFK works over the octahedral group (quarter turns, signed           *)
(* coordinate axes).  On that lattice several mistakes are invisible: an   *)
(* axis that is not normalised or is read in the wrong frame when it is    *)
(* not a coordinate axis, sin / cos exchanged up to sign conventions that  *)
(* agree at quarter turns, a rotation vector used for an Euler triple with *)
(* one non-zero entry.  Here angles are indices into a table of angles     *)
(* with rational sine and cosine (quarter turns and the 3-4-5 angles),     *)
(* axes are rational unit vectors (coordinate axes, (3,4,0)/5, (0,-4,3)/5, *)
(* (1,2,2)/3); every frame is a matrix of rationals <<num, den>>.          *)
(*                                                                         *)
(* The semantics are those of UrdfFK, restated over the rationals: joint   *)
(* origin (xyz, rpy) in the parent link frame, R = Rz(yaw) Ry(pitch)       *)
(* Rx(roll); revolute / continuous: Rodrigues rotation about the unit axis *)
(* of the joint frame; prismatic: displacement along it; planar: (x, y) in *)
(* the joint frame; floating: displacement and rpy; the child's twist is   *)
(* the parent's plus the joint rate about / along the axis; a link's body  *)
(* sits at the inertial origin with the inertial orientation.              *)
(***************************************************************************)
EXTENDS RatAlg

CONSTANTS Family,     \* "single" | "chain"
          Stride

VARIABLES case, frames, expected
vars == <<case, frames, expected>>

\* ------------------------------------------------------------------ rational 3-vectors and 3x3 matrices (tuples)
Q(n, d) == RNorm(<<n, d>>)
QV(v) == <<RI(v[1]), RI(v[2]), RI(v[3])>>
QZ3 == QV(<<0, 0, 0>>)
QI3 == <<QV(<<1, 0, 0>>), QV(<<0, 1, 0>>), QV(<<0, 0, 1>>)>>
QAdd3(a, b) == <<RAdd(a[1], b[1]), RAdd(a[2], b[2]), RAdd(a[3], b[3])>>
QScale(c, a) == <<RMul(c, a[1]), RMul(c, a[2]), RMul(c, a[3])>>
QDot(a, b) == RAdd(RAdd(RMul(a[1], b[1]), RMul(a[2], b[2])), RMul(a[3], b[3]))
QCross(a, b) == <<RSub(RMul(a[2], b[3]), RMul(a[3], b[2])), RSub(RMul(a[3], b[1]), RMul(a[1], b[3])), RSub(RMul(a[1], b[2]), RMul(a[2], b[1]))>>
QCol(A, j) == <<A[1][j], A[2][j], A[3][j]>>
QT(A) == <<QCol(A, 1), QCol(A, 2), QCol(A, 3)>>
QMatVec(A, v) == <<QDot(A[1], v), QDot(A[2], v), QDot(A[3], v)>>
QMatMul(A, B) == LET Bt == QT(B) IN
    <<<<QDot(A[1], Bt[1]), QDot(A[1], Bt[2]), QDot(A[1], Bt[3])>>,
      <<QDot(A[2], Bt[1]), QDot(A[2], Bt[2]), QDot(A[2], Bt[3])>>,
      <<QDot(A[3], Bt[1]), QDot(A[3], Bt[2]), QDot(A[3], Bt[3])>>>>
QMatAdd(A, B) == <<QAdd3(A[1], B[1]), QAdd3(A[2], B[2]), QAdd3(A[3], B[3])>>
QMatScale(c, A) == <<QScale(c, A[1]), QScale(c, A[2]), QScale(c, A[3])>>
QSkew(v) == <<<<RI(0), RNeg(v[3]), v[2]>>, <<v[3], RI(0), RNeg(v[1])>>, <<RNeg(v[2]), v[1], RI(0)>>>>
QDet(A) == QDot(A[1], QCross(A[2], A[3]))

\* ------------------------------------------------------------------ angles with rational cosine and sine
\* index 0..3: quarter turns; 4: atan2(4, 3); 5: atan2(-3, 4); 6: atan2(-3, -4)
Cs(k) == CASE k = 0 -> RI(1) [] k = 1 -> RI(0) [] k = 2 -> RI(0 - 1) [] k = 3 -> RI(0) [] k = 4 -> Q(3, 5) [] k = 5 -> Q(4, 5) [] OTHER -> Q(0 - 4, 5)
Sn(k) == CASE k = 0 -> RI(0) [] k = 1 -> RI(1) [] k = 2 -> RI(0) [] k = 3 -> RI(0 - 1) [] k = 4 -> Q(4, 5) [] k = 5 -> Q(0 - 3, 5) [] OTHER -> Q(0 - 3, 5)
O == RI(0)
I == RI(1)
Rx(k) == <<<<I, O, O>>, <<O, Cs(k), RNeg(Sn(k))>>, <<O, Sn(k), Cs(k)>>>>
Ry(k) == <<<<Cs(k), O, Sn(k)>>, <<O, I, O>>, <<RNeg(Sn(k)), O, Cs(k)>>>>
Rz(k) == <<<<Cs(k), RNeg(Sn(k)), O>>, <<Sn(k), Cs(k), O>>, <<O, O, I>>>>
Rpy(t) == QMatMul(Rz(t[3]), QMatMul(Ry(t[2]), Rx(t[1])))
\* Rodrigues: rotation by the angle k about the UNIT vector a
RotAxis(a, k) == LET K == QSkew(a) IN QMatAdd(QI3, QMatAdd(QMatScale(Sn(k), K), QMatScale(RSub(I, Cs(k)), QMatMul(K, K))))

\* ------------------------------------------------------------------ forward kinematics
JointMotion(j) ==
    CASE j.type = "fixed" -> [dr |-> QZ3, dA |-> QI3, dv |-> QZ3, dw |-> QZ3]
      [] j.type \in {"revolute", "continuous"} -> [dr |-> QZ3, dA |-> RotAxis(j.axis, j.q), dv |-> QZ3, dw |-> QScale(RI(j.qd), j.axis)]
      [] j.type = "prismatic" -> [dr |-> QScale(RI(j.q), j.axis), dA |-> QI3, dv |-> QScale(RI(j.qd), j.axis), dw |-> QZ3]
      [] j.type = "planar" -> [dr |-> QV(<<j.q, j.q2, 0>>), dA |-> QI3, dv |-> QV(<<j.qd, j.qd2, 0>>), dw |-> QZ3]
      [] j.type = "floating" -> [dr |-> QV(j.fr), dA |-> Rpy(j.frpy), dv |-> QV(j.fv), dw |-> QV(j.fw)]
ChildFrame(p, j) ==
    LET Aj == QMatMul(p.A, Rpy(j.rpy))
        arm == QMatVec(p.A, QV(j.xyz))
        rj == QAdd3(p.r, arm)
        vj == QAdd3(p.v, QCross(p.w, arm))
        m == JointMotion(j)
        off == QMatVec(Aj, m.dr)
    IN [r |-> QAdd3(rj, off),
        A |-> QMatMul(Aj, m.dA),
        v |-> QAdd3(QAdd3(vj, QCross(p.w, off)), QMatVec(Aj, m.dv)),
        w |-> QAdd3(p.w, QMatVec(Aj, m.dw))]
Body(f, inert) ==
    LET c == QMatVec(f.A, QV(inert.xyz))  AB == QMatMul(f.A, Rpy(inert.rpy)) IN
    [r_OC |-> QAdd3(f.r, c), A_IB |-> AB, v_C |-> QAdd3(f.v, QCross(f.w, c)), B_Omega |-> QMatVec(QT(AB), f.w)]

RootFrame(c) == [r |-> QV(c.root.r), A |-> Rpy(c.root.rpy), v |-> QV(c.root.v), w |-> QMatVec(Rpy(c.root.rpy), QV(c.root.wR))]
NJ == Len(case.joints)
Complete == Len(frames) = NJ + 1
ExpectedNow == [root |-> Body(frames[1], case.root.inert), links |-> [i \in 1..NJ |-> Body(frames[i + 1], case.joints[i].inert)]]

\* ------------------------------------------------------------------ invariants of the oracle itself
IsRotation(M) == QMatMul(M, QT(M)) = QI3 /\ QDet(M) = I
IsUnit(a) == QDot(a, a) = I
OracleOK ==
    Complete =>
    \A i \in 1..NJ :
        LET j == case.joints[i]  p == frames[j.parent + 1]  c == frames[i + 1]  Aj == QMatMul(p.A, Rpy(j.rpy))  ax == QMatVec(Aj, j.axis) IN
        /\ IsUnit(j.axis)
        /\ IsRotation(c.A)
        /\ (j.type \in {"revolute", "continuous", "prismatic", "fixed"} => QMatVec(c.A, j.axis) = ax)      \* the axis is the same vector in both frames
        /\ (j.type \in {"revolute", "continuous"} => c.r = QAdd3(p.r, QMatVec(p.A, QV(j.xyz))))
        /\ (j.type \in {"prismatic", "fixed", "planar"} => c.A = Aj)
        /\ (j.type = "fixed" => (c.w = p.w /\ c.v = QAdd3(p.v, QCross(p.w, QMatVec(p.A, QV(j.xyz))))))
        \* the relative angular velocity is the rate times the common axis
        /\ (j.type \in {"revolute", "continuous"} => QAdd3(c.w, QScale(RI(0 - 1), p.w)) = QScale(RI(j.qd), ax))

\* ------------------------------------------------------------------ cases
Inert0 == [xyz |-> <<0, 0, 0>>, rpy |-> <<0, 0, 0>>]
Inert1 == [xyz |-> <<1, 0, 2>>, rpy |-> <<1, 0, 3>>]
Inert2 == [xyz |-> <<0, 0 - 1, 0>>, rpy |-> <<0, 0, 4>>]
AxZ == QV(<<0, 0, 1>>)
AxesQ == {AxZ, QV(<<0 - 1, 0, 0>>), <<Q(3, 5), Q(4, 5), O>>, <<O, Q(0 - 4, 5), Q(3, 5)>>, <<Q(1, 3), Q(2, 3), Q(2, 3)>>}
RpyQ == {<<4, 0, 0>>, <<0, 5, 0>>, <<0, 0, 6>>, <<4, 1, 0>>, <<1, 0, 5>>, <<0, 4, 5>>, <<2, 3, 1>>}
\* A floating joint takes a displacement fr, an orientation frpy, a linear rate fv and a relative angular velocity fw, all in the joint frame.
\* URDF does not say whether fv is the rate of fr or the velocity of the child-fixed point at the joint origin; the two readings differ by fw x fr,
\* so the cases with a relative spin (rate 2) have no displacement.
J(type, axis, xyz, rpy, q, qd, parent, inert) ==
    [type |-> type, axis |-> axis, xyz |-> xyz, rpy |-> rpy, q |-> q, qd |-> qd, q2 |-> 1 - q, qd2 |-> 2, parent |-> parent, inert |-> inert,
     fr |-> IF qd = 2 THEN <<0, 0, 0>> ELSE <<q, 1, 0 - 2>>, frpy |-> <<q, 0, 2>>, fv |-> <<qd, 0, 1>>, fw |-> IF qd = 2 THEN <<1, 2, 0 - 1>> ELSE <<0, 0, 0>>]
Roots == {[r |-> <<0, 0, 0>>, rpy |-> <<0, 0, 0>>, v |-> <<0, 0, 0>>, wR |-> <<0, 0, 0>>, floating |-> FALSE, inert |-> Inert0],
          [r |-> <<1, 0 - 2, 3>>, rpy |-> <<0, 4, 0>>, v |-> <<0, 0, 0>>, wR |-> <<0, 0, 0>>, floating |-> FALSE, inert |-> Inert1],
          [r |-> <<0, 1, 1>>, rpy |-> <<5, 0, 1>>, v |-> <<1, 0, 0 - 1>>, wR |-> <<0, 2, 1>>, floating |-> TRUE, inert |-> Inert2]}
Types == {"fixed", "revolute", "continuous", "prismatic", "planar", "floating"}
SingleCases ==
    {[root |-> r, joints |-> <<J(t, IF t = "planar" THEN AxZ ELSE a, <<2, 0 - 1, 1>>, o, q, qd, 0, Inert1)>>] :
        r \in Roots, t \in Types, a \in AxesQ, o \in RpyQ, q \in {1, 4, 5}, qd \in {0, 2}}
Menu == {J("revolute", <<Q(3, 5), Q(4, 5), O>>, <<1, 0, 0>>, <<0, 0, 0>>, 4, 1, 0, Inert1),
         J("continuous", <<Q(1, 3), Q(2, 3), Q(2, 3)>>, <<0, 2, 1>>, <<1, 0, 3>>, 1, 0 - 1, 0, Inert2),
         J("prismatic", <<O, Q(0 - 4, 5), Q(3, 5)>>, <<0, 0, 1>>, <<0, 4, 0>>, 2, 1, 0, Inert1),
         J("fixed", AxZ, <<1, 1, 0>>, <<5, 0, 1>>, 0, 0, 0, Inert0),
         J("floating", AxZ, <<0, 1, 0>>, <<0, 0, 2>>, 4, 2, 0, Inert1),
         J("planar", AxZ, <<0, 0, 1>>, <<0, 5, 0>>, 2, 1, 0, Inert0),
         J("revolute", QV(<<1, 0, 0>>), <<0 - 1, 0, 2>>, <<3, 0, 4>>, 5, 2, 0, Inert0)}
WithParent(j, p) == [j EXCEPT !.parent = p]
ChainCases ==
    {[root |-> r, joints |-> <<WithParent(a, 0), WithParent(b, pb)>>] : r \in Roots, a \in Menu, b \in Menu, pb \in 0..1}

Hash(c) == LET h[i \in 0..Len(c.joints)] == IF i = 0 THEN c.root.r[1] + 2 * c.root.rpy[1]
                                             ELSE h[i - 1] * 7 + c.joints[i].q + 3 * c.joints[i].qd + 5 * c.joints[i].rpy[1] + 11 * c.joints[i].rpy[3] + 13 * c.joints[i].axis[2][1]
                                                  + 17 * c.joints[i].axis[3][1] + 19 * c.joints[i].parent + 23 * Len(c.joints[i].type)
           IN h[Len(c.joints)]
Init == /\ case \in (IF Family = "single" THEN SingleCases ELSE ChainCases)
        /\ Hash(case) % Stride = 0
        /\ frames = <<RootFrame(case)>>
        /\ expected = <<>>
AddLink == /\ ~Complete
           /\ LET i == Len(frames)  j == case.joints[i] IN frames' = Append(frames, ChildFrame(frames[j.parent + 1], j))
           /\ UNCHANGED <<case, expected>>
Finish == /\ Complete /\ expected = <<>>
          /\ expected' = ExpectedNow
          /\ UNCHANGED <<case, frames>>
Next == AddLink \/ Finish
Spec == Init /\ [][Next]_vars
=============================================================================
