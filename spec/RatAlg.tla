------------------------------- MODULE RatAlg -------------------------------
(***************************************************************************)
(* Exact rational arithmetic for the lattice specifications: a rational is *)
(* a pair <<num, den>> with den > 0 in lowest terms.  TLC stops on integer *)
(* overflow (it never wraps), so a result that is printed is exact.        *)
(***************************************************************************)
EXTENDS Integers, Sequences
Abs(x) == IF x < 0 THEN 0 - x ELSE x
RECURSIVE Gcd(_, _)
Gcd(a, b) == IF b = 0 THEN a ELSE Gcd(b, a % b)
RNorm(x) == LET s == IF x[2] < 0 THEN 0 - 1 ELSE 1
                g == Gcd(Abs(x[1]), Abs(x[2]))
            IN IF x[1] = 0 THEN <<0, 1>> ELSE <<(s * x[1]) \div g, (s * x[2]) \div g>>
RI(k) == <<k, 1>>
RAdd(x, y) == LET g == Gcd(x[2], y[2]) IN RNorm(<<x[1] * (y[2] \div g) + y[1] * (x[2] \div g), (x[2] \div g) * y[2]>>)
RNeg(x) == <<0 - x[1], x[2]>>
RSub(x, y) == RAdd(x, RNeg(y))
RMul(x, y) == LET a == RNorm(<<x[1], y[2]>>)  b == RNorm(<<y[1], x[2]>>) IN RNorm(<<a[1] * b[1], a[2] * b[2]>>)
RDivI(x, k) == RMul(x, RNorm(<<1, k>>))
RECURSIVE IPow(_, _)
IPow(b, e) == IF e = 0 THEN 1 ELSE b * IPow(b, e - 1)
RLeq(x, y) == x[1] * y[2] <= y[1] * x[2]
RVec(v) == [i \in 1..Len(v) |-> RI(v[i])]
RDot(a, b) == LET f[i \in 0..Len(a)] == IF i = 0 THEN RI(0) ELSE RAdd(f[i - 1], RMul(a[i], b[i])) IN f[Len(a)]
=============================================================================
