----------------------------- MODULE ContactLaw -----------------------------
(***************************************************************************)
(* The discrete Signorini-Coulomb laws the nonsmooth integrators must      *)
(* satisfy at every stored step (C18), over abstract values:               *)
(*   sign classes  "neg" | "zero" | "pos"   of gap, restituted gap rate    *)
(*                 xi_N and normal percussion P_N,                         *)
(*   fric          position of the friction percussion relative to the     *)
(*                 Coulomb disk mu P_N: "inside" | "boundary" | "outside", *)
(*   slip, opposes whether the contact slides (xi_F # 0) and whether P_F   *)
(*                 is anti-parallel to the slip,                           *)
(*   closed        whether the scheme regards the contact as closed.       *)
(* The conformance harness computes these classes from a recorded run with *)
(* tolerances derived from the solver options; values too close to a       *)
(* threshold are marked borderline and not judged.                         *)
(*                                                                         *)
(* Scheme classes:                                                         *)
(*   "vel"     Moreau, dual Stoermer-Verlet: closed is judged at the       *)
(*             midpoint; P_N complementary to the Newton-restituted rate   *)
(*   "pos"     backward Euler: P_N complementary to the gap, no            *)
(*             penetration                                                 *)
(*   "rattle"  stage 1: P_N1 complementary to the gap, no penetration;     *)
(*             stage 2: the total P_N complementary to xi_N on the         *)
(*             stage-1 active set                                          *)
(*                                                                         *)
(* Part 1 (model checking): the lemma that ties these laws to what the     *)
(* code iterates -- P is a fixed point of P = -min(r xi - P, 0) iff        *)
(* P >= 0, xi >= 0, P xi = 0, and its one-dimensional ball analogue --     *)
(* checked on an integer lattice.  Part 2 (trace validation): every        *)
(* recorded step satisfies the law of its scheme.                          *)
(***************************************************************************)
EXTENDS Integers, Sequences, FiniteSets, TLC, Json, IOUtils

CONSTANTS Mode, LMax     \* Mode = "lemma" | "trace"

Signs == {"neg", "zero", "pos"}

\* ------------------------------------------------------------------ the law
NormalLaw(r) ==
    /\ r.PN # "neg"                                         \* percussions are non-negative
    /\ (~r.closed) => r.PN = "zero"                         \* and vanish for contacts that are not closed
    /\ CASE r.scheme = "vel" ->
              r.closed => (r.xi # "neg" /\ ~(r.PN = "pos" /\ r.xi = "pos"))
         [] r.scheme = "pos" ->
              /\ r.gap # "neg"                              \* no penetration beyond tolerance
              /\ ~(r.PN = "pos" /\ r.gap = "pos")           \* complementary to the gap
         [] r.scheme = "rattle" ->
              /\ r.gap # "neg"
              /\ ~(r.PN1 = "pos" /\ r.gap = "pos")          \* stage 1
              /\ r.PN1 # "neg"
              /\ r.closed => (r.xi # "neg" /\ ~(r.PN = "pos" /\ r.xi = "pos"))   \* stage 2 on the stage-1 active set

FrictionLaw(r) ==
    r.hasF =>
        /\ r.fric # "outside"                               \* inside the Coulomb disk scaled by P_N
        /\ (r.slip /\ r.PN = "pos") => (r.fric = "boundary" /\ r.opposes)   \* sliding: maximal magnitude, opposing the slip

EnergyLaw(r) == r.energyApplies => ~r.keUp

Law(r) == NormalLaw(r) /\ FrictionLaw(r) /\ EnergyLaw(r)

Clause(r) ==
    IF ~NormalLaw(r) THEN
        (IF r.PN = "neg" THEN "negative normal percussion"
         ELSE IF (~r.closed) /\ r.PN # "zero" THEN "normal percussion on a contact that is not closed"
         ELSE IF r.scheme \in {"pos", "rattle"} /\ r.gap = "neg" THEN "penetration beyond tolerance"
         ELSE IF r.scheme = "pos" THEN "normal percussion not complementary to the gap"
         ELSE IF r.scheme = "rattle" /\ (r.PN1 = "neg" \/ (r.PN1 = "pos" /\ r.gap = "pos")) THEN "stage-1 percussion not complementary to the gap"
         ELSE IF r.xi = "neg" THEN "closed contact keeps approaching (restituted gap rate negative)"
         ELSE "normal percussion not complementary to the restituted gap rate")
    ELSE IF ~FrictionLaw(r) THEN
        (IF r.fric = "outside" THEN "friction percussion outside the Coulomb disk"
         ELSE IF r.fric # "boundary" THEN "sliding contact with friction below its maximal magnitude"
         ELSE "friction percussion does not oppose the slip")
    ELSE "kinetic energy increased in a frictionless impact without applied forces"

\* ------------------------------------------------------------------ part 1: the lemma
VARIABLES P, xi, rr, l, verdicts
vars == <<P, xi, rr, l, verdicts>>
L == (0 - LMax)..LMax
Min0(v) == IF v < 0 THEN v ELSE 0
FixedPointN == P = 0 - Min0(rr * xi - P)
ComplementN == P >= 0 /\ xi >= 0 /\ P * xi = 0
\* one-dimensional ball of radius mu PN = R >= 0: prox(x) = clamp(x, -R, R)
Clamp(x, R) == IF x > R THEN R ELSE IF x < 0 - R THEN 0 - R ELSE x
FixedPointF(R) == P = 0 - Clamp(rr * xi - P, R)
CoulombF(R) == /\ (IF P < 0 THEN 0 - P ELSE P) <= R
               /\ (xi > 0 => P = 0 - R) /\ (xi < 0 => P = R)
Lemma == Mode = "lemma" =>
           /\ FixedPointN <=> ComplementN
           /\ \A R \in 0..LMax : FixedPointF(R) <=> CoulombF(R)

\* ------------------------------------------------------------------ part 2: trace validation
TraceLog == IF Mode = "trace" THEN ndJsonDeserialize(IOEnv.TRACE_FILE) ELSE <<>>

Init == IF Mode = "lemma"
          THEN P \in L /\ xi \in L /\ rr \in 1..3 /\ l = 0 /\ verdicts = <<>>
          ELSE P = 0 /\ xi = 0 /\ rr = 1 /\ l = 1 /\ verdicts = <<>>

Step ==
    /\ Mode = "trace"
    /\ \/ /\ l <= Len(TraceLog)
          /\ LET r == TraceLog[l] IN
             verdicts' = IF r.borderline \/ Law(r) THEN verdicts ELSE Append(verdicts, [id |-> r.id, clause |-> Clause(r)])
          /\ l' = l + 1
       \/ /\ l = Len(TraceLog) + 1
          /\ PrintT(<<"VERDICTS", verdicts>>)
          /\ l' = l + 1 /\ UNCHANGED verdicts
    /\ UNCHANGED <<P, xi, rr>>

Next == Step
Spec == Init /\ [][Next]_vars
=============================================================================
