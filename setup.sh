#!/bin/sh
# Offline setup: syntax-check every specification, byte-compile the harness, verify the repo imports.
cd "$(dirname "$0")" || exit 2
set -e
export PYTHONPATH=/repo:/verif/harness PYTHONDONTWRITEBYTECODE=1
/venv/bin/python - <<'PY'
import glob, os, subprocess, sys, py_compile
sys.path.insert(0, "/verif/harness")
from vf import tlc
bad = 0
specs = sorted(glob.glob("/verif/spec/*.tla") + glob.glob("/verif/spec/lattice/*.tla") + glob.glob("/verif/spec/trace/*.tla"))
from concurrent.futures import ThreadPoolExecutor
def chk(p):
    ok, out = tlc.sany(p)
    return p, ok, out
with ThreadPoolExecutor(8) as ex:
    for p, ok, out in ex.map(chk, specs):
        if not ok:
            bad += 1
            print("SANY FAILED", p, out[-1500:])
for p in glob.glob("/verif/harness/vf/**/*.py", recursive=True):
    compile(open(p).read(), p, "exec")
import cardillo
assert cardillo.__file__.startswith("/repo/"), cardillo.__file__
print(f"setup ok: {len(specs)} specs parsed, cardillo from {cardillo.__file__}")
sys.exit(1 if bad else 0)
PY
