"""Record runs of real cardillo solvers as event traces (hooks of cardillo/_verif.py + warnings + outcome)
and validate batches of traces with TLC against spec/TraceSolverRun.tla."""
from __future__ import annotations

import contextlib
import io
import json
import os
import re
import warnings

import numpy as np

from . import tlc, tlaval

_NUM = re.compile(r"[-+]?(?:\d+\.\d*|\.\d+|\d+)(?:[eE][-+]?\d+)?")

# warnings that have nothing to do with convergence or model support
_UNRELATED = ("constant_mass_matrix", "approx_fprime", "numerical derivative", "g_q_T_mu_q", "will be deleted soon")


def system_parts(system):
    parts = []
    for p, n in (("g", "nla_g"), ("gamma", "nla_gamma"), ("c", "nla_c"), ("tau", "nla_tau"), ("N", "nla_N"), ("F", "nla_F"), ("S", "nla_S")):
        if getattr(system, n, 0) > 0:
            parts.append(p)
    return parts


class Run:
    """Outcome of one recorded solver run."""

    def __init__(self):
        self.events = []       # trace events (dicts) for the trace spec
        self.raw = []          # raw hook events
        self.sol = None
        self.exc = None
        self.warn_texts = []


class _Observers:
    """independent observers of the helpers the solvers call: when a helper returns normally and claims convergence, its documented criterion is
    evaluated once more at the returned point; a miss is recorded as a failed site 'unmet' (SolverRun.tla)"""
    SLACK = 10.0      # the helpers' own last iterate may miss the criterion at the RETURNED point by a small factor (contraction); a failed loop misses by orders

    def __init__(self):
        self.saved = []

    def __enter__(self):
        import importlib
        import inspect
        from cardillo import _verif

        def wrap_fsolve(orig):
            sig = inspect.signature(orig)

            def fsolve(*a, **kw):
                sol = orig(*a, **kw)
                try:
                    if getattr(sol, "success", False) and _verif.recording():
                        b = sig.bind(*a, **kw); b.apply_defaults()
                        fun, x0, fa, opt = b.arguments["fun"], b.arguments["x0"], b.arguments.get("fun_args", ()), b.arguments["options"]
                        fa = fa if isinstance(fa, tuple) else (fa,)
                        f0 = np.atleast_1d(fun(x0, *fa)); fx = np.atleast_1d(fun(sol.x, *fa))       # the last evaluation is at the returned point, as in fsolve
                        scale = opt.newton_atol + np.abs(f0) * opt.newton_rtol
                        err = np.linalg.norm(fx / scale) / scale.size ** 0.5
                        if not (err < 1.0 + 1e-9):
                            _verif.emit("site", site="unmet", occ=-1, ok=False, helper="fsolve", error=float(err))
                except Exception:
                    pass
                return sol
            return fsolve

        def wrap_fp(orig, name):
            sig = inspect.signature(orig)

            def helper(*a, **kw):
                out = orig(*a, **kw)
                try:
                    if _verif.recording():
                        b = sig.bind(*a, **kw); b.apply_defaults()
                        fun, atol, rtol = b.arguments["fun"], b.arguments["atol"], b.arguments["rtol"]
                        x = np.asarray(out[0], dtype=float)
                        fx = np.asarray(fun(x), dtype=float)
                        scale = atol + np.maximum(np.abs(x), np.abs(fx)) * rtol
                        err = np.linalg.norm((fx - x) / scale) / max(x.size, 1) ** 0.5
                        if not (err < self.SLACK):
                            _verif.emit("site", site="unmet", occ=-1, ok=False, helper=name, error=float(err))
                except Exception:
                    pass
                return out
            return helper

        for modname in ("cardillo.solver.statics", "cardillo.solver.rattle", "cardillo.solver.backward_euler"):
            m = importlib.import_module(modname)
            if hasattr(m, "fsolve"):
                self.saved.append((m, "fsolve", m.fsolve))
                m.fsolve = wrap_fsolve(m.fsolve)
        m = importlib.import_module("cardillo.solver.dual_stormer_verlet")
        for name in ("fixed_point_iteration", "fixed_point_iteration_with_momentum"):
            if hasattr(m, name):
                self.saved.append((m, name, getattr(m, name)))
                setattr(m, name, wrap_fp(getattr(m, name), name))
        return self

    def __exit__(self, *exc):
        for m, name, f in self.saved:
            setattr(m, name, f)
        return False


def record_run(make_solver, system, solver_name, cwu, nsteps, faults=None, solve_kwargs=None, observe=False):
    """make_solver() -> solver object (constructed inside the recording, so that warnings of the
    constructor are part of the trace).  Returns a Run."""
    from cardillo import _verif

    if not _verif.ENABLED:
        raise tlc.MachineryError("hooks are disabled: CARDILLOPROJECT_CARDILLO_VERIF is not 1")
    run = Run()
    t_last = [float(system.t0)]
    naccepted = [0]
    _verif.start(faults)
    _verif.emit("begin", solver=solver_name, cwu=bool(cwu), parts=system_parts(system), nsteps=int(nsteps))

    def showwarning(message, category, filename, lineno, file=None, line=None):
        text = str(message)
        if "/cardillo/" not in filename.replace("\\", "/"):
            return                       # numpy / scipy noise
        if any(u in text for u in _UNRELATED) or issubclass(category, DeprecationWarning):
            return
        _verif.emit("warn", text=text)

    old = warnings.showwarning
    sol = None
    with warnings.catch_warnings():
        warnings.simplefilter("always")
        warnings.showwarning = showwarning
        try:
            with contextlib.redirect_stdout(io.StringIO()), np.errstate(all="ignore"), (_Observers() if observe else contextlib.nullcontext()):
                solver = make_solver()
                sol = solver.solve(**(solve_kwargs or {}))
        except BaseException as ex:  # noqa: the outcome is data
            if isinstance(ex, (KeyboardInterrupt, SystemExit, MemoryError)):
                warnings.showwarning = old
                _verif.stop()
                raise
            run.exc = ex
        finally:
            warnings.showwarning = old
    raw = _verif.stop()
    run.raw = raw
    run.sol = sol
    # post-process into trace events
    batch = solver_name in ("ScipyIVP", "ScipyDAE")
    if batch and sol is not None and len(sol.t):
        t_last[0] = float(sol.t[-1])        # the wrappers stop where the integrator stopped
    ev = []
    for r in raw:
        e = r["e"]
        if e == "begin":
            ev.append(r)
        elif e == "site":
            ev.append({"e": "site", "site": r["site"], "ok": bool(r["ok"])})
        elif e == "accept":
            t_last[0] = float(r["t"])
            naccepted[0] += 1
            ev.append({"e": "accept"})
        elif e == "warn":
            run.warn_texts.append(r["text"])
            nums = [float(x) for x in _NUM.findall(r["text"])]
            names = any(abs(x - t_last[0]) <= 1e-9 * (1 + abs(t_last[0])) for x in nums)
            ev.append({"e": "warn", "namesT": bool(names)})
    # a stored row of an implicit solver that is not finite although all its solves claimed convergence
    if sol is not None and solver_name in ("BackwardEuler", "Rattle", "Newton") and getattr(sol, "q", None) is not None:
        qq = np.asarray(sol.q, dtype=float)
        bad = np.where(~np.isfinite(qq).all(axis=1))[0] if qq.ndim == 2 and qq.shape[0] else []
        if len(bad):
            first = int(bad[0]) + (1 if solver_name == "Newton" else 0)    # index of the accept event (1-based)
            k = 0
            for i, e in enumerate(ev):
                if e["e"] == "accept":
                    k += 1
                    if k == first:
                        # only if no site of that step reported a failure already
                        j = i - 1
                        failed = False
                        while j >= 0 and ev[j]["e"] != "accept":
                            failed |= ev[j]["e"] == "site" and not ev[j]["ok"]
                            j -= 1
                        if not failed:
                            ev.insert(i, {"e": "site", "site": "nonfinite", "ok": False})
                        break
    if run.exc is not None:
        ev.append({"e": "end", "how": "raised", "rows": 0, "exc": type(run.exc).__name__})
    else:
        ev.append({"e": "end", "how": "returned", "rows": int(len(sol.t))})
    run.events = ev
    return run


def extract_verdicts(stdout):
    """the value printed by PrintT(<<"VERDICTS", ...>>) in a trace-validation run"""
    i = stdout.find('"VERDICTS"')
    if i < 0:
        raise tlc.MachineryError("no VERDICTS line in TLC output\n" + stdout[-2000:])
    start = stdout.rfind("<<", 0, i)
    depth = 0
    j = start
    while j < len(stdout):
        if stdout.startswith("<<", j):
            depth += 1
            j += 2
            continue
        if stdout.startswith(">>", j):
            depth -= 1
            j += 2
            if depth == 0:
                break
            continue
        j += 1
    return tlaval.parse_value(stdout[start:j])[1]


def batch_validate(ctx, module, records, consts, tag):
    """records: list of dicts with an 'id'; they are written as ndjson and checked one by one by the trace mode
    of spec/<module>.tla.  Returns {id: clause} of the rejected records and the TLC result."""
    path = os.path.join(ctx.scratch, f"{tag}.ndjson")
    with open(path, "w") as f:
        for r in records:
            f.write(json.dumps(r) + "\n")
    cfg = os.path.join(ctx.scratch, f"{tag}.cfg")
    with open(cfg, "w") as f:
        f.write("SPECIFICATION Spec\nCONSTANTS\n" + "".join(f"  {k} = {v}\n" for k, v in consts.items()) + "CHECK_DEADLOCK FALSE\n")
    r = tlc.run_tlc(module, cfg, scratch=ctx.scratch, workers=1, env={"TRACE_FILE": path}, timeout=3000, deadlock_off=False)
    if r.error or r.violated:
        raise tlc.MachineryError(f"{module} trace validation failed to run: {r.error or r.violated}\n{r.stdout[-2500:]}")
    if r.distinct < len(records) + 1:
        raise tlc.MachineryError(f"{module} trace validation consumed {r.distinct} states for {len(records)} records")
    out = {}
    for v in extract_verdicts(r.stdout):
        out.setdefault(v["id"], v["clause"])
    return out, r


def batch_validate_parallel(ctx, module, records, consts, tag, nproc=6):
    """batch_validate on nproc interleaved chunks of the records, one TLC process each; returns ({id: clause}, [TLCResult, ...])"""
    from concurrent.futures import ThreadPoolExecutor

    nproc = max(1, min(nproc, len(records) // 50 or 1))
    chunks = [records[i::nproc] for i in range(nproc)]
    with ThreadPoolExecutor(nproc) as ex:
        res = list(ex.map(lambda a: batch_validate(ctx, module, a[1], consts, f"{tag}_{a[0]}"), enumerate(chunks)))
    out = {}
    for bad, _ in res:
        out.update(bad)
    return out, [r for _, r in res]


def validate_traces(ctx, runs, tag="solverrun"):
    """runs: list of (tid, Run).  Returns dict tid -> (line, clause) for rejected runs."""
    path = os.path.join(ctx.scratch, f"{tag}.ndjson")
    lines = {}
    n = 0
    with open(path, "w") as f:
        for tid, run in runs:
            for e in run.events:
                d = dict(e)
                d["tid"] = tid
                d.pop("exc", None)
                f.write(json.dumps(d) + "\n")
                n += 1
    cfg = os.path.join(ctx.scratch, f"{tag}.cfg")
    with open(cfg, "w") as f:
        f.write('SPECIFICATION TraceSpec\nCONSTANTS\n  Solvers = {"Moreau"}\n  PartSets = "some"\n  MaxSteps = 1\n  MaxFaults = 0\n'
                "INVARIANT TraceInv\nCHECK_DEADLOCK FALSE\n")
    r = tlc.run_tlc("TraceSolverRun", cfg, scratch=ctx.scratch, workers=1, env={"TRACE_FILE": path}, timeout=1800, deadlock_off=False)
    if r.error or r.violated:
        raise tlc.MachineryError(f"trace validation failed to run: {r.error or r.violated}\n{r.stdout[-2500:]}")
    if r.distinct < n + 1:
        raise tlc.MachineryError(f"trace validation consumed {r.distinct} states for {n} events")
    m = re.search(r'<<\s*"VERDICTS",(.*?)>>\s*\n(?=\d+ states generated|Model checking|Progress|\Z|Finished)', r.stdout, re.S)
    if not m:
        i = r.stdout.find('"VERDICTS"')
        if i < 0:
            raise tlc.MachineryError("no VERDICTS line in TLC output\n" + r.stdout[-2000:])
    # robust extraction: take the text from '<< "VERDICTS",' to the matching '>>'
    i = r.stdout.find('"VERDICTS"')
    start = r.stdout.rfind("<<", 0, i)
    depth = 0
    j = start
    txt = r.stdout
    while j < len(txt):
        if txt.startswith("<<", j):
            depth += 1
            j += 2
            continue
        if txt.startswith(">>", j):
            depth -= 1
            j += 2
            if depth == 0:
                break
            continue
        j += 1
    val = tlaval.parse_value(txt[start:j])
    out = {}
    for v in val[1]:
        out.setdefault(v["tid"], (v["line"], v["clause"]))
    return out, r
