"""'One state = one case' modules: TLC enumerates the cases of a lattice specification (checking the
module's invariants on each) and dumps them; the harness replays each case into the implementation."""
from __future__ import annotations

import os

import numpy as np

from . import tlc


def enumerate_cases(ctx, module, constants, invariants=("CaseOK",), timeout=3000, tag=None, workers=16):
    """Run TLC on spec/<module>.tla with the given constants (dict name -> TLA+ literal) and invariants,
    dump the state graph and return (TLCResult, list of state dicts of the initial states)."""
    tag = tag or module
    cfg = os.path.join(ctx.scratch, f"{tag}.cfg")
    with open(cfg, "w") as f:
        f.write("SPECIFICATION Spec\n")
        if constants:
            f.write("CONSTANTS\n")
            for k, v in constants.items():
                f.write(f"  {k} = {v}\n")
        for i in invariants:
            f.write(f"INVARIANT {i}\n")
    dot = os.path.join(ctx.scratch, tag)
    r = tlc.run_tlc(module, cfg, scratch=ctx.scratch, dump_dot=dot, timeout=timeout, workers=workers)
    tlc.require_ok(r, tag)
    if r.violated:
        ctx.violation(f"spec:{module}:{r.violated}", f"TLC: invariant {r.violated} of {module} violated", {"stdout": r.stdout[-3000:]})
        return r, []
    g = tlc.parse_dot(dot + ".dot")
    try:
        os.remove(dot + ".dot")
    except OSError:
        pass
    return r, [g.nodes[n] for n in g.init]


def check_only(ctx, module, constants, invariants=("CaseOK",), timeout=3000, tag=None):
    """Run TLC without dumping (identities on a larger grid)."""
    tag = tag or module
    cfg = os.path.join(ctx.scratch, f"{tag}.cfg")
    with open(cfg, "w") as f:
        f.write("SPECIFICATION Spec\n")
        if constants:
            f.write("CONSTANTS\n")
            for k, v in constants.items():
                f.write(f"  {k} = {v}\n")
        for i in invariants:
            f.write(f"INVARIANT {i}\n")
    r = tlc.run_tlc(module, cfg, scratch=ctx.scratch, timeout=timeout)
    tlc.require_ok(r, tag)
    if r.violated:
        ctx.violation(f"spec:{module}:{r.violated}", f"TLC: invariant {r.violated} of {module} violated", {"stdout": r.stdout[-3000:]})
    return r


class Cmp:
    """Compare scaled implementation values with the spec's exact integers; one violation per (key, name)."""

    def __init__(self, ctx, tol=1e-9):
        self.ctx = ctx
        self.tol = tol
        self.n = 0
        self.bad = 0

    def eq(self, key, name, got, exp, where, tol=None):
        self.n += 1
        tol = self.tol if tol is None else tol
        try:
            got = np.asarray(got, dtype=float)
        except Exception as ex:
            self.bad += 1
            self.ctx.violation(f"{key}:{name}:type", f"{name} returned a non-numeric value ({type(ex).__name__}: {ex}) at {where}", {"where": where})
            return False
        exp = np.asarray(exp, dtype=float)
        if got.shape != exp.shape:
            self.bad += 1
            self.ctx.violation(f"{key}:{name}:shape", f"{name} has shape {got.shape}, spec {exp.shape} at {where}", {"where": where})
            return False
        err = np.max(np.abs(got - exp) / (1.0 + np.abs(exp))) if got.size else 0.0
        if not np.isfinite(err) or err > tol:
            self.bad += 1
            self.ctx.violation(f"{key}:{name}", f"{name}: scaled value {np.round(got, 9).tolist()} is not the exact {exp.tolist()} (rel. dev {err:.2e}) at {where}", {"where": where})
            return False
        return True
