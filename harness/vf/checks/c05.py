"""C05 Joint constraints obey the kinematic hierarchy.

Decide: spec/JointKernel.tla -- a joint sees its subsystems through the joint points and joint bases X = (r1, r2, E1, E2),
        their motion U = (v1, v2, O1, O2) and A = (a1, a2, Y1, Y2).  The position-level constraint of every joint type is a
        polynomial in X; the velocity level, the acceleration level, W_g, g_q, g_dot_q, g_dot_u and Wla_g_q are DEFINED by
        exact difference stencils along the flow (no calculus).  TLC checks that these definitions agree with the textbook
        closed forms, the degree bounds and linearity in U on an integer lattice (mode "identities").
Bind:   (code -> spec) for every joint type x subsystem pairing x axis x placement the real joint is assembled on lattice
        subsystems and evaluated at lattice states that violate the joint; X, U, A and the derivative directions are taken from
        the subsystems' own kinematic routines (decided exact by C04) and are integers; together with the joint's outputs
        they form one trace record, and TLC recomputes every level from the kernel (mode "trace") and names the routine that
        differs.  g(t0, q0) = 0 is checked directly on every assembled joint.
"""
from __future__ import annotations

import itertools

import numpy as np

from .. import tlc
from ..cases import check_only
from ..lattice import quat_N, octahedral_group, quat_to_matrix
from ..runs import batch_validate

LIM = 2 ** 20        # integers sent to TLC stay far below 2^31 (TLC stops on overflow, it never wraps)


# --------------------------------------------------------------------------------- lattice
def oct_quats():
    """integer quaternions with components in {-1,0,1} whose rotation matrix is an integer matrix (the octahedral group, twice)"""
    out = []
    for P in itertools.product((-1, 0, 1), repeat=4):
        s = sum(x * x for x in P)
        if s == 0:
            continue
        N = quat_N(np.array(P))
        if np.all(N % s == 0):
            out.append(np.array(P, dtype=float))
    return out


def ints(ctx, x, what, where, scale=1.0):
    a = np.asarray(x, dtype=float) * scale
    r = np.round(a)
    if a.size and (not np.all(np.isfinite(a)) or np.max(np.abs(a - r)) > 1e-9 * (1 + np.max(np.abs(a)))):
        raise OffLattice(f"{what} is not on the integer lattice (scale {scale}): {np.round(a, 6).tolist()} at {where}")
    if a.size and np.max(np.abs(r)) > LIM:
        raise TooBig(what)
    return r.astype(int).tolist()


class OffLattice(Exception):
    pass


class TooBig(Exception):
    pass


def find_scale(arrs, cands):
    for c in cands:
        ok = True
        for a in arrs:
            a = np.asarray(a, dtype=float) * c
            if a.size and np.max(np.abs(a - np.round(a))) > 1e-9 * (1 + np.max(np.abs(a))):
                ok = False
                break
        if ok:
            return c
    return None


# --------------------------------------------------------------------------------- subsystems
class Sub:
    """a subsystem on the lattice: object, how to sample states, scale candidates for its q-derivatives"""

    def __init__(self, kind, obj, sample, t_eval=0.0, xi=None):
        self.kind = kind
        self.obj = obj
        self.sample = sample      # rng -> (q, u, u_dot)   (local coordinates of the element that contains xi)
        self.t_eval = t_eval
        self.xi = xi

    def q0(self):
        o = self.obj
        q0 = np.asarray(getattr(o, "q0", np.zeros(0)), dtype=float)
        if len(q0) and hasattr(o, "local_qDOF_P"):
            return q0[o.local_qDOF_P(self.xi)]
        return q0


def make_sub(kind, rng, quats):
    from cardillo.discrete import RigidBody, PointMass, Frame

    iv = lambda lo=-2, hi=3: np.array([rng.randint(lo, hi) for _ in range(3)], dtype=float)
    if kind == "rigid":
        P0 = quats[rng.randrange(len(quats))] * rng.choice([1, 1, 2, -1])
        q0 = np.concatenate([iv(), P0])
        Theta = np.array([[4.0, 1, 0], [1, 5, -2], [0, -2, 6]])
        body = RigidBody(2.0, Theta, q0=q0, u0=np.zeros(6), name=f"body{rng.randrange(10**9)}")

        def sample(rng):
            P = quats[rng.randrange(len(quats))] * rng.choice([1, 1, 2, -3])
            return np.concatenate([iv(), P]), np.concatenate([iv(), iv(-2, 2)]), np.concatenate([iv(), iv(-1, 2)])
        return Sub(kind, body, sample)
    if kind == "point":
        pm = PointMass(1.5, q0=iv(), u0=np.zeros(3), name=f"pm{rng.randrange(10**9)}")
        return Sub(kind, pm, lambda rng: (iv(), iv(), iv()))
    if kind == "origin":
        return Sub(kind, None, lambda rng: (np.zeros(0), np.zeros(0), np.zeros(0)))
    if kind == "tframe":      # translating frame with constant octahedral orientation
        a, b, c = iv(), iv(), iv(-1, 1)
        A = octahedral_group()[rng.randrange(24)].astype(float)
        fr = Frame(r_OP=lambda t: a + b * t + c * t * t, r_OP_t=lambda t: b + 2 * c * t, r_OP_tt=lambda t: 2 * c, A_IB=A)
        return Sub(kind, fr, lambda rng: (np.zeros(0), np.zeros(0), np.zeros(0)), t_eval=float(rng.choice([0, 1, 2])))
    if kind == "rframe":      # rotating frame R(P0 + t P1): at t = 1 the quaternion is (1, e) (a quarter turn), the spin is integer
        ax = rng.randrange(3)
        sg = rng.choice([1, -1])
        P0 = np.array([1.0, 0, 0, 0]); P1 = np.zeros(4); P1[1 + ax] = sg
        a, b, c = iv(), iv(), iv(-1, 1)
        C = octahedral_group()[rng.randrange(24)].astype(float)     # constant pre-rotation: A_IB(t) = C R(P(t))

        def parts(t):
            P = P0 + t * P1
            s = P @ P; s_t = 2 * P @ P1; s_tt = 2 * P1 @ P1
            N = quat_N(P); Np = quat_N(P + P1); Nm = quat_N(P - P1)
            return s, s_t, s_tt, N, (Np - Nm) / 2, Np + Nm - 2 * N

        def A(t):
            s, s_t, s_tt, N, N_t, N_tt = parts(t)
            return C @ (N / s)

        def A_t(t):
            s, s_t, s_tt, N, N_t, N_tt = parts(t)
            return C @ ((N_t * s - N * s_t) / s**2)

        def A_tt(t):
            s, s_t, s_tt, N, N_t, N_tt = parts(t)
            return C @ ((N_tt * s - N * s_tt) / s**2 - 2 * s_t * (N_t * s - N * s_t) / s**3)

        fr = Frame(r_OP=lambda t: a + b * t + c * t * t, r_OP_t=lambda t: b + 2 * c * t, r_OP_tt=lambda t: 2 * c, A_IB=A, A_IB_t=A_t, A_IB_tt=A_tt)
        return Sub(kind, fr, lambda rng: (np.zeros(0), np.zeros(0), np.zeros(0)), t_eval=1.0)
    if kind in ("rod0", "rod1", "rodm"):     # cross-section of a quaternion-interpolated Cosserat rod at a nodal xi
        import warnings
        from cardillo.rods import RectangularCrossSection, Simo1986, CrossSectionInertias
        from cardillo.rods.cosseratRod import make_CosseratRod

        xi = {"rod0": 0.0, "rod1": 1.0, "rodm": 0.5}[kind]
        Rod = make_CosseratRod(interpolation="Quaternion", mixed=False, polynomial_degree=rng.choice([1, 2]))
        cs = RectangularCrossSection(0.1, 0.1)
        mat = Simo1986(np.array([5.0, 1.0, 1.0]), np.array([0.5, 2.0, 2.0]))
        A0 = octahedral_group()[rng.randrange(24)].astype(float)
        with warnings.catch_warnings():
            warnings.simplefilter("ignore")
            Q = Rod.straight_configuration(2, 2.0, r_OP0=iv(), A_IB0=A0)
            rod = Rod(cs, mat, 2, Q=Q, q0=Q.copy(), cross_section_inertias=CrossSectionInertias(1.0, cs), name=f"rod{rng.randrange(10**9)}")

        def sample(rng):
            qe = np.zeros(rod.nq_element); ue = np.zeros(rod.nu_element); ude = np.zeros(rod.nu_element)
            for node in range(rod.nnodes_element_r):
                qe[rod.nodalDOF_element_r[node]] = iv()
                ue[rod.nodalDOF_element_r[node]] = iv()
                ude[rod.nodalDOF_element_r[node]] = iv()
            for node in range(rod.nnodes_element_p):
                qe[rod.nodalDOF_element_p[node]] = quats[rng.randrange(len(quats))] * rng.choice([1, 1, 2, -3])
                ue[rod.nodalDOF_element_p_u[node]] = iv(-2, 2)
                ude[rod.nodalDOF_element_p_u[node]] = iv(-1, 2)
            return qe, ue, ude
        return Sub(kind, rod, sample, xi=xi)
    raise ValueError(kind)


def kinematics(sub, t, q, u, ud, xi, B_r, A_K):
    """joint point / basis of one subsystem and all derivative directions, from the subsystem's own routines"""
    o = sub
    has_A = hasattr(o, "A_IB")
    nq, nu = len(q), len(u)
    A = np.asarray(o.A_IB(t, q, xi)) if has_A else np.eye(3)
    A_q = np.asarray(o.A_IB_q(t, q, xi)) if has_A else np.zeros((3, 3, nq))
    BO = np.asarray(o.B_Omega(t, q, u, xi)) if has_A else np.zeros(3)
    BO_q = np.asarray(o.B_Omega_q(t, q, u, xi)) if has_A else np.zeros((3, nq))
    BP = np.asarray(o.B_Psi(t, q, u, ud, xi)) if has_A else np.zeros(3)
    BJ = np.asarray(o.B_J_R(t, q, xi)) if has_A else np.zeros((3, nu))
    BJ_q = np.asarray(o.B_J_R_q(t, q, xi)) if has_A else np.zeros((3, nu, nq))
    K = dict(
        r=np.asarray(o.r_OP(t, q, xi, B_r)), E=A @ A_K, v=np.asarray(o.v_P(t, q, u, xi, B_r)), O=A @ BO,
        a=np.asarray(o.a_P(t, q, u, ud, xi, B_r)), Y=A @ BP,
    )
    r_q = np.asarray(o.r_OP_q(t, q, xi, B_r)).reshape(3, nq)
    v_q = np.asarray(o.v_P_q(t, q, u, xi, B_r)).reshape(3, nq)
    J = np.asarray(o.J_P(t, q, xi, B_r)).reshape(3, nu)
    J_q = np.asarray(o.J_P_q(t, q, xi, B_r)).reshape(3, nu, nq)
    K["qdirs"] = [dict(r=r_q[:, k], E=A_q[:, :, k] @ A_K, v=v_q[:, k], O=A_q[:, :, k] @ BO + A @ BO_q[:, k]) for k in range(nq)]
    K["udirs"] = [dict(v=J[:, j], O=(A @ BJ)[:, j]) for j in range(nu)]
    K["dd"] = [[dict(v=J_q[:, j, k], O=A_q[:, :, k] @ BJ[:, j] + A @ BJ_q[:, j, k]) for k in range(nq)] for j in range(nu)]
    return K


# --------------------------------------------------------------------------------- joints
def joint_specs():
    out = [("Spherical", None), ("RigidConnection", None), ("FixedDistance", None)]
    for name in ("Revolute", "Prismatic", "Cylindrical", "Planarizer"):
        for ax in range(3):
            out.append((name, ax))
    return out


def build(ctx, rng, jname, axis, kinds, quats, generic_basis=False):
    """returns (system, joint, subs, B_r, A_K, d2) with the joint defined at the subsystems' q0"""
    from cardillo import System
    from cardillo.constraints import Spherical, RigidConnection, Revolute, Prismatic, Cylindrical, Planarizer, FixedDistance
    from cardillo.solver import SolverOptions

    subs = [make_sub(k, rng, quats) for k in kinds]
    t0 = 0.0
    system = System(t0=t0)
    objs = []
    for s in subs:
        if s.kind == "origin":
            s.obj = system.origin
        else:
            system.add(s.obj)
        objs.append(s.obj)
    iv = lambda lo=-2, hi=3: np.array([rng.randint(lo, hi) for _ in range(3)], dtype=float)
    # initial poses (exact)
    pose0 = []
    for s in subs:
        o = s.obj
        q0 = s.q0()
        A0 = np.round(np.asarray(o.A_IB(t0, q0, s.xi)), 12) if hasattr(o, "A_IB") else None
        pose0.append((np.round(np.asarray(o.r_OP(t0, q0, s.xi)), 12), A0))
    xis = dict(xi1=subs[0].xi, xi2=subs[1].xi)
    r_OJ0 = iv()
    A_IJ0 = octahedral_group()[rng.randrange(24)].astype(float)
    if generic_basis:        # a joint basis that is not aligned with the bodies: a rational rotation from an integer quaternion
        A_IJ0 = quat_to_matrix(GEN_QUATS[rng.randrange(len(GEN_QUATS))])
    d2 = 0
    if jname == "FixedDistance":
        B1 = iv(-1, 2) if pose0[0][1] is not None else np.zeros(3)
        B2 = iv(-1, 2) if pose0[1][1] is not None else np.zeros(3)
        joint = FixedDistance(objs[0], objs[1], B1_r_P1J1=B1, B2_r_P2J2=B2, **xis)
        B_r = [B1, B2]
        A_K = [np.eye(3), np.eye(3)]
        rj = [pose0[i][0] + (pose0[i][1] @ B_r[i] if pose0[i][1] is not None else 0) for i in range(2)]
        d2 = float((rj[1] - rj[0]) @ (rj[1] - rj[0]))
        if d2 < 0.5:
            return None
    else:
        if jname == "Spherical":
            # a point mass has no offset: the joint point must be the point mass itself
            for i, s in enumerate(subs):
                if s.kind == "point":
                    r_OJ0 = pose0[i][0].copy()
            if all(s.kind == "point" for s in subs) and not np.array_equal(pose0[0][0], pose0[1][0]):
                return None
            joint = Spherical(objs[0], objs[1], r_OJ0=r_OJ0, **xis)
        elif jname == "RigidConnection":
            joint = RigidConnection(objs[0], objs[1], r_OJ0=r_OJ0, A_IJ0=A_IJ0, **xis)
        else:
            cls = dict(Revolute=Revolute, Prismatic=Prismatic, Cylindrical=Cylindrical, Planarizer=Planarizer)[jname]
            joint = cls(objs[0], objs[1], axis, r_OJ0=r_OJ0, A_IJ0=A_IJ0, **xis)
        B_r, A_K = [], []
        for r0, A0 in pose0:
            if A0 is None:
                B_r.append(np.zeros(3)); A_K.append(np.eye(3))
            else:
                B_r.append(A0.T @ (r_OJ0 - r0)); A_K.append(A0.T @ A_IJ0)
    system.add(joint)
    system.assemble(options=SolverOptions(compute_consistent_initial_conditions=False))
    return system, joint, subs, B_r, A_K, d2


def jdesc(joint, jname, d2):
    if jname == "FixedDistance":
        return dict(full=False, axes=[], pairs=[], fd=True, d2=int(round(d2)))
    if hasattr(joint, "constrained_axes_displacement"):
        return dict(full=False, axes=[int(a) + 1 for a in joint.constrained_axes_displacement],
                    pairs=[[int(a) + 1, int(b) + 1] for a, b in joint.projection_pairs_rotation], fd=False, d2=0)
    return dict(full=True, axes=[], pairs=[[int(a) + 1, int(b) + 1] for a, b in joint.projection_pairs], fd=False, d2=0)


def record(ctx, rid, rng, system, joint, subs, B_r, A_K, jname, d2, where, given=None):
    t = max(s.t_eval for s in subs)
    st = given if given is not None else [s.sample(rng) for s in subs]
    q = np.concatenate([x[0] for x in st]); u = np.concatenate([x[1] for x in st]); ud = np.concatenate([x[2] for x in st])
    nq = [len(x[0]) for x in st]; nu = [len(x[1]) for x in st]
    K = [kinematics(subs[i].obj, t, st[i][0], st[i][1], st[i][2], subs[i].xi, B_r[i], A_K[i]) for i in range(2)]
    w = dict(where, t=t, q=q.tolist(), u=u.tolist(), u_dot=ud.tolist())
    I = lambda x, what, sc=1.0: ints(ctx, x, what, w, sc)
    Z3, ZM = [0, 0, 0], [[0, 0, 0]] * 3
    rec = dict(id=rid, j=jdesc(joint, jname, d2))
    rec["X"] = dict(r1=I(K[0]["r"], "r_OJ1"), r2=I(K[1]["r"], "r_OJ2"), E1=I(K[0]["E"], "A_IJ1"), E2=I(K[1]["E"], "A_IJ2"))
    rec["U"] = dict(v1=I(K[0]["v"], "v_J1"), v2=I(K[1]["v"], "v_J2"), O1=I(K[0]["O"], "Omega1"), O2=I(K[1]["O"], "Omega2"))
    rec["A"] = dict(a1=I(K[0]["a"], "a_J1"), a2=I(K[1]["a"], "a_J2"), Y1=I(K[0]["Y"], "Psi1"), Y2=I(K[1]["Y"], "Psi2"))
    la = np.array([rng.randint(-2, 3) or 1 for _ in range(joint.nla_g)], dtype=float)
    rec["la"] = I(la, "la")
    # the joint's own routines
    g = np.atleast_1d(joint.g(t, q.copy())); gd = np.atleast_1d(joint.g_dot(t, q.copy(), u.copy()))
    gdd = np.atleast_1d(joint.g_ddot(t, q.copy(), u.copy(), ud.copy()))
    W = np.asarray(joint.W_g(t, q.copy())).reshape(sum(nu), -1)
    g_q = np.asarray(joint.g_q(t, q.copy())).reshape(-1, sum(nq))
    gd_q = np.asarray(joint.g_dot_q(t, q.copy(), u.copy())).reshape(-1, sum(nq))
    gd_u = np.asarray(joint.g_dot_u(t, q.copy())).reshape(-1, sum(nu))
    la_arg = la if joint.nla_g > 1 or jname != "FixedDistance" else la
    Wla_q = np.asarray(joint.Wla_g_q(t, q.copy(), la_arg if jname != "FixedDistance" else la[0])).reshape(sum(nu), sum(nq))
    rec["g"] = I(g, "g"); rec["gdot"] = I(gd, "g_dot"); rec["gddot"] = I(gdd, "g_ddot"); rec["ddot"] = True
    cands = sorted(2 ** a * 3 ** b for a in range(13) for b in range(5))
    qd, kappa = [], []
    for b in range(2):
        for k in range(nq[b]):
            d = K[b]["qdirs"][k]
            col = sum(nq[:b]) + k
            sc = find_scale([d["r"], d["E"], d["v"], d["O"]] + [x["v"] for x in (K[b]["dd"][j][k] for j in range(nu[b]))] + [x["O"] for x in (K[b]["dd"][j][k] for j in range(nu[b]))], cands)
            if sc is None:
                raise OffLattice(f"derivative directions of subsystem {b + 1} along q[{k}] are not on the lattice at {w}")
            kappa.append(sc)
            dX = dict(r1=Z3, r2=Z3, E1=ZM, E2=ZM); dV = dict(v1=Z3, v2=Z3, O1=Z3, O2=Z3)
            dX[f"r{b+1}"] = I(d["r"], "r_OP_q", sc); dX[f"E{b+1}"] = I(d["E"], "A_IB_q", sc)
            dV[f"v{b+1}"] = I(d["v"], "v_P_q", sc); dV[f"O{b+1}"] = I(d["O"], "Omega_q", sc)
            qd.append(dict(dX=dX, dV=dV, gq=I(g_q[:, col], "g_q", sc), gdotq=I(gd_q[:, col], "g_dot_q", sc)))
    udl = []
    for b in range(2):
        for jx in range(nu[b]):
            d = K[b]["udirs"][jx]
            row = sum(nu[:b]) + jx
            dV = dict(v1=Z3, v2=Z3, O1=Z3, O2=Z3)
            dV[f"v{b+1}"] = I(d["v"], "J_P"); dV[f"O{b+1}"] = I(d["O"], "J_R")
            udl.append(dict(dV=dV, w=I(W[row, :], "W_g"), gdotu=I(gd_u[:, row], "g_dot_u")))
    wla = []
    for bj in range(2):
        for jx in range(nu[bj]):
            row = sum(nu[:bj]) + jx
            for bk in range(2):
                for k in range(nq[bk]):
                    col = sum(nq[:bk]) + k
                    ddV = dict(v1=Z3, v2=Z3, O1=Z3, O2=Z3)
                    if bj == bk:
                        d = K[bj]["dd"][jx][k]
                        ddV[f"v{bj+1}"] = I(d["v"], "J_P_q", kappa[col]); ddV[f"O{bj+1}"] = I(d["O"], "J_R_q", kappa[col])
                    wla.append(dict(j=row + 1, k=col + 1, ddV=ddV, val=I([Wla_q[row, col]], "Wla_g_q", kappa[col])[0]))
    rec["qdirs"] = qd; rec["udirs"] = udl; rec["wla"] = wla
    return rec, w


# ------------------------------------------------------------------------------------------ generic (rational) orientations
GEN_QUATS = [np.array(p, dtype=float) for p in ((2, 1, 0, 0), (1, 0, 2, 0), (1, 1, 1, 0), (1, -1, 0, 1), (2, 0, 0, -1), (0, 1, 2, 0), (1, 0, -1, 1))]
GEN_CANDS = sorted(c for c in {2 ** a * 3 ** b * 5 ** c_ * 7 ** d for a in range(9) for b in range(5) for c_ in range(5) for d in range(2)} if c <= 2 ** 19)


def sample_generic(sub, rng):
    """state of a rigid body at a non-octahedral rational orientation with INTEGER inertial angular velocity and acceleration"""
    iv = lambda lo=-2, hi=3: np.array([rng.randint(lo, hi) for _ in range(3)], dtype=float)
    if sub.kind != "rigid":
        return sub.sample(rng)
    P = GEN_QUATS[rng.randrange(len(GEN_QUATS))] * rng.choice([1.0, 1.0, -1.0])
    A = quat_to_matrix(P)
    O = iv(-2, 2); Y = iv(-1, 2)
    return np.concatenate([iv(), P]), np.concatenate([iv(), A.T @ O]), np.concatenate([iv(), A.T @ Y])


def record_generic(ctx, rid, rng, system, joint, subs, B_r, A_K, jname, d2, where):
    """as record(), at rational orientations: positions / velocities / accelerations are scaled by S, the joint bases by s1, s2, every derivative
    direction by a factor of its own; the kernel's polynomials are homogeneous in each of these groups, so every component of every level
    scales by a known factor (fixed distance S^2, translation S, projected translation S s1, rotation pair s1 s2)"""
    t = max(s.t_eval for s in subs)
    st = [sample_generic(s, rng) for s in subs]
    q = np.concatenate([x[0] for x in st]); u = np.concatenate([x[1] for x in st]); ud = np.concatenate([x[2] for x in st])
    nq = [len(x[0]) for x in st]; nu = [len(x[1]) for x in st]
    K = [kinematics(subs[i].obj, t, st[i][0], st[i][1], st[i][2], subs[i].xi, B_r[i], A_K[i]) for i in range(2)]
    w = dict(where, t=t, q=q.tolist(), u=u.tolist(), u_dot=ud.tolist(), orientation="generic")
    I = lambda x, what, sc=1.0: ints(ctx, x, what, w, sc)
    Z3, ZM = [0, 0, 0], [[0, 0, 0]] * 3
    S = find_scale([K[0]["r"], K[1]["r"], K[0]["v"], K[1]["v"], K[0]["a"], K[1]["a"]], GEN_CANDS)
    sE = [find_scale([K[i]["E"]], GEN_CANDS) for i in range(2)]
    if S is None or None in sE:
        raise OffLattice(f"joint points / bases are not rational with small denominators at {w}")
    jd = jdesc(joint, jname, d2 * S * S)
    rec = dict(id=rid, j=jd)
    cs = np.array(([S * S] if jd["fd"] else []) + ([S] * 3 if jd["full"] else []) + [S * sE[0]] * len(jd["axes"]) + [sE[0] * sE[1]] * len(jd["pairs"]), dtype=float)
    if np.max(cs) > LIM:
        raise TooBig("component scales")
    rec["X"] = dict(r1=I(K[0]["r"], "r_OJ1", S), r2=I(K[1]["r"], "r_OJ2", S), E1=I(K[0]["E"], "A_IJ1", sE[0]), E2=I(K[1]["E"], "A_IJ2", sE[1]))
    rec["U"] = dict(v1=I(K[0]["v"], "v_J1", S), v2=I(K[1]["v"], "v_J2", S), O1=I(K[0]["O"], "Omega1"), O2=I(K[1]["O"], "Omega2"))
    rec["A"] = dict(a1=I(K[0]["a"], "a_J1", S), a2=I(K[1]["a"], "a_J2", S), Y1=I(K[0]["Y"], "Psi1"), Y2=I(K[1]["Y"], "Psi2"))
    la = np.array([rng.randint(-2, 3) or 1 for _ in range(joint.nla_g)], dtype=float)
    L = float(np.lcm.reduce(np.round(cs).astype(np.int64))) if len(cs) else 1.0
    rec["la"] = I(la * L / cs, "la")
    g = np.atleast_1d(joint.g(t, q.copy())); gd = np.atleast_1d(joint.g_dot(t, q.copy(), u.copy()))
    gdd = np.atleast_1d(joint.g_ddot(t, q.copy(), u.copy(), ud.copy()))
    W = np.asarray(joint.W_g(t, q.copy())).reshape(sum(nu), -1)
    g_q = np.asarray(joint.g_q(t, q.copy())).reshape(-1, sum(nq))
    gd_q = np.asarray(joint.g_dot_q(t, q.copy(), u.copy())).reshape(-1, sum(nq))
    gd_u = np.asarray(joint.g_dot_u(t, q.copy())).reshape(-1, sum(nu))
    Wla_q = np.asarray(joint.Wla_g_q(t, q.copy(), la if jname != "FixedDistance" else la[0])).reshape(sum(nu), sum(nq))
    if len(g) != len(cs):
        raise OffLattice(f"g has {len(g)} components, the joint description {len(cs)} at {w}")
    rec["g"] = I(g * cs, "g"); rec["gdot"] = I(gd * cs, "g_dot"); rec["gddot"] = I(gdd * cs, "g_ddot"); rec["ddot"] = True
    kuv = [[find_scale([S * K[b]["udirs"][jx]["v"], K[b]["udirs"][jx]["O"]], GEN_CANDS) for jx in range(nu[b])] for b in range(2)]
    if any(x is None for l_ in kuv for x in l_):
        raise OffLattice(f"velocity directions are not rational with small denominators at {w}")
    qd, kq = [], []
    for b in range(2):
        for k in range(nq[b]):
            d = K[b]["qdirs"][k]
            col = sum(nq[:b]) + k
            # the mixed second derivatives along (u[j], q[k]) are scaled by ku[j] kq[k]: kq[k] has to clear their denominators as well
            mixed = [kuv[b][jx] * x for jx in range(nu[b]) for x in (S * K[b]["dd"][jx][k]["v"], K[b]["dd"][jx][k]["O"])]
            sc = find_scale([S * d["r"], sE[b] * d["E"], S * d["v"], d["O"]] + mixed, GEN_CANDS)
            if sc is None:
                raise OffLattice(f"derivative directions of subsystem {b + 1} along q[{k}] are not rational with small denominators at {w}")
            kq.append(sc)
            dX = dict(r1=Z3, r2=Z3, E1=ZM, E2=ZM); dV = dict(v1=Z3, v2=Z3, O1=Z3, O2=Z3)
            dX[f"r{b+1}"] = I(d["r"], "r_OP_q", sc * S); dX[f"E{b+1}"] = I(d["E"], "A_IB_q", sc * sE[b])
            dV[f"v{b+1}"] = I(d["v"], "v_P_q", sc * S); dV[f"O{b+1}"] = I(d["O"], "Omega_q", sc)
            qd.append(dict(dX=dX, dV=dV, gq=I(g_q[:, col] * cs, "g_q", sc), gdotq=I(gd_q[:, col] * cs, "g_dot_q", sc)))
    udl, ku = [], []
    for b in range(2):
        for jx in range(nu[b]):
            d = K[b]["udirs"][jx]
            row = sum(nu[:b]) + jx
            sc = find_scale([S * d["v"], d["O"]], GEN_CANDS)
            if sc is None:
                raise OffLattice(f"velocity directions of subsystem {b + 1} along u[{jx}] are not rational with small denominators at {w}")
            ku.append(sc)
            dV = dict(v1=Z3, v2=Z3, O1=Z3, O2=Z3)
            dV[f"v{b+1}"] = I(d["v"], "J_P", sc * S); dV[f"O{b+1}"] = I(d["O"], "J_R", sc)
            udl.append(dict(dV=dV, w=I(W[row, :] * cs, "W_g", sc), gdotu=I(gd_u[:, row] * cs, "g_dot_u", sc)))
    wla = []
    for bj in range(2):
        for jx in range(nu[bj]):
            row = sum(nu[:bj]) + jx
            for bk in range(2):
                for k in range(nq[bk]):
                    col = sum(nq[:bk]) + k
                    f = ku[row] * kq[col]
                    if f * L > LIM:
                        raise TooBig("Wla scale")
                    ddV = dict(v1=Z3, v2=Z3, O1=Z3, O2=Z3)
                    if bj == bk:
                        d = K[bj]["dd"][jx][k]
                        ddV[f"v{bj+1}"] = I(d["v"], "J_P_q", f * S); ddV[f"O{bj+1}"] = I(d["O"], "J_R_q", f)
                    wla.append(dict(j=row + 1, k=col + 1, ddV=ddV, val=I([Wla_q[row, col]], "Wla_g_q", f * L)[0]))
    rec["qdirs"] = qd; rec["udirs"] = udl; rec["wla"] = wla
    return rec, w


def unit_change(ctx, rng, jname, axis, lam=2.0 ** -30):
    """the same mechanism in another unit of length (JointKernel.tla, Homogeneous): two rigid bodies and a joint are built twice, with every length,
    translational velocity and acceleration multiplied by lam (a power of two: exact in binary floating point) the second time; every component of
    every routine of the joint must be the first system's value times lam^p with p fixed by the kind of the component and of the variable"""
    from cardillo import System
    from cardillo.discrete import RigidBody
    from cardillo.constraints import Spherical, RigidConnection, Revolute, Prismatic, Cylindrical, Planarizer, FixedDistance
    from cardillo.solver import SolverOptions

    iv = lambda lo=-2, hi=3: np.array([rng.randint(lo, hi) for _ in range(3)], dtype=float)
    gq = lambda: GEN_QUATS[rng.randrange(len(GEN_QUATS))] * rng.choice([1.0, -1.0, 2.0])
    pos0 = [iv(), iv() + np.array([4.0, 0.0, 0.0])]
    P0 = [gq(), gq()]
    rJ = iv(); AJ = quat_to_matrix(GEN_QUATS[rng.randrange(len(GEN_QUATS))])
    B1, B2 = iv(-1, 2), iv(-1, 2)
    state = dict(r=[iv(), iv()], P=[gq(), gq()], v=[iv(), iv()], w=[iv(-2, 2), iv(-2, 2)], a=[iv(), iv()], wd=[iv(-1, 2), iv(-1, 2)])
    out = []
    for L in (1.0, lam):
        system = System()
        bodies = [RigidBody(1.0 + i, np.diag([1.0, 2.0, 3.0]), q0=np.concatenate([pos0[i] * L, P0[i]]), u0=np.zeros(6), name=f"uc{i}_{rng.randrange(10**9)}") for i in range(2)]
        system.add(*bodies)
        if jname == "FixedDistance":
            joint = FixedDistance(bodies[0], bodies[1], B1_r_P1J1=B1 * L, B2_r_P2J2=B2 * L)
        elif jname == "Spherical":
            joint = Spherical(bodies[0], bodies[1], r_OJ0=rJ * L)
        elif jname == "RigidConnection":
            joint = RigidConnection(bodies[0], bodies[1], r_OJ0=rJ * L, A_IJ0=AJ)
        else:
            joint = dict(Revolute=Revolute, Prismatic=Prismatic, Cylindrical=Cylindrical, Planarizer=Planarizer)[jname](bodies[0], bodies[1], axis, r_OJ0=rJ * L, A_IJ0=AJ)
        system.add(joint)
        system.assemble(options=SolverOptions(compute_consistent_initial_conditions=False))
        q = np.concatenate([np.concatenate([state["r"][i] * L, state["P"][i]]) for i in range(2)])
        u = np.concatenate([np.concatenate([state["v"][i] * L, state["w"][i]]) for i in range(2)])
        ud = np.concatenate([np.concatenate([state["a"][i] * L, state["wd"][i]]) for i in range(2)])
        jd = jdesc(joint, jname, 0)
        pc = np.array(([2] if jd["fd"] else []) + ([1] * 3 if jd["full"] else []) + [1] * len(jd["axes"]) + [0] * len(jd["pairs"]), dtype=float)
        la = np.array([1.0 + 0.5 * k for k in range(len(pc))]) * L ** (2 - pc)
        t = 0.0
        vals = dict(g=np.atleast_1d(joint.g(t, q.copy())), g_dot=np.atleast_1d(joint.g_dot(t, q.copy(), u.copy())), g_ddot=np.atleast_1d(joint.g_ddot(t, q.copy(), u.copy(), ud.copy())),
                    g_q=np.asarray(joint.g_q(t, q.copy())).reshape(len(pc), 14), g_dot_q=np.asarray(joint.g_dot_q(t, q.copy(), u.copy())).reshape(len(pc), 14),
                    g_dot_u=np.asarray(joint.g_dot_u(t, q.copy())).reshape(len(pc), 12), W_g=np.asarray(joint.W_g(t, q.copy())).reshape(12, len(pc)),
                    Wla_g_q=np.asarray(joint.Wla_g_q(t, q.copy(), la if jname != "FixedDistance" else la[0])).reshape(12, 14))
        out.append((vals, pc))
    (A, pc), (Bv, _) = out
    pq = np.array([1, 1, 1, 0, 0, 0, 0] * 2, dtype=float); pu = np.array([1, 1, 1, 0, 0, 0] * 2, dtype=float)
    power = dict(g=pc, g_dot=pc, g_ddot=pc, g_q=pc[:, None] - pq[None, :], g_dot_q=pc[:, None] - pq[None, :], g_dot_u=pc[:, None] - pu[None, :],
                 W_g=pc[None, :] - pu[:, None], Wla_g_q=2.0 - pu[:, None] - pq[None, :])
    where = dict(joint=jname, axis=axis, history=f"the same mechanism with every length multiplied by {lam!r}", state={k: [x.tolist() for x in v] for k, v in state.items()})
    n = 0
    for name, pw in power.items():
        exp = A[name] * lam ** pw
        n += 1
        if Bv[name].shape != exp.shape or not (np.max(np.abs(Bv[name] - exp) / (np.abs(exp) + lam ** np.maximum(pw, 0) * 1e-12 + 1e-300), initial=0.0) <= 1e-9):
            ctx.violation(f"{jname}:unit-change:{name}", f"{name} of the mechanism in another unit of length (factor {lam!r}) is not the scaled {name} of the original "
                          f"(largest relative deviation {np.max(np.abs(Bv[name] - exp) / (np.abs(exp) + 1e-300)):.3e}) at {where}", where)
    return n


PAIRINGS = [("origin", "rigid"), ("rigid", "rigid"), ("tframe", "rigid"), ("rigid", "rframe"), ("rframe", "rigid"), ("rigid", "tframe")]
PM_PAIRINGS = [("point", "rigid"), ("rigid", "point"), ("point", "point"), ("tframe", "point")]
ROD_PAIRINGS = [("rod1", "rod0"), ("rigid", "rod0"), ("rod1", "rigid"), ("origin", "rodm"), ("rod0", "rod1")]


def run(ctx):
    ctx.level = "model_checking"
    rng = ctx.rng
    r_id = check_only(ctx, "JointKernel", {"Mode": '"identities"', "Thin": "FALSE" if ctx.thorough else "TRUE"}, invariants=("IdentitiesOK",), tag="jk_identities")
    quats = oct_quats()
    nstates = 4 if ctx.thorough else 2
    nplace = 3 if ctx.thorough else 1
    records, wheres = [], {}
    counts = {}
    ninit = 0
    skipped = 0
    shared = {}
    # pairing outermost: consecutive joints (all types and axes) act on subsystems of the same kinds and are evaluated at one shared state
    for kinds in list(PAIRINGS) + PM_PAIRINGS + ROD_PAIRINGS:
        for jname, axis in joint_specs():
            if kinds in PM_PAIRINGS and jname not in ("Spherical", "FixedDistance"):
                continue
            for pl in range(nplace):
                where = dict(joint=jname, axis=axis, subsystems=list(kinds), placement=pl)
                try:
                    b = None
                    for _ in range(20):
                        b = build(ctx, rng, jname, axis, kinds, quats)
                        if b is not None:
                            break
                    if b is None:
                        continue
                    system, joint, subs, B_r, A_K, d2 = b
                except Exception as ex:
                    ctx.violation(f"{jname}:{'-'.join(kinds)}:build", f"building/assembling {where} raised {type(ex).__name__}: {ex}", where)
                    continue
                # satisfied in the configuration it was defined in
                q0 = np.concatenate([s.q0() for s in subs])
                try:
                    g0 = np.atleast_1d(joint.g(system.t0, q0))
                    ninit += 1
                    if not (np.max(np.abs(g0)) <= 1e-12):
                        ctx.violation(f"{jname}:defined-config", f"{where}: g(t0, q0) = {g0.tolist()} in the configuration the joint was defined in", where)
                except Exception as ex:
                    ctx.violation(f"{jname}:{'-'.join(kinds)}:raises", f"g(t0, q0) of {where} raised {type(ex).__name__}: {ex}", where)
                # pairings without prescribed motion are evaluated at the SAME (t, q, u) for every joint type and axis, one joint after the
                # other (state that leaks between joint objects, e.g. a cache shared by a class, shows there)
                plain = all(k in ("origin", "rigid", "point") for k in kinds)
                for si in ([-1] if plain else []) + list(range(nstates)) + ([nstates] if plain else []):
                    rid = len(records) + 1
                    given = None
                    if plain and si in (-1, nstates):      # first and last evaluation of every joint: the shared state
                        if kinds not in shared:
                            shared[kinds] = [s.sample(rng) for s in subs]
                        given = [tuple(np.array(a, dtype=float) for a in x) for x in shared[kinds]]
                    try:
                        rec, w = record(ctx, rid, rng, system, joint, subs, B_r, A_K, jname, d2, where, given=given)
                    except TooBig:
                        skipped += 1
                        continue
                    except OffLattice as ex:
                        ctx.violation(f"{jname}:{'-'.join(kinds)}:off-lattice", str(ex), where)
                        continue
                    except Exception as ex:
                        ctx.violation(f"{jname}:{'-'.join(kinds)}:raises", f"evaluating {where} raised {type(ex).__name__}: {ex}", where)
                        continue
                    records.append(rec)
                    wheres[rid] = w
                    counts[jname] = counts.get(jname, 0) + 1
    # generic (rational, not axis-aligned) orientations of bodies and joint bases: rigid bodies and the origin
    ngen = 0
    for kinds in (("origin", "rigid"), ("rigid", "rigid")):
        for jname, axis in joint_specs():
            for rep in range(2 if ctx.thorough else 1):
                where = dict(joint=jname, axis=axis, subsystems=list(kinds), placement="generic joint basis")
                try:
                    b = None
                    for _ in range(20):
                        b = build(ctx, rng, jname, axis, kinds, quats, generic_basis=True)
                        if b is not None:
                            break
                    if b is None:
                        continue
                    system, joint, subs, B_r, A_K, d2 = b
                    q0 = np.concatenate([s.q0() for s in subs])
                    g0 = np.atleast_1d(joint.g(system.t0, q0))
                    ninit += 1
                    if not (np.max(np.abs(g0)) <= 1e-12):
                        ctx.violation(f"{jname}:defined-config", f"{where}: g(t0, q0) = {g0.tolist()} in the configuration the joint was defined in", where)
                except Exception as ex:
                    ctx.violation(f"{jname}:{'-'.join(kinds)}:build", f"building/assembling {where} raised {type(ex).__name__}: {ex}", where)
                    continue
                for si in range(nstates):
                    rid = len(records) + 1
                    try:
                        rec, w = record_generic(ctx, rid, rng, system, joint, subs, B_r, A_K, jname, d2, where)
                    except TooBig:
                        skipped += 1
                        continue
                    except OffLattice as ex:
                        ctx.violation(f"{jname}:{'-'.join(kinds)}:generic:off-lattice", str(ex), where)
                        continue
                    except Exception as ex:
                        ctx.violation(f"{jname}:{'-'.join(kinds)}:generic:raises", f"evaluating {where} raised {type(ex).__name__}: {ex}", where)
                        continue
                    records.append(rec); wheres[rid] = w
                    counts[jname + "(generic)"] = counts.get(jname + "(generic)", 0) + 1
                    ngen += 1
    nunit = 0
    for jname, axis in joint_specs():
        for rep in range(3 if ctx.thorough else 1):
            try:
                # (FixedDistance refuses, loudly, an initial distance below an absolute threshold: a milder change of units there)
                nunit += unit_change(ctx, rng, jname, axis, lam=2.0 ** -30 if jname != "FixedDistance" else 2.0 ** -8)
            except Exception as ex:
                ctx.violation(f"{jname}:unit-change:raises", f"{type(ex).__name__}: {ex}", dict(joint=jname, axis=axis))
    counts["unit changes (routines compared)"] = nunit
    if not records:
        raise tlc.MachineryError("no joint records produced")
    # self-test of the binding (section 3.4): two corrupted copies of the first record must be rejected
    import copy
    c1 = copy.deepcopy(records[0]); c1["id"] = 0; c1["gdot"][0] += 977
    c2 = copy.deepcopy(records[0]); c2["id"] = -1; c2["qdirs"][-1]["gq"][0] += 977
    bad, rt = batch_validate(ctx, "JointKernel", records + [c1, c2], {"Mode": '"trace"', "Thin": "TRUE"}, "jk_trace")
    if bad.pop(0, None) is None or bad.pop(-1, None) is None:
        raise tlc.MachineryError("self-test failed: a corrupted joint record was accepted by the trace specification")
    for rid, clause in bad.items():
        w = wheres[rid]
        ctx.violation(f"{w['joint']}:{'-'.join(w['subsystems'])}:{clause}", f"{clause}: {w['joint']} axis={w['axis']} between {w['subsystems']} at t={w['t']}, q={w['q']}, u={w['u']}", w)
    ctx.log(f"[C05] kernel identities: {r_id.distinct} lattice cases; {len(records)} joint records validated by TLC ({counts}), {len(bad)} rejected; "
            f"{ninit} joints satisfied at their defining configuration; {skipped} records skipped (integers too large)")
    ctx.coverage = {"states": r_id.distinct + rt.distinct, "transitions": max(r_id.generated + rt.generated, 1),
                    "traces_validated_against_impl": len(records), "samples": [{"where": wheres[1], "j": records[0]["j"], "X": records[0]["X"], "g": records[0]["g"]}],
                    "records_per_joint": counts, "pairings": [list(p) for p in PAIRINGS + PM_PAIRINGS + ROD_PAIRINGS], "joints_checked_at_definition": ninit,
                    "skipped_too_large": skipped,
                    "rule": "7 joint types x 3 axes x 11 subsystem pairings incl. rod cross-sections (+4 point-mass pairings for Spherical/FixedDistance) x placements x lattice states off the joint manifold"}
    ctx.assumptions = ["orientations are taken from the octahedral group (integer rotation matrices), realised by non-unit integer quaternions (scaled by 1, 2, -1, -3); "
                       "positions, offsets, velocities and accelerations are small integers",
                       "joint points, bases and derivative directions come from the subsystems' kinematic routines, which C04 decides separately",
                       "rod cross-sections are covered for the quaternion-interpolated rod (degree 1 and 2) at nodal cross-sections (xi = 0, 1/2, 1), where "
                       "the interpolation is exact on the lattice; non-nodal cross-sections and the SE(3)/R12 rod families are not covered"]


def replay(ctx, path):
    run(ctx)
