"""C07 Force elements are energetically consistent and passive.

Decide: spec/ForceElements.tla -- spring, Kelvin-Voigt and Maxwell laws with their energies in exact rational arithmetic; the energy
        rate is an exact central difference of E along the motion; TLC checks on a rational lattice that the compliance residual
        vanishes at the force-form force and that power + energy rate equals minus the damper's dissipation (<= 0, = 0 for the spring).
        A dead load has E = -F.r and power F.v.
Bind:   (code -> spec) real Spring / KelvinVoigtElement (both forms) / MaxwellElement on real TwoPointInteractions between rigid bodies,
        point masses and frames (offsets on both points) are assembled and evaluated at lattice states with integer point distance;
        l, l_dot (code, W_l^T u and the geometric rate from the subsystems' kinematics), force, energy, compliance residual and h.u form a
        record that TLC recomputes; real Force objects on rigid bodies / point masses / rod nodes likewise.  Laws on Revolute joints are
        judged on the joint manifold by float comparison; System.E_pot is evaluated on systems that contain every energy-reporting
        contribution class (incl. rods with line-distributed loads), whose power balance is compared in floats.
"""
from __future__ import annotations

import copy
import warnings

import numpy as np

from .. import tlc
from ..cases import check_only
from ..lattice import octahedral_group
from ..runs import batch_validate
from .c05 import make_sub, oct_quats, ints, OffLattice, TooBig
from .c06 import PYTH


def rat(ctx, x, K, what, w):
    v = ints(ctx, [float(x)], what, w, float(K))
    return [int(v[0]), int(K)]


def build_tpi(ctx, rng, kinds, quats, law_name, compliance, explicit_lref):
    from cardillo import System
    from cardillo.interactions import TwoPointInteraction
    from cardillo.force_laws import Spring, KelvinVoigtElement, MaxwellElement
    from cardillo.solver import SolverOptions

    iv = lambda lo=-2, hi=3: np.array([rng.randint(lo, hi) for _ in range(3)], dtype=float)
    system = System(t0=0.0)
    subs = [make_sub(k, rng, quats) for k in kinds]
    for s in subs:
        if s.kind == "origin":
            s.obj = system.origin
        else:
            system.add(s.obj)
    B = [iv(-1, 2) if hasattr(s.obj, "A_IB") and s.kind != "point" else np.zeros(3) for s in subs]
    # initial configuration with an integer point distance (then the default l_ref is an integer)
    p0 = [np.asarray(s.obj.r_OP(0.0, s.q0(), s.xi, B[i])) for i, s in enumerate(subs)]
    mov = 1 if subs[1].kind in ("rigid", "point") else (0 if subs[0].kind in ("rigid", "point") else None)
    if mov is None:
        return None
    p = PYTH[rng.randrange(len(PYTH))]
    shift = p0[0] + p - p0[1]
    subs[mov].obj.q0 = np.array(subs[mov].obj.q0, dtype=float)
    subs[mov].obj.q0[:3] += shift if mov == 1 else -shift
    tpi = TwoPointInteraction(subs[0].obj, subs[1].obj, B_r_CP1=B[0], B_r_CP2=B[1])
    k = rng.choice([2, 3, 5]); d = rng.choice([1, 2, 4])
    lref = None if not explicit_lref else float(rng.choice([0, 1, 2]))
    if law_name == "spring":
        law = Spring(tpi, k=float(k), l_ref=lref, compliance_form=compliance)
    elif law_name == "kv":
        law = KelvinVoigtElement(tpi, k=float(k), d=float(d), l_ref=lref, compliance_form=compliance)
    else:
        law = MaxwellElement(tpi, stiffness=float(k), viscosity=float(d), l_ref=lref, q0=np.array([float(rng.choice([0, 1]))]))
    system.add(law)
    with warnings.catch_warnings():
        warnings.simplefilter("ignore")
        system.assemble(options=SolverOptions(compute_consistent_initial_conditions=False))
    return system, tpi, law, subs, B, k, d


def law_record(ctx, rid, rng, tpi, law, law_name, compliance, subs, B, k, d, where, prev=None):
    iv = lambda lo=-2, hi=3: np.array([rng.randint(lo, hi) for _ in range(3)], dtype=float)
    t = max(s.t_eval for s in subs)
    # sample states until the point distance is an integer: move subsystem 2 (or 1) so that r_P2 - r_P1 is Pythagorean
    for _ in range(100):
        st = [list(s.sample(rng)) for s in subs]
        pts = [np.asarray(subs[i].obj.r_OP(t, st[i][0], subs[i].xi, B[i])) for i in range(2)]
        p = PYTH[rng.randrange(len(PYTH))]
        shift = pts[0] + p - pts[1]
        mov = 1 if len(st[1][0]) >= 3 else (0 if len(st[0][0]) >= 3 else None)
        if mov is None:
            break
        if mov == 1:
            st[1][0][:3] += shift
        else:
            st[0][0][:3] -= shift
        break
    if prev is not None:
        # the configuration of the previous record with other velocities: consecutive evaluations that differ in u only
        for i in range(2):
            st[i][0] = prev[i][0].copy()
    q = np.concatenate([x[0] for x in st]); u = np.concatenate([x[1] for x in st])
    pts = [np.asarray(subs[i].obj.r_OP(t, st[i][0], subs[i].xi, B[i])) for i in range(2)]
    vel = [np.asarray(subs[i].obj.v_P(t, st[i][0], st[i][1], subs[i].xi, B[i])) for i in range(2)]
    r12 = pts[1] - pts[0]
    l2 = float(r12 @ r12)
    l = int(round(np.sqrt(l2)))
    if l == 0 or abs(l * l - l2) > 1e-9:
        return None
    w = dict(where, t=t, q=q.tolist(), u=u.tolist())
    K = k * d * l * l
    R = lambda x, what: rat(ctx, x, K, what, w)
    lref = law.l_ref
    rec = dict(id=rid, kind="L", law=law_name, compliance=bool(compliance), k=[k, 1], d=[d, 1], lref=R(lref, "l_ref"),
               l=R(tpi.l(t, q.copy()), "l"), ldot=R(tpi.l_dot(t, q.copy(), u.copy()), "l_dot"),
               ldotgeo=R((r12 @ (vel[1] - vel[0])) / l, "geometric l_dot"), Wlu=R(np.asarray(tpi.W_l(t, q.copy())).ravel() @ u, "W_l^T u"))
    # the part of the rate that is due to u (prescribed motion of frames excluded): velocities J_P u from the subsystems
    velu = [np.asarray(subs[i].obj.J_P(t, st[i][0], subs[i].xi, B[i])).reshape(3, len(st[i][1])) @ st[i][1] for i in range(2)]
    rec["wlugeo"] = R((r12 @ (velu[1] - velu[0])) / l, "geometric W_l^T u")
    if law_name == "maxwell":
        ld = float(rng.choice([0, 1, -1, 2]))
        qq = np.concatenate([[ld], q])
        rec["ld"] = R(ld, "l_d")
        rec["la"] = R(law.force(t, qq.copy(), u.copy()), "force")
        rec["E2"] = R(2 * law.E_pot(t, qq.copy()), "E_pot")
        rec["hu"] = R(np.asarray(law.h(t, qq.copy(), u.copy())).ravel() @ u, "h.u")
        rec["qd"] = R(np.asarray(law.q_dot(t, qq.copy(), u.copy())).ravel()[0], "q_dot")
        rec["cres"] = [0, 1]; rec["claforce"] = [0, 1]; rec["laprobe"] = [0, 1]
        rec["compliance"] = False
    else:
        rec["ld"] = [0, 1]; rec["qd"] = [0, 1]
        la = law.la_c(t, q.copy(), u.copy())
        rec["la"] = R(la, "la_c")
        rec["E2"] = R(2 * law.E_pot(t, q.copy()), "E_pot")
        if compliance:
            rec["cres"] = R(np.asarray(law.c(t, q.copy(), u.copy(), np.array([la]))).ravel()[0], "c at the force-form force")
            rec["laprobe"] = [1, 1]
            rec["claforce"] = R(np.asarray(law.c(t, q.copy(), u.copy(), np.array([1.0]))).ravel()[0], "c")
            h = np.asarray(law.W_c(t, q.copy())).reshape(len(u), 1)[:, 0] * la
        else:
            rec["cres"] = [0, 1]; rec["claforce"] = [0, 1]; rec["laprobe"] = [0, 1]
            h = np.asarray(law.h(t, q.copy(), u.copy())).ravel()
        rec["hu"] = R(h @ u, "h.u")
    return rec, w, st


def force_records(ctx, rng, quats, records, wheres):
    from cardillo import System
    from cardillo.forces import Force
    from cardillo.solver import SolverOptions

    iv = lambda lo=-2, hi=3: np.array([rng.randint(lo, hi) for _ in range(3)], dtype=float)
    n = 0
    for kind in ("rigid", "point", "rod1", "rodm", "rigid"):
        sub = make_sub(kind, rng, quats)
        system = System(t0=0.0)
        system.add(sub.obj)
        B = iv(-1, 2) if kind != "point" else np.zeros(3)
        F = iv(-3, 3)
        kw = dict(B_r_CP=B)
        if sub.xi is not None:
            kw["xi"] = sub.xi
        f = Force(F, sub.obj, **kw)
        system.add(f)
        with warnings.catch_warnings():
            warnings.simplefilter("ignore")
            system.assemble(options=SolverOptions(compute_consistent_initial_conditions=False))
        for _ in range(3):
            q, u, ud = sub.sample(rng)
            w = dict(contribution="Force", subsystem=kind, B_r_CP=B.tolist(), F=F.tolist(), q=q.tolist(), u=u.tolist())
            try:
                rid = len(records) + 1
                I = lambda x, what: ints(ctx, x, what, w)
                rec = dict(id=rid, kind="F", F=I(F, "F"), r=I(sub.obj.r_OP(0.0, q, sub.xi, B), "r_OP"), v=I(sub.obj.v_P(0.0, q, u, sub.xi, B), "v_P"),
                           E=I([f.E_pot(0.0, q.copy())], "E_pot")[0], hu=I([np.asarray(f.h(0.0, q.copy(), u.copy())).ravel() @ u], "h.u")[0])
                records.append(rec); wheres[rid] = w; n += 1
            except OffLattice as ex:
                ctx.violation(f"Force:{kind}:off-lattice", str(ex), w)
            except Exception as ex:
                ctx.violation(f"Force:{kind}:raises:{type(ex).__name__}", f"{type(ex).__name__}: {ex} at {w}", w)
    return n


def revolute_float(ctx, rng):
    """scalar laws on a Revolute joint, states on the joint manifold: compliance residual, power and energy rate in floats.  The joint basis is
    octahedral or oblique, the partner is the origin or a second free body; the rates of the angle and of the energy are central differences
    along the motion on the joint manifold (the pair moves rigidly while body 2 turns about the common axis)."""
    from cardillo import System
    from cardillo.discrete import RigidBody
    from cardillo.constraints import Revolute
    from cardillo.force_laws import Spring, KelvinVoigtElement
    from cardillo.math import Exp_SO3, Spurrier
    from cardillo.solver import SolverOptions

    n = 0
    H = 1e-5
    rv = lambda s=1.0: np.array([rng.uniform(-s, s) for _ in range(3)])
    for law_name in ("spring", "kv"):
        for compliance in (True, False):
            for axis in range(3):
                for variant in range(3):      # 0: origin - body, octahedral basis; 1: origin - body, oblique basis; 2: body - body, oblique basis
                    system = System()
                    A0 = octahedral_group()[rng.randrange(24)].astype(float) if variant == 0 else Exp_SO3(rv(1.5))
                    rJ = np.zeros(3) if variant == 0 else rv()
                    r20 = rJ + (np.zeros(3) if variant == 0 else rv())
                    A20 = A0 if variant == 0 else Exp_SO3(rv(1.5))
                    body = RigidBody(1.0, np.eye(3), q0=np.concatenate([r20, Spurrier(A20)]), name=f"b{rng.randrange(10**9)}")
                    two = variant == 2
                    if two:
                        r10, A10 = rv(), Exp_SO3(rv(1.5))
                        body1 = RigidBody(2.0, np.diag([1.0, 2.0, 3.0]), q0=np.concatenate([r10, Spurrier(A10)]), name=f"a{rng.randrange(10**9)}")
                    joint = Revolute(body1 if two else system.origin, body, axis, angle0=rng.choice([0.0, 0.4]), r_OJ0=rJ, A_IJ0=A0)
                    k, d = 3.0, 0.7
                    law = Spring(joint, k=k, l_ref=rng.choice([None, 0.2]), compliance_form=compliance) if law_name == "spring" else \
                        KelvinVoigtElement(joint, k=k, d=d, l_ref=rng.choice([None, -0.3]), compliance_form=compliance)
                    system.add(*([body1] if two else []), body, joint, law)
                    system.assemble(options=SolverOptions(compute_consistent_initial_conditions=False))
                    e0 = A0[:, axis]
                    # rigid motion of the pair (identity for the origin): rotation vector th0 + s thd, translation p0 + s pd; relative angle phi + s om
                    th0, thd, p0, pd = (rv(0.8), rv(), rv(), rv()) if two else (np.zeros(3), np.zeros(3), np.zeros(3), np.zeros(3))

                    def state(phi, om, s):
                        R = Exp_SO3(th0 + s * thd); p = p0 + s * pd
                        e = R @ e0
                        Rrel = Exp_SO3((phi + s * om) * e)
                        A2 = Rrel @ R @ A20
                        r2 = p + R @ rJ + Rrel @ R @ (r20 - rJ)
                        q2 = np.concatenate([r2, Spurrier(A2)])
                        if not two:
                            return q2
                        return np.concatenate([p + R @ r10, Spurrier(R @ A10), q2])

                    def velocity(q, qp, qm):
                        # u from the central difference of the motion: translational part directly, angular part from A^T A_dot
                        us = []
                        for b in range(2 if two else 1):
                            sl = slice(7 * b, 7 * b + 7)
                            Ap, Am, A = (RigidBody(1.0, np.eye(3), q0=x[sl]).A_IB(0.0, x[sl]) for x in (qp, qm, q))
                            W = A.T @ (Ap - Am) / (2 * H)
                            us.append(np.concatenate([(qp[sl][:3] - qm[sl][:3]) / (2 * H), [W[2, 1] - W[1, 2], W[0, 2] - W[2, 0], W[1, 0] - W[0, 1]]]) )
                            us[-1][3:] /= 2
                        return np.concatenate(us)

                    for phi, om in ((0.3, 1.1), (1.2, -0.6), (-0.7, 2.0), (-0.7, -1.3)):
                        w = dict(law=law_name, compliance=compliance, subsystem="Revolute", axis=axis, angle=phi, rate=om,
                                 joint=("origin-body, octahedral basis", "origin-body, oblique basis", "body-body, oblique basis, pair in motion")[variant])
                        n += 1
                        try:
                            q, qp, qm = state(phi, om, 0.0), state(phi, om, H), state(phi, om, -H)
                            u = velocity(q, qp, qm)
                            lm = joint.l(0.0, qm); l = joint.l(0.0, q); lp = joint.l(0.0, qp)
                            Em = law.E_pot(0.0, qm); E = law.E_pot(0.0, q); Ep = law.E_pot(0.0, qp)
                            ld = joint.l_dot(0.0, q, u)
                            la = law.la_c(0.0, q, u)
                            exp_la = -k * (l - law.l_ref) - (d * ld if law_name == "kv" else 0.0)
                            Wlu = np.asarray(joint.W_l(0.0, q)).ravel() @ u
                            bad = []
                            if not (abs(ld - om) <= 1e-6): bad.append(f"l_dot {ld} is not the relative angular velocity {om}")
                            if not (abs((lp - lm) / (2 * H) - om) <= 1e-6): bad.append(f"angle: its rate along the motion is {(lp - lm) / (2 * H)}, the relative angular velocity {om}")
                            if not (abs(Wlu - ld) <= 1e-9): bad.append(f"W_l^T u = {Wlu} != l_dot = {ld}")
                            if not (abs(la - exp_la) <= 1e-10): bad.append(f"la_c = {la}, law gives {exp_la}")
                            if not (abs(E - 0.5 * k * (l - law.l_ref) ** 2) <= 1e-10): bad.append("E_pot is not k e^2/2")
                            if compliance and abs(np.asarray(law.c(0.0, q, u, np.array([la]))).ravel()[0]) > 1e-10: bad.append("compliance residual does not vanish at the force-form force")
                            Edot = (Ep - Em) / (2 * H)
                            power = la * Wlu
                            diss = d * om * om if law_name == "kv" else 0.0
                            if not (abs(power + Edot + diss) <= 1e-5 * (1 + abs(Edot))): bad.append(f"power {power} + energy rate {Edot} is not minus the dissipation {diss}")
                            if power + Edot > 1e-6: bad.append(f"generates energy: power + energy rate = {power + Edot} > 0")
                            # the same configuration with the opposite velocity, evaluated next (only u differs from the previous call)
                            la2 = law.la_c(0.0, q, -u)
                            exp2 = -k * (l - law.l_ref) + (d * ld if law_name == "kv" else 0.0)
                            if not (abs(la2 - exp2) <= 1e-10): bad.append(f"la_c at the same configuration with the opposite velocity = {la2}, law gives {exp2}")
                            for b in bad:
                                ctx.violation(f"{law_name}:Revolute:{b.split(' ')[0]}", f"{b} at {w}", w)
                        except Exception as ex:
                            ctx.violation(f"{law_name}:Revolute:raises:{type(ex).__name__}", f"{type(ex).__name__}: {ex} at {w}", w)
    return n


def system_epot(ctx, rng, quats):
    """System.E_pot succeeds on systems that contain every contribution class which reports a potential energy"""
    from cardillo import System
    from cardillo.discrete import RigidBody, PointMass
    from cardillo.forces import Force
    from cardillo.interactions import TwoPointInteraction
    from cardillo.force_laws import Spring, KelvinVoigtElement, MaxwellElement
    from cardillo.rods import RectangularCrossSection, Simo1986, CrossSectionInertias
    from cardillo.rods.cosseratRod import make_CosseratRod
    from cardillo.rods.force_line_distributed import Force_line_distributed
    from cardillo.solver import SolverOptions

    out = {}
    def rod(interp, mixed):
        Rod = make_CosseratRod(interpolation=interp, mixed=mixed)
        cs = RectangularCrossSection(0.1, 0.1)
        mat = Simo1986(np.array([5.0, 1.0, 1.0]), np.array([0.5, 2.0, 2.0]))
        Q = Rod.straight_configuration(2, 2.0)
        return Rod(cs, mat, 2, Q=Q, q0=Q.copy(), cross_section_inertias=CrossSectionInertias(1.0, cs), name=f"rod{rng.randrange(10**9)}")
    variants = []
    for interp, mixed in (("Quaternion", False), ("Quaternion", True), ("SE3", False), ("R12", False)):
        variants.append((f"rod[{interp},mixed={mixed}] + Force + line load", interp, mixed))
    for name, interp, mixed in variants:
        try:
            with warnings.catch_warnings():
                warnings.simplefilter("ignore")
                system = System()
                r = rod(interp, mixed)
                # a load that varies along the rod (and a constant one for the first family)
                load = Force_line_distributed(np.array([0.0, 0.0, -2.0]) if interp == "Quaternion" and not mixed
                                              else (lambda t, xi: np.array([xi, 0.5 + t, -2.0 * xi * xi])), r)
                tip = Force(np.array([1.0, 0, 0]), r, xi=1.0)
                b = RigidBody(1.0, np.eye(3), q0=np.array([0.0, 3, 0, 1, 0, 0, 0]), name=f"b{rng.randrange(10**9)}")
                pm = PointMass(1.0, q0=np.array([4.0, 0, 0]), name=f"p{rng.randrange(10**9)}")
                sp = Spring(TwoPointInteraction(b, pm), k=2.0)
                kv = KelvinVoigtElement(TwoPointInteraction(system.origin, b), k=2.0, d=1.0, compliance_form=False, name="kv2")
                mx = MaxwellElement(TwoPointInteraction(system.origin, pm), stiffness=2.0, viscosity=1.0)
                system.add(r, load, tip, b, pm, sp, kv, mx, Force(np.array([0.0, 0, -1.0]), b, B_r_CP=np.array([0.1, 0, 0])))
                system.assemble(options=SolverOptions(compute_consistent_initial_conditions=False))
                E = system.E_pot(system.t0, system.q0)
                if not np.isfinite(E):
                    raise ValueError(f"E_pot = {E}")
                # the line load's power equals minus the rate of its potential energy (linear in q: central difference exact up to rounding)
                u = np.array([rng.uniform(-1, 1) for _ in range(system.nu)])
                qd = system.q_dot(system.t0, system.q0, u)
                hload = np.zeros(system.nu); hload[load.uDOF] = load.h(system.t0, system.q0[load.qDOF], u[load.uDOF])
                eps = 1e-3
                dE = (load.E_pot(system.t0, (system.q0 + eps * qd)[load.qDOF]) - load.E_pot(system.t0, (system.q0 - eps * qd)[load.qDOF])) / (2 * eps)
                if not (abs(hload @ u + dE) <= 1e-9 * (1 + abs(dE))):
                    ctx.violation("Force_line_distributed:power", f"{name}: h.u = {hload @ u} but -dE_pot/dt = {-dE}", {"system": name})
            out[name] = "value"
        except Exception as ex:
            out[name] = type(ex).__name__
            ctx.violation(f"System.E_pot:{type(ex).__name__}", f"evaluating the potential energy of '{name}' failed: {type(ex).__name__}: {ex}", {"system": name})
    return out


PAIRS = [("origin", "rigid"), ("rigid", "rigid"), ("point", "rigid"), ("rigid", "point"), ("tframe", "rigid"), ("rigid", "rframe"), ("point", "point")]


def run(ctx):
    ctx.level = "model_checking"
    rng = ctx.rng
    r_id = check_only(ctx, "ForceElements", {"Mode": '"identities"'}, invariants=("IdentitiesOK",), tag="fe_identities")
    quats = oct_quats()
    records, wheres = [], {}
    counts = {}
    nrep = 3 if ctx.thorough else 1
    nstates = 4 if ctx.thorough else 2
    for law_name, compliance in (("spring", True), ("spring", False), ("kv", True), ("kv", False), ("maxwell", False)):
        for kinds in PAIRS:
            for rep in range(nrep):
                explicit = bool(rep % 2)
                where = dict(law=law_name, compliance=compliance, subsystems=list(kinds), explicit_l_ref=explicit)
                key = f"{law_name}:{'-'.join(kinds)}"
                try:
                    b = None
                    for _ in range(20):
                        b = build_tpi(ctx, rng, kinds, quats, law_name, compliance, explicit)
                        if b is not None:
                            break
                    if b is None:
                        continue
                    system, tpi, law, subs, B, k, d = b
                    # default l_ref must make the initial configuration stress free; it is rational only if the initial distance is an integer -> checked in floats
                    if not explicit and abs(tpi.l(0.0, tpi.q0) - law.l_ref) > 1e-12:
                        ctx.violation(f"{key}:default-l_ref", f"{where}: default l_ref {law.l_ref} is not the initial distance {tpi.l(0.0, tpi.q0)}", where)
                except Exception as ex:
                    ctx.violation(f"{key}:build:{type(ex).__name__}", f"building {where} raised {type(ex).__name__}: {ex}", where)
                    continue
                prev = None
                for si in range(nstates):
                    rid = len(records) + 1
                    try:
                        out = law_record(ctx, rid, rng, tpi, law, law_name, compliance, subs, B, k, d, where, prev=prev if si % 2 else None)
                        prev = out[2] if out is not None else None
                    except TooBig:
                        continue
                    except OffLattice as ex:
                        ctx.violation(f"{key}:off-lattice", str(ex), where)
                        continue
                    except Exception as ex:
                        ctx.violation(f"{key}:raises:{type(ex).__name__}", f"evaluating {where} raised {type(ex).__name__}: {ex}", where)
                        continue
                    if out is None:
                        continue
                    records.append(out[0]); wheres[rid] = out[1]
                    counts[law_name] = counts.get(law_name, 0) + 1
    nforce = force_records(ctx, rng, quats, records, wheres)
    nrev = revolute_float(ctx, rng)
    epot = system_epot(ctx, rng, quats)
    if not records:
        raise tlc.MachineryError("no force-law records produced")
    c1 = copy.deepcopy(next(r for r in records if r["kind"] == "L")); c1["id"] = 0; c1["la"][0] += 977
    c2 = copy.deepcopy(next(r for r in records if r["kind"] == "F")); c2["id"] = -1; c2["E"] += 977
    bad, rt = batch_validate(ctx, "ForceElements", records + [c1, c2], {"Mode": '"trace"'}, "fe_trace")
    if bad.pop(0, None) is None or bad.pop(-1, None) is None:
        raise tlc.MachineryError("self-test failed: a corrupted force-element record was accepted by the trace specification")
    for rid, clause in bad.items():
        w = wheres[rid]
        name = w.get("law") or w.get("contribution")
        ctx.violation(f"{name}:{'-'.join(w.get('subsystems', [w.get('subsystem', '')]))}:{clause}", f"{clause}: {w}", w)
    ctx.log(f"[C07] law identities: {r_id.distinct} lattice cases; records validated by TLC: laws {counts}, dead loads {nforce}; {len(bad)} rejected; "
            f"Revolute float cases {nrev}; System.E_pot {epot}")
    ctx.coverage = {"states": r_id.distinct + rt.distinct, "transitions": max(r_id.generated + rt.generated, 1), "traces_validated_against_impl": len(records),
                    "samples": [{"where": wheres[1], "record": {k: records[0][k] for k in ("law", "k", "d", "l", "ldot", "la", "E2", "hu")}}],
                    "law_records": counts, "force_records": nforce, "revolute_float_cases": nrev, "system_E_pot": epot,
                    "rule": "5 law variants x 7 subsystem pairings (offsets on both points) x default/explicit l_ref x lattice states with integer point distance; "
                            "Force on rigid body / point mass / rod nodes; laws on Revolute joints (3 axes x {origin-body octahedral, origin-body oblique, body-body oblique in motion} x 4 states on the joint manifold, angle and energy rates by central differences, floats); System.E_pot on 4 rod families"}
    ctx.assumptions = ["two-point interactions are evaluated where the point distance is an integer (then l, l_dot, force, energy and power are rational)",
                       "laws on revolute joints and the line-distributed rod load are compared in floats (1e-10 / 1e-9)"]


def replay(ctx, path):
    run(ctx)
