"""C19 RATTLE is second order, drift-free and reversible on conservative systems (exploration by trace validation).

Decide: spec/RattleScheme.tla -- the step as a set of symbolic equations (midpoint kinematics, two momentum stages, position and
        velocity constraints, what holds on entry).  TLC checks that this set is its own adjoint (swap the end points, h -> -h:
        a SYMMETRIC method, hence of even order >= 2) and invariant under the reflection u -> -u, h -> -h (REVERSIBLE), and rejects
        four plausible deviations (forces at the end point in stage 2, explicit kinematics, mass matrix of the start point in stage 2,
        no velocity stage).  Trace mode: every block of a record is enforced.
Bind:   (code -> spec) real RATTLE runs on random conservative systems (rigid-bar and point-mass pendula and chains, springs in force
        form, gravity) with consistent random initial velocities.  Per step (hook: midpoint velocity and stage percussions) the
        residuals of the specification's equations are evaluated with the System's routines -- the implementation solves exactly
        that symmetric equation set.  Per run: forward N steps, reverse the velocities, N steps again (a fresh solver on a copy)
        must return to the initial state; the energy-error ratio under step halving and the energy trend over a long horizon are
        measured (wide not-judged bands: these are asymptotic statements).
"""
from __future__ import annotations

import contextlib
import copy
import io
import math
import os
import warnings

import numpy as np

from .. import tlc, runs
from ..runs import batch_validate

TOL = 1e-11


def _quiet():
    return contextlib.redirect_stdout(io.StringIO())


def _opts():
    from cardillo.solver import SolverOptions

    return SolverOptions(newton_atol=TOL, newton_rtol=TOL, fixed_point_atol=TOL, fixed_point_rtol=TOL, newton_max_iter=50, fixed_point_max_iter=2000)


def classify(r, ok, bad):
    r = float(r)
    if not np.isfinite(r):
        return "violated"
    return "ok" if r <= ok else ("violated" if r >= bad else "borderline")


# ------------------------------------------------------------------------------------------------ systems
def gen_system(rng, kind):
    """conservative systems without contacts: gravity, springs in force form, bilateral constraints"""
    from cardillo import System
    from cardillo.discrete import RigidBody, PointMass
    from cardillo.constraints import Revolute, Spherical, FixedDistance
    from cardillo.forces import Force
    from cardillo.force_laws import Spring
    from cardillo.interactions import TwoPointInteraction
    from cardillo.math import Exp_SO3, Spurrier

    system = System()
    g = np.array([0.0, 0.0, -9.81])
    L = 1.0
    Th = np.diag([0.02, 1 / 12, 1 / 12])
    desc = dict(kind=kind)
    if kind == "bar_chain":           # planar or spatial chain of rigid bars on revolute / spherical joints, springs
        n = rng.choice([1, 2])
        prev, r_prev = system.origin, np.zeros(3)
        A = Exp_SO3(np.array([0.0, rng.uniform(0.2, 1.2), 0.0]))
        bodies = []
        for i in range(n):
            spherical = rng.random() < 0.4
            if i > 0:
                A = A @ Exp_SO3(np.array([0.0, rng.uniform(-0.8, 0.8), 0.0]))
            r_C = r_prev + A @ np.array([0.5 * L, 0, 0])
            rb = RigidBody(rng.choice([1.0, 2.0]), Th, q0=np.concatenate([r_C, Spurrier(A)]), name=f"bar{i}")
            joint = Spherical(prev, rb, r_OJ0=r_prev, name=f"joint{i}") if spherical else Revolute(prev, rb, axis=1, r_OJ0=r_prev, A_IJ0=A, name=f"joint{i}")
            system.add(rb, joint, Force(rb.mass * g, rb, name=f"weight{i}"))
            bodies.append(rb)
            prev, r_prev = rb, r_prev + A @ np.array([L, 0, 0])
        tip = bodies[-1]
        sp = Spring(TwoPointInteraction(system.origin, tip, B_r_CP1=np.array([0.3, 0.2, -1.5]), B_r_CP2=np.array([0.5 * L, 0, 0])), k=rng.choice([5.0, 20.0]),
                    l_ref=1.0, compliance_form=False, name="spring")
        system.add(sp)
        desc.update(bars=n)
    elif kind == "top_from_rest":      # one body with three different principal inertias on a spherical joint with an oblique lever, released from REST:
        # the gyroscopic force vanishes (with its velocity derivative) at the initial state and matters as soon as the body tumbles
        A = Exp_SO3(np.array([rng.uniform(-0.8, 0.8), rng.uniform(0.3, 1.0), rng.uniform(-0.8, 0.8)]))
        lever = np.array([0.4, rng.uniform(0.15, 0.3), -rng.uniform(0.1, 0.25)])
        rb = RigidBody(1.0, np.diag([0.11, 0.23, 0.31]), q0=np.concatenate([A @ lever, Spurrier(A)]), name="top")
        system.add(rb, Spherical(system.origin, rb, r_OJ0=np.zeros(3), name="pivot"), Force(rb.mass * g, rb, name="weight"))
        desc.update(released_from_rest=True)
    else:                              # point masses on rigid links (FixedDistance), a spring between the last one and the origin
        n = rng.choice([1, 2])
        prev, r_prev = system.origin, np.zeros(3)
        for i in range(n):
            d = np.array([math.sin(rng.uniform(0.3, 1.2)), rng.uniform(-0.3, 0.3), -math.cos(rng.uniform(0.3, 1.2))])
            d = d / np.linalg.norm(d) * rng.choice([0.8, 1.0])
            pm = PointMass(rng.choice([1.0, 0.5]), q0=r_prev + d, name=f"pm{i}")
            system.add(pm, FixedDistance(prev, pm), Force(pm.mass * g, pm, name=f"weight{i}"))
            prev, r_prev = pm, r_prev + d
        system.add(Spring(TwoPointInteraction(system.origin, prev, B_r_CP1=np.array([0.8, 0.0, -0.5])), k=10.0, l_ref=0.7, compliance_form=False, name="spring"))
        desc.update(masses=n)
    with warnings.catch_warnings(), _quiet():
        warnings.simplefilter("ignore")
        system.assemble()
        # consistent random velocities: project a random u onto the null space of g_dot_u (mass-orthogonally)
        u = np.array([rng.uniform(-1.0, 1.0) for _ in range(system.nu)])
        if kind == "top_from_rest":
            u = np.zeros(system.nu)
        t0, q0 = system.t0, system.q0
        W = system.W_g(t0, q0).toarray()
        M = system.M(t0, q0).toarray()
        if W.shape[1]:
            MiW = np.linalg.solve(M, W)
            u = u - MiW @ np.linalg.solve(W.T @ MiW, W.T @ u)
        system.set_new_initial_state(q0, u, t0=t0)
    desc["u0"] = u.tolist()
    return system, desc


def energy(system, t, q, u):
    # kinetic energy from the mass matrix (RigidBody reports no E_kin of its own)
    q = np.asarray(q, dtype=float); u = np.asarray(u, dtype=float)
    return float(0.5 * u @ (system.M(t, q) @ u) + system.E_pot(t, q))


def rattle(system, t1, dt):
    from cardillo.solver import Rattle

    with warnings.catch_warnings(), _quiet():
        warnings.simplefilter("ignore")
        return Rattle(system, t1, dt, options=_opts()).solve()


def quat_blocks(system):
    from cardillo.discrete import RigidBody

    return [np.asarray(c.qDOF[3:7]) for c in system.contributions if isinstance(c, RigidBody)]


def step_records(system, sol, acc, dt, tag):
    """residuals of the specification's equations for every step, from the stored states and the hook data"""
    out = []
    blocks = quat_blocks(system)
    for k in range(1, len(sol.t)):
        ev = acc[k - 1]
        t0, t1 = float(sol.t[k - 1]), float(sol.t[k])
        q0, u0, q1, u1 = (np.asarray(x, dtype=float) for x in (sol.q[k - 1], sol.u[k - 1], sol.q[k], sol.u[k]))
        uh = np.asarray(ev["un12"], dtype=float); P1 = np.asarray(ev["P_g1"], dtype=float); P2 = np.asarray(ev["P_g2"], dtype=float)
        h = t1 - t0
        # the stored q1 has unit quaternions (step_callback); the stage's q1 differs by the length of each quaternion: one free factor per block
        q1s = q1.copy()
        for b in blocks:
            # residual of the kinematic equation on the block is linear in the factor c:  c (P1 - h/2 T(P1) om) - (P0 + h/2 T(P0) om) = 0
            e = np.zeros_like(q1); e[b] = q1[b]
            lin = e - 0.5 * h * (system.q_dot(t1, e, uh))
            rhs = np.zeros_like(q1); rhs[b] = q0[b]
            rhs = rhs + 0.5 * h * system.q_dot(t0, rhs, uh)
            a_, b_ = lin[b], rhs[b]
            c = float(a_ @ b_) / float(a_ @ a_)
            q1s[b] = c * q1[b]
        kin = q1s - q0 - 0.5 * h * (system.q_dot(t0, q0, uh) + system.q_dot(t1, q1s, uh))
        M0 = system.M(t0, q0); M1 = system.M(t1, q1)
        mom1 = M0 @ (uh - u0) - 0.5 * h * system.h(t0, q0, uh) - system.W_g(t0, q0) @ P1
        mom2 = M1 @ (u1 - uh) - 0.5 * h * system.h(t1, q1, uh) - system.W_g(t1, q1) @ P2
        fs = 1.0 + float(np.max(np.abs(M0 @ u0)))
        vals = {"kin": float(np.max(np.abs(kin))), "mom1": float(np.max(np.abs(mom1))) / fs, "mom2": float(np.max(np.abs(mom2))) / fs,
                "pos": float(np.max(np.abs(system.g(t1, q1)), initial=0.0)), "vel": float(np.max(np.abs(system.g_dot(t1, q1, u1)), initial=0.0)),
                "quat": float(np.max(np.abs(system.g_S(t1, q1)), initial=0.0))}
        cls = {name: classify(v, 1e-8, 1e-6) for name, v in vals.items()}
        out.append(dict(step=k, tag=tag, vals=vals, violated=[n for n, c in cls.items() if c == "violated"], borderline=any(c == "borderline" for c in cls.values())))
    return out


def run(ctx):
    ctx.level = "exploration"
    rng = ctx.rng
    # the scheme is symmetric and reversible; the deviations are not
    stats = []
    for scheme in ("rattle", "force_at_end", "explicit_kin", "mass_at_start", "no_velocity_stage"):
        cfg = os.path.join(ctx.scratch, f"rs_{scheme}.cfg")
        with open(cfg, "w") as f:
            f.write(f'SPECIFICATION Spec\nCONSTANTS\n  Mode = "scheme"\n  Scheme = "{scheme}"\nINVARIANT SchemeOK\n')
        r = tlc.run_tlc("RattleScheme", cfg, scratch=ctx.scratch, workers=2, timeout=600)
        stats.append(r)
        if scheme == "rattle":
            tlc.require_ok(r, "RattleScheme")
            if r.violated:
                ctx.violation("spec:RattleScheme:SchemeOK", "TLC: the scheme as implemented is not symmetric / reversible in the model", {"stdout": r.stdout[-2000:]})
        elif r.violated != "SchemeOK":
            raise tlc.MachineryError(f"the deviation '{scheme}' of RATTLE is not rejected by the symmetry check")
    records, wheres = [], {}
    nsys = 12 if ctx.thorough else 3
    nruns = 0
    notjudged = {}
    from cardillo.solver import Rattle

    def add(rec, where):
        rec["id"] = len(records) + 1
        records.append(rec); wheres[rec["id"]] = where

    for si in range(nsys):
        kind = ["bar_chain", "mass_chain", "top_from_rest"][si % 3]
        try:
            system, desc = gen_system(rng, kind)
        except Exception as ex:
            notjudged[type(ex).__name__] = notjudged.get(type(ex).__name__, 0) + 1
            ctx.notes.append(f"system {si} ({kind}) was not built: {type(ex).__name__}: {str(ex)[:100]}")
            continue
        dt = rng.choice([1e-2, 5e-3])
        nsteps = 30 if kind != "top_from_rest" else 60
        # every second system is run to a final time that is no multiple of the step (the uniform grid then ends after it: the same number of steps)
        T_run = nsteps * dt if si % 2 == 0 else (nsteps - 0.37) * dt
        where = dict(system=si, desc=desc, dt=dt, t1=T_run)
        # (1) the stage equations, step by step
        mk = (lambda sysm=system: Rattle(sysm, sysm.t0 + T_run, dt, options=_opts()))
        with warnings.catch_warnings():
            warnings.simplefilter("ignore")
            rr = runs.record_run(mk, system, "Rattle", False, nsteps)
        if rr.exc is not None or rr.sol is None or len(rr.sol.t) != nsteps + 1:
            notjudged[type(rr.exc).__name__ if rr.exc else "short"] = notjudged.get(type(rr.exc).__name__ if rr.exc else "short", 0) + 1
            ctx.notes.append(f"system {si} ({kind}): run ended loudly ({type(rr.exc).__name__ if rr.exc else 'short'}; not judged here)")
            continue
        nruns += 1
        acc = [e for e in rr.raw if e["e"] == "accept"]
        if len(acc) != nsteps or "un12" not in acc[0]:
            raise tlc.MachineryError("the accept events of Rattle do not carry the stage data (hook c0ec5f93 missing?)")
        for rec in step_records(system, rr.sol, acc, dt, dict(system=si, kind=kind, dt=dt)):
            add(rec, dict(where, step=rec["step"], vals=rec["vals"]))
        sol = rr.sol
        # (2) forward, reverse the velocities, forward again
        try:
            back = system.deepcopy()
            with warnings.catch_warnings(), _quiet():
                warnings.simplefilter("ignore")
                back.set_new_initial_state(np.asarray(sol.q[-1]).copy(), -np.asarray(sol.u[-1]).copy(), t0=float(sol.t[-1]))
            solb = rattle(back, float(sol.t[-1]) + T_run, dt)
            dq = float(np.max(np.abs(np.asarray(solb.q[-1]) - np.asarray(sol.q[0]))))
            # a quaternion and its negative are the same orientation
            for b in quat_blocks(system):
                dq = min(dq, max(float(np.max(np.abs(np.delete(np.asarray(solb.q[-1]) - np.asarray(sol.q[0]), b)), initial=0.0)),
                                 float(np.max(np.abs(np.asarray(solb.q[-1])[b] + np.asarray(sol.q[0])[b]))))) if len(quat_blocks(system)) == 1 else dq
            du = float(np.max(np.abs(np.asarray(solb.u[-1]) + np.asarray(sol.u[0]))))
            val = max(dq, du)
            c = classify(val, 1e-8, 5e-8)       # (the unchanged solver returns to within 4e-10 on these systems; a scheme that is reversible only to O(dt^3) misses by 1e-7 .. 1e-6)
            add(dict(step=nsteps, tag=dict(system=si, kind=kind, dt=dt, run="there and back"), vals={"reversible": val}, violated=["reversible"] if c == "violated" else [],
                     borderline=c == "borderline"), dict(where, run="there and back", vals={"reversible": val}))
        except Exception as ex:
            notjudged[type(ex).__name__] = notjudged.get(type(ex).__name__, 0) + 1
            ctx.notes.append(f"system {si} ({kind}): the return run ended loudly ({type(ex).__name__}: {str(ex)[:80]}; not judged here)")
        # (3) order: energy error with dt and dt / 2 over the same horizon
        try:
            T = nsteps * dt
            E0 = energy(system, sol.t[0], sol.q[0], sol.u[0])
            e1 = max(abs(energy(system, t, q, u) - E0) for t, q, u in zip(sol.t, sol.q, sol.u))
            sys2 = system.deepcopy()
            sol2 = rattle(sys2, T, dt / 2)
            e2 = max(abs(energy(sys2, t, q, u) - E0) for t, q, u in zip(sol2.t, sol2.q, sol2.u))
            if e2 > 1e-9 and e1 > 1e-8:          # above the solver tolerance, otherwise the ratio says nothing
                ratio = e1 / e2
                c = "ok" if 3.0 <= ratio <= 5.5 else ("violated" if ratio < 2.4 or ratio > 12 else "borderline")
                add(dict(step=nsteps, tag=dict(system=si, kind=kind, dt=dt, run="step halving"), vals={"order2": ratio, "e(dt)": e1, "e(dt/2)": e2},
                         violated=["order2"] if c == "violated" else [], borderline=c == "borderline"), dict(where, run="step halving", vals={"ratio": ratio, "e(dt)": e1, "e(dt/2)": e2}))
        except Exception as ex:
            notjudged[type(ex).__name__] = notjudged.get(type(ex).__name__, 0) + 1
        # (4) drift: long horizon, trend of the energy error against its oscillation
        if si < (4 if ctx.thorough else 1):
            try:
                sys3 = system.deepcopy()
                N = 3000 if ctx.thorough else 1200
                sol3 = rattle(sys3, N * dt, dt)
                E = np.array([energy(sys3, t, q, u) for t, q, u in zip(sol3.t, sol3.q, sol3.u)]) - E0
                tt = np.asarray(sol3.t) - sol3.t[0]
                slope, icpt = np.polyfit(tt, E, 1)
                amp = float(np.max(np.abs(E - (slope * tt + icpt)))) + 1e-14
                rel = abs(slope) * tt[-1] / amp
                c = classify(rel, 0.5, 3.0)
                add(dict(step=N, tag=dict(system=si, kind=kind, dt=dt, run="long horizon"), vals={"nodrift": rel, "amplitude": amp}, violated=["nodrift"] if c == "violated" else [],
                         borderline=c == "borderline"), dict(where, run="long horizon", vals={"trend/amplitude": rel, "amplitude": amp, "steps": N}))
            except Exception as ex:
                notjudged[type(ex).__name__] = notjudged.get(type(ex).__name__, 0) + 1
                ctx.notes.append(f"system {si} ({kind}): the long run ended loudly ({type(ex).__name__}; not judged here)")
    if len(records) < 10:
        raise tlc.MachineryError(f"only {len(records)} RATTLE records were produced ({notjudged})")
    c1 = copy.deepcopy(records[0]); c1["id"] = 0; c1["violated"] = ["mom2"]
    c2 = copy.deepcopy(records[0]); c2["id"] = -1; c2["violated"] = ["reversible"]
    bad, rt = batch_validate(ctx, "RattleScheme", records + [c1, c2], {"Mode": '"trace"', "Scheme": '"rattle"'}, "rattle_trace")
    if bad.pop(0, None) is None or bad.pop(-1, None) is None:
        raise tlc.MachineryError("self-test failed: a record with a violated block was accepted by the trace specification")
    for rid, clause in bad.items():
        w = wheres[rid]
        ctx.violation(f"Rattle:{w['desc']['kind']}:{clause[:70]}", f"{clause}: {w}", w)
    nb = sum(1 for r in records if r["borderline"])
    kinds = {}
    for r in records:
        k = r["tag"].get("run", "step")
        kinds[k] = kinds.get(k, 0) + 1
    ctx.log(f"[C19] scheme model: symmetric and reversible, 4 deviations rejected; {nruns} systems, records {kinds} judged by TLC, {len(bad)} rejected, {nb} borderline; "
            f"not judged: {notjudged}")
    nontrivial = {(repr(sorted(r["tag"].items(), key=str)), r["step"]) for r in records}
    ctx.coverage = {"evaluations": len(records), "distinct_nontrivial": len(nontrivial),
                    "rule": "per random conservative system: every step of a 30-step run (residuals of the specification's stage equations from hook data), one there-and-back "
                            "run, one step-halving pair, one long-horizon run; distinct by (system, run kind, step)",
                    "states": sum(s.distinct for s in stats) + rt.distinct, "transitions": max(sum(s.generated for s in stats) + rt.generated, 1),
                    "traces_validated_against_impl": len(records), "samples": [{k: records[0][k] for k in ("step", "vals", "tag")}], "records": kinds, "borderline": nb,
                    "not_judged": notjudged}
    ctx.assumptions = ["solver tolerances 1e-11; stage residuals 'ok' below 1e-8, 'violated' above 1e-6; the forward-backward return 'ok' below 1e-8, 'violated' above 5e-8 "
                       "(the unchanged solver returns to within 4e-10 over 30 .. 100 steps; a scheme that is reversible only to O(dt^3) misses by 1e-7 .. 1e-6)",
                       "the energy-error ratio under step halving is 'ok' in [3, 5.5], 'violated' below 2.4 (first order gives 2) or above 12, not judged in between or when the "
                       "errors are at the level of the solver tolerance; the trend of the energy error over the long horizon is 'ok' below half the oscillation amplitude, "
                       "'violated' above three times",
                       "the stored quaternions are normalised after the step (step_callback): the kinematic residual is evaluated with one free length factor per quaternion"]


def replay(ctx, path):
    run(ctx)
