"""C27 Contact proximal maps are exact projections.

Decide: spec/Prox.tla -- the negative-orthant and scaled-ball projections on integer / Pythagorean lattices; TLC
        verifies that the stated maps are the Euclidean projections (feasible, idempotent, projection inequality
        against every lattice point of the set, non-expansive), characterises the derivative of the normalisation
        without limits, and gives the exact prox parameters for diagonal mass matrices.
Bind:   every case is evaluated on the real NegativeOrthant / Sphere / estimate_prox_parameter, scaled by powers of
        two over many decades (exact in binary floating point) and compared with the spec's rationals.
"""
from __future__ import annotations

import os

import numpy as np

from .. import tlc

SCALES = [0, -10, 20, -40, 60]       # powers of two


def _orthant(ctx, c, e):
    from cardillo.math.prox import NegativeOrthant

    x = np.array(c["x"], dtype=float)
    for k in SCALES:
        s = 2.0 ** k
        y = NegativeOrthant.prox(x * s)
        if not np.array_equal(y, np.array(e["y"], dtype=float) * s):
            ctx.violation("orthant:prox", f"NegativeOrthant.prox({(x * s).tolist()}) = {np.asarray(y).tolist()}, projection is {(np.array(e['y']) * s).tolist()}", {"case": c, "scale": k})
            return
    # implicit function pieces (piecewise linear): active set, residual, Jacobian
    y = np.array([1.0, -2.0, 0.5, 0.0][: len(x)])
    for rho in (0.5, 2.0):
        act = NegativeOrthant.active_set(x, y, rho)
        exp_act = (rho * x - y) <= 0
        res = NegativeOrthant.residual(x, y, act)
        Jg, Jh = NegativeOrthant.Jacobian(act)
        ok = np.array_equal(act, exp_act) and np.array_equal(res, np.where(exp_act, x, y)) and \
            np.array_equal(Jg.toarray(), np.diag(exp_act.astype(float))) and np.array_equal(Jh.toarray(), np.diag((~exp_act).astype(float)))
        if not ok:
            ctx.violation("orthant:implicit", f"active set / residual / Jacobian inconsistent at x={x.tolist()}, y={y.tolist()}, rho={rho}", {"case": c})
            return


def _ball(ctx, c, e):
    from cardillo.math.prox import Sphere

    x = np.array(c["x"][0], dtype=float)
    nrm = c["x"][1]
    mu = c["mun"] / c["mud"]
    law = Sphere(mu)
    exact = np.array(e["num"], dtype=float) / e["den"]
    rad = e["radnum"] / e["radden"]
    # the lattice point typed as integers (np.array([-8, 3])) is the same point
    try:
        yi = np.asarray(law.prox(np.array(c["x"][0], dtype=int), c["z"]), dtype=float)
        if yi.shape != exact.shape or not np.all(np.isfinite(yi)) or np.max(np.abs(yi - exact)) > 4e-16 * max(np.max(np.abs(exact)), rad, 0.0) + 1e-300:
            ctx.violation("ball:prox:integer-typed", f"Sphere({mu}).prox of x={c['x'][0]} typed as integers, z={c['z']} = {yi.tolist()}, exact projection {exact.tolist()}", {"case": c})
            return
    except Exception as ex:
        ctx.violation("ball:raises:integer-typed", f"Sphere({mu}).prox raised {type(ex).__name__}: {ex} for x={c['x'][0]} typed as integers", {"case": c})
        return
    for k in SCALES:
        s = 2.0 ** k
        try:
            y = np.asarray(law.prox(x * s, c["z"] * s), dtype=float)
        except Exception as ex:
            ctx.violation("ball:raises", f"Sphere({mu}).prox raised {type(ex).__name__}: {ex} for x={(x*s).tolist()}, z={c['z']*s}", {"case": c, "scale": k})
            return
        ref = exact * s
        tol = 4e-16 * max(np.max(np.abs(ref)), rad * s, 0.0) + 0.0
        if y.shape != ref.shape or not np.all(np.isfinite(y)) or np.max(np.abs(y - ref)) > tol + 1e-300:
            ctx.violation(f"ball:prox:{'inside' if e['inside'] else 'outside'}" + (":tiny" if k <= -40 else ""),
                          f"Sphere({mu}).prox(x={(x*s).tolist()}, z={c['z']*s}) = {y.tolist()}, exact projection {ref.tolist()}", {"case": c, "scale": k})
            return
        # the clauses of the property on the returned value itself
        if not (np.linalg.norm(y) <= rad * s * (1 + 1e-15) + 1e-300):
            ctx.violation("ball:feasible", f"projection outside the ball: |y| = {np.linalg.norm(y)!r} > {rad*s!r}", {"case": c, "scale": k})
            return
        y2 = np.asarray(law.prox(y, c["z"] * s))
        if not np.all(np.isfinite(y2)) or np.max(np.abs(y2 - y)) > 4e-16 * max(np.max(np.abs(y)), 1e-300):
            ctx.violation("ball:idempotent", f"prox(prox(x)) != prox(x) for x={(x*s).tolist()}", {"case": c, "scale": k})
            return


def _jac(ctx, c, e):
    from cardillo.math.prox import Sphere

    a = np.array(c["a"][0], dtype=float)
    na = float(e["na"])
    rho = float(c["rho"])
    mu = c["mun"] / c["mud"]
    law = Sphere(mu)
    n = len(a)
    z = np.array([float(c["z"])])
    rad = max(0.0, mu * z[0])
    # choose y, then x such that rho x - y = a exactly (small integers / halves)
    y = np.array([1.0, -2.0, 3.0, 0.5][:n])
    x = (a + y) / rho
    if np.linalg.norm(rho * x - y) <= rad:
        return True       # inside the active set: not this case's business
    Jn = np.array(e["jn"], dtype=float) / na ** 3
    exp_res = y + rad * a / na
    exp_Jx = rad * Jn * rho
    exp_Jy = np.eye(n) - rad * Jn
    exp_Jz = (mu * a / na).reshape(n, 1) if mu * z[0] > 0 else np.zeros((n, 1))
    try:
        act = law.active_set(x, y, z[0], rho)
        res = law.residual(x, y, z[0], rho, act)
        Jx, Jy, Jz = law.Jacobian(x, y, z, rho, act)
    except Exception as ex:
        ctx.violation("jac:raises", f"Sphere implicit function raised {type(ex).__name__}: {ex}", {"case": c})
        return False
    key = "jac:" + ("z>0" if mu * z[0] > 0 else "z<=0")
    if act:
        ctx.violation(key + ":active_set", f"active_set true although |rho x - y| = {na} > radius {rad}", {"case": c}); return False
    for name, got, exp in (("residual", res, exp_res), ("Jx", Jx, exp_Jx), ("Jy", Jy, exp_Jy), ("Jz", Jz, exp_Jz)):
        got = np.asarray(got, dtype=float)
        if got.shape != np.shape(exp) or not np.all(np.isfinite(got)) or np.max(np.abs(got - exp)) > 1e-13 * (1 + np.max(np.abs(exp))):
            ctx.violation(f"{key}:{name}", f"Sphere({mu}) {name} at a={a.tolist()}, rho={rho}, z={z[0]}: {got.tolist()}, exact {np.asarray(exp).tolist()}", {"case": c})
            return False
    return True


def _rpar(ctx, c, e):
    from scipy.sparse import csc_array, diags
    from cardillo.math.prox import estimate_prox_parameter

    W = np.array(c["W"], dtype=float)
    m = np.array(c["m"], dtype=float)
    for alpha in (1.0, 0.5):
        exp = alpha * e["lcm"] / np.array(e["den"], dtype=float)
        for Mfmt in (diags(m).tocsc(), csc_array(np.diag(m))):
            r = np.asarray(estimate_prox_parameter(alpha, csc_array(W), Mfmt), dtype=float)
            if r.shape != exp.shape or not np.allclose(r, exp, rtol=1e-14) or not (np.all(np.isfinite(r)) and np.all(r > 0)):
                ctx.violation("rpar", f"estimate_prox_parameter(alpha={alpha}) = {r.tolist()}, exact {exp.tolist()} for m={m.tolist()}, W={W.tolist()}", {"case": c})
                return
    # the same problem in other units (powers of two, exact): heavy bodies, tiny force directions.  r scales like mass / direction^2
    for kw, km in ((-10, 0), (-20, 0), (0, 30), (0, 60), (-40, 10), (15, -20)):
        sw, sm = 2.0 ** kw, 2.0 ** km
        exp = e["lcm"] / np.array(e["den"], dtype=float) * sm / (sw * sw)
        r = np.asarray(estimate_prox_parameter(1.0, csc_array(W * sw), diags(m * sm).tocsc()), dtype=float)
        if r.shape != exp.shape or not (np.all(np.isfinite(r)) and np.all(r > 0)) or not np.allclose(r, exp, rtol=1e-14, atol=0):
            ctx.violation("rpar:scaled", f"estimate_prox_parameter for W * 2^{kw}, m * 2^{km} = {r.tolist()}, exact {exp.tolist()} for m={m.tolist()}, W={W.tolist()}", {"case": c, "scales": [kw, km]})
            return
    # general SPD mass matrix and full-column-rank W: positive and finite (and equal to the definition)
    rng = np.random.default_rng(len(str(c)))
    A = rng.normal(size=(3, 3)); M = A @ A.T + 3 * np.eye(3)
    r = np.asarray(estimate_prox_parameter(1.0, csc_array(W), csc_array(M)))
    ref = 1.0 / np.diag(W.T @ np.linalg.solve(M, W))
    if not (np.all(np.isfinite(r)) and np.all(r > 0) and np.allclose(r, ref, rtol=1e-10)):
        ctx.violation("rpar:spd", f"prox parameter for an SPD mass matrix: {r.tolist()}, definition gives {ref.tolist()}", {"case": c})


def run(ctx):
    ctx.level = "model_checking"
    cfg = os.path.join(ctx.scratch, "prox.cfg")
    open(cfg, "w").write(f"SPECIFICATION Spec\nCONSTANTS\n  OMax = {2 if not ctx.thorough else 3}\nINVARIANT CaseOK\n")
    dot = os.path.join(ctx.scratch, "prox")
    r = tlc.run_tlc("Prox", cfg, scratch=ctx.scratch, dump_dot=dot, timeout=2400)
    tlc.require_ok(r, "Prox")
    if r.violated:
        ctx.violation(f"spec:{r.violated}", f"TLC: {r.violated} violated", {"stdout": r.stdout[-3000:]})
    g = tlc.parse_dot(dot + ".dot")
    counts = {}
    samples = []
    fn = {"orthant": _orthant, "ball": _ball, "jac": _jac, "rpar": _rpar}
    for nid in g.init:
        st = g.nodes[nid]
        c, e = st["case"], st["expected"]
        counts[c["kind"]] = counts.get(c["kind"], 0) + 1
        try:
            fn[c["kind"]](ctx, c, e)
        except Exception as ex:
            ctx.violation(f"{c['kind']}:harness", f"case {c} raised {type(ex).__name__}: {ex}", {"case": c})
        if counts[c["kind"]] == 3:
            samples.append({"case": c, "expected": e})
    ctx.log(f"[C27] cases replayed: {counts} x {len(SCALES)} dyadic scales")
    ctx.coverage = {"states": r.distinct, "transitions": max(r.generated, 1), "traces_validated_against_impl": sum(counts.values()),
                    "samples": samples, "exhaustive": True, "cases": counts, "scales_log2": SCALES,
                    "rule": "orthant: all integer vectors of the grid in dimension 1..3; ball: 17 Pythagorean vectors (dimension 1..4) x mu in {0,1,3,1/2,3/2} x "
                            "z in {-4,0,1,2,10,40}; Jacobian: arguments with integer norm x rho x mu x z; prox parameter: diagonal M x integer W; each scaled by 2^k"}
    ctx.assumptions = ["ball projections compared at 4e-16 relative (one rounding of radius * x / norm)",
                       "the Jacobian clause is decided at arguments whose norm is an integer; the derivative of a -> a/|a| is characterised in the spec "
                       "by 'annihilates a' and 'acts as 1/|a| on tangents'"]


def replay(ctx, path):
    run(ctx)
