"""C03 SO(3)/SE(3) derivative routines are the derivatives of their maps (claimed for the rotation-vector maps).

Decide: spec/RotationDerivatives.tla -- along a ray psi = eps n (integer n of integer length, eps a symbol) the maps Exp, T, Tinv are
        linear in sin a, cos a, cot(a/2) with Laurent-polynomial coefficients in eps; TLC evaluates the maps in dual arithmetic over such
        elements (d sin = cos da, d cos = -sin da, d cot(a/2) = -(1 + cot^2)/2 da) and so DERIVES every entry of their derivatives
        exactly, for every eps at once; it checks on every case that the axis is fixed (also to first order) and that the window of
        powers of eps suffices.
Bind:   (spec -> code) for every case (ray, direction) the harness substitutes eps = 2^-j (j up to 30: |psi| down to 1e-9; psi is
        exactly representable), evaluates TLC's elements with sin, cos, cot computed to 40 digits in rational arithmetic, and compares
        with Exp_SO3, T_SO3, T_SO3_inv (values), Exp_SO3_psi, T_SO3_psi, T_SO3_inv_psi (unit directions), T_SO3_dot (general direction)
        and Exp_SE3_h (assembled from the same elements).  Absolute tolerance 1e-7 (relative to 1 + |value|).
        Float supplement for the logarithm derivatives (not derived by TLC): Log_SO3_A(Exp(psi)) : Exp_SO3_psi(psi) = I and
        Log_SE3_H(Exp(h)) : Exp_SE3_h(h) = I (their action on the tangent space of the group).
Not covered (restriction): Log_SO3_A, Log_SE3_H beyond that supplement (derivatives with respect to matrix entries); the quaternion
        tangent maps are rational and decided under C01.
"""
from __future__ import annotations

from fractions import Fraction

import os

import numpy as np

from .. import tlc
from ..cases import enumerate_cases

TOL = 1e-7


def sincos(x, terms=60):
    """sin and cos of the rational x as rationals (Taylor series; the remainder is far below 1e-40 for |x| < 4)"""
    s = Fraction(0); c = Fraction(0)
    term = Fraction(1)
    for k in range(terms):
        if k % 2 == 0:
            c += term if (k // 2) % 2 == 0 else -term
        else:
            s += term if (k // 2) % 2 == 0 else -term
        term = term * x / (k + 1)
        # keep the fractions small: 60 digits are plenty
        if term.denominator > 10 ** 80:
            term = Fraction(round(term * 10 ** 70), 10 ** 70)
    return s, c


def element_value(el, eps, syms):
    """el: 5 tuples (symbols 1, s, c, k, kk) of 8 rationals (powers eps^-5 .. eps^2)"""
    tot = Fraction(0)
    for sy in range(5):
        p = el[sy]
        for pos in range(8):
            n, d = p[pos]
            if n:
                tot += Fraction(n, d) * (eps ** (pos - 5)) * syms[sy]
    return tot


def mat_value(M, part, eps, syms):
    return np.array([[float(element_value(M[i][j][part], eps, syms)) for j in range(3)] for i in range(3)])


def run(ctx):
    ctx.level = "model_checking"
    from cardillo.math import rotations as rot

    r, cases = enumerate_cases(ctx, "RotationDerivatives", {"Stride": 1 if ctx.thorough else 2}, invariants=("AxisFixed", "NothingLost", "EdgesZero"), tag="rotder", timeout=1800)
    if not cases:
        raise tlc.MachineryError("TLC produced no cases for RotationDerivatives")
    js = [0, 1, 2, 3, 5, 6, 7, 8, 9, 11, 14, 17, 20, 23, 26, 28, 30] if ctx.thorough else [0, 1, 2, 4, 6, 7, 8, 9, 13, 18, 23, 27, 30]
    ncmp = 0
    npoints = set()
    samples = []
    reported = set()

    def cmp(name, got, exp, where):
        nonlocal ncmp
        ncmp += 1
        got = np.asarray(got, dtype=float); exp = np.asarray(exp, dtype=float)
        err = np.abs(got - exp) / (1 + np.abs(exp))
        if not np.all(np.isfinite(got)) or not (np.max(err) <= TOL):
            key = f"{name}:|psi|~1e{int(np.floor(np.log10(where['angle'])))}"
            if key in reported:
                return
            reported.add(key)
            idx = np.unravel_index(int(np.argmax(np.where(np.isfinite(err), err, np.inf))), err.shape)
            ctx.violation(key, f"{name} differs from the derived value by {float(np.max(err)):.3e} (entry {tuple(int(i) for i in idx)}: {float(got[idx])!r}, derived "
                          f"{float(exp[idx])!r}) at {where}", where)

    for st in cases:
        n = np.array(st["case"]["ray"][0], dtype=float); length = int(st["case"]["ray"][1])
        d = [Fraction(a, b) for a, b in st["case"]["dir"]]
        dirf = np.array([float(x) for x in d])
        unit = [k for k in range(3) if d[k] == 1 and all(d[m] == 0 for m in range(3) if m != k)]
        ex = st["expected"]
        for j in js:
            eps = Fraction(1, 2 ** j)
            a = length * eps
            if a > 3:          # the maps' domain is |psi| < pi
                continue
            s, c = sincos(a)
            sh, ch = sincos(a / 2)
            k = ch / sh
            syms = [Fraction(1), s, c, k, k * k]
            psi = n * float(eps)
            where = dict(psi=psi.tolist(), angle=float(a), ray=st["case"]["ray"][0], eps=f"2^-{j}", direction=[str(x) for x in d])
            npoints.add((tuple(st["case"]["ray"][0]), j))
            E_v = mat_value(ex["Exp"], "v", eps, syms); T_v = mat_value(ex["T"], "v", eps, syms); Ti_v = mat_value(ex["Tinv"], "v", eps, syms)
            E_d = mat_value(ex["Exp"], "d", eps, syms); T_d = mat_value(ex["T"], "d", eps, syms); Ti_d = mat_value(ex["Tinv"], "d", eps, syms)
            try:
                cmp("Exp_SO3", rot.Exp_SO3(psi.copy()), E_v, where)
                cmp("T_SO3", rot.T_SO3(psi.copy()), T_v, where)
                cmp("T_SO3_inv", rot.T_SO3_inv(psi.copy()), Ti_v, where)
                # the time derivative of the tangent map along every direction (among them rates parallel to psi)
                cmp("T_SO3_dot", rot.T_SO3_dot(psi.copy(), dirf.copy()), T_d, dict(where, psi_dot=dirf.tolist()))
                if unit:
                    kk = unit[0]
                    cmp("Exp_SO3_psi", np.asarray(rot.Exp_SO3_psi(psi.copy()))[:, :, kk], E_d, dict(where, k=kk))
                    cmp("T_SO3_psi", np.asarray(rot.T_SO3_psi(psi.copy()))[:, :, kk], T_d, dict(where, k=kk))
                    cmp("T_SO3_inv_psi", np.asarray(rot.T_SO3_inv_psi(psi.copy()))[:, :, kk], Ti_d, dict(where, k=kk))
                    # SE(3): H = [Exp, T^T r; 0 1]
                    rr = np.array([0.5, -1.0, 2.0])
                    H_h = np.asarray(rot.Exp_SE3_h(np.concatenate([rr, psi])))
                    cmp("Exp_SE3_h (rotation block)", H_h[:3, :3, 3 + kk], E_d, dict(where, k=kk))
                    cmp("Exp_SE3_h (translation block, psi)", H_h[:3, 3, 3 + kk], T_d.T @ rr, dict(where, k=kk, r=rr.tolist()))
                    cmp("Exp_SE3_h (translation block, r)", H_h[:3, 3, :3], T_v.T, dict(where, r=rr.tolist()))
                    # the logarithm derivatives (not derived by TLC): necessary condition on the tangent space, d Log(Exp(psi)) / d psi = I
                    if kk == 0:
                        A = np.asarray(rot.Exp_SO3(psi.copy()))
                        LA = np.asarray(rot.Log_SO3_A(A))
                        cmp("Log_SO3_A : Exp_SO3_psi", np.einsum("ijk,jkl->il", LA, np.asarray(rot.Exp_SO3_psi(psi.copy()))), np.eye(3), where)
                        hh = np.concatenate([rr, psi])
                        LH = np.asarray(rot.Log_SE3_H(np.asarray(rot.Exp_SE3(hh))))
                        cmp("Log_SE3_H : Exp_SE3_h", np.einsum("ijk,jkl->il", LH, H_h), np.eye(6), dict(where, r=rr.tolist()))
                else:
                    # the derivative arrays contracted with the direction
                    cmp("Exp_SO3_psi . direction", np.einsum("ijk,k->ij", np.asarray(rot.Exp_SO3_psi(psi.copy())), dirf), E_d, where)
                    cmp("T_SO3_inv_psi . direction", np.einsum("ijk,k->ij", np.asarray(rot.T_SO3_inv_psi(psi.copy())), dirf), Ti_d, where)
            except Exception as ex_:
                key = f"raises:{type(ex_).__name__}"
                if key not in reported:
                    reported.add(key)
                    ctx.violation(key, f"{type(ex_).__name__}: {ex_} at {where}", where)
            if len(samples) < 2 and j == js[-1] and unit:
                samples.append({"where": where, "T_SO3_psi[:, :, k] derived": T_d.tolist()})
    # psi = 0: the routines must return the limits of the derived expressions (evaluated at eps = 2^-70, where they have converged far below the tolerance)
    eps0 = Fraction(1, 2 ** 70)
    z3 = np.zeros(3)
    for st in cases:
        d = [Fraction(a_, b_) for a_, b_ in st["case"]["dir"]]
        unit = [k_ for k_ in range(3) if d[k_] == 1 and all(d[m_] == 0 for m_ in range(3) if m_ != k_)]
        if int(st["case"]["ray"][1]) != 1:
            continue
        a0 = eps0
        s0, c0 = sincos(a0); sh0, ch0 = sincos(a0 / 2); k0 = ch0 / sh0
        syms0 = [Fraction(1), s0, c0, k0, k0 * k0]
        ex = st["expected"]
        where = dict(psi=[0.0, 0.0, 0.0], angle=1e-21, direction=[str(x) for x in d], limit_along=st["case"]["ray"][0])
        try:
            if unit:
                kk = unit[0]
                cmp("Exp_SO3_psi(0)", np.asarray(rot.Exp_SO3_psi(z3.copy()))[:, :, kk], mat_value(ex["Exp"], "d", eps0, syms0), dict(where, k=kk))
                cmp("T_SO3_psi(0)", np.asarray(rot.T_SO3_psi(z3.copy()))[:, :, kk], mat_value(ex["T"], "d", eps0, syms0), dict(where, k=kk))
                cmp("T_SO3_inv_psi(0)", np.asarray(rot.T_SO3_inv_psi(z3.copy()))[:, :, kk], mat_value(ex["Tinv"], "d", eps0, syms0), dict(where, k=kk))
            else:
                dirf = np.array([float(x) for x in d])
                cmp("T_SO3_dot(0, psi_dot)", rot.T_SO3_dot(z3.copy(), dirf.copy()), mat_value(ex["T"], "d", eps0, syms0), dict(where, psi_dot=dirf.tolist()))
        except Exception as ex_:
            ctx.violation(f"zero:raises:{type(ex_).__name__}", f"{type(ex_).__name__}: {ex_} at {where}", where)
    # quaternion tangent maps and their derivatives (both normalize variants): the QuatKernel cases on its large-ratio points
    from . import c01
    qcfg = os.path.join(ctx.scratch, "qk_c03.cfg")
    c01._cfg(qcfg, 1, 1, "extra", True, False)
    qdot = os.path.join(ctx.scratch, "qk_c03")
    rq = tlc.run_tlc("QuatKernel", qcfg, scratch=ctx.scratch, dump_dot=qdot, timeout=3000)
    tlc.require_ok(rq, "QuatKernel extra (C03)")
    if rq.violated:
        ctx.violation(f"spec:{rq.violated}", f"TLC: {rq.violated} violated", {"stdout": rq.stdout[-3000:]})
    else:
        gq = tlc.parse_dot(qdot + ".dot")
        for nid in gq.init:
            stq = gq.nodes[nid]
            c01.check_point(ctx, list(stq["P"]), stq["expected"], "quaternion")
            ncmp += 1
    # functions of the argument's VALUE: one buffer updated in place between uninterrupted calls must give the result of the new value
    pure_pts = [np.array(v, dtype=float) for v in ((0.3, -0.2, 0.5), (0.3, -0.2, 0.5), (1.0, 2.0, -1.5), (1e-4, 0.0, 2e-4), (0.0, 0.0, 0.0), (0.4, 0.4, -0.1), (0.51, -0.34, 0.85), (0.0, 0.0, 0.0))]
    pd = np.array([0.7, -1.1, 0.4])
    fns = [("Exp_SO3_psi", lambda b: rot.Exp_SO3_psi(b)), ("T_SO3", lambda b: rot.T_SO3(b)), ("T_SO3_psi", lambda b: rot.T_SO3_psi(b)), ("T_SO3_inv", lambda b: rot.T_SO3_inv(b)),
           ("T_SO3_inv_psi", lambda b: rot.T_SO3_inv_psi(b)), ("T_SO3_dot", lambda b: rot.T_SO3_dot(b, pd.copy())),
           ("Exp_SE3_h", lambda b: rot.Exp_SE3_h(np.concatenate([[1.0, -2.0, 0.5], b]))), ("Exp_SE3", lambda b: rot.Exp_SE3(np.concatenate([[1.0, -2.0, 0.5], b])))]
    for name, f in fns:
        try:
            fresh = [np.array(f(x.copy()), dtype=float) for x in pure_pts]
            buf = np.zeros(3); prev = None
            for x, exp in zip(pure_pts, fresh):
                buf[:] = x
                got = np.array(f(buf), dtype=float)
                ncmp += 1
                if not np.array_equal(got, exp):
                    ctx.violation(f"purity:{name}", f"{name} on a buffer updated in place from {prev} to {x.tolist()} returned the result of another value "
                                  f"(max deviation {np.max(np.abs(got - exp)):.3e})", {"psi": x.tolist(), "previous": prev})
                    break
                if not np.array_equal(buf, x):
                    ctx.violation(f"purity:{name}:mutates-argument", f"{name} modified its argument {x.tolist()}", {"psi": x.tolist()})
                    break
                prev = x.tolist()
            # a view into a longer array, scaled in place (what Exp_SE3_h hands on)
            h = np.concatenate([[1.0, -2.0, 0.5], pure_pts[0]])
            f(h[3:]); h[3:] *= 1.7
            got = np.array(f(h[3:]), dtype=float); exp = np.array(f((pure_pts[0] * 1.7).copy()), dtype=float)
            ncmp += 1
            if not np.allclose(got, exp, rtol=0, atol=1e-14):
                ctx.violation(f"purity:{name}", f"{name} on a view that was scaled in place returned the result of another value (max deviation {np.max(np.abs(got - exp)):.3e})",
                              {"psi": (pure_pts[0] * 1.7).tolist(), "history": "view scaled in place"})
        except Exception as ex_:
            ctx.violation(f"purity:{name}:raises:{type(ex_).__name__}", f"{type(ex_).__name__}: {ex_}", {"routine": name})
    from .c02 import typed_arguments
    ncmp += typed_arguments(ctx, "derivatives")
    # binding self-test: a corrupted element must produce a different number
    st = cases[0]
    el = [list(map(list, p)) for p in st["expected"]["T"][0][1]["d"]]
    eps = Fraction(1, 4); a = int(st["case"]["ray"][1]) * eps
    s, c = sincos(a); sh, ch = sincos(a / 2); k = ch / sh
    v0 = element_value(el, eps, [Fraction(1), s, c, k, k * k])
    el[0][5] = [el[0][5][0] + 977 * el[0][5][1], el[0][5][1]]
    if abs(float(element_value(el, eps, [Fraction(1), s, c, k, k * k]) - v0)) < 1:
        raise tlc.MachineryError("self-test failed: a corrupted element evaluates to the same number")
    ctx.log(f"[C03] {r.distinct} cases (rays x directions) derived by TLC; {len(npoints)} points psi = n 2^-j down to |psi| ~ {min(float(Fraction(c_['case']['ray'][1], 2 ** js[-1])) for c_ in cases):.1e}; "
            f"{ncmp} comparisons")
    ctx.coverage = {"states": r.distinct, "transitions": max(r.generated, 1), "traces_validated_against_impl": ncmp, "samples": samples or [{"case": cases[0]["case"]}],
                    "points": len(npoints), "exhaustive": True,
                    "rule": "6 rays (thorough: 16; integer vectors of integer length 1 .. 13) x 5 directions (the unit vectors, one general, the ray itself) x scales 2^-2 .. 2^-30; every entry of the maps and "
                            "of their derivatives along the direction"}
    ctx.assumptions = ["sin, cos, cot(a/2) are evaluated by the harness to more than 40 digits in rational arithmetic; the comparison tolerance is 1e-7 relative to 1 + |value| (the routines' closed forms lose digits to cancellation like 1e-16 / |psi|: about 1e-8 at |psi| ~ 1e-8; the defects found were errors of 1e-4 to 0.5)",
                       "claimed for Exp_SO3_psi, T_SO3_psi, T_SO3_dot, T_SO3_inv_psi, Exp_SE3_h (and the maps themselves); Log_SO3_A and Log_SE3_H are not covered; the "
                       "quaternion tangent maps and their derivatives (normalize True / False) are decided by QuatKernel.tla (C01's cases; its 12 large-ratio points are replayed here too)",
                       "in-place histories: each routine is called on one buffer that is overwritten between calls and must return exactly what it returns for a fresh array of the same value"]


def replay(ctx, path):
    run(ctx)
