"""C12 Rod material laws are hyperelastic with exact tangents.

Decide: spec/MaterialLaw.tla -- the strain energies of Simo1986 and Harsch2021 on strain states with integer |B_Gamma| and
        |B_Gamma0| (any reference length) in exact rational arithmetic; forces, couples and tangents are defined as gradients
        without calculus (central differences of the polynomial part, l' from 2 l l' = (G.G)'); TLC checks them against the
        closed forms, the tangent against the differentiated identity l n = ..., its symmetry, and Legendre duality of the
        quadratic law on the whole lattice.
Bind:   every lattice case is evaluated on long-lived law objects (one per class and stiffness, cases ordered so that equal
        strains with different reference strains follow each other): potential, B_n, B_m, the four tangents compared with the
        spec's rationals; every law that provides a complementary energy / compliances is checked for Legendre duality.
"""
from __future__ import annotations

import numpy as np

from ..cases import enumerate_cases


def R(x):
    return x[0] / x[1]


def RV(v):
    return np.array([R(x) for x in v])


def RM(m):
    return np.array([[R(x) for x in row] for row in m])


def close(a, b, tol=1e-12):
    a = np.asarray(a, dtype=float); b = np.asarray(b, dtype=float)
    return a.shape == b.shape and bool(np.all(np.abs(a - b) <= tol * (1 + np.abs(b))))


def run(ctx):
    from cardillo.rods import _material_models as mm

    ctx.level = "model_checking"
    r, cases = enumerate_cases(ctx, "MaterialLaw", {"Deep": "TRUE" if ctx.thorough else "FALSE"}, tag="materiallaw")
    # same strain, different reference strain consecutively
    cases.sort(key=lambda st: (st["case"]["law"], st["case"]["E"], st["case"]["G"], st["case"]["K"], st["case"]["K0"], st["case"]["G0"]))
    laws = {}
    # all law objects are created before the first evaluation and live side by side (state shared between instances would show)
    for st in cases:
        c = st["case"]
        key = (c["law"], tuple(c["E"]), tuple(c["F"]))
        if key not in laws:
            laws[key] = getattr(mm, c["law"])(np.array(c["E"], dtype=float), np.array(c["F"], dtype=float))
    n = 0
    samples = []
    dual_checked = {}
    bufs = [np.zeros(3) for _ in range(4)]
    second_pass = []
    for st in cases:
        c, e = st["case"], st["expected"]
        key = (c["law"], tuple(c["E"]), tuple(c["F"]))
        if key not in laws:
            laws[key] = getattr(mm, c["law"])(np.array(c["E"], dtype=float), np.array(c["F"], dtype=float))
        law = laws[key]
        G, G0, K, K0 = (np.array(c[k], dtype=float) for k in ("G", "G0", "K", "K0"))
        w = {k: c[k] for k in ("law", "E", "F", "G", "G0", "K", "K0")}
        args = lambda: (G.copy(), G0.copy(), K.copy(), K0.copy())
        n += 1
        try:
            got = dict(potential=law.potential(*args()), B_n=law.B_n(*args()), B_m=law.B_m(*args()), B_n_B_Gamma=law.B_n_B_Gamma(*args()),
                       B_n_B_Kappa=law.B_n_B_Kappa(*args()), B_m_B_Gamma=law.B_m_B_Gamma(*args()), B_m_B_Kappa=law.B_m_B_Kappa(*args()))
        except Exception as ex:
            ctx.violation(f"{c['law']}:raises", f"{w}: {type(ex).__name__}: {ex}", w)
            continue
        exp = dict(potential=R(e["W2"]) / 2, B_n=RV(e["n"]), B_m=RV(e["m"]), B_n_B_Gamma=RM(e["nG"]), B_n_B_Kappa=np.zeros((3, 3)),
                   B_m_B_Gamma=np.zeros((3, 3)), B_m_B_Kappa=RM(e["mK"]))
        for name in exp:
            if not close(got[name], exp[name]):
                unit = "unit" if abs(np.linalg.norm(G0) - 1) < 1e-12 else "non-unit"
                ctx.violation(f"{c['law']}:{name}:{unit}-reference", f"{c['law']}.{name} at {w}: {np.asarray(got[name]).tolist()}, exact {np.asarray(exp[name]).tolist()}", w)
        second_pass.append((law, c, w, (G, G0, K, K0), exp))
        # Legendre duality for every law that provides a complementary energy / compliances
        if hasattr(law, "complementary_potential"):
            dual_checked[c["law"]] = dual_checked.get(c["law"], 0) + 1
            try:
                Wc = law.complementary_potential(np.asarray(got["B_n"], dtype=float), np.asarray(got["B_m"], dtype=float))
                lhs = got["potential"] + Wc
                rhs = np.asarray(got["B_n"]) @ (G - G0) + np.asarray(got["B_m"]) @ (K - K0)
                if not close(lhs, rhs, 1e-11):
                    ctx.violation(f"{c['law']}:legendre", f"{c['law']} at {w}: W + W* = {lhs!r} but n.dGamma + m.dKappa = {rhs!r}", w)
                if c["law"] == "Simo1986" and not close(Wc, R(e["Wc2"]) / 2):
                    ctx.violation(f"{c['law']}:complementary_potential", f"{c['law']}.complementary_potential at {w}: {Wc!r}, exact {R(e['Wc2']) / 2!r}", w)
                for inv, ten, strain, force in (("C_n_inv", "B_n_B_Gamma", G - G0, "B_n"), ("C_m_inv", "B_m_B_Kappa", K - K0, "B_m")):
                    if hasattr(law, inv):
                        Ci = np.asarray(getattr(law, inv), dtype=float)
                        if not close(Ci @ np.asarray(got[ten], dtype=float), np.eye(3), 1e-11) or not close(Ci @ np.asarray(got[force], dtype=float), strain, 1e-11):
                            ctx.violation(f"{c['law']}:{inv}", f"{c['law']}.{inv} is not the inverse tangent / does not return the strain at {w}", w)
            except Exception as ex:
                ctx.violation(f"{c['law']}:dual:raises", f"{w}: {type(ex).__name__}: {ex}", w)
        if n in (7, 300):
            samples.append({"case": w, "expected_2W": e["W2"], "n": e["n"]})
    # second pass: a caller that keeps its strain arrays and overwrites them in place (the element loops do): from call to call the same array
    # objects carry other values, and nothing else is called in between
    for law, c, w, vals, exp in second_pass:
        for b, val in zip(bufs, vals):
            b[:] = val
        try:
            got2 = {name: getattr(law, name)(*bufs) for name in exp}
        except Exception as ex:
            ctx.violation(f"{c['law']}:raises:reused-argument-arrays", f"{w}: {type(ex).__name__}: {ex}", w)
            continue
        if not all(np.array_equal(b, val) for b, val in zip(bufs, vals)):
            ctx.violation(f"{c['law']}:arguments-modified", f"{c['law']} changed one of its argument arrays at {w}", w)
        for name in exp:
            if not close(got2[name], exp[name]):
                ctx.violation(f"{c['law']}:{name}:reused-argument-arrays", f"{c['law']}.{name} at {w}, called with arrays that held other values in the previous call: "
                                                                         f"{np.asarray(got2[name]).tolist()}, exact {np.asarray(exp[name]).tolist()}", w)
    ctx.log(f"[C12] {n} lattice cases replayed on {len(laws)} long-lived law objects; duality checked {dual_checked}")
    ctx.coverage = {"states": r.distinct, "transitions": max(r.generated, 1), "traces_validated_against_impl": n, "samples": samples, "exhaustive": True,
                    "law_objects": len(laws), "duality_checked": dual_checked,
                    "rule": "2 laws x 2 stiffness vectors x 7 strains with integer length x 4 reference strains (lengths 1, 2, 3, 5) x 2 curvatures x 2 reference curvatures"}
    ctx.assumptions = ["strains are restricted to vectors with integer Euclidean length so that Harsch2021's energy, force and tangent are rational",
                       "float values compared with the spec's rationals at 1e-12 relative",
                       "every case is evaluated twice: with fresh argument arrays, and in a second pass with four long-lived arrays that are overwritten in place from case to case"]


def replay(ctx, path):
    run(ctx)
