"""C12 Rod material laws are hyperelastic with exact tangents.

Decide: spec/MaterialLaw.tla -- the strain energies of Simo1986 and Harsch2021 on strain states with integer |B_Gamma| and
        |B_Gamma0| (any reference length) in exact rational arithmetic; forces, couples and tangents are defined as gradients
        without calculus (central differences of the polynomial part, l' from 2 l l' = (G.G)'); TLC checks them against the
        closed forms, the tangent against the differentiated identity l n = ..., its symmetry, and Legendre duality of the
        quadratic law on the whole lattice.
Bind:   every lattice case is evaluated on long-lived law objects (one per class and stiffness, cases ordered so that equal
        strains with different reference strains follow each other): potential, B_n, B_m, the four tangents compared with the
        spec's rationals; every law that provides a complementary energy / compliances is checked for Legendre duality.
"""
from __future__ import annotations

import numpy as np

from ..cases import enumerate_cases


def R(x):
    return x[0] / x[1]


def RV(v):
    return np.array([R(x) for x in v])


def RM(m):
    return np.array([[R(x) for x in row] for row in m])


def close(a, b, tol=1e-12):
    a = np.asarray(a, dtype=float); b = np.asarray(b, dtype=float)
    return a.shape == b.shape and bool(np.all(np.abs(a - b) <= tol * (1 + np.abs(b))))


def caller_reuses_stiffness_arrays(ctx):
    """the caller scales the arrays it built a law from (for "the next material"): whatever the law then describes, its forces are still the gradient of
    its energy and its tangents the derivatives of its forces (central differences; the energies are at most quartic in the strains)"""
    from cardillo.rods import _material_models as mm

    n = 0
    rs = np.random.default_rng(5)
    for cls in (mm.Simo1986, mm.Harsch2021):
        Ea = np.array([5.0, 1.5, 2.5]); Fa = np.array([0.7, 2.0, 1.1])
        law = cls(Ea, Fa)
        Ea *= 3.0; Fa *= 0.5
        for _ in range(3):
            G = np.array([1.0, 0.0, 0.0]) + 0.3 * rs.standard_normal(3); G0 = np.array([0.8, 0.3, -0.2]); K = 0.4 * rs.standard_normal(3); K0 = np.array([0.1, -0.2, 0.05])
            h = 1e-6
            W = lambda g, k: law.potential(g, G0.copy(), k, K0.copy())
            n_num = np.array([(W(G + h * e, K) - W(G - h * e, K)) / (2 * h) for e in np.eye(3)])
            m_num = np.array([(W(G, K + h * e) - W(G, K - h * e)) / (2 * h) for e in np.eye(3)])
            nG_num = np.array([(np.asarray(law.B_n(G + h * e, G0.copy(), K.copy(), K0.copy())) - np.asarray(law.B_n(G - h * e, G0.copy(), K.copy(), K0.copy()))) / (2 * h) for e in np.eye(3)]).T
            where = {"law": cls.__name__, "history": "the caller scaled its stiffness arrays in place after constructing the law", "G": G.tolist(), "K": K.tolist()}
            n += 1
            for name, got, ref in (("B_n", law.B_n(G.copy(), G0.copy(), K.copy(), K0.copy()), n_num), ("B_m", law.B_m(G.copy(), G0.copy(), K.copy(), K0.copy()), m_num),
                                   ("B_n_B_Gamma", law.B_n_B_Gamma(G.copy(), G0.copy(), K.copy(), K0.copy()), nG_num)):
                if not np.allclose(np.asarray(got, dtype=float), ref, rtol=1e-6, atol=1e-6):
                    ctx.violation(f"{cls.__name__}:{name}:caller-reuses-stiffness-arrays", f"{cls.__name__}.{name} is not the derivative it claims to be after the caller scaled the stiffness "
                                  f"arrays in place: {np.asarray(got).tolist()} vs central differences {np.round(ref, 8).tolist()}", where)
    return n


def run(ctx):
    from cardillo.rods import _material_models as mm

    ctx.level = "model_checking"
    r, cases = enumerate_cases(ctx, "MaterialLaw", {"Deep": "TRUE" if ctx.thorough else "FALSE"}, tag="materiallaw")
    # same strain, different reference strain consecutively
    cases.sort(key=lambda st: (st["case"]["law"], st["case"]["E"], st["case"]["G"], st["case"]["K"], st["case"]["K0"], st["case"]["G0"]))
    laws = {}
    # all law objects are created before the first evaluation and live side by side (state shared between instances would show)
    for st in cases:
        c = st["case"]
        key = (c["law"], tuple(c["E"]), tuple(c["F"]))
        if key not in laws:
            # the stiffness vectors as the caller holds them: typed as integers for every second object (the lattice stiffnesses are integers)
            ints = len(laws) % 2 == 1 and all(float(x).is_integer() for x in list(c["E"]) + list(c["F"]))
            Ea = np.array(c["E"], dtype=int if ints else float); Fa = np.array(c["F"], dtype=int if ints else float)
            laws[key] = getattr(mm, c["law"])(Ea, Fa)
    n = 0
    samples = []
    dual_checked = {}
    bufs = [np.zeros(3) for _ in range(4)]
    second_pass = []
    for st in cases:
        c, e = st["case"], st["expected"]
        key = (c["law"], tuple(c["E"]), tuple(c["F"]))
        if key not in laws:
            laws[key] = getattr(mm, c["law"])(np.array(c["E"], dtype=float), np.array(c["F"], dtype=float))
        law = laws[key]
        G, G0, K, K0 = (np.array(c[k], dtype=float) for k in ("G", "G0", "K", "K0"))
        w = {k: c[k] for k in ("law", "E", "F", "G", "G0", "K", "K0")}
        args = lambda: (G.copy(), G0.copy(), K.copy(), K0.copy())
        n += 1
        try:
            got = dict(potential=law.potential(*args()), B_n=law.B_n(*args()), B_m=law.B_m(*args()), B_n_B_Gamma=law.B_n_B_Gamma(*args()),
                       B_n_B_Kappa=law.B_n_B_Kappa(*args()), B_m_B_Gamma=law.B_m_B_Gamma(*args()), B_m_B_Kappa=law.B_m_B_Kappa(*args()))
        except Exception as ex:
            ctx.violation(f"{c['law']}:raises", f"{w}: {type(ex).__name__}: {ex}", w)
            continue
        exp = dict(potential=R(e["W2"]) / 2, B_n=RV(e["n"]), B_m=RV(e["m"]), B_n_B_Gamma=RM(e["nG"]), B_n_B_Kappa=np.zeros((3, 3)),
                   B_m_B_Gamma=np.zeros((3, 3)), B_m_B_Kappa=RM(e["mK"]))
        for name in exp:
            if not close(got[name], exp[name]):
                unit = "unit" if abs(np.linalg.norm(G0) - 1) < 1e-12 else "non-unit"
                ctx.violation(f"{c['law']}:{name}:{unit}-reference", f"{c['law']}.{name} at {w}: {np.asarray(got[name]).tolist()}, exact {np.asarray(exp[name]).tolist()}", w)
        second_pass.append((law, c, w, (G, G0, K, K0), exp))
        # Legendre duality for every law that provides a complementary energy / compliances
        if hasattr(law, "complementary_potential"):
            dual_checked[c["law"]] = dual_checked.get(c["law"], 0) + 1
            try:
                Wc = law.complementary_potential(np.asarray(got["B_n"], dtype=float), np.asarray(got["B_m"], dtype=float))
                lhs = got["potential"] + Wc
                rhs = np.asarray(got["B_n"]) @ (G - G0) + np.asarray(got["B_m"]) @ (K - K0)
                if not close(lhs, rhs, 1e-11):
                    ctx.violation(f"{c['law']}:legendre", f"{c['law']} at {w}: W + W* = {lhs!r} but n.dGamma + m.dKappa = {rhs!r}", w)
                if c["law"] == "Simo1986" and not close(Wc, R(e["Wc2"]) / 2):
                    ctx.violation(f"{c['law']}:complementary_potential", f"{c['law']}.complementary_potential at {w}: {Wc!r}, exact {R(e['Wc2']) / 2!r}", w)
                for inv, ten, strain, force in (("C_n_inv", "B_n_B_Gamma", G - G0, "B_n"), ("C_m_inv", "B_m_B_Kappa", K - K0, "B_m")):
                    if hasattr(law, inv):
                        Ci = np.asarray(getattr(law, inv), dtype=float)
                        if not close(Ci @ np.asarray(got[ten], dtype=float), np.eye(3), 1e-11) or not close(Ci @ np.asarray(got[force], dtype=float), strain, 1e-11):
                            ctx.violation(f"{c['law']}:{inv}", f"{c['law']}.{inv} is not the inverse tangent / does not return the strain at {w}", w)
            except Exception as ex:
                ctx.violation(f"{c['law']}:dual:raises", f"{w}: {type(ex).__name__}: {ex}", w)
        if n in (7, 300):
            samples.append({"case": w, "expected_2W": e["W2"], "n": e["n"]})
    # second pass: a caller that keeps its strain arrays and overwrites them in place (the element loops do): from call to call the same array
    # objects carry other values, and nothing else is called in between
    for law, c, w, vals, exp in second_pass:
        for b, val in zip(bufs, vals):
            b[:] = val
        try:
            got2 = {name: getattr(law, name)(*bufs) for name in exp}
        except Exception as ex:
            ctx.violation(f"{c['law']}:raises:reused-argument-arrays", f"{w}: {type(ex).__name__}: {ex}", w)
            continue
        if not all(np.array_equal(b, val) for b, val in zip(bufs, vals)):
            ctx.violation(f"{c['law']}:arguments-modified", f"{c['law']} changed one of its argument arrays at {w}", w)
        for name in exp:
            if not close(got2[name], exp[name]):
                ctx.violation(f"{c['law']}:{name}:reused-argument-arrays", f"{c['law']}.{name} at {w}, called with arrays that held other values in the previous call: "
                                                                         f"{np.asarray(got2[name]).tolist()}, exact {np.asarray(exp[name]).tolist()}", w)
    caller_reuses_stiffness_arrays(ctx)
    ctx.log(f"[C12] {n} lattice cases replayed on {len(laws)} long-lived law objects; duality checked {dual_checked}")
    ctx.coverage = {"states": r.distinct, "transitions": max(r.generated, 1), "traces_validated_against_impl": n, "samples": samples, "exhaustive": True,
                    "law_objects": len(laws), "duality_checked": dual_checked,
                    "rule": "2 laws x 2 stiffness vectors x 7 strains with integer length x 4 reference strains (lengths 1, 2, 3, 5) x 2 curvatures x 2 reference curvatures"}
    ctx.assumptions = ["strains are restricted to vectors with integer Euclidean length so that Harsch2021's energy, force and tangent are rational",
                       "float values compared with the spec's rationals at 1e-12 relative",
                       "stiffness vectors are handed over as integer-typed arrays for every second law object; after the caller has scaled its stiffness arrays in place a law must still be hyperelastic (central differences)", "every case is evaluated twice: with fresh argument arrays, and in a second pass with four long-lived arrays that are overwritten in place from case to case"]


def replay(ctx, path):
    run(ctx)
