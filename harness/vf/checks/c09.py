"""C09 Scalar force laws default to a stress-free initial configuration.

Decide: spec/ForceLawAssembly.tla -- System.assemble as phase 1 (t0, index sets, q0) + assembler callbacks in
        list order, with what each callback reads and provides; TLC enumerates all force-law classes x
        subsystems x registration orders x angle0 and checks CallbackPreconditionsMet / DefaultIsStressFree
        (the as-found tree is rejected).
Bind:   every configuration of the model is built from the real classes on several initial poses, assembled,
        and the observed outcome (assembled / exception; la_c, E_pot, generalized force at (t0, q0, u0 = 0);
        l_ref = l(t0, q0)) is compared with the spec's terminal state.  Only Supported configurations can
        raise a violation.
"""
from __future__ import annotations

import math
import os
import warnings

import numpy as np

from .. import tlc
from ..lattice import octahedral_group


def _final(g, s):
    out = g.out_edges()
    cur = s
    while out.get(cur):
        cur = g.edges[out[cur][0]][1]
    return g.nodes[cur]


def _supported(c):
    return not (c["sub"] == "Revolute" and c["reg"] == "not_added")


def build_and_assemble(c, pose, angle0):
    """returns (system, law, sub)"""
    from cardillo import System
    from cardillo.discrete import RigidBody
    from cardillo.constraints import Revolute
    from cardillo.interactions import TwoPointInteraction
    from cardillo.force_laws import Spring, KelvinVoigtElement, MaxwellElement

    r, A, axis = pose
    from cardillo.math import Spurrier

    # every second two-point case: an initial time that is not zero and a partner whose position depends on the time explicitly (a driven frame) --
    # the default reference is the distance at the system's initial time
    # (fresh sessions only: the other histories move the initial time, where the driven frame is not at rest and a damper legitimately carries a force)
    moving = c["sub"] == "TwoPoint" and c.get("body") != "rod" and c.get("history") == "fresh" and (int(round(abs(float(np.sum(r))) * 8)) + axis) % 2 == 1
    system = System(t0=1.3) if moving else System()
    q0 = np.concatenate([np.asarray(r, dtype=float), Spurrier(np.asarray(A, dtype=float))])
    if c.get("body") == "rod":
        from cardillo.rods import RectangularCrossSection, Simo1986
        from cardillo.rods.cosseratRod import make_CosseratRod

        Rod = make_CosseratRod(interpolation="Quaternion", mixed=False, polynomial_degree=1)
        Q = Rod.straight_configuration(3, 1.5, r_OP0=np.asarray(r, dtype=float) + np.array([0.5, 0.25, 0.0]), A_IB0=np.asarray(A, dtype=float))
        body = Rod(RectangularCrossSection(0.1, 0.1), Simo1986(np.array([5.0, 1.0, 1.0]), np.array([0.5, 0.1, 0.1])), 3, Q=Q, q0=Q.copy())
        body.name = "body"
        sub = TwoPointInteraction(system.origin, body, xi2=1.0, name="sub")
    else:
        body = RigidBody(2.0, np.diag([1.0, 2.0, 3.0]), q0=q0, name="body")
    if c.get("body") == "rod":
        pass
    elif c["sub"] == "TwoPoint":
        partner = system.origin
        if moving:
            from cardillo.discrete import Frame
            a_, b_ = np.array([0.3, -0.2, 0.1]), np.array([0.4, 0.1, -0.25])
            # (at rest at the initial time 1.3, so that a damper carries no force there; elsewhere at other times)
            partner = Frame(r_OP=lambda t: a_ + b_ * (t - 1.3) ** 2, r_OP_t=lambda t: 2.0 * b_ * (t - 1.3), r_OP_tt=lambda t: 2.0 * b_, name="driver")
            system.add(partner)
        sub = TwoPointInteraction(partner, body, name="sub")
    else:
        sub = Revolute(system.origin, body, axis=axis, angle0=angle0, name="sub")
    law_name = c["law"]
    if law_name.startswith("Spring"):
        law = Spring(sub, 30.0, l_ref=None, compliance_form=law_name.endswith("_c"), name="law")
    elif law_name.startswith("KelvinVoigt"):
        law = KelvinVoigtElement(sub, 30.0, 2.0, l_ref=None, compliance_form=law_name.endswith("_c"), name="law")
    else:
        law = MaxwellElement(sub, 30.0, 2.0, name="law")      # all defaults: l_ref=None and the default initial damper state
    if c["reg"] == "not_added":
        system.add(body, law)
    elif c["reg"] == "before":
        system.add(body, sub, law)
    else:
        system.add(body, law, sub)
    return system, law, sub


def _prior_restart():
    """history 'after_restart': a system with a default Maxwell element is simulated and re-initialised in place"""
    import contextlib, io
    from cardillo import System
    from cardillo.discrete import PointMass
    from cardillo.interactions import TwoPointInteraction
    from cardillo.force_laws import MaxwellElement
    from cardillo.forces import Force
    from cardillo.solver import Moreau, SolverOptions

    with warnings.catch_warnings(), contextlib.redirect_stdout(io.StringIO()):
        warnings.simplefilter("ignore")
        system = System()
        pm = PointMass(1.0, q0=np.array([1.0, 0.0, 0.0]), u0=np.array([0.5, 0.0, 0.0]), name="pm")
        tpi = TwoPointInteraction(system.origin, pm, name="tpi")
        mx = MaxwellElement(tpi, 30.0, 2.0, name="mx")
        system.add(pm, tpi, mx, Force(np.array([3.0, 0.0, 0.0]), pm, name="f"))
        system.assemble()
        sol = Moreau(system, 0.05, 0.01).solve()
        system.set_new_initial_state(sol.q[-1], sol.u[-1], t0=float(sol.t[-1]), options=SolverOptions(compute_consistent_initial_conditions=False))


def run(ctx):
    ctx.level = "model_checking"
    rng = ctx.rng
    cfg = os.path.join(ctx.scratch, "fl.cfg")
    open(cfg, "w").write('SPECIFICATION Spec\nCONSTANTS\n  Impl = "intended"\nINVARIANT CallbackPreconditionsMet\nINVARIANT DefaultIsStressFree\n')
    dot = os.path.join(ctx.scratch, "fl")
    r = tlc.run_tlc("ForceLawAssembly", cfg, scratch=ctx.scratch, dump_dot=dot, workers=4, timeout=600)
    tlc.require_ok(r, "ForceLawAssembly")
    if r.violated:
        ctx.violation(f"spec:{r.violated}", f"TLC: {r.violated} violated", {"stdout": r.stdout[-3000:]})
    cfg2 = os.path.join(ctx.scratch, "fl_asfound.cfg")
    open(cfg2, "w").write('SPECIFICATION Spec\nCONSTANTS\n  Impl = "as_found"\nINVARIANT CallbackPreconditionsMet\nINVARIANT DefaultIsStressFree\n')
    ra = tlc.run_tlc("ForceLawAssembly", cfg2, scratch=ctx.scratch, workers=4, timeout=600)
    if not ra.violated:
        raise tlc.MachineryError("as_found variant of ForceLawAssembly not rejected by TLC")
    g = tlc.parse_dot(dot + ".dot")
    G = octahedral_group()
    poses = [((2.0, 0.0, 0.0), np.eye(3), 2), ((1.0, -2.0, 3.0), G[7], 0), ((0.0, 3.0, -1.0), G[13], 1)]
    if ctx.thorough:
        poses += [((rng.randint(-3, 3) or 1, rng.randint(-3, 3), rng.randint(-3, 3)), G[rng.randrange(24)], rng.randrange(3)) for _ in range(9)]
    from cardillo.solver import SolverOptions
    n = nsup = 0
    samples = []
    unsupported_outcomes = {}
    finals = [_final(g, s) for s in g.init]
    finals.sort(key=lambda st: st["cfg"]["history"] != "fresh")      # all fresh-session configurations first
    did_restart = False
    for st in finals:
        c = st["cfg"]
        if c["history"] == "after_restart" and not did_restart:
            try:
                _prior_restart()
            except Exception as ex:
                raise tlc.MachineryError(f"prior restart history failed: {type(ex).__name__}: {ex}")
            did_restart = True
        sup = _supported(c)
        for pose in poses:
            angle0 = 0.0 if c["angle0"] == "zero" else [0.7, -2.5, 4.0][n % 3]
            n += 1
            rep = {"cfg": c, "pose": [list(map(float, pose[0])), np.asarray(pose[1]).tolist(), pose[2]], "angle0": angle0}
            outcome = "assembled"
            try:
                system, law, sub = build_and_assemble(c, pose, angle0)
                import contextlib, io
                with warnings.catch_warnings(), contextlib.redirect_stdout(io.StringIO()):
                    warnings.simplefilter("ignore")
                    opts = SolverOptions(compute_consistent_initial_conditions=False)
                    if c["history"] == "late_add":
                        # assemble without the law, move the system (rotate about the joint axis / move the body), then add the law
                        from cardillo.math import Exp_SO3, Spurrier
                        system.remove(law)
                        system.assemble(options=opts)
                        body = system.contributions_map["body"]
                        qn = system.q0.copy()
                        if c["sub"] == "Revolute":
                            A0 = np.asarray(pose[1], dtype=float)
                            e = np.zeros(3); e[pose[2]] = 1.0
                            # the joint point is the body's centre (default r_OJ0): a pure rotation about the joint axis keeps g = 0
                            qn[body.qDOF[3:]] = Spurrier(A0 @ Exp_SO3(0.4 * e))
                        else:
                            qn[body.qDOF[:3]] += np.array([0.5, -0.25, 1.0])
                        system.set_new_initial_state(qn, system.u0.copy(), t0=0.3, options=opts)
                        system.add(law)
                    system.assemble(options=opts)
                    if c["history"] == "used_then_reset" and sup:
                        # use the system away from its initial configuration (the joint turned forward, then back beyond its initial angle), then reset it
                        from cardillo.math import Exp_SO3, Spurrier
                        body = system.contributions_map["body"]
                        A0 = np.asarray(pose[1], dtype=float)
                        e = np.zeros(3); e[pose[2]] = 1.0
                        for step in (0.3, 0.8, 0.2, -0.1, -0.35):
                            qn = system.q0.copy()
                            if c["sub"] == "Revolute":
                                qn[body.qDOF[3:]] = Spurrier(A0 @ Exp_SO3(step * e))
                            else:
                                qn[body.qDOF[:3]] += step * np.array([0.5, -0.25, 1.0])
                            un = np.zeros(system.nu)
                            if c["law"] == "Maxwell":
                                law.force(system.t0, qn[law.qDOF], un[law.uDOF])
                            else:
                                law.la_c(system.t0, qn[law.qDOF], un[law.uDOF])
                            law.E_pot(system.t0, qn[law.qDOF])
                        system.reset()
            except Exception as ex:
                outcome = f"{type(ex).__name__}: {ex}"
            exp = "assembled" if st["err"] == "none" else "error"
            if not sup:
                unsupported_outcomes[f"{c['law']}/{c['sub']}/{c['reg']}/{c['history']}"] = outcome[:60]
                continue
            nsup += 1
            key = f"{c['law']}:{c['sub']}({c['body']}):{c['reg']}:angle0={c['angle0']}:{c['history']}"
            if outcome != "assembled":
                ctx.violation(key + ":assemble", f"does not assemble: {outcome} (spec: {exp}) for pose {rep['pose'][0]}", rep)
                continue
            # stress free at (t0, q0, u0 = 0)
            t0 = system.t0
            q = system.q0[law.qDOF]
            u = np.zeros(len(law.uDOF))
            l0 = sub.l(t0, system.q0[sub.qDOF])
            probs = []
            if law.l_ref is None or abs(law.l_ref - l0) > 1e-12 * (1 + abs(l0)):
                probs.append(f"l_ref = {law.l_ref!r} but l(t0, q0) = {l0!r}")
            try:
                E = law.E_pot(t0, q)
                if not (abs(E) <= 1e-12):
                    probs.append(f"E_pot = {E!r}")
                if hasattr(law, "la_c") and not c["law"] == "Maxwell":
                    f = law.la_c(t0, q, u)
                    if not (abs(f) <= 1e-10):
                        probs.append(f"force la_c = {f!r}")
                if hasattr(law, "h") and callable(getattr(law, "h")):
                    h = np.asarray(law.h(t0, q, u))
                    if not (np.max(np.abs(h)) <= 1e-10):
                        probs.append(f"generalized force h = {h.tolist()}")
                if hasattr(law, "c") and callable(getattr(law, "c")):
                    res = law.c(t0, q, u, np.zeros(1))
                    if not (abs(np.asarray(res).ravel()[0]) <= 1e-10):
                        probs.append(f"compliance residual at zero force = {res!r}")
                if c["law"] == "Maxwell":
                    f = law.force(t0, q, u)
                    if not (abs(f) <= 1e-10):
                        probs.append(f"force = {f!r}")
                Es = system.E_pot(t0, system.q0)
                if not (abs(Es) <= 1e-12):
                    probs.append(f"system.E_pot = {Es!r}")
            except Exception as ex:
                probs.append(f"evaluation raised {type(ex).__name__}: {ex}")
            if probs:
                ctx.violation(key + ":stress", "; ".join(probs) + f" for pose {rep['pose'][0]} angle0 {angle0}", rep)
            if len(samples) < 3:
                samples.append(rep | {"outcome": outcome, "l_ref": float(law.l_ref)})
    ctx.log(f"[C09] {len(finals)} configurations x {len(poses)} poses: {nsup} supported cases built from the real classes; "
            f"unsupported (explored, not judged): {len(unsupported_outcomes)}")
    ctx.coverage = {"states": r.distinct, "transitions": r.generated, "traces_validated_against_impl": nsup, "samples": samples,
                    "exhaustive": True, "unsupported_outcomes": unsupported_outcomes,
                    "rule": "all force-law classes (both forms) x {TwoPointInteraction, Revolute} x {subsystem not added, before, after the law} x angle0 in {0, nonzero} x poses"}
    ctx.assumptions = ["'supported' = every law on every documented subsystem; a Revolute joint that is not part of the system is not supported",
                       "stress free is judged at u0 = 0 (the damper of a Kelvin-Voigt element acts on velocity)"]


def replay(ctx, path):
    run(ctx)
