"""C10 Cosserat rod internal forces are stress-free, objective and self-equilibrated (claimed for the rational part).

Decide: spec/RodKinematics.tla -- invariant ObjectivityOK: under a rigid motion of an element (r_i -> R0 r_i + d, P_i -> Q0 o P_i) the
        strain measures of the Quaternion and R12 families and the body-fixed nodal couples of the weak form are unchanged, the nodal
        forces turn with R0, and the nodal forces of an element have zero resultant (TLC, exact rationals, every lattice case).  The
        stress resultants vanish where the strains equal the reference strains, by definition of the weak form.
Bind:   (code -> spec) real rod elements (Quaternion / R12, displacement-based / mixed, degree 1 / 2) with rational quadrature abscissae
        (see C11) at the reference configuration, at rational states and at the same states moved rigidly by a rational motion: the
        internal forces (and W_c la_c, c_el for the mixed rods) are recomputed by TLC from the weak form; the harness compares the pairs
        (moved / not moved) directly as well.
        Float supplements on genuine rods (Gauss rules; Quaternion, SE3 and R12; displacement-based, mixed and internally constrained;
        straight and curved references): zero energy / forces / residuals at the reference, invariance of E_pot, c and g under random
        rigid motions, invariance of h under translations, zero resultant of the internal nodal forces.
Not covered (restriction): the SE(3) family and curved references are outside the rational core (float supplements only).
"""
from __future__ import annotations

import copy
import math
import warnings

import numpy as np

from .. import tlc
from ..cases import check_only
from ..lattice import octahedral_group, quat_to_matrix
from ..runs import batch_validate_parallel
from .c05 import oct_quats
from .c08 import iv
from .c11 import make_rod, rationalise_quadrature, weak_records, rod_state


def qprod(a, b):
    a0, av = a[0], a[1:]; b0, bv = b[0], b[1:]
    return np.concatenate([[a0 * b0 - av @ bv], a0 * bv + b0 * av + np.cross(av, bv)])


def move(rod, q, Q0, d):
    """rigid motion of all nodes: r_i -> R(Q0) r_i + d, P_i -> Q0 o P_i"""
    R0 = quat_to_matrix(np.asarray(Q0, dtype=float))
    out = q.copy()
    for node in range(rod.nnodes_r):
        out[rod.nodalDOF_r[node]] = R0 @ q[rod.nodalDOF_r[node]] + d
    for node in range(rod.nnodes_p):
        out[rod.nodalDOF_p[node]] = qprod(np.asarray(Q0, dtype=float), q[rod.nodalDOF_p[node]])
    return out, R0


def lattice_pairs(ctx, rng, records, wheres, counts):
    small = oct_quats()
    motions = [(np.array([1.0, 1, 0, 0]), np.array([1.0, -2, 3])), (np.array([1.0, -1, 1, 1]), np.array([0.0, 2, -1])), (np.array([0.0, 0, 1, 0]), np.array([2.0, 0, 0]))]
    variants = [("Quaternion", "quat", False, 1), ("Quaternion", "quat", True, 2), ("R12", "r12", False, 1), ("R12", "r12", True, 2),
                ("Quaternion", "quat", False, 2), ("R12", "r12", False, 2), ("Quaternion", "quat", True, 1)]
    nstates = 8 if ctx.thorough else 1
    for (interp_name, interp, mixed, degree) in variants:
        name = f"{interp_name}[p={degree},mixed={mixed}]"
        try:
            # a reference orientation whose unit quaternion is rational (identity, half-turns about the axes, thirds of a turn about the diagonals)
            Pref = rng.choice([(1, 0, 0, 0), (0, 1, 0, 0), (0, 0, 1, 0), (0, 0, 0, 1), (1, 1, 1, 1), (1, -1, 1, -1), (-1, 1, 1, 1)])
            rod = make_rod(interp_name, mixed, degree, rng, A0=quat_to_matrix(np.array(Pref, dtype=float)))
            rationalise_quadrature(rod, mixed)
        except tlc.MachineryError:
            raise
        except Exception as ex:
            ctx.violation(f"{name}:build:{type(ex).__name__}", f"building the rod {name} raised {type(ex).__name__}: {ex}", {"rod": name})
            continue
        nu_r = rod.nnodes_element_r
        try:
            # the reference configuration is stress free
            la0 = np.zeros(rod.nla_c) if mixed else None
            out = []
            n = weak_records(ctx, rod, interp, mixed, rng, np.asarray(rod.Q, dtype=float), records, wheres, dict(rod=name, state="reference"), value_only=True, la_c=la0, out=out)
            counts[name] = counts.get(name, 0) + n
            for o in out:
                if not (np.max(np.abs(o["f"])) <= 1e-12) or (mixed and not (np.max(np.abs(o["c"])) <= 1e-12)):
                    ctx.violation(f"{name}:reference:stress-free", f"internal forces / compliance residuals of element {o['el']} do not vanish at the reference configuration "
                                  f"(max |f| = {np.max(np.abs(o['f'])):.2e})", {"rod": name})
            for si in range(nstates):
                q, _ = rod_state(rod, rng, small)
                Q0, d = motions[rng.randrange(len(motions))]
                qm, R0 = move(rod, q, Q0, d)
                la = np.array([float(rng.randint(-2, 3)) for _ in range(rod.nla_c)]) if mixed else None
                o1, o2 = [], []
                w = dict(rod=name, q=q.tolist(), motion=dict(Q0=Q0.tolist(), d=d.tolist()))
                n = weak_records(ctx, rod, interp, mixed, rng, q, records, wheres, dict(w, moved=False), value_only=True, la_c=la, out=o1)
                n += weak_records(ctx, rod, interp, mixed, rng, qm, records, wheres, dict(w, moved=True), value_only=True, la_c=la, out=o2)
                counts[name] = counts.get(name, 0) + n
                for a, b in zip(o1, o2):
                    if a["el"] != b["el"]:
                        continue
                    fa = a["f"].reshape(-1, 6); fb = b["f"].reshape(-1, 6)
                    bad = None
                    if not (np.max(np.abs(fb[:, :3] - fa[:, :3] @ R0.T)) <= 1e-10 * (1 + np.max(np.abs(fa)))):
                        bad = "the nodal forces do not turn with the rigid motion"
                    elif not (np.max(np.abs(fb[:, 3:] - fa[:, 3:])) <= 1e-10 * (1 + np.max(np.abs(fa)))):
                        bad = "the body-fixed nodal couples change under a rigid motion"
                    elif not (np.max(np.abs(fa[:, :3].sum(axis=0))) <= 1e-10 * (1 + np.max(np.abs(fa)))):
                        bad = "the nodal forces of the element have a resultant"
                    elif mixed and not (np.max(np.abs(a["c"] - b["c"])) <= 1e-10 * (1 + np.max(np.abs(a["c"])))):
                        bad = "the compliance residual changes under a rigid motion"
                    if bad:
                        ctx.violation(f"{name}:objectivity:{bad[:40]}", f"{bad} (element {a['el']}) at {w}", w)
        except tlc.MachineryError:
            raise
        except Exception as ex:
            ctx.violation(f"{name}:raises:{type(ex).__name__}", f"{type(ex).__name__}: {ex}", {"rod": name})


def random_rotation(rng):
    v = np.array([rng.gauss(0, 1) for _ in range(4)])
    return v / np.linalg.norm(v)


def float_supplements(ctx, rng):
    """genuine rods (Gauss rules), all families: stress-free reference, objectivity, translation invariance of h, zero resultant"""
    from cardillo import System
    from cardillo.rods import RectangularCrossSection, Simo1986, CrossSectionInertias
    from cardillo.rods.cosseratRod import make_CosseratRod
    from cardillo.solver import SolverOptions

    from cardillo.rods import Harsch2021

    n = 0
    cs = RectangularCrossSection(0.1, 0.2)
    simo = Simo1986(np.array([5.0, 1.0, 1.0]), np.array([0.5, 2.0, 2.0]))
    harsch = Harsch2021(np.array([5.0, 1.0, 1.0]), np.array([0.5, 2.0, 2.0]))
    combos = [("Quaternion", False, None, 2, simo), ("Quaternion", True, None, 2, simo), ("SE3", False, None, 1, simo), ("SE3", True, None, 1, simo), ("R12", False, None, 2, simo),
              ("R12", True, None, 1, simo), ("Quaternion", False, [0, 1, 2], 2, simo), ("Quaternion", True, [1, 2], 2, simo), ("SE3", False, [0, 1, 2], 1, simo),
              ("R12", True, [0, 1, 2, 3, 4, 5], 2, simo),
              # the second material law (displacement-based rods only)
              ("Quaternion", False, None, 2, harsch), ("SE3", False, None, 1, harsch), ("R12", False, None, 1, harsch), ("R12", False, None, 2, harsch)]
    for interp, mixed, constraints, degree, mat in combos:
        for curved in (False, True):
            name = f"{interp}[p={degree},mixed={mixed},constraints={constraints},{type(mat).__name__},{'curved' if curved else 'straight'}]"
            try:
                with warnings.catch_warnings():
                    warnings.simplefilter("ignore")
                    Rod = make_CosseratRod(interpolation=interp, mixed=mixed, constraints=constraints, polynomial_degree=degree)
                    nel = 3
                    if curved:
                        # a quarter circle with attached Serret-Frenet-like frames (unit quaternions), inextensible and unsheared
                        Rc = 1.5
                        r = lambda xi: Rc * np.array([math.sin(0.5 * math.pi * xi), 1 - math.cos(0.5 * math.pi * xi), 0.0])
                        A = lambda xi: np.array([[math.cos(0.5 * math.pi * xi), -math.sin(0.5 * math.pi * xi), 0.0], [math.sin(0.5 * math.pi * xi), math.cos(0.5 * math.pi * xi), 0.0], [0, 0, 1.0]])
                        Q = Rod.pose_configuration(nel, r, A) if hasattr(Rod, "pose_configuration") else None
                    else:
                        Q = Rod.straight_configuration(nel, 2.0, r_OP0=np.array([0.3, -0.2, 0.5]), A_IB0=quat_to_matrix(random_rotation(rng)))
                    if Q is None:
                        continue
                    rod = Rod(cs, mat, nel, Q=Q, q0=Q.copy(), cross_section_inertias=CrossSectionInertias(1.5, cs), name=f"rod{rng.randrange(10**9)}")
                    system = System(); system.add(rod)
                    system.assemble(options=SolverOptions(compute_consistent_initial_conditions=False))
            except Exception as ex:
                ctx.notes.append(f"{name}: not built ({type(ex).__name__}: {ex})")
                continue
            n += 1
            where = {"rod": name}
            t = 0.0
            u0 = np.zeros(rod.nu)
            try:
                def forces(q):
                    """all internal nodal forces: h for the displacement-based rods, plus W_c la_c(q) / W_g la_g for the others is not needed for the
                    statements below: h contains the internal forces of the displacement-based rods, the mixed rods carry them in W_c la_c"""
                    f = np.asarray(rod.h(t, q.copy(), u0.copy()), dtype=float).copy() if hasattr(rod, "h") else np.zeros(rod.nu)
                    if mixed and hasattr(rod, "W_c") and getattr(rod, "nla_c", 0) > 0:
                        Wc = rod.W_c(t, q.copy()); Wc = np.asarray(Wc.toarray() if hasattr(Wc, "toarray") else Wc)
                        f = f + Wc @ np.asarray(rod.la_c(t, q.copy(), u0.copy()))
                    return f
                Qr = np.asarray(rod.Q, dtype=float)
                tol = 1e-9
                E0 = rod.E_pot(t, Qr.copy()) if hasattr(rod, "E_pot") and not mixed else 0.0
                if not (abs(E0) <= tol):
                    ctx.violation(f"{name}:reference:E_pot", f"the strain energy of the reference configuration is {E0}", where)
                f0 = forces(Qr)
                if not (np.max(np.abs(f0)) <= tol):
                    ctx.violation(f"{name}:reference:forces", f"the internal forces of the reference configuration do not vanish (max {np.max(np.abs(f0)):.2e})", where)
                if mixed and getattr(rod, "nla_c", 0) > 0:
                    c0 = np.asarray(rod.c(t, Qr.copy(), u0.copy(), np.zeros(rod.nla_c)))
                    if not (np.max(np.abs(c0)) <= tol):
                        ctx.violation(f"{name}:reference:c", f"the compliance residual of the reference configuration does not vanish (max {np.max(np.abs(c0)):.2e})", where)
                if constraints is not None and hasattr(rod, "g"):
                    g0 = np.asarray(rod.g(t, Qr.copy()))
                    if not (np.max(np.abs(g0), initial=0.0) <= tol):
                        ctx.violation(f"{name}:reference:g", f"the internal constraints are violated by the reference configuration (max {np.max(np.abs(g0)):.2e})", where)
                # a deformed state and the same state moved rigidly
                q = Qr.copy()
                for node in range(rod.nnodes_r):
                    q[rod.nodalDOF_r[node]] += 0.1 * np.array([rng.uniform(-1, 1) for _ in range(3)])
                for node in range(rod.nnodes_p):
                    P = q[rod.nodalDOF_p[node]] + 0.15 * np.array([rng.uniform(-1, 1) for _ in range(4)])
                    q[rod.nodalDOF_p[node]] = P * rng.choice([1.0, 1.3, 0.7])
                Q0 = random_rotation(rng); d = np.array([rng.uniform(-2, 2) for _ in range(3)])
                qm, R0 = move(rod, q, Q0, d)
                where2 = dict(where, q=q.tolist(), Q0=Q0.tolist(), d=d.tolist())
                if not mixed and hasattr(rod, "E_pot"):
                    Ea, Eb = rod.E_pot(t, q.copy()), rod.E_pot(t, qm.copy())
                    if not (abs(Ea - Eb) <= 1e-9 * (1 + abs(Ea))):
                        ctx.violation(f"{name}:objectivity:E_pot", f"the strain energy changes under a rigid motion: {Ea} -> {Eb}", where2)
                if mixed and getattr(rod, "nla_c", 0) > 0:
                    la = np.array([rng.uniform(-1, 1) for _ in range(rod.nla_c)])
                    ca = np.asarray(rod.c(t, q.copy(), u0.copy(), la)); cb = np.asarray(rod.c(t, qm.copy(), u0.copy(), la))
                    if not (np.max(np.abs(ca - cb)) <= 1e-9 * (1 + np.max(np.abs(ca)))):
                        ctx.violation(f"{name}:objectivity:c", f"the compliance residual changes under a rigid motion (max diff {np.max(np.abs(ca - cb)):.2e})", where2)
                if constraints is not None and hasattr(rod, "g"):
                    ga = np.asarray(rod.g(t, q.copy())); gb = np.asarray(rod.g(t, qm.copy()))
                    if not (np.max(np.abs(ga - gb), initial=0.0) <= 1e-9 * (1 + np.max(np.abs(ga), initial=0.0))):
                        ctx.violation(f"{name}:objectivity:g", f"the internal-constraint residual changes under a rigid motion (max diff {np.max(np.abs(ga - gb)):.2e})", where2)
                qt, _ = move(rod, q, np.array([1.0, 0, 0, 0]), d)
                fa, fb = forces(q), forces(qt)
                if not (np.max(np.abs(fa - fb)) <= 1e-9 * (1 + np.max(np.abs(fa)))):
                    ctx.violation(f"{name}:translation:forces", f"the internal forces change under a translation (max diff {np.max(np.abs(fa - fb)):.2e})", where2)
                res = sum(fa[rod.nodalDOF_r_u[node]] for node in range(rod.nnodes_r))
                if not (np.max(np.abs(res)) <= 1e-9 * (1 + np.max(np.abs(fa)))):
                    ctx.violation(f"{name}:resultant", f"the internal nodal forces have the resultant {res.tolist()}", where2)
                # tiny strains: states a hair away from the reference (relative comparisons: nothing is "small enough to be zero").  The internal forces
                # are linear in the perturbation to first order, invariant under translations, and the energy is objective at every magnitude
                delta = np.zeros_like(Qr)
                for node in range(rod.nnodes_r):
                    delta[rod.nodalDOF_r[node]] = np.array([rng.uniform(-1, 1) for _ in range(3)])
                fref = forces(Qr + 1e-3 * delta) / 1e-3
                for eps in (1e-5, 1e-6, 1e-8):
                    qs = Qr + eps * delta
                    where4 = dict(where, state=f"reference + {eps:g} * (random nodal displacements)")
                    fs = forces(qs)
                    if not (np.max(np.abs(fs / eps - fref)) <= 2e-2 * np.max(np.abs(fref))):
                        ctx.violation(f"{name}:tiny-strain:forces", f"the internal forces are not proportional to a tiny displacement from the reference: forces / {eps:g} differ from "
                                      f"forces / 1e-3 by {np.max(np.abs(fs / eps - fref)):.3e} (scale {np.max(np.abs(fref)):.3e})", where4)
                        break
                    qst, _ = move(rod, qs, np.array([1.0, 0, 0, 0]), d)
                    fst = forces(qst)
                    if not (np.max(np.abs(fs - fst)) <= 1e-5 * np.max(np.abs(fs)) + 1e-14 * eps):
                        ctx.violation(f"{name}:tiny-strain:translation:forces", f"the internal forces of a state {eps:g} away from the reference change under a translation "
                                      f"(max diff {np.max(np.abs(fs - fst)):.3e}, scale {np.max(np.abs(fs)):.3e})", where4)
                        break
                    if not mixed and hasattr(rod, "E_pot"):
                        qsm, _ = move(rod, qs, Q0, d)
                        Ea, Eb = rod.E_pot(t, qs.copy()), rod.E_pot(t, qsm.copy())
                        if not (abs(Ea - Eb) <= 1e-4 * max(abs(Ea), abs(Eb)) + 1e-12 * eps * eps):
                            ctx.violation(f"{name}:tiny-strain:objectivity:E_pot", f"the strain energy of a state {eps:g} away from the reference changes under a rigid motion: {Ea} -> {Eb}", where4)
                            break
                # history: the rod is given another stress-free reference (after it has been evaluated): that one is stress free as well
                with warnings.catch_warnings():
                    warnings.simplefilter("ignore")
                    if curved:
                        Q2 = Rod.straight_configuration(nel, 3.0, r_OP0=np.array([-0.4, 0.1, 0.2]), A_IB0=quat_to_matrix(random_rotation(rng)))
                    else:
                        Rc2 = 0.8
                        Q2 = Rod.pose_configuration(nel, lambda xi: Rc2 * np.array([math.sin(0.5 * math.pi * xi), 0.0, 1 - math.cos(0.5 * math.pi * xi)]),
                                                    lambda xi: np.array([[math.cos(0.5 * math.pi * xi), 0.0, -math.sin(0.5 * math.pi * xi)], [0, 1.0, 0], [math.sin(0.5 * math.pi * xi), 0.0, math.cos(0.5 * math.pi * xi)]]))
                    rod.set_reference_strains(Q2)
                where3 = dict(where, history="a second reference configuration was set after the rod had been evaluated")
                Q2 = np.asarray(Q2, dtype=float)
                if not mixed and hasattr(rod, "E_pot"):
                    E2 = rod.E_pot(t, Q2.copy())
                    if not (abs(E2) <= tol):
                        ctx.violation(f"{name}:second-reference:E_pot", f"the strain energy of the second reference configuration is {E2}", where3)
                if hasattr(rod, "h") and not mixed:
                    f2 = np.asarray(rod.h(t, Q2.copy(), u0.copy()))
                    if not (np.max(np.abs(f2)) <= tol):
                        ctx.violation(f"{name}:second-reference:forces", f"the internal forces of the second reference configuration do not vanish (max {np.max(np.abs(f2)):.2e})", where3)
                if mixed and getattr(rod, "nla_c", 0) > 0:
                    c2 = np.asarray(rod.c(t, Q2.copy(), u0.copy(), np.zeros(rod.nla_c)))
                    if not (np.max(np.abs(c2)) <= tol):
                        ctx.violation(f"{name}:second-reference:c", f"the compliance residual of the second reference configuration does not vanish (max {np.max(np.abs(c2)):.2e})", where3)
                if constraints is not None and hasattr(rod, "g"):
                    g2 = np.asarray(rod.g(t, Q2.copy()))
                    if not (np.max(np.abs(g2), initial=0.0) <= tol):
                        ctx.violation(f"{name}:second-reference:g", f"the internal constraints are violated by the second reference configuration (max {np.max(np.abs(g2)):.2e})", where3)
            except Exception as ex:
                ctx.violation(f"{name}:raises:{type(ex).__name__}", f"{type(ex).__name__}: {ex}", where)
    return n


def run(ctx):
    ctx.level = "model_checking"
    rng = ctx.rng
    r_id = check_only(ctx, "RodKinematics", {"Mode": '"identities"', "Impl": '"intended"', "Thin": "FALSE" if ctx.thorough else "TRUE"}, invariants=("ObjectivityOK",), tag="rk_objectivity")
    records, wheres, counts = [], {}, {}
    lattice_pairs(ctx, rng, records, wheres, counts)
    if not records:
        raise tlc.MachineryError("no rod records produced")
    e1 = copy.deepcopy(next(r for r in records if r["kind"] == "W" and any(x[0] != 0 for x in r["o_f"]))); e1["id"] = 0
    k = next(i for i, x in enumerate(e1["o_f"]) if x[0] != 0); e1["o_f"][k][0] += 977
    bad, rts = batch_validate_parallel(ctx, "RodKinematics", [e1] + records, {"Mode": '"trace"', "Impl": '"intended"', "Thin": "TRUE"}, "rk10_trace")
    if bad.pop(0, None) is None:
        raise tlc.MachineryError("self-test failed: a corrupted internal-force record was accepted by the trace specification")
    for rid, w in wheres.items():
        if rid not in bad and w.get("_off_lattice"):
            nm, (x, r_) = w["_off_lattice"][0]
            w2 = {k_: v for k_, v in w.items() if k_ != "_off_lattice"}
            ctx.violation(f"{w['rod']}:{nm}:not-rational", f"the reported {nm} contains {x!r}, which is not a rational of the lattice (distance {r_:.2e}): {w2}", w2)
    for rid, clause in bad.items():
        w = {k_: v for k_, v in wheres[rid].items() if k_ != "_off_lattice"}
        ctx.violation(f"{w['rod']}:{clause[:60]}", f"{clause}: {w}", w)
    nfloat = float_supplements(ctx, rng)
    ctx.log(f"[C10] objectivity identities: {r_id.distinct} lattice cases; {len(records)} element records (reference / state / moved state) validated by TLC {counts}; "
            f"{len(bad)} rejected; float supplements on {nfloat} genuine rods")
    ctx.coverage = {"states": r_id.distinct + sum(r.distinct for r in rts), "transitions": max(r_id.generated + sum(r.generated for r in rts), 1),
                    "traces_validated_against_impl": len(records), "records": counts, "float_rods": nfloat,
                    "samples": [{"where": {k_: v for k_, v in wheres[1].items() if k_ != "_off_lattice"}, "f": records[0]["o_f"][:6]}],
                    "rule": "7 rod variants (Quaternion / R12, displacement-based / mixed, degree 1 / 2) x {reference, rational state, the state moved by a rational rigid "
                            "motion} x elements; float supplements: 10 formulations (incl. SE3 and internally constrained) x straight / curved reference"}
    ctx.assumptions = ["rational core: Quaternion and R12 interpolation, Simo1986 material, rational quadrature abscissae (see C11); the SE(3) family, curved references and the "
                       "genuine Gauss rules are covered by float comparisons at 1e-9 only",
                       "a rigid motion is applied to all nodes (r_i -> R r_i + d, P_i -> Q0 o P_i)"]


def replay(ctx, path):
    run(ctx)
