"""C24 Restarting a simulation from an intermediate state reproduces the run.

Decide: spec/Restart.tla -- (mechanism) a joint between two moving links captures body-fixed data at assembly;
        actions Advance / DeepCopy / Restart / PostProcess (a solver that evaluates the system a posteriori along
        the rows of the leg, from its first row); TLC checks ModelUnchanged (captured data never change),
        AngleKeepsMeaning / TrackerKeepsMeaning (tracked joint angle = accumulated relative rotation) and
        RowsKeepMeaning (angles reported during the a posteriori evaluation) for all histories up to the bound
        and rejects the two as-found designs (re-capturing restart; retrace with the end-of-run tracker);
        (plans) all split plans of an N-step run.
Bind:   (a) every transition of the mechanism graph is replayed into a real double pendulum (Revolute joints,
        spring on the inner joint): after each action the body-fixed joint point and bases recovered from the
        real joint, the constraint value at the mechanism pose, the joint angle and the contact/force-law
        parameters are compared with their values after the first assembly.  PostProcess runs the real
        ScipyIVP.solve with solve_ivp replaced by a stub that returns the rows of the leg, so the solver's own a
        posteriori loop runs on the real joints.
        (b) crash-point enumeration: every split plan (every split step k, nested splits, with/without deepcopy)
        of TLC's plan graph is executed with every solver on several systems and the concatenated trajectory is
        compared with the uninterrupted run; after every segment the angle every Revolute joint reports is
        compared with the rotation accumulated along the rows of the segment (TrackerKeepsMeaning on real runs).
"""
from __future__ import annotations

import contextlib
import io
import math
import os
import warnings

import numpy as np

from .. import tlc

TWO_PI = 2 * math.pi


def _quiet():
    return contextlib.redirect_stdout(io.StringIO())


# ----------------------------------------------------------------------------------------------- (a)
class Mechanism:
    L = 2.0
    angle0 = 0.3

    def __init__(self, N):
        from cardillo import System
        from cardillo.discrete import RigidBody
        from cardillo.constraints import Revolute
        from cardillo.force_laws import KelvinVoigtElement
        from cardillo.solver import SolverOptions

        self.N = N
        self.opts = SolverOptions(compute_consistent_initial_conditions=False)
        system = System()
        q = self.pose_q(0, 0)
        Th = np.diag([0.1, 0.7, 0.7])
        l1 = RigidBody(1.0, Th, q0=q[:7].copy(), name="link1")
        l2 = RigidBody(1.0, Th, q0=q[7:].copy(), name="link2")
        j1 = Revolute(system.origin, l1, axis=2, r_OJ0=np.zeros(3), A_IJ0=np.eye(3), name="joint1")
        j2 = Revolute(l1, l2, axis=2, angle0=self.angle0, r_OJ0=np.array([self.L, 0.0, 0.0]), A_IJ0=np.eye(3), name="joint2")
        kv = KelvinVoigtElement(j2, 3.0, 0.2, l_ref=0.1, compliance_form=False, name="spring")
        system.add(l1, l2, j1, j2, kv)
        with warnings.catch_warnings(), _quiet():
            warnings.simplefilter("ignore")
            system.assemble(options=self.opts)
        self.system = system
        self.ref = self.projection(0, 0)

    def pose_q(self, a, b):
        al = TWO_PI * a / self.N
        be = TWO_PI * b / self.N
        c1, s1 = math.cos(al), math.sin(al)
        c2, s2 = math.cos(al + be), math.sin(al + be)
        r1 = 0.5 * self.L * np.array([c1, s1, 0.0])
        rj = self.L * np.array([c1, s1, 0.0])
        r2 = rj + 0.5 * self.L * np.array([c2, s2, 0.0])
        P1 = np.array([math.cos(al / 2), 0, 0, math.sin(al / 2)])
        P2 = np.array([math.cos((al + be) / 2), 0, 0, math.sin((al + be) / 2)])
        return np.concatenate([r1, P1, r2, P2])

    def joint(self, name="joint2"):
        return self.system.contributions_map[name]

    def projection(self, a, b):
        """body-fixed joint data recovered from the real joint at pose (a, b)"""
        from ..lattice import quat_to_matrix

        q = self.pose_q(a, b)
        out = {}
        for jn in ("joint1", "joint2"):
            j = self.joint(jn)
            qj = q[j.qDOF]
            t = self.system.t0
            # body poses from the harness' own kinematics
            def pose(sub):
                if getattr(sub, "name", "") == "link1":
                    return q[:3], quat_to_matrix(q[3:7])
                if getattr(sub, "name", "") == "link2":
                    return q[7:10], quat_to_matrix(q[10:14])
                return np.zeros(3), np.eye(3)
            r1, A1 = pose(j.subsystem1)
            r2, A2 = pose(j.subsystem2)
            out[jn] = {
                "B1_r": A1.T @ (j.r_OJ1(t, qj) - r1), "B2_r": A2.T @ (j.r_OJ2(t, qj) - r2),
                "A_K1": A1.T @ j.A_IJ1(t, qj), "A_K2": A2.T @ j.A_IJ2(t, qj),
                "g": j.g(t, qj),
            }
        sp = self.system.contributions_map["spring"]
        out["spring"] = {"l_ref": sp.l_ref, "k": sp.k, "d": sp.d}
        out["angle0"] = self.joint().angle0
        return out


def replay_mechanism(walk_states, ctx, N, counters):
    with warnings.catch_warnings(), _quiet():
        warnings.simplefilter("ignore")
        m = Mechanism(N)
    hist = []
    t = 0.0
    leg = [(0.0, 0, 0)]
    with warnings.catch_warnings(), _quiet():
        warnings.simplefilter("ignore")
        leg_sys = m.system.deepcopy()  # the system as it is when a solver is started on it
    for st in walk_states[1:]:
        last = st["last"]
        op = last["op"]
        hist.append({k: v for k, v in last.items()})
        rep = {"N": N, "history": hist}
        a, b = st["a"], st["b"]
        q = m.pose_q(a, b)
        try:
            with warnings.catch_warnings(), _quiet():
                warnings.simplefilter("ignore")
                if op == "advance":
                    t += 0.01
                    j = m.joint()
                    ang = j.l(t, q[j.qDOF])
                    exp = m.angle0 + TWO_PI * st["angle"] / N
                    leg.append((t, a, b))
                    if not (abs(ang - exp) <= 1e-9 * (1 + abs(exp))):
                        ctx.violation("mechanism:angle", f"joint angle {ang!r}, accumulated rotation gives {exp!r} after {hist}", rep)
                        return
                elif op == "deepcopy":
                    m.system = m.system.deepcopy()
                elif op == "restart":
                    m.system.set_new_initial_state(q, np.zeros(m.system.nu), t0=t, options=m.opts)
                    leg = [(t, a, b)]
                    leg_sys = m.system.deepcopy()
                elif op == "postprocess":
                    bad = postprocess(m, leg, st, N, leg_sys)
                    if bad:
                        ctx.violation("mechanism:postprocess", f"{bad} after {hist}", rep)
                        return
        except Exception as ex:
            ctx.violation(f"mechanism:{op}:raises", f"{op} raised {type(ex).__name__}: {ex} after {hist}", rep)
            return
        counters["ops"] += 1
        try:
            pr = m.projection(a, b)
        except Exception as ex:
            ctx.violation(f"mechanism:{op}:projection-raises", f"evaluating the joint raised {type(ex).__name__}: {ex} after {hist}", rep)
            return
        for jn in ("joint1", "joint2"):
            for k in ("B1_r", "B2_r", "A_K1", "A_K2"):
                if not np.allclose(pr[jn][k], m.ref[jn][k], rtol=0, atol=1e-10):
                    ctx.violation(f"mechanism:{jn}:{k}", f"{jn}: body-fixed {k} changed from {np.round(m.ref[jn][k], 6).tolist()} to "
                                  f"{np.round(pr[jn][k], 6).tolist()} after {hist}", rep)
                    return
            if not (np.max(np.abs(pr[jn]["g"])) <= 1e-9):
                ctx.violation(f"mechanism:{jn}:g", f"{jn} is no longer satisfied by the mechanism pose (g = {pr[jn]['g'].tolist()}) after {hist}", rep)
                return
        if pr["spring"] != m.ref["spring"] or pr["angle0"] != m.ref["angle0"]:
            ctx.violation("mechanism:parameters", f"force-law / joint parameters changed: {pr['spring']}, angle0 {pr['angle0']} after {hist}", rep)
            return


def postprocess(m, leg, st, N, leg_sys):
    """the real ScipyIVP.solve on the rows of the leg, started on the system as it was at the first row: solve_ivp is
    replaced by a stub that evaluates the solver's right-hand side at the rows (the integration) and returns them; the
    solver's own a posteriori loop then evaluates the real system (and the spring on joint2) row by row.  The system
    that went through the solve replaces the one the Advance steps were previewed on."""
    import types
    from cardillo.solver import scipy_ivp as mod

    ts = np.array([r[0] for r in leg])
    nu = m.system.nu
    Y = np.array([np.concatenate([m.pose_q(r[1], r[2]), np.zeros(nu)]) for r in leg]).T
    m.system = leg_sys
    sp = m.system.contributions_map["spring"]
    orig = sp.l
    calls = []
    phase = ["integration"]

    def spy(t, q):
        v = orig(t, q)
        if phase[0] == "a posteriori":
            calls.append((float(t), float(v)))
        return v

    def stub(fun, span, x0, **kw):
        for k in range(len(ts)):
            fun(float(ts[k]), Y[:, k])
        phase[0] = "a posteriori"
        return types.SimpleNamespace(success=True, t=ts, y=Y, message="", status=0)

    real = mod.solve_ivp
    solver = mod.ScipyIVP(m.system, float(ts[-1]) if ts[-1] > m.system.t0 else m.system.t0 + 0.01, 0.01)
    try:
        mod.solve_ivp = stub
        sp.l = spy
        solver.solve()
    finally:
        mod.solve_ivp = real
        sp.l = orig
    rows = st["rows"]
    if len(rows) != len(leg):
        raise tlc.MachineryError(f"spec rows {rows} do not match the leg {leg}")
    for (ti, _, _), ri in zip(leg, rows):
        exp = m.angle0 + TWO_PI * ri / N
        for (tc, v) in calls:
            if tc == float(ti) and not (abs(v - exp) <= 1e-9 * (1 + abs(exp))):
                return f"a posteriori evaluation at row t={ti:g}: joint angle {v!r}, accumulated rotation gives {exp!r}"
    j = m.joint()
    q = m.pose_q(leg[-1][1], leg[-1][2])
    ang = j.l(float(ts[-1]), q[j.qDOF])
    exp = m.angle0 + TWO_PI * st["b"] / N
    if not (abs(ang - exp) <= 1e-9 * (1 + abs(exp))):
        return f"after the a posteriori evaluation the joint reports {ang!r} at the final pose, accumulated rotation gives {exp!r}"
    return None


# ----------------------------------------------------------------------------------------------- (b)
def _tight():
    from cardillo.solver import SolverOptions

    return SolverOptions(newton_atol=1e-12, newton_rtol=1e-12, fixed_point_atol=1e-12, fixed_point_rtol=1e-12,
                         newton_max_iter=50, fixed_point_max_iter=5000)


def sys_double_pendulum(spring=True):
    from cardillo import System
    from cardillo.discrete import RigidBody
    from cardillo.constraints import Revolute
    from cardillo.force_laws import KelvinVoigtElement
    from cardillo.forces import Force

    system = System()
    L = 1.0
    Th = np.diag([0.01, 1 / 12, 1 / 12])
    l1 = RigidBody(1.0, Th, q0=np.array([0.5 * L, 0, 0, 1.0, 0, 0, 0]), name="link1")
    l2 = RigidBody(1.0, Th, q0=np.array([1.5 * L, 0, 0, 1.0, 0, 0, 0]), name="link2")
    j1 = Revolute(system.origin, l1, axis=2, r_OJ0=np.zeros(3), A_IJ0=np.eye(3), name="joint1")
    j2 = Revolute(l1, l2, axis=2, angle0=0.2, r_OJ0=np.array([L, 0.0, 0.0]), A_IJ0=np.eye(3), name="joint2")
    system.add(l1, l2, j1, j2, Force(np.array([0, -9.81, 0.0]), l1, name="g1"), Force(np.array([0, -9.81, 0.0]), l2, name="g2"))
    if spring:
        system.add(KelvinVoigtElement(j2, 5.0, 0.1, l_ref=0.0, compliance_form=False, name="spring"))
    system.assemble()
    return system


def sys_torsional_oscillator():
    """axis-aligned bar on a revolute joint with a Spring whose reference is the DEFAULT one: the undeformed angle is exactly 0.0 (a value that is easily
    mistaken for "not set" when the model is assembled again)"""
    from cardillo import System
    from cardillo.discrete import RigidBody
    from cardillo.constraints import Revolute
    from cardillo.force_laws import Spring

    system = System()
    rb = RigidBody(1.0, np.diag([0.01, 1 / 12, 1 / 12]), q0=np.array([0.5, 0, 0, 1.0, 0, 0, 0]), u0=np.array([0, 0.5 * 3.0, 0, 0, 0, 3.0]), name="bar")
    j = Revolute(system.origin, rb, axis=2, r_OJ0=np.zeros(3), A_IJ0=np.eye(3), name="hinge")
    system.add(rb, j, Spring(j, 6.0, compliance_form=False, name="spring"))
    system.assemble()
    return system


def sys_spinning_bar(omega0=-40.0):
    """bar on a revolute joint with a soft rotational spring, spinning fast: the joint passes several quadrants per segment"""
    from cardillo import System
    from cardillo.discrete import RigidBody
    from cardillo.constraints import Revolute
    from cardillo.force_laws import KelvinVoigtElement

    system = System()
    rb = RigidBody(1.0, np.diag([0.01, 1 / 12, 1 / 12]), q0=np.array([0.5, 0, 0, 1.0, 0, 0, 0]),
                   u0=np.array([0, 0.5 * omega0, 0, 0, 0, omega0]), name="bar")
    j = Revolute(system.origin, rb, axis=2, r_OJ0=np.zeros(3), A_IJ0=np.eye(3), name="hinge")
    system.add(rb, j, KelvinVoigtElement(j, 0.5, 0.0, l_ref=0.0, compliance_form=False, name="spring"))
    system.assemble()
    return system


def sys_spinning_bar_forward():
    return sys_spinning_bar(omega0=100.0)


def sys_spinning_bar_coarse():
    """the joint turns by more than a quarter turn between two stored instants (the integrator's own steps are finer)"""
    return sys_spinning_bar(omega0=330.0)


def sys_shaken_support():
    """a link hinged to a support with prescribed motion (a Frame that is shaken and rocked): re-assembling at a later time must not move the hinge on the support"""
    from cardillo import System
    from cardillo.discrete import RigidBody, Frame
    from cardillo.constraints import Revolute
    from cardillo.force_laws import KelvinVoigtElement
    from cardillo.forces import Force
    from cardillo.math import Exp_SO3, ax2skew

    system = System()
    w = 9.0
    amp = np.array([0.08, 0.05, 0.0])
    rock = 0.3
    A = lambda t: Exp_SO3(np.array([0.0, 0.0, rock * np.sin(w * t)]))
    Om = lambda t: np.array([0.0, 0.0, rock * w * np.cos(w * t)])
    Omd = lambda t: np.array([0.0, 0.0, -rock * w * w * np.sin(w * t)])
    support = Frame(r_OP=lambda t: amp * np.sin(w * t), r_OP_t=lambda t: amp * w * np.cos(w * t), r_OP_tt=lambda t: -amp * w * w * np.sin(w * t),
                    A_IB=A, A_IB_t=lambda t: A(t) @ ax2skew(Om(t)), A_IB_tt=lambda t: A(t) @ (ax2skew(Omd(t)) + ax2skew(Om(t)) @ ax2skew(Om(t))), name="support")
    r_J = np.array([0.2, 0.1, 0.0])                 # the hinge sits off the support's origin
    link = RigidBody(1.0, np.diag([0.01, 1 / 12, 1 / 12]), q0=np.concatenate([r_J + np.array([0.5, 0, 0]), [1.0, 0, 0, 0]]),
                     u0=np.concatenate([amp * w + np.cross([0, 0, rock * w], r_J + np.array([0.5, 0.0, 0.0])), [0.0, 0.0, rock * w]]), name="link")
    hinge = Revolute(support, link, axis=2, angle0=0.3, r_OJ0=r_J, A_IJ0=np.eye(3), name="hinge")
    system.add(support, link, hinge, Force(np.array([0, -9.81, 0.0]), link, name="g"), KelvinVoigtElement(hinge, 4.0, 0.05, l_ref=0.0, compliance_form=False, name="spring"))
    system.assemble()
    return system


def sys_spherical_chain():
    from cardillo import System
    from cardillo.discrete import RigidBody
    from cardillo.constraints import Spherical
    from cardillo.forces import Force

    system = System()
    Th = np.diag([0.02, 0.1, 0.1])
    b1 = RigidBody(1.0, Th, q0=np.array([0.5, 0, 0, 1.0, 0, 0, 0]), u0=np.array([0, 0, 0, 0.3, 0.0, 0.5]) * 0, name="b1")
    b2 = RigidBody(1.0, Th, q0=np.array([1.5, 0, 0, 1.0, 0, 0, 0]), name="b2")
    s1 = Spherical(system.origin, b1, r_OJ0=np.zeros(3), name="s1")
    s2 = Spherical(b1, b2, r_OJ0=np.array([1.0, 0, 0]), name="s2")
    system.add(b1, b2, s1, s2, Force(np.array([0, 0.5, -9.81]), b1, name="g1"), Force(np.array([0.2, 0, -9.81]), b2, name="g2"))
    system.assemble()
    return system


def sys_bouncing_ball():
    from .. import scenarios as S

    return S.sys_ball_on_plane(mu=0.3, gap=0.01, vx=0.6, vz=-0.4, e_N=0.5, rigid=True)


def sys_two_balls():
    from cardillo import System
    from cardillo.discrete import RigidBody
    from cardillo.contacts import Sphere2Plane, Sphere2Sphere
    from cardillo.forces import Force

    system = System()
    r = 0.1
    b1 = RigidBody(1.0, 0.004 * np.eye(3), q0=np.array([0, 0, r + 0.01, 1.0, 0, 0, 0]), u0=np.array([0.8, 0, 0, 0, 0, 0.0]), name="b1")
    b2 = RigidBody(1.0, 0.004 * np.eye(3), q0=np.array([0.25, 0.02, r + 0.02, 1.0, 0, 0, 0]), name="b2")
    system.add(b1, b2, Sphere2Plane(system.origin, b1, mu=0.2, r=r, e_N=0.3, e_F=0.0, name="p1"),
               Sphere2Plane(system.origin, b2, mu=0.2, r=r, e_N=0.3, e_F=0.0, name="p2"),
               Sphere2Sphere(b1, b2, r, r, mu=0.2, e_N=0.5, e_F=0.0, name="ss"),
               Force(np.array([0, 0, -9.81]), b1, name="g1"), Force(np.array([0, 0, -9.81]), b2, name="g2"))
    system.assemble()
    return system


def sys_mass_spring():
    from .. import scenarios as S

    return S.sys_mass_spring(compliance=True, v0=0.3)


def sys_forced_mass_negative_t0():
    """starts before t = 0 so that one split lands exactly on t = 0.0; the force depends on time explicitly"""
    from cardillo import System
    from cardillo.discrete import PointMass
    from cardillo.interactions import TwoPointInteraction
    from cardillo.force_laws import KelvinVoigtElement
    from cardillo.forces import Force

    system = System(t0=-3 * DT)
    pm = PointMass(1.0, q0=np.array([1.0, 0.0, 0.0]), u0=np.array([0.0, 0.2, 0.0]), name="pm")
    tpi = TwoPointInteraction(system.origin, pm, name="tpi")
    kv = KelvinVoigtElement(tpi, 20.0, 0.5, l_ref=0.9, compliance_form=False, name="kv")
    system.add(pm, tpi, kv, Force(lambda t: np.array([5.0 * math.sin(40.0 * t), 3.0 * math.cos(25.0 * t), -9.81]), pm, name="f"))
    system.assemble()
    return system


def sys_two_free_bodies_shared_arrays():
    """two bodies built from the SAME initial-velocity array object (a common way to say 'everything at rest')"""
    from cardillo import System
    from cardillo.discrete import RigidBody
    from cardillo.forces import Force

    system = System()
    u0 = np.zeros(6)
    b1 = RigidBody(1.0, np.diag([0.1, 0.2, 0.3]), q0=np.array([0, 0, 1.0, 1.0, 0, 0, 0]), u0=u0, name="b1")
    b2 = RigidBody(2.0, np.diag([0.1, 0.2, 0.3]), q0=np.array([1.0, 0, 1.0, 1.0, 0, 0, 0]), u0=u0, name="b2")
    system.add(b1, b2, Force(np.array([1.0, 0, -9.81]), b1, name="f1"), Force(lambda t: np.array([0, 2.0 + 10 * t, -9.81]), b2, name="f2"))
    system.assemble()
    return system


SYSTEMS = {
    "double_pendulum_spring": (sys_double_pendulum, ["Rattle", "BackwardEuler", "Moreau", "DualStormerVerlet", "ScipyIVP", "ScipyDAE"]),
    "spinning_bar": (sys_spinning_bar, ["ScipyIVP", "ScipyDAE", "Rattle", "BackwardEuler", "Moreau", "DualStormerVerlet"]),
    "spinning_bar_forward": (sys_spinning_bar_forward, ["ScipyIVP", "Rattle"]),
    "spinning_bar_coarse_output": (sys_spinning_bar_coarse, ["ScipyIVP"]),
    "shaken_support": (sys_shaken_support, ["ScipyIVP", "Rattle", "Moreau"]),
    "torsional_oscillator_default_reference": (sys_torsional_oscillator, ["ScipyIVP", "Rattle"]),
    "spherical_chain": (sys_spherical_chain, ["Rattle", "BackwardEuler", "Moreau", "ScipyIVP"]),
    "bouncing_ball": (sys_bouncing_ball, ["Moreau", "Rattle", "BackwardEuler", "DualStormerVerlet"]),
    "two_balls": (sys_two_balls, ["Moreau", "Rattle"]),
    "mass_spring": (sys_mass_spring, ["Rattle", "BackwardEuler", "Moreau", "DualStormerVerlet", "ScipyIVP", "ScipyDAE"]),
    "forced_mass_t0<0": (sys_forced_mass_negative_t0, ["Moreau", "BackwardEuler", "Rattle", "ScipyIVP"]),
    "free_bodies_shared_u0": (sys_two_free_bodies_shared_arrays, ["Moreau", "Rattle", "ScipyIVP"]),
}
DT = 1.0 / 128


def _solve(name, system, t1):
    from cardillo.solver import Moreau, BackwardEuler, Rattle, DualStormerVerlet, ScipyIVP, ScipyDAE

    with warnings.catch_warnings(), _quiet():
        warnings.simplefilter("ignore")
        if name == "ScipyIVP":
            return ScipyIVP(system, t1, DT, rtol=1e-11, atol=1e-12).solve()
        if name == "ScipyDAE":
            return ScipyDAE(system, t1, DT, rtol=1e-9, atol=1e-10).solve()
        cls = {"Moreau": Moreau, "BackwardEuler": BackwardEuler, "Rattle": Rattle, "DualStormerVerlet": DualStormerVerlet}[name]
        return cls(system, t1, DT, options=_tight()).solve()


def _rel_angle(j, t, q):
    A1, A2 = j.A_IJ1(t, q), j.A_IJ2(t, q)
    ia, ib = j.plane_axes
    return math.atan2(A2[:, ia] @ A1[:, ib], A2[:, ia] @ A1[:, ia])


def _revolutes(system):
    from cardillo.constraints import Revolute

    return [c for c in system.contributions if isinstance(c, Revolute)]


def tracker_check(system, sol, start):
    """TrackerKeepsMeaning on a real run: the angle each Revolute joint reports at the end of the segment equals the
    angle it reported at the first row plus the rotation accumulated along the rows (frames only, no tracker)"""
    for j, ang0 in zip(_revolutes(system), start):
        acc = ang0
        prev = _rel_angle(j, sol.t[0], sol.q[0][j.qDOF])
        ok = True
        for ti, qi in zip(sol.t[1:], sol.q[1:]):
            cur = _rel_angle(j, ti, qi[j.qDOF])
            d = (cur - prev + math.pi) % TWO_PI - math.pi
            if not (abs(d) < 0.5 * math.pi):
                ok = False  # rows too far apart to accumulate: not judged
                break
            acc += d
            prev = cur
        if not ok:
            continue
        got = float(j.l(sol.t[-1], sol.q[-1][j.qDOF]))
        if not (abs(got - acc) <= 1e-6 * (1 + abs(acc))):
            return f"joint {j.name!r} reports the angle {got!r} at the end of the segment, the rotation accumulated along its rows gives {acc!r}"
    return None


def run_plan(ctx, sysname, mk, solver, segs, full, counters, nsteps):
    """execute one split plan and compare with the uninterrupted trajectory `full`"""
    from cardillo.solver import SolverOptions

    rep = {"system": sysname, "solver": solver, "segments": [s["len"] for s in segs], "copy": [s["copy"] for s in segs]}
    key = f"split:{sysname}:{solver}"
    try:
        with warnings.catch_warnings(), _quiet():
            warnings.simplefilter("ignore")
            system = mk()
    except Exception as ex:
        raise tlc.MachineryError(f"{sysname} does not assemble: {ex}")
    t_start = float(system.t0)
    t_all, q_all, u_all = [np.array([system.t0])], [np.array([system.q0])], [np.array([system.u0])]
    done = 0
    for i, sg in enumerate(segs):
        upto = sg["upto"]
        try:
            start = [float(j.l(system.t0, system.q0[j.qDOF])) for j in _revolutes(system)]
            sol = _solve(solver, system, t_start + upto * DT)
        except Exception as ex:
            ctx.violation(key + ":segment-raises", f"segment {i} ({done}->{upto}) raised {type(ex).__name__}: {ex} for plan {rep['segments']}", rep)
            return
        if len(sol.t) != upto - done + 1:
            ctx.violation(key + ":segment-rows", f"segment {i} returned {len(sol.t)} instants for {upto - done} steps", rep)
            return
        t_all.append(sol.t[1:]); q_all.append(sol.q[1:]); u_all.append(sol.u[1:])
        bad = tracker_check(system, sol, start)
        if bad:
            ctx.violation(key + ":tracker", f"segment {i} ({done}->{upto}) of plan {rep['segments']}: {bad}", rep)
            return
        done = upto
        if done >= nsteps:
            break
        # crash point: re-initialise (a copy of) the system with the state reached
        nxt = system.deepcopy() if sg["copy"] else system
        qe, ue, te = sol.q[-1].copy(), sol.u[-1].copy(), float(sol.t[-1])
        try:
            with warnings.catch_warnings(), _quiet():
                warnings.simplefilter("ignore")
                try:
                    nxt.set_new_initial_state(qe, ue, t0=te)
                except AssertionError as ex:
                    # the scheme does not enforce the level the consistency assertion checks (drift): loud, documented bypass
                    counters["bypass"] += 1
                    nxt = system.deepcopy() if sg["copy"] else system
                    nxt.set_new_initial_state(qe, ue, t0=te, options=SolverOptions(compute_consistent_initial_conditions=False))
        except Exception as ex:
            ctx.violation(key + ":restart-raises", f"set_new_initial_state at step {done} raised {type(ex).__name__}: {ex} for plan {rep['segments']}", rep)
            return
        if nxt.t0 != te or not np.allclose(nxt.q0, qe, atol=1e-12) or not np.allclose(nxt.u0, ue, atol=1e-12):
            ctx.violation(key + ":restart-state", f"re-initialised system has t0={nxt.t0!r} (state reached at {te!r}); |q0 - q| = {np.max(np.abs(nxt.q0 - qe)):.2e}, "
                          f"|u0 - u| = {np.max(np.abs(nxt.u0 - ue)):.2e} at step {done} of plan {rep['segments']}", rep)
            return
        system = nxt
    t = np.concatenate(t_all); q = np.concatenate(q_all); u = np.concatenate(u_all)
    counters["plans"] += 1
    tol = 1e-7 if solver not in ("ScipyIVP", "ScipyDAE") else 1e-5
    if getattr(system, "nla_F", 0) > 0 and tol < 1e-6:
        # frictional contacts: the prox fixed-point iterations stop when consecutive iterates agree to 1e-12, which for slowly contracting
        # iterations (several sticking contacts) leaves the friction percussions, and with them the velocities, determined only to about 1e-5;
        # the result then depends on the starting guess of the iteration (warm start of the running solver vs. the restarted one)
        tol = 1e-6
    n = min(len(t), len(full.t))
    if len(t) != len(full.t) or not np.allclose(t, full.t, atol=1e-12):
        ctx.violation(key + ":time", f"split run has instants {t.tolist()}, uninterrupted {np.asarray(full.t).tolist()}", rep)
        return
    dq = np.max(np.abs(q - full.q) / (1 + np.abs(full.q)))
    du = np.max(np.abs(u - full.u) / (1 + np.abs(full.u)))
    if not (dq <= tol and du <= 100 * tol):
        k = int(np.argmax(np.max(np.abs(q - full.q), axis=1)))
        ctx.violation(key + ":trajectory", f"split plan {rep['segments']} deviates from the uninterrupted run: max rel. diff q {dq:.2e}, u {du:.2e} "
                      f"(largest at step {k})", rep)


def _cfg(path, N, maxops, impl, mode, nsteps):
    with open(path, "w") as f:
        f.write(f'SPECIFICATION Spec\nCONSTANTS\n  N = {N}\n  MaxOps = {maxops}\n  Impl = "{impl}"\n  Mode = "{mode}"\n  NSteps = {nsteps}\n'
                "INVARIANT ModelUnchanged\nINVARIANT AngleKeepsMeaning\nINVARIANT TrackerKeepsMeaning\nINVARIANT RowsKeepMeaning\nINVARIANT PlanOK\n")


def run(ctx):
    ctx.level = "fault_enumeration"
    rng = ctx.rng
    counters = {"ops": 0, "plans": 0, "bypass": 0}
    # design check (deeper), as_found rejected
    N = 8
    cfg = os.path.join(ctx.scratch, "rs_d.cfg")
    _cfg(cfg, N, 7 if not ctx.thorough else 8, "intended", "mechanism", 1)
    r = tlc.run_tlc("Restart", cfg, scratch=ctx.scratch, timeout=2400)
    tlc.require_ok(r, "Restart design")
    if r.violated:
        ctx.violation(f"spec:{r.violated}", f"TLC: {r.violated} violated", {"stdout": r.stdout[-3000:]})
    cfg = os.path.join(ctx.scratch, "rs_a.cfg")
    _cfg(cfg, N, 4, "as_found", "mechanism", 1)
    ra = tlc.run_tlc("Restart", cfg, scratch=ctx.scratch, timeout=600)
    if not ra.violated:
        raise tlc.MachineryError("as_found variant of Restart not rejected by TLC")
    cfg = os.path.join(ctx.scratch, "rs_pa.cfg")
    _cfg(cfg, N, 5, "post_as_found", "mechanism", 1)
    ra = tlc.run_tlc("Restart", cfg, scratch=ctx.scratch, timeout=600)
    if ra.violated not in ("TrackerKeepsMeaning", "RowsKeepMeaning"):
        raise tlc.MachineryError(f"post_as_found variant of Restart not rejected by TLC ({ra.violated})")
    # (a) mechanism graph replay
    ops = 4 if not ctx.thorough else 5
    cfg = os.path.join(ctx.scratch, "rs_g.cfg")
    _cfg(cfg, N, ops, "intended", "mechanism", 1)
    dot = os.path.join(ctx.scratch, "rs_g")
    rg = tlc.run_tlc("Restart", cfg, scratch=ctx.scratch, dump_dot=dot, timeout=2400)
    tlc.require_ok(rg, "Restart graph")
    g = tlc.parse_dot(dot + ".dot")
    walks, _ = tlc.edge_cover_walks(g, max_len=ops + 1)
    if not ctx.thorough and len(walks) > 1500:
        rng.shuffle(walks)
        walks = walks[:1500]
    for (start, walk) in walks:
        replay_mechanism([g.nodes[start]] + [g.nodes[g.edges[e][1]] for e in walk], ctx, N, counters)
    # long simulated histories (multi-turn)
    cfg = os.path.join(ctx.scratch, "rs_s.cfg")
    _cfg(cfg, N, 60, "intended", "mechanism", 1)
    rs, behs = tlc.simulate("Restart", cfg, scratch=ctx.scratch, num=6 if not ctx.thorough else 40, depth=61, seed=ctx.seed % 2**31)
    for bh in behs:
        replay_mechanism([s for _, s in bh], ctx, N, counters)
    ctx.log(f"[C24] mechanism: design {r.distinct} states; graph {rg.distinct} states / {len(g.edges)} transitions, {len(walks)} walks + {len(behs)} long histories replayed "
            f"({counters['ops']} operations on real joints)")
    # (b) split plans
    nsteps = 8 if not ctx.thorough else 12
    cfg = os.path.join(ctx.scratch, "rs_p.cfg")
    _cfg(cfg, N, 3, "intended", "plans", nsteps)
    dot = os.path.join(ctx.scratch, "rs_p")
    rp = tlc.run_tlc("Restart", cfg, scratch=ctx.scratch, dump_dot=dot, timeout=600)
    tlc.require_ok(rp, "Restart plans")
    gp = tlc.parse_dot(dot + ".dot")
    plans = []
    for nid, st in gp.nodes.items():
        segs = st["segs"]
        if segs and segs[-1]["upto"] == nsteps and len(segs) >= 2:
            plans.append([dict(s) for s in segs])
    single = [p for p in plans if len(p) == 2]
    nested = [p for p in plans if len(p) == 3]
    rng.shuffle(nested)
    nplans = 0
    samples = []
    for sysname, (mk, solvers) in SYSTEMS.items():
        for solver in solvers:
            with warnings.catch_warnings(), _quiet():
                warnings.simplefilter("ignore")
                try:
                    sys0 = mk()
                    full = _solve(solver, sys0, float(sys0.t0) + nsteps * DT)
                except Exception as ex:
                    ctx.notes.append(f"uninterrupted run {sysname}/{solver} raised {type(ex).__name__}: {ex} (not judged here)")
                    continue
            if len(full.t) != nsteps + 1:
                ctx.notes.append(f"uninterrupted run {sysname}/{solver} truncated (not judged here)")
                continue
            chosen = list(single) + nested[: (2 if not ctx.thorough else 10)]
            for pl in chosen:
                # with and without deepcopy
                for copy in ((True, False) if (ctx.thorough or "shared" in sysname) else (True,)):
                    pl2 = [dict(s, copy=copy) for s in pl]
                    run_plan(ctx, sysname, mk, solver, pl2, full, counters, nsteps)
                    nplans += 1
            if len(samples) < 3:
                samples.append({"system": sysname, "solver": solver, "plans": [[s["len"] for s in p] for p in chosen[:4]]})
    ctx.log(f"[C24] crash points: {nplans} split plans executed ({len(single)} single splits = every step k, nested sampled), "
            f"{counters['bypass']} restarts needed the documented consistency bypass")
    ctx.coverage = {"evaluations": nplans + len(walks) + len(behs), "distinct_nontrivial": nplans + len(walks),
                    "samples": samples, "states": r.distinct + rg.distinct + rp.distinct, "transitions": r.generated + rg.generated,
                    "traces_validated_against_impl": len(walks) + len(behs), "split_plans": nplans, "consistency_bypass": counters["bypass"],
                    "mechanism_ops": counters["ops"], "exhaustive": True,
                    "rule": "mechanism: every transition of the bounded graph of (advance, deepcopy, restart) histories; crash points: every split "
                            "step k of an N-step run (all single splits) plus nested splits, per system x solver; non-trivial = contains a restart"}
    ctx.assumptions = ["split vs uninterrupted trajectories compared at 1e-7 relative with solver tolerances 1e-12 (SciPy wrappers 1e-5; systems with frictional contacts 1e-6: the "
                       "prox fixed-point iterations determine the friction percussions only to about 1e-5 and depend on their starting guess)",
                       "a restart that the consistency assertions reject loudly (schemes that do not enforce that level) is repeated with "
                       "compute_consistent_initial_conditions=False and judged on the trajectory"]


def replay(ctx, path):
    run(ctx)
