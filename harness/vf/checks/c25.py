"""C25 Revolute joint angle tracks the accumulated relative rotation.

Decide: spec/RevoluteAngle.tla checked exhaustively by TLC (N in {8,12,16} sectors, |k| <= MaxTurns*N).
Bind:   every transition of the bounded state graph (edge cover of TLC's dot dump) and long simulated
        behaviours are replayed into real cardillo Revolute joints; after every action the projection
        (angle, n_full_rotations, previous_quadrant) is compared with the TLC state, and l_dot with an
        independently computed relative angular velocity about the joint axis.
"""
from __future__ import annotations

import itertools
import math
import os

import numpy as np

from .. import tlc
from ..lattice import octahedral_group, quat_to_matrix, quat_mul, axis_quat_exact

TWO_PI = 2.0 * math.pi


def _mk_joint(mode, axis, A_IJ0, angle0, r_OJ0, rng):
    """Build a system with a revolute joint.  Returns (system, joint, setter) where setter(m, N, extra)
    returns (q_joint, description) for relative rotation position m (in sectors of N)."""
    from cardillo import System
    from cardillo.discrete import RigidBody
    from cardillo.constraints import Revolute
    from cardillo.solver import SolverOptions

    system = System()
    e_c = A_IJ0[:, axis]
    Theta = np.diag([1.0, 2.0, 3.0])
    bodies = []

    def body(name):
        # body orientation initially an (exact) octahedral rotation, position arbitrary
        r0 = np.array([rng.randint(-3, 3), rng.randint(-3, 3), rng.randint(-3, 3)], dtype=float)
        q0 = np.concatenate([r0, [1.0, 0.0, 0.0, 0.0]])
        rb = RigidBody(1.0, Theta, q0=q0, name=name)
        bodies.append(rb)
        return rb

    if mode == "frame-body":
        s1, s2 = system.origin, body("rb2")
    elif mode == "body-frame":
        s1, s2 = body("rb1"), system.origin
    else:
        s1, s2 = body("rb1"), body("rb2")
    joint = Revolute(s1, s2, axis=axis, angle0=angle0, r_OJ0=np.asarray(r_OJ0, dtype=float), A_IJ0=A_IJ0)
    system.add(*bodies)
    system.add(joint)
    system.assemble(options=SolverOptions(compute_consistent_initial_conditions=False))
    return system, joint, bodies, e_c


def _rot_quat(e_c, m, N):
    """Quaternion of the rotation by m/N turns about the world axis e_c (a signed unit axis when the
    joint frame is octahedral).  Exact integer quaternion on quarter turns."""
    Q = N // 4
    if m % Q == 0 and np.allclose(np.abs(e_c).max(), 1.0) and np.count_nonzero(np.round(e_c, 12)) == 1:
        return axis_quat_exact(np.round(e_c).astype(int), (m // Q) % 4)
    th = TWO_PI * m / N
    return np.concatenate([[math.cos(th / 2)], math.sin(th / 2) * e_c])


class Replayer:
    def __init__(self, N, cfgs, rng):
        self.N = N
        self.cfgs = cfgs
        self.rng = rng

    def run_walk(self, states, ctx, walk_id):
        """states: list of TLC states (dict) starting at the initial one.  Returns #actions replayed or
        raises nothing; reports violations via ctx."""
        N = self.N
        nact = 0
        for cfg in self.cfgs:
            mode, axis, A_IJ0, angle0, r_OJ0, exact = cfg
            system, joint, bodies, e_c = _mk_joint(mode, axis, A_IJ0, angle0, r_OJ0, self.rng)
            t = 0.0
            # which body rotates: the second subsystem (relative angle +), or the first (relative angle -)
            base_q = system.q0.copy()
            hist = []
            for st in states[1:]:
                op, d = st["last"]["op"], st["last"]["d"]
                hist.append([op, d])
                if op in ("Reset", "ResetHome"):
                    system.reset()
                    got = (None, joint.n_full_rotations, joint.previous_quadrant)
                    exp = (None, st["nfull"], st["prevq"])
                    if got[1:] != exp[1:]:
                        ctx.violation(f"reset:{mode}", f"reset left tracker {got[1:]}, spec {exp[1:]}",
                                      {"N": N, "cfg": _cfg_json(cfg), "history": hist})
                        break
                    nact += 1
                    continue
                k = st["k"]
                m = k % N
                if (not exact) and m % (N // 4) == 0 and len(hist) >= 2 and hist[-2][0] == "Reset":
                    # first query after a tracker-only reset exactly on a quadrant boundary: with a generic
                    # (float) joint frame the quadrant is decided by rounding noise -> not judged
                    break
                q = base_q.copy()
                Rq = _rot_quat(e_c, m, N)
                if mode == "frame-body":
                    q[3:7] = quat_mul(Rq, base_q[3:7])
                elif mode == "body-frame":
                    # rotating subsystem 1 by -theta gives relative rotation +theta of 2 w.r.t. 1
                    Rm = Rq.copy()
                    Rm[1:] *= -1
                    q[3:7] = quat_mul(Rm, base_q[3:7])
                else:
                    # both bodies rotate: body1 by a fixed exact quarter turn multiple, body2 by that plus theta
                    j = (len(hist) + walk_id) % 4
                    R1 = _rot_quat(e_c, j * (N // 4), N)
                    q[3:7] = quat_mul(R1, base_q[3:7])
                    q[10:14] = quat_mul(quat_mul(R1, Rq), base_q[10:14])
                # positions: keep the joint closed (rotate the body about the joint point)
                _close_joint(system, joint, q, t)
                try:
                    ang = joint.l(t, q[joint.qDOF])
                except Exception as ex:  # the code under test failed: that is a violation, not machinery
                    ctx.violation(f"query-raises:{mode}", f"l() raised {type(ex).__name__}: {ex} at k={k} (N={N})",
                                  {"N": N, "cfg": _cfg_json(cfg), "history": hist})
                    break
                expect = angle0 + TWO_PI * st["angle"] / N
                ok_angle = abs(ang - expect) <= 1e-9 * (1 + abs(expect))
                on_boundary = m % (N // 4) == 0
                check_tracker = exact or not on_boundary
                ok_tr = True
                if check_tracker:
                    ok_tr = (joint.n_full_rotations, joint.previous_quadrant) == (st["nfull"], st["prevq"])
                if not (ok_angle and ok_tr):
                    ctx.violation(
                        f"query:{mode}:{'exact' if exact else 'float'}",
                        f"after {hist[-1]} at k={k} (N={N}) angle={ang!r} expected {expect!r}; tracker "
                        f"({joint.n_full_rotations},{joint.previous_quadrant}) spec ({st['nfull']},{st['prevq']})",
                        {"N": N, "cfg": _cfg_json(cfg), "history": hist},
                    )
                    break
                # angle rate: random integer velocities
                u = np.array([self.rng.randint(-2, 2) for _ in range(system.nu)], dtype=float)
                ld = joint.l_dot(t, q[joint.qDOF], u[joint.uDOF])
                ref = _rel_omega_about_axis(mode, q, u, e_c, A_IJ0, axis)
                if abs(ld - ref) > 1e-9 * (1 + abs(ref)):
                    ctx.violation(f"l_dot:{mode}", f"l_dot={ld!r} but relative angular velocity about the axis is {ref!r}",
                                  {"N": N, "cfg": _cfg_json(cfg), "history": hist, "u": u.tolist()})
                    break
                nact += 1
        return nact


def _cfg_json(cfg):
    mode, axis, A_IJ0, angle0, r_OJ0, exact = cfg
    return {"mode": mode, "axis": axis, "A_IJ0": np.asarray(A_IJ0).tolist(), "angle0": angle0,
            "r_OJ0": list(map(float, r_OJ0)), "exact": exact}


def _close_joint(system, joint, q, t):
    """Nothing to do for the angle (it only depends on orientations); positions are left as they are,
    the angle must not depend on them (states violating the joint are part of the property's domain)."""
    return q


def _rel_omega_about_axis(mode, q, u, e_c0, A_IJ0, axis):
    """Relative angular velocity (subsystem 2 minus subsystem 1) about the joint axis attached to
    subsystem 1, computed from first principles: Omega_i = R(P_i) * B_omega_i."""
    def Om(qb, ub):
        return quat_to_matrix(qb[3:7]) @ ub[3:6]

    if mode == "frame-body":
        O1 = np.zeros(3)
        O2 = Om(q[0:7], u[0:6])
        e_c1 = e_c0
    elif mode == "body-frame":
        O1 = Om(q[0:7], u[0:6])
        O2 = np.zeros(3)
        # axis attached to body 1: rotated with body 1 relative to its initial (identity) orientation
        e_c1 = quat_to_matrix(q[3:7]) @ e_c0
    else:
        O1 = Om(q[0:7], u[0:6])
        O2 = Om(q[7:14], u[6:12])
        e_c1 = quat_to_matrix(q[3:7]) @ e_c0
    return (O2 - O1) @ e_c1


def _configs(rng, n_exact, n_float):
    G = octahedral_group()
    cfgs = []
    modes = ["frame-body", "body-frame", "body-body"]
    for i in range(n_exact):
        A = G[rng.randrange(len(G))].astype(float)
        cfgs.append((modes[i % 3], i % 3 if i < 3 else rng.randrange(3), A, [0.0, 0.5, -2.0, 7.25][i % 4],
                     [rng.randint(-2, 2) for _ in range(3)], True))
    for i in range(n_float):
        # random rotation as joint frame
        P = np.array([rng.gauss(0, 1) for _ in range(4)])
        A = quat_to_matrix(P)
        cfgs.append((modes[i % 3], rng.randrange(3), A, rng.uniform(-10, 10), [rng.uniform(-2, 2) for _ in range(3)], False))
    return cfgs


def _write_cfg(path, N, maxturns, dir=0):
    with open(path, "w") as f:
        f.write(f"""SPECIFICATION Spec
CONSTANTS
  N = {N}
  MaxTurns = {maxturns}
  Impl = "code"
  Dir = {dir}
INVARIANT TypeOK
INVARIANT AngleTracks
PROPERTY RequeryIdempotent
PROPERTY ResetRestores
CONSTRAINT Bound
""")


def _write_cfg_noreset(path, N, maxturns, dir=0):
    with open(path, "w") as f:
        f.write(f"""SPECIFICATION SpecNoReset
CONSTANTS
  N = {N}
  MaxTurns = {maxturns}
  Impl = "code"
  Dir = {dir}
INVARIANT TypeOK
INVARIANT IndInv
CONSTRAINT Bound
""")


def driven_frame_rates(ctx, rng):
    """the angle rate with a DRIVEN frame as one partner (time-dependent orientation, no velocity coordinates): on the joint manifold the rate of the
    tracked angle along the motion equals l_dot (floats, central differences); both orders of the partners, all axes, oblique bases"""
    from cardillo import System
    from cardillo.discrete import Frame, RigidBody
    from cardillo.constraints import Revolute
    from cardillo.math import Exp_SO3, Spurrier, ax2skew
    from cardillo.solver import SolverOptions

    n = 0
    H = 1e-5
    rv = lambda s=1.0: np.array([rng.uniform(-s, s) for _ in range(3)])
    for order in ("frame-body", "body-frame"):
        for axis in range(3):
            A0, w, r0, v0 = Exp_SO3(rv(1.5)), rv(1.2), rv(), rv()
            Af = lambda t, A0=A0, w=w: A0 @ Exp_SO3(t * w)
            frame = Frame(r_OP=lambda t, r0=r0, v0=v0: r0 + t * v0, r_OP_t=lambda t, v0=v0: v0, r_OP_tt=lambda t: np.zeros(3),
                          A_IB=Af, A_IB_t=lambda t, Af=Af, w=w: Af(t) @ ax2skew(w), A_IB_tt=lambda t, Af=Af, w=w: Af(t) @ ax2skew(w) @ ax2skew(w))
            t0 = 0.0
            A_IJ0 = Exp_SO3(rv(1.5)); A20 = Exp_SO3(rv(1.5)); angle0 = rng.choice([0.0, 0.6])
            body = RigidBody(1.0, np.diag([1.0, 2.0, 3.0]), q0=np.concatenate([r0, Spurrier(A20)]), name=f"b{rng.randrange(10**9)}")
            system = System(t0=t0)
            s1, s2 = (frame, body) if order == "frame-body" else (body, frame)
            joint = Revolute(s1, s2, axis=axis, angle0=angle0, r_OJ0=r0.copy(), A_IJ0=A_IJ0)
            system.add(frame, body, joint)
            system.assemble(options=SolverOptions(compute_consistent_initial_conditions=False))
            e = np.zeros(3); e[axis] = 1.0
            phid = rng.choice([1.3, -0.8]) * (1.0 if order == "frame-body" else -1.0)     # the body turns relative to the frame about the common axis

            def A2(t):
                AJ = Af(t) @ Af(t0).T @ A_IJ0                  # the joint basis carried by the frame
                return AJ @ Exp_SO3(phid * (t - t0) * e) @ A_IJ0.T @ A20

            def qof(t):
                return np.concatenate([r0 + t * v0, Spurrier(A2(t))])

            for t in (0.1, 0.35, 0.6):
                q, qp, qm = qof(t), qof(t + H), qof(t - H)
                W = A2(t).T @ (A2(t + H) - A2(t - H)) / (2 * H)
                u = np.concatenate([v0, 0.5 * np.array([W[2, 1] - W[1, 2], W[0, 2] - W[2, 0], W[1, 0] - W[0, 1]])])
                where = dict(partners=order, axis=axis, t=t, carrier="frame with time-dependent orientation", q=q.tolist(), u=u.tolist())
                try:
                    lm = joint.l(t - H, qm); l = joint.l(t, q); lp = joint.l(t + H, qp)
                    ld = joint.l_dot(t, q, u)
                    rate = (lp - lm) / (2 * H)
                    n += 1
                    expd = phid if order == "frame-body" else -phid
                    if not (abs(rate - ld) <= 1e-6 * (1 + abs(rate))):
                        ctx.violation(f"l_dot:driven-frame:{order}", f"l_dot = {ld!r} but the tracked angle changes at the rate {rate!r} along the motion (relative spin about the axis "
                                      f"{expd!r}) at {where}", where)
                        break
                    if not (abs(rate - expd) <= 1e-6 * (1 + abs(expd))):
                        ctx.violation(f"angle:driven-frame:{order}", f"the tracked angle changes at the rate {rate!r}, the relative spin about the axis is {expd!r} at {where}", where)
                        break
                except Exception as ex:
                    ctx.violation(f"l_dot:driven-frame:{order}:raises:{type(ex).__name__}", f"{type(ex).__name__}: {ex} at {where}", where)
                    break
    return n


def run(ctx):
    ctx.level = "model_checking"
    rng = ctx.rng
    Ns = [8, 12] if not ctx.thorough else [8, 12, 16]
    maxturns = 2 if not ctx.thorough else 3
    tot_states = tot_trans = 0
    traces = 0
    actions = 0
    samples = []
    cov_actions = {}
    for N in Ns:
        cfg = os.path.join(ctx.scratch, f"rev_{N}.cfg")
        _write_cfg(cfg, N, maxturns)
        dot = os.path.join(ctx.scratch, f"rev_{N}")
        r = tlc.run_tlc("RevoluteAngle", cfg, scratch=ctx.scratch, dump_dot=dot, coverage=True, timeout=600)
        tlc.require_ok(r, f"RevoluteAngle N={N}")
        if r.violated:
            ctx.violation(f"spec:{r.violated}", f"TLC: {r.violated} violated in RevoluteAngle (N={N})", {"stdout": r.stdout[-4000:]})
            continue
        # reset-free sub-spec: the inductive invariant (non-vacuous form of AngleTracks)
        cfg2 = os.path.join(ctx.scratch, f"rev_nr_{N}.cfg")
        _write_cfg_noreset(cfg2, N, maxturns)
        r2 = tlc.run_tlc("RevoluteAngle", cfg2, scratch=ctx.scratch, timeout=600)
        tlc.require_ok(r2, f"RevoluteAngle(no reset) N={N}")
        if r2.violated:
            ctx.violation(f"spec:{r2.violated}", f"TLC: {r2.violated} violated (reset-free, N={N})", {"stdout": r2.stdout[-4000:]})
            continue
        tot_states += r.distinct + r2.distinct
        tot_trans += r.generated + r2.generated
        for a, c in r.coverage.items():
            cov_actions[a] = cov_actions.get(a, 0) + c[1]
        g = tlc.parse_dot(dot + ".dot")
        walks, ncov = tlc.edge_cover_walks(g, max_len=80)
        if ncov != len(g.edges):
            raise tlc.MachineryError(f"edge cover incomplete {ncov}/{len(g.edges)}")
        n_ex, n_fl = (3, 1) if not ctx.thorough else (9, 3)
        for wi, (start, walk) in enumerate(walks):
            states = [g.nodes[start]] + [g.nodes[g.edges[e][1]] for e in walk]
            # a fresh sample of joint configurations for each walk; the first three (axis 0,1,2 exact) always
            cfgs = _configs(rng, n_ex if wi % 7 == 0 else 1, n_fl if wi % 7 == 0 else 1)
            if wi % 7 != 0:
                # rotate through axes / modes deterministically
                G = octahedral_group()
                A = G[(wi * 5) % len(G)].astype(float)
                cfgs[0] = (["frame-body", "body-frame", "body-body"][wi % 3], (wi // 3) % 3, A,
                           [0.0, 0.5, -2.0, 7.25][wi % 4], [1, -2, 0], True)
            rp = Replayer(N, cfgs, rng)
            actions += rp.run_walk(states, ctx, wi)
            traces += len(cfgs)
            if len(samples) < 3 and len(walk) > 6:
                samples.append({"N": N, "walk": [g.edges[e][2] for e in walk[:12]],
                                "final_state": {k: v for k, v in states[min(12, len(states) - 1)].items()}})
        ctx.log(f"[C25] N={N}: TLC {r.distinct} states / {len(g.edges)} transitions, {len(walks)} covering walks replayed")
    # long simulated behaviours (multi-turn, both directions)
    N = 16 if ctx.thorough else 12
    num, depth = (4, 300) if not ctx.thorough else (20, 400)
    behs = []
    for dir in (0, 1, 2):
        cfg = os.path.join(ctx.scratch, f"rev_sim{dir}.cfg")
        _write_cfg_noreset(cfg, N, 1000, dir) if dir else _write_cfg(cfg, N, 1000, 0)
        r, bs = tlc.simulate("RevoluteAngle", cfg, scratch=ctx.scratch, num=num, depth=depth, seed=(ctx.seed + dir) % 2**31)
        if r.violated:
            ctx.violation(f"spec:{r.violated}", "TLC simulation found a violated property", {"stdout": r.stdout[-3000:]})
        if not bs:
            raise tlc.MachineryError("no simulated behaviours produced: " + r.stdout[-2000:])
        behs += bs
    maxabs = 0
    for bi, b in enumerate(behs):
        states = [s for _, s in b]
        maxabs = max(maxabs, max(abs(s["k"]) for s in states))
        rp = Replayer(N, _configs(rng, 1, 1), rng)
        actions += rp.run_walk(states, ctx, bi)
        traces += 2
    ctx.log(f"[C25] simulation: {len(behs)} behaviours of depth {depth}, max |k| = {maxabs} sectors of {N}")

    ndriven = driven_frame_rates(ctx, rng)
    ctx.log(f"[C25] driven-frame rate checks: {ndriven}")
    ctx.coverage = {
        "states": tot_states,
        "transitions": tot_trans,
        "traces_validated_against_impl": traces,
        "actions_replayed": actions,
        "samples": samples,
        "exhaustive": True,
        "tlc_action_coverage": cov_actions,
        "simulated_behaviours": len(behs),
        "simulation_depth": depth,
        "max_turns_reached_in_simulation": maxabs / N,
        "rule": "every transition of TLC's bounded state graph (N sectors, |k|<=MaxTurns*N) is replayed at least once "
                "into real Revolute joints (3 subsystem pairings x 3 axes x octahedral/random joint frames x angle0), "
                "plus long simulated behaviours",
    }
    ctx.assumptions = [
        "rotation positions on quadrant boundaries are realised with integer quaternions so x,y are exactly 0/±1",
        "angle compared at 1e-9 relative; tracker state compared exactly except on boundaries of float-frame configs",
        "l_dot oracle: (R(P2) w2 - R(P1) w1) . e_c1 computed by the harness' own quaternion-to-matrix routine",
        "frames with time-dependent orientation as joint partners: rate of the tracked angle along a motion on the joint manifold (central differences, 1e-6) against l_dot and the prescribed relative spin",
    ]


def replay(ctx, path):
    import json

    rec = json.load(open(path))
    rp = rec["replay"]
    ctx.log(json.dumps(rp, indent=1)[:4000])
    run(ctx)
