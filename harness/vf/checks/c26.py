"""C26 Memoised kinematic evaluations are transparent.

Decide: spec/Memo.tla -- LRU memo tables with key projection, read arguments, hidden dependencies, nested
        memoised calls and mutators, for the four families of the code (RigidBody, Sphere2Sphere, Mesh1D,
        CosseratRod).  TLC checks NoStaleHit / AllEntriesCurrent / SizesRespected / KeyCoversReads
        exhaustively; the as_found variant (mutator without invalidation) must be rejected.
Bind:   every transition of the bounded state graphs and simulated behaviours are replayed into TWIN real
        objects: one with its caches as shipped, one with every cache replaced by a zero-size cache
        (= evaluation without memoisation).  After each operation the results are compared bit for bit,
        and the cache contents of the memoising object with the spec's tables (key projection, LRU order).
"""
from __future__ import annotations

import os
import warnings

import numpy as np

from .. import tlc

NOARG = -1


def _flat(x):
    if isinstance(x, (tuple, list)):
        return np.concatenate([_flat(y) for y in x]) if len(x) else np.zeros(0)
    return np.asarray(x, dtype=float).ravel()


def _same(a, b):
    fa, fb = _flat(a), _flat(b)
    return fa.shape == fb.shape and np.array_equal(fa, fb)


def _nocache(obj, names):
    from cachetools import LRUCache

    for n in names:
        setattr(obj, n, LRUCache(maxsize=0))


def _lru_keys(cache):
    """keys of a cachetools LRUCache, least recently used first"""
    order = getattr(cache, "_LRUCache__order", None)
    if order is not None:
        return list(order.keys())
    return list(cache.keys())


# ------------------------------------------------------------------------------------------------
class RigidFamily:
    name = "rigid"
    tables = {"A_IB": "A_IB_cache", "A_IB_q": "A_IB_q_cache", "r_OP": "r_OP_cache", "v_P": "v_P_cache", "J_P": "J_P_cache"}

    def __init__(self, rng, pool, variant="translated"):
        self.variant = variant
        self.t = [0.0, 0.5, 1.25][:pool]
        qa = np.array([rng.uniform(-1, 1) for _ in range(7)])
        # second value: same orientation, different position (a key that drops the position would collide)
        # the same orientation with a quaternion of another length (A_IB is the same, its derivative is not), a pure translation, random states
        qs = qa * np.array([1, 1, 1, 2.0, 2.0, 2.0, 2.0])      # a power of two: the normalised quaternion is bitwise the same
        qt = qa + np.array([0.5, -1.0, 2.0, 0, 0, 0, 0])
        first = [qa, qt, qs] if variant == "translated" else [qa, qs, qt]
        self.q = (first + [np.array([rng.uniform(-1, 1) for _ in range(7)]) for _ in range(pool)])[:pool]
        ua = np.array([rng.uniform(-1, 1) for _ in range(6)])
        self.u = [ua, ua + np.array([1.0, 0, 0, 0, 0, 0])] + [np.array([rng.uniform(-1, 1) for _ in range(6)]) for _ in range(pool - 2)]
        self.b = [np.zeros(3), np.array([0.1, 0.2, -0.3]), np.array([1.0, 0.0, 2.0])][:pool]

    def make(self):
        from cardillo.discrete import RigidBody

        A = RigidBody(2.0, np.diag([1.0, 2.0, 3.0]))
        B = RigidBody(2.0, np.diag([1.0, 2.0, 3.0]))
        _nocache(B, self.tables.values())
        return A, B

    def call(self, o, f, a):
        t, q = self.t[a["t"]], self.q[a["q"]].copy()
        if f in ("A_IB", "A_IB_q"):
            return getattr(o, f)(t, q)
        if f in ("r_OP", "J_P"):
            return getattr(o, f)(t, q, B_r_CP=self.b[a["b"]].copy())
        return o.v_P(t, q, self.u[a["u"]].copy(), B_r_CP=self.b[a["b"]].copy())

    def key(self, f, k):
        """abstract key (dict of pool indices) -> the hash key the code should hold"""
        from cachetools.keys import hashkey

        parts = [self.t[k["t"]], *self.q[k["q"]]]
        if "u" in k:
            parts += [*self.u[k["u"]]]
        if "b" in k:
            parts += [*self.b[k["b"]]]
        return hashkey(*parts)

    def extra(self, o, rng):
        t, q, u, b = self.t[0], self.q[rng.randrange(len(self.q))], self.u[0], self.b[-1]
        ud = self.u[-1]
        return [o.r_OP_q(t, q, B_r_CP=b), o.v_P_q(t, q, u, B_r_CP=b), o.a_P(t, q, u, ud, B_r_CP=b), o.J_P_q(t, q, B_r_CP=b),
                o.kappa_P(t, q, u, B_r_CP=b), o.a_P_u(t, q, u, ud, B_r_CP=b)]

    def mutate(self, objs, last):
        raise AssertionError


class S2SFamily:
    name = "s2s"
    tables = {"n": "n_cache", "n_q1_q2": "n_q1_q2_cache", "t1t2": "t1t2_cache", "t1t2_q1_q2": "t1t2_q1_q2_cache"}

    def __init__(self, rng, pool):
        self.rng = rng
        self.t = [0.0, 0.1, 0.2][:pool]
        self.q0 = np.concatenate([[0.0, 0.0, 0.0, 1.0, 0.0, 0.0, 0.0], [1.0, 0.3, 0.2, 1.0, 0.0, 0.0, 0.0]])
        self.q = [self.q0] + [self.q0 + np.concatenate([[0.1 * (i + 1), -0.2, 0.3 * (i + 1), 0, 0, 0, 0], [0.2, 0.5 * (i + 1), -0.4, 0, 0, 0, 0]])
                              for i in range(pool - 1)]
        self.u = [np.array([rng.uniform(-1, 1) for _ in range(12)]) for _ in range(pool)]

    def _one(self, nocache):
        from cardillo import System
        from cardillo.discrete import RigidBody
        from cardillo.contacts import Sphere2Sphere
        from cardillo.solver import SolverOptions

        s = System()
        b1 = RigidBody(1.0, np.eye(3), q0=self.q0[:7].copy(), name="b1")
        b2 = RigidBody(1.0, np.eye(3), q0=self.q0[7:].copy(), name="b2")
        c = Sphere2Sphere(b1, b2, 0.2, 0.3, mu=getattr(self, "mu", 0.4), e_N=0.0, e_F=0.0)
        if nocache:
            _nocache(c, self.tables.values())
            for b in (b1, b2):
                _nocache(b, RigidFamily.tables.values())
        s.add(b1, b2, c)
        with warnings.catch_warnings():
            warnings.simplefilter("ignore")
            s.assemble(options=SolverOptions(compute_consistent_initial_conditions=False))
        # the assembly itself evaluated memoised functions: start every behaviour from empty tables
        if not nocache:
            for cn in self.tables.values():
                getattr(c, cn).clear()
        return c

    def make(self):
        return self._one(False), self._one(True)

    def call(self, o, f, a):
        return getattr(o, f)(self.t[a["t"]], self.q[a["q"]].copy())

    def key(self, f, k):
        from cachetools.keys import hashkey

        return hashkey(self.t[k["t"]], *self.q[k["q"]])

    def extra(self, o, rng):
        t, q, u = self.t[0], self.q[rng.randrange(len(self.q))], self.u[0]
        if getattr(self, "mu", 0.4) == 0.0:      # a frictionless contact has no friction routines; its tangents can still be asked for
            return [o.g_N_dot(t, q, u), o.g_N_q(t, q), o.W_N(t, q)]
        return [o.gamma_F(t, q, u), o.W_F(t, q), o.g_N_dot(t, q, u), o.gamma_F_q(t, q, u), o.g_N_q(t, q)]

    def mutate(self, objs, last):
        for o in objs:
            if last["op"] == "step_callback":
                a = last["args"]
                o.step_callback(self.t[a["t"]], self.q[a["q"]].copy(), self.u[0].copy())
            else:
                o.assembler_callback()
        A, B = objs
        return _same(A.reference_contact_basis, B.reference_contact_basis)


class S2SFrictionlessFamily(S2SFamily):
    """the boundary value mu = 0: the memo tables of the normal and of the tangents exist all the same"""
    name = "s2s"
    mu = 0.0


class S2SFrameFamily(S2SFamily):
    """Sphere2Sphere between a time-driven Frame (sphere 1) and a rigid body (sphere 2)"""
    name = "s2sf"

    def __init__(self, rng, pool):
        super().__init__(rng, pool)
        self.q0 = np.array([1.0, 0.3, 0.2, 1.0, 0.0, 0.0, 0.0])
        # same coordinates at different times must be distinguishable: pool of q contains q0 twice shifted
        self.q = [self.q0] + [self.q0 + np.array([0.2, 0.5 * (i + 1), -0.4, 0, 0, 0, 0]) for i in range(pool - 1)]
        self.u = [np.array([rng.uniform(-1, 1) for _ in range(6)]) for _ in range(pool)]

    def _one(self, nocache):
        from cardillo import System
        from cardillo.discrete import RigidBody, Frame
        from cardillo.contacts import Sphere2Sphere
        from cardillo.solver import SolverOptions

        s = System()
        fr = Frame(r_OP=lambda t: np.array([-1.0 + 3.0 * t, 0.5 * t, 0.0]), r_OP_t=lambda t: np.array([3.0, 0.5, 0.0]),
                   r_OP_tt=lambda t: np.zeros(3), name="driven")
        b2 = RigidBody(1.0, np.eye(3), q0=self.q0.copy(), name="b2")
        c = Sphere2Sphere(fr, b2, 0.2, 0.3, mu=0.4, e_N=0.0, e_F=0.0)
        if nocache:
            _nocache(c, self.tables.values())
            _nocache(b2, RigidFamily.tables.values())
        s.add(fr, b2, c)
        with warnings.catch_warnings():
            warnings.simplefilter("ignore")
            s.assemble(options=SolverOptions(compute_consistent_initial_conditions=False))
        if not nocache:
            for cn in self.tables.values():
                getattr(c, cn).clear()
        return c


class MeshFamily:
    name = "mesh"
    tables = {"eval_basis": "_eval_basis_cache"}

    def __init__(self, rng, pool):
        self.xi = [0.25, 0.5, 0.75][:pool]
        self.el = [None, 0, 1][:pool]

    def make(self):
        from cardillo.rods.discretization.lagrange import LagrangeKnotVector
        from cardillo.rods.discretization.mesh1D import Mesh1D

        def one():
            kv = LagrangeKnotVector(2, 2)
            return Mesh1D(kv, 3, dim_q=3, derivative_order=1, basis="Lagrange", quadrature="Gauss")
        A, B = one(), one()
        A._eval_basis_cache.clear()
        _nocache(B, self.tables.values())
        self.size = A._eval_basis_cache.maxsize
        # a third live mesh of the same degree and element count on ANOTHER partition: it is asked for the same (xi, el) right before every call
        self.sibling = Mesh1D(LagrangeKnotVector(2, 2, data=np.array([0.0, 0.3, 1.0])), 3, dim_q=3, derivative_order=1, basis="Lagrange", quadrature="Gauss")
        return A, B

    def call(self, o, f, a):
        try:
            self.sibling.eval_basis(self.xi[a["xi"]], self.el[a["el"]])
        except Exception:
            pass
        return o.eval_basis(self.xi[a["xi"]], self.el[a["el"]])

    def key(self, f, k):
        from cachetools.keys import hashkey

        return hashkey(self.xi[k["xi"]], self.el[k["el"]])

    def extra(self, o, rng):
        return [o.eval_basis(0.1), o.eval_basis(1.0), o.eval_basis(0.5, 1)]

    def mutate(self, objs, last):
        raise AssertionError


class RodFamily:
    name = "rod"
    tables = {"eval": "_eval_cache", "deval": "_deval_cache"}

    def __init__(self, rng, pool):
        self.rng = rng
        self.pool = pool
        self.xi = [0.1, 0.3, 0.45][:pool]
        self.b = np.array([0.0, 0.1, -0.2])

    def make(self):
        from cardillo.rods import RectangularCrossSection, Simo1986
        from cardillo.rods.cosseratRod import make_CosseratRod

        def one():
            Rod = make_CosseratRod(interpolation="Quaternion", mixed=False, polynomial_degree=2)
            cs = RectangularCrossSection(0.1, 0.1)
            mat = Simo1986(np.array([5.0, 1.0, 1.0]), np.array([0.5, 0.1, 0.1]))
            Q = Rod.straight_configuration(2, 1.0)
            return Rod(cs, mat, 2, Q=Q)
        with warnings.catch_warnings():
            warnings.simplefilter("ignore")
            A, B = one(), one()
        for cn in self.tables.values():
            getattr(A, cn).clear()
        _nocache(B, self.tables.values())
        self.size = A._eval_cache.maxsize
        el = 0
        qe0 = A.Q[A.elDOF[el]].copy()
        rng = self.rng
        self.q = [qe0] + [qe0 + 0.05 * np.array([rng.uniform(-1, 1) for _ in range(len(qe0))]) for _ in range(self.pool - 1)]
        self.ue = np.array([rng.uniform(-1, 1) for _ in range(len(A.elDOF_u[el]))])
        return A, B

    def call(self, o, f, a):
        t, qe, xi = 0.0, self.q[a["q"]].copy(), self.xi[a["xi"]]
        if f == "eval":
            return o.r_OP(t, qe, xi, B_r_CP=self.b)
        return o.r_OP_q(t, qe, xi, B_r_CP=self.b)

    def key(self, f, k):
        from cachetools.keys import hashkey

        return hashkey(*self.q[k["q"]], self.xi[k["xi"]])

    def extra(self, o, rng):
        qe, xi = self.q[rng.randrange(len(self.q))], self.xi[0]
        return [o.A_IB(0.0, qe, xi), o.r_OP(0.0, qe, xi), o.v_P(0.0, qe, self.ue, xi, B_r_CP=self.b), o.J_P(0.0, qe, xi, B_r_CP=self.b),
                o.r_OP(0.0, qe, xi, B_r_CP=self.b)]

    def mutate(self, objs, last):
        raise AssertionError


def _fresh(self):
    """a twin pair in the state right after construction: reuse the objects, empty their tables and
    (Sphere2Sphere) recompute the reference basis from the initial configuration"""
    pair = getattr(self, "_pair", None)
    if pair is None:
        pair = self._pair = self.make()
    A, B = pair
    if self.name == "s2s":
        A.assembler_callback()
        B.assembler_callback()
    for cn in self.tables.values():
        getattr(A, cn).clear()
    return A, B


for _F in (RigidFamily, S2SFamily, S2SFrameFamily, MeshFamily, RodFamily):
    _F.fresh = _fresh

FAMILIES = {"rigid": RigidFamily, "s2s": S2SFamily, "s2s0": S2SFrictionlessFamily, "s2sf": S2SFrameFamily, "mesh": MeshFamily, "rod": RodFamily}


def _abstract_args(a):
    if isinstance(a, list):
        raise tlc.MachineryError("unexpected sequence for args")
    return {k: v for k, v in a.items() if v != NOARG}


def replay_beh(fam, states, ctx, rng, counters):
    """replay one behaviour into a fresh twin pair"""
    with warnings.catch_warnings():
        warnings.simplefilter("ignore")
        A, B = fam.fresh()
    hist = []
    for st in states[1:]:
        last = st["last"]
        op = last["op"]
        if op == "call":
            f = last["f"]
            a = _abstract_args(last["args"])
            hist.append([f, a])
            rep = {"family": fam.name, "history": hist}
            try:
                ra = fam.call(A, f, a)
                rb = fam.call(B, f, a)
            except Exception as ex:
                ctx.violation(f"{fam.name}:{f}:raises", f"{f}{a} raised {type(ex).__name__}: {ex} after {hist[:-1]}", rep)
                return
            counters["calls"] += 1
            if not _same(ra, rb):
                ctx.violation(f"{fam.name}:{f}:stale", f"memoised {f}{a} differs from the unmemoised evaluation after {hist[:-1]} "
                              f"(max diff {np.max(np.abs(_flat(ra) - _flat(rb))) if _flat(ra).shape == _flat(rb).shape else 'shape'})", rep)
                return
        else:
            hist.append([op, _abstract_args(last.get("args", {})) if "args" in last else {}])
            rep = {"family": fam.name, "history": hist}
            try:
                ok = fam.mutate((A, B), last)
            except Exception as ex:
                ctx.violation(f"{fam.name}:{op}:raises", f"{op} raised {type(ex).__name__}: {ex} after {hist[:-1]}", rep)
                return
            counters["mutations"] += 1
            if not ok:
                ctx.violation(f"{fam.name}:{op}:state", f"hidden state of the memoising object differs from the unmemoised twin after {hist}", rep)
                return
        # cache contents of the memoising object against the spec tables
        for tname, cattr in fam.tables.items():
            spec_entries = st["cache"][tname]
            exp = [fam.key(tname, e["key"]) for e in spec_entries]
            got = _lru_keys(getattr(A, cattr))
            if got != exp:
                if sorted(map(repr, got)) == sorted(map(repr, exp)):
                    counters["lru_order_diff"] += 1      # same entries, different recency order: not observable
                    continue
                # informative only: a different table size or invalidation strategy is still transparent
                counters["cache_content_diff"] += 1
                counters.setdefault("cache_content_diff_tables", set()).add(f"{fam.name}.{tname}")
    # extra public evaluations that go through the caches: twin comparison only
    try:
        state = rng.getstate()
        ea = fam.extra(A, rng)
        rng.setstate(state)
        eb = fam.extra(B, rng)
    except Exception as ex:
        ctx.violation(f"{fam.name}:extra:raises", f"public evaluation raised {type(ex).__name__}: {ex} after {hist}", {"family": fam.name, "history": hist})
        return
    for i, (x, y) in enumerate(zip(ea, eb)):
        if not _same(x, y):
            ctx.violation(f"{fam.name}:extra{i}:stale", f"public evaluation #{i} through the caches differs from the unmemoised twin after {hist}",
                          {"family": fam.name, "history": hist})
            return
    counters["behaviours"] += 1


def _cfg(path, fam, pool, maxops, impl, meshsize=3, rodsize=13):
    with open(path, "w") as f:
        f.write(f"""SPECIFICATION Spec
CONSTANTS
  Family = "{fam}"
  Pool = {pool}
  MaxOps = {maxops}
  Impl = "{impl}"
  MeshSize = {meshsize}
  RodSize = {rodsize}
INVARIANT NoStaleHit
INVARIANT AllEntriesCurrent
INVARIANT SizesRespected
INVARIANT KeyCoversReads
""")


def run(ctx):
    ctx.level = "model_checking"
    rng = ctx.rng
    states = trans = traces = 0
    counters = {"calls": 0, "mutations": 0, "behaviours": 0, "lru_order_diff": 0, "cache_content_diff": 0}
    samples = []
    plan = {  # family -> (pool, ops for the replayed graph, ops for the design check)
        "rigid": (2, 2, 4), "rigid#scaled": (2, 2, 4), "s2s": (2, 3, 5), "s2s0": (2, 3, 4), "s2sf": (2, 3, 4), "mesh": (3, 3, 5), "rod": (2, 3, 5),
    }
    if ctx.thorough:
        # (a pool of three rigid-body states makes the replayed graph explode to millions of walks: deeper histories over two states instead)
        plan = {"rigid": (2, 3, 5), "rigid#scaled": (2, 3, 5), "s2s": (2, 4, 6), "s2s0": (2, 4, 5), "s2sf": (2, 4, 5), "mesh": (3, 4, 6), "rod": (2, 4, 6)}
    for famkey, (pool, gops, dops) in plan.items():
        famname, _, variant = famkey.partition("#")
        fam = FAMILIES[famname](rng, pool, variant) if variant else FAMILIES[famname](rng, pool)
        famname = getattr(fam, "name", famname)       # the family of Memo.tla this object family is an instance of (s2s0 -> s2s)
        with warnings.catch_warnings():
            warnings.simplefilter("ignore")
            fam.make()    # learn the real cache sizes
        meshsize = getattr(fam, "size", 3) if famname == "mesh" else 3
        rodsize = getattr(fam, "size", 13) if famname == "rod" else 13
        # design check, deeper, no dump
        cfg = os.path.join(ctx.scratch, f"memo_{famname}_d.cfg")
        _cfg(cfg, famname, pool, dops, "intended", meshsize, rodsize)
        r = tlc.run_tlc("Memo", cfg, scratch=ctx.scratch, timeout=2400)
        tlc.require_ok(r, f"Memo {famname} design")
        if r.violated:
            ctx.violation(f"spec:{famname}:{r.violated}", f"TLC: {r.violated} violated in Memo[{famname}]", {"stdout": r.stdout[-3000:]})
        states += r.distinct
        trans += r.generated
        # replayed graph
        cfg = os.path.join(ctx.scratch, f"memo_{famname}_g.cfg")
        _cfg(cfg, famname, pool, gops, "intended", meshsize, rodsize)
        dot = os.path.join(ctx.scratch, f"memo_{famname}")
        rg = tlc.run_tlc("Memo", cfg, scratch=ctx.scratch, dump_dot=dot, timeout=2400)
        tlc.require_ok(rg, f"Memo {famname} graph")
        g = tlc.parse_dot(dot + ".dot")
        walks, ncov = tlc.edge_cover_walks(g, max_len=gops + 1)
        if len(walks) > 40000:          # keep the replay within minutes: a seeded sample of the edge cover
            rng.shuffle(walks)
            walks = walks[:40000]
        for (start, walk) in walks:
            sts = [g.nodes[start]] + [g.nodes[g.edges[e][1]] for e in walk]
            replay_beh(fam, sts, ctx, rng, counters)
            traces += 1
        if len(samples) < 4 and walks:
            w = walks[len(walks) // 2]
            samples.append({"family": famkey, "ops": [g.edges[e][2] for e in w[1]]})
        states += rg.distinct
        trans += rg.generated
        ctx.log(f"[C26] {famkey}: design {r.distinct} states (depth {r.depth}); graph {rg.distinct} states, {len(g.edges)} transitions, "
                f"{len(walks)} walks replayed into twin objects")
        # long simulated behaviours
        num, depth = (10, 40) if not ctx.thorough else (60, 60)
        cfg = os.path.join(ctx.scratch, f"memo_{famname}_s.cfg")
        _cfg(cfg, famname, pool, depth, "intended", meshsize, rodsize)
        rs, behs = tlc.simulate("Memo", cfg, scratch=ctx.scratch, num=num, depth=depth + 1, seed=ctx.seed % 2**31, timeout=1200)
        if rs.violated:
            ctx.violation(f"spec:{famname}:{rs.violated}", "TLC simulation: property violated", {"stdout": rs.stdout[-3000:]})
        for b in behs:
            replay_beh(fam, [s for _, s in b], ctx, rng, counters)
            traces += 1
    # the as-found design (mutator without invalidation) must be rejected by TLC
    cfg = os.path.join(ctx.scratch, "memo_asfound.cfg")
    _cfg(cfg, "s2s", 2, 4, "as_found")
    ra = tlc.run_tlc("Memo", cfg, scratch=ctx.scratch, timeout=600)
    if not ra.violated:
        raise tlc.MachineryError("as_found variant of Memo[s2s] not rejected by TLC: invariants vacuous")
    ctx.coverage = {"states": states, "transitions": trans, "traces_validated_against_impl": traces, "samples": samples,
                    "exhaustive": True, **counters,
                    "rule": "all interleavings of memoised calls over argument pools of 2-3 values and of the mutators, up to the bound; "
                            "every transition replayed into a memoising object and its zero-cache twin"}
    ctx.assumptions = ["a zero-size LRUCache makes cachetools.cachedmethod evaluate without memoisation",
                       "recency order inside a table is compared but a pure order difference is not a violation",
                       "rod _eval/_deval are exercised through r_OP / r_OP_q with a body-fixed offset on element 0"]


def replay(ctx, path):
    run(ctx)
