"""C15 Sparse COO assembly accumulates exactly.

Decide: spec/Coo.tla -- TLC checks that the triplet list built the way __setitem__ builds it always means
        the dense sum of the written blocks (AccumulatesExactly), indices stay in range, rejected writes and
        None leave the container unchanged; the Python slice semantics are part of the spec.
Bind:   every write form of the catalogue (exhaustive, from TLC's state graph) and long simulated write
        sequences are replayed into real CooMatrix objects; after every write all conversions
        (toarray, tocoo, tocsr, tocsc, asformat) are compared with the spec's dense accumulator, and a
        rejected write must raise and leave every conversion unchanged.
"""
from __future__ import annotations

import os
from concurrent.futures import ThreadPoolExecutor

import numpy as np

from .. import tlc

NONE = "None"


def _val(fam, i, j, nc):
    if fam == "pos":
        return 1 + i * nc + j
    if fam == "neg":
        return -(1 + i * nc + j)
    return 0 if (i + j) % 2 == 0 else 2


UNIT = 1.0      # block entries are the spec's integers times UNIT (a power of two per behaviour: the same matrix in other units, exact sums)


def _dense_block(fam, nr, nc):
    b = np.zeros((nr, nc))
    for i in range(nr):
        for j in range(nc):
            b[i, j] = _val(fam, i, j, nc)
    return b * UNIT


LAYOUT_RNG = None      # set by run(): the same logical block arrives in different memory layouts


def _layout(d, rng):
    """the dense block d as an array with the same values and another memory layout: C or Fortran ordered, a transposed, strided, reversed or
    offset view of a larger array (what slicing and transposing Jacobians produces)"""
    if rng is None or d.size == 0:
        return d
    nr, nc = d.shape
    k = rng.randrange(8)
    if k == 0:
        return d
    if k == 1:
        return np.asfortranarray(d)
    if k == 2:                                   # transposed view of a larger C-ordered array: column-major in memory, not F-contiguous
        B = np.full((nc + 2, nr + 1), 99.0); B[:nc, :nr] = d.T
        return B.T[:nr, :nc]
    if k == 3:                                   # every second row and column of a larger array
        B = np.full((2 * nr, 2 * nc), 99.0); B[::2, ::2] = d
        return B[::2, ::2]
    if k == 4:                                   # rows reversed
        B = np.ascontiguousarray(d[::-1])
        return B[::-1]
    if k == 5:                                   # inner block of a Fortran-ordered array
        B = np.asfortranarray(np.full((nr + 2, nc + 2), 99.0)); B[1:nr + 1, 1:nc + 1] = d
        return B[1:nr + 1, 1:nc + 1]
    if k == 6:                                   # columns reversed in a transposed array
        B = np.ascontiguousarray(d.T[::-1])
        return B[::-1].T
    return np.array(d.tolist(), dtype=np.int64) if (np.all(d == np.round(d)) and np.max(np.abs(d), initial=0.0) < 2 ** 50) else d      # integer dtype


def _none(v):
    return None if v == NONE else v


def _index(ix, rng):
    f = ix["form"]
    if f == "arr":
        a = list(ix["arr"])
        c = rng.randrange(3)
        return np.array(a, dtype=int) if c == 0 else (a if c == 1 else np.array(a, dtype=np.int32))
    if f == "int":
        return int(ix["i"]) if rng.randrange(2) else np.int64(ix["i"])
    return slice(_none(ix["start"]), _none(ix["stop"]), _none(ix["step"]))


def _value(kind, fam, nr, nc):
    from scipy.sparse import coo_array, csr_array, csc_array
    from cardillo.utility.coo_matrix import CooMatrix

    d = _dense_block(fam, nr, nc)
    if kind == "dense":
        return _layout(d, LAYOUT_RNG)
    if kind == "sparse_coo":
        return coo_array(d)
    if kind == "sparse_csr":
        return csr_array(d)
    if kind == "sparse_csc":
        return csc_array(d)
    if kind == "sparse_dup":
        rows, cols, data = [], [], []
        for i in range(nr):
            for j in range(nc):
                rows.append(i); cols.append(j); data.append(d[i, j])
        if nr > 0:
            for j in range(nc):
                rows.append(0); cols.append(j); data.append(d[0, j])
        return coo_array((np.array(data, dtype=float), (np.array(rows, dtype=int), np.array(cols, dtype=int))), shape=(nr, nc))
    inner = CooMatrix((nr, nc))
    if kind == "nested_empty":
        return inner
    inner[np.arange(nr), np.arange(nc)] = d
    if kind == "nested_dup" and nr > 0:
        inner[0, np.arange(nc)] = d[0:1, :]
    return inner


def _acc_array(acc, shape):
    a = np.zeros(shape)
    for (i, j), v in acc.items():
        a[i, j] = v
    return a * UNIT


def _conversions(coo):
    out = {}
    out["toarray"] = coo.toarray()
    out["tocoo"] = coo.tocoo().toarray()
    out["tocsr"] = coo.tocsr().toarray()
    out["tocsc"] = coo.tocsc().toarray()
    out["asformat_csr"] = coo.asformat("csr").toarray()
    out["asformat_array"] = coo.asformat("array")
    return out


def apply_write(coo, last, rng, held=None):
    """Perform the write described by the spec's `last` record; returns 'ok' or 'rejected' (raised)."""
    op = last["op"]
    if op == "poke":
        kid = held["kid"]
        kid[np.arange(kid.shape[0]), np.arange(kid.shape[1])] = _dense_block(last["fam"], kid.shape[0], kid.shape[1])
        return "ok"
    r = _index(last["rix"], rng)
    c = _index(last["cix"], rng)
    if op == "none":
        coo[r, c] = None
        return "ok"
    if op == "vector":
        v = np.array([_val(last["fam"], 0, j, last["n"]) for j in range(last["n"])], dtype=float) * UNIT
        try:
            coo[r, c] = v
        except Exception:
            return "rejected"
        return "ok"
    v = _value(last["kind"], last["fam"], last["nr"], last["nc"])
    try:
        coo[r, c] = v
    except Exception:
        return "rejected"
    if held is not None and op == "write" and last["kind"].startswith("nested"):
        held["kid"] = v          # the caller keeps the nested container
    return "ok"


def replay_behaviour(states, ctx, rng, tag):
    """states: list of spec states, states[0] the initial one.  Returns number of writes replayed."""
    from cardillo.utility.coo_matrix import CooMatrix

    global UNIT
    UNIT = rng.choice([1.0, 1.0, 2.0 ** -60, 2.0 ** 40])
    shape = tuple(states[0]["shape"])
    coo = CooMatrix(shape)
    hist = [{"unit": UNIT}]
    n = 0
    held = {"kid": None}
    for st in states[1:]:
        last = st["last"]
        hist.append(last)
        exp_outcome = last.get("outcome", "ok")
        try:
            got = apply_write(coo, last, rng, held)
        except Exception as ex:  # raised while building the value: harness problem
            raise tlc.MachineryError(f"cannot build write {last}: {type(ex).__name__}: {ex}")
        if got != exp_outcome:
            ctx.violation(f"{last['op']}:{last.get('kind', '')}:outcome",
                          f"write {_short(last)} on shape {shape}: implementation {got}, spec {exp_outcome}",
                          {"shape": shape, "history": hist})
            return n
        ref = _acc_array(st["acc"], shape)
        try:
            conv = _conversions(coo)
        except Exception as ex:
            ctx.violation(f"{last['op']}:{last.get('kind', '')}:convert-raises",
                          f"conversion raised {type(ex).__name__}: {ex} after {_short(last)}", {"shape": shape, "history": hist})
            return n
        for name, arr in conv.items():
            if arr.shape != ref.shape or not np.array_equal(arr, ref):
                ctx.violation(f"{last['op']}:{last.get('kind', '')}:{_ixform(last)}",
                              f"{name} differs from the dense sum after {_short(last)} on shape {shape}: got {arr.tolist()} expected {ref.tolist()}",
                              {"shape": shape, "history": hist, "conversion": name})
                return n
        # the nested container the caller still holds keeps its own meaning
        kd = st.get("kid")
        if held["kid"] is not None and kd and kd["nr"] > 0 and kd["nc"] > 0:
            kref = _acc_array(kd["acc"], (kd["nr"], kd["nc"]))
            try:
                karr = held["kid"].toarray()
            except Exception as ex:
                ctx.violation(f"{last['op']}:{last.get('kind', '')}:held-child:convert-raises", f"converting the nested container the caller holds raised {type(ex).__name__}: {ex} after {_short(last)}",
                              {"shape": shape, "history": hist})
                return n
            if karr.shape != kref.shape or not np.array_equal(karr, kref):
                ctx.violation(f"{last['op']}:{last.get('kind', '')}:held-child", f"the nested container the caller still holds changed its meaning after {_short(last)} on shape {shape}: "
                              f"{karr.tolist()}, expected {kref.tolist()}", {"shape": shape, "history": hist})
                return n
        n += 1
    return n


def _ixform(last):
    return last["rix"]["form"] + "/" + last["cix"]["form"] if "rix" in last else "-"


def _short(last):
    def ix(d):
        if d["form"] == "arr":
            return str(list(d["arr"]))
        if d["form"] == "int":
            return str(d["i"])
        return f"slice({d['start']},{d['stop']},{d['step']})"
    if last["op"] == "poke":
        return f"a write (family {last['fam']}) into the nested container handed in before"
    return f"{last['op']}[{ix(last['rix'])},{ix(last['cix'])}] kind={last.get('kind')} fam={last.get('fam')} block={last.get('nr')}x{last.get('nc')}"


def _cfg(path, M, N, mode, maxw, idx, group, pick="all"):
    with open(path, "w") as f:
        f.write(f"""SPECIFICATION Spec
CONSTANTS
  MaxM = {M}
  MaxN = {N}
  ShapeMode = "{mode}"
  MaxWrites = {maxw}
  IdxMode = "{idx}"
  None = None
  Group = {group}
  Pick = "{pick}"
INVARIANT TypeOK
INVARIANT AccumulatesExactly
INVARIANT IndicesInRange
PROPERTY RejectedUnchanged
PROPERTY KidIndependent
""")


def run(ctx):
    global LAYOUT_RNG
    ctx.level = "model_checking"
    rng = ctx.rng
    LAYOUT_RNG = rng
    states = trans = 0
    traces = writes = 0
    samples = []
    # --- exhaustive catalogue, one write from the empty container -----------------------------------
    jobs = []
    if ctx.thorough:
        for (M, N) in [(2, 3), (3, 2), (1, 1)]:
            for g in (1, 2, 3, 4):
                jobs.append((M, N, "one", 1, "full", g))
    else:
        jobs.append((2, 3, "one", 1, "reduced", 0))
        jobs.append((3, 1, "one", 1, "full", 1))
    def one(job):
        M, N, mode, maxw, idx, g = job
        cfg = os.path.join(ctx.scratch, f"coo_{M}{N}{idx}{g}.cfg")
        _cfg(cfg, *job)
        dot = os.path.join(ctx.scratch, f"coo_{M}{N}{idx}{g}")
        r = tlc.run_tlc("Coo", cfg, scratch=ctx.scratch, dump_dot=dot, workers=4, timeout=1500)
        return job, r, dot
    with ThreadPoolExecutor(6) as ex:
        results = list(ex.map(one, jobs))
    for job, r, dot in results:
        tlc.require_ok(r, f"Coo {job}")
        if r.violated:
            ctx.violation(f"spec:{r.violated}", f"TLC: {r.violated} violated in Coo {job}", {"stdout": r.stdout[-3000:]})
            continue
        states += r.distinct
        trans += r.generated
        g = tlc.parse_dot(dot + ".dot")
        for (s, d, lab) in g.edges:
            writes += replay_behaviour([g.nodes[s], g.nodes[d]], ctx, rng, "exh")
            traces += 1
        ctx.log(f"[C15] exhaustive {job}: {r.distinct} states, {len(g.edges)} single-write behaviours replayed")
    # --- aliasing histories: every sequence of up to three writes of nested containers, dense blocks and writes into the held child -------
    for (M, N) in ([(2, 2), (1, 3)] if ctx.thorough else [(2, 2)]):
        job = (M, N, "one", 3, "alias", 5)
        _, r, dot = one(job)
        tlc.require_ok(r, f"Coo {job}")
        if r.violated:
            ctx.violation(f"spec:{r.violated}", f"TLC: {r.violated} violated in Coo {job}", {"stdout": r.stdout[-3000:]})
            continue
        states += r.distinct; trans += r.generated
        g = tlc.parse_dot(dot + ".dot")
        succ = {}
        for (s_, d_, lab) in g.edges:
            succ.setdefault(s_, []).append(d_)
        has_pred = {d_ for (_, d_, _) in g.edges}
        roots = [nid for nid in g.nodes if nid not in has_pred]
        npaths = 0
        stack = [[rt] for rt in roots]
        while stack:
            path = stack.pop()
            nxt = succ.get(path[-1], [])
            if not nxt or len(path) > 3:
                if len(path) > 1:
                    writes += replay_behaviour([g.nodes[x] for x in path], ctx, rng, "alias")
                    traces += 1; npaths += 1
                continue
            for d_ in nxt:
                stack.append(path + [d_])
        ctx.log(f"[C15] aliasing histories {job}: {r.distinct} states, {npaths} complete write sequences replayed")
    # --- simulated long write sequences on larger shapes --------------------------------------------
    M, N, depth, num = (4, 5, 40, 30) if not ctx.thorough else (5, 5, 41, 300)
    cfg = os.path.join(ctx.scratch, "coo_sim.cfg")
    _cfg(cfg, M, N, "all", depth, "sim", 0, "random")
    r, behs = tlc.simulate("Coo", cfg, scratch=ctx.scratch, num=num, depth=depth + 1, seed=ctx.seed % 2**31, timeout=1500)
    if r.violated:
        ctx.violation(f"spec:{r.violated}", "TLC simulation: property violated", {"stdout": r.stdout[-3000:]})
    if not behs:
        raise tlc.MachineryError("no simulated Coo behaviours: " + r.stdout[-1500:])
    lens = []
    for b in behs:
        sts = [s for _, s in b]
        writes += replay_behaviour(sts, ctx, rng, "sim")
        traces += 1
        lens.append(len(sts) - 1)
        if len(samples) < 2:
            samples.append({"shape": sts[0]["shape"], "writes": [_short(s["last"]) for s in sts[1:6]]})
    ctx.log(f"[C15] simulation: {len(behs)} write sequences, lengths {min(lens)}..{max(lens)} on shapes up to {M}x{N}")
    ctx.coverage = {
        "states": states, "transitions": trans, "traces_validated_against_impl": traces,
        "writes_replayed": writes, "samples": samples, "exhaustive": True,
        "rule": "exhaustive: every write form of the catalogue (index forms x value kinds x value families, consistent and "
                "inconsistent shapes, None) from the empty container; aliasing histories: every sequence of up to 3 writes of {nested container, dense block} x {all, identity array, "
                "1:, 0} index forms and writes into the nested container the caller still holds; simulation: random write sequences up to 40 writes with overlaps",
    }
    ctx.assumptions = ["block entries are small integers so float sums are exact", "any exception counts as 'rejected'",
                       "triplet order inside the container is not compared (only conversions are observable)",
                       "a dense block arrives in one of eight memory layouts chosen at random (C, Fortran, transposed / strided / reversed / offset views, integer dtype): its meaning does not depend on it"]


def replay(ctx, path):
    run(ctx)
