"""C17 Integrators keep bilateral constraints and unit quaternions at every step.

Decide: spec/Scheme.tla -- the table of residual blocks every integrator enforces at which point of a step (RATTLE: g and g_dot at the
        stored state; backward Euler, dual Stoermer-Verlet: g; Moreau: g_dot at the midpoint configuration; stabilised DAE wrapper: g,
        g_dot, no drift; ODE wrapper: equations of motion and g_ddot with the reported accelerations/multipliers; unit quaternions for
        solvers that normalise) and the verdict per recorded step.
Bind:   (code -> spec) seeded random open and closed chains (revolute, spherical, cylindrical, prismatic, rigid joints, fixed-distance
        closures, point-mass pendulums, force laws in force and compliance form) are simulated with all six solvers at step sizes over two
        decades; for every stored step the harness evaluates the residual blocks with System methods, classifies them and TLC evaluates
        the table on every record.  Exploration by trace validation: the decisive comparison is a float threshold.
"""
from __future__ import annotations

import contextlib
import io
import warnings

import numpy as np

from .. import tlc
from ..cases import check_only
from ..lattice import quat_to_matrix
from ..runs import batch_validate
from ..scenarios import rand_unit_quat

TOL = 1e-10


@contextlib.contextmanager
def _quiet():
    with contextlib.redirect_stdout(io.StringIO()), contextlib.redirect_stderr(io.StringIO()):
        yield


def _opts():
    from cardillo.solver import SolverOptions

    return SolverOptions(newton_atol=TOL, newton_rtol=TOL, fixed_point_atol=TOL, fixed_point_rtol=TOL, newton_max_iter=30)


def gen_system(rng, fast=False):
    """random open / closed chain hinged at the origin with consistent initial velocities"""
    from cardillo import System
    from cardillo.discrete import RigidBody, PointMass
    from cardillo.constraints import Revolute, Spherical, RigidConnection, Cylindrical, Prismatic, FixedDistance
    from cardillo.force_laws import Spring, KelvinVoigtElement
    from cardillo.interactions import TwoPointInteraction
    from cardillo.forces import Force

    system = System()
    desc = []
    kind0 = rng.choice(["chain", "chain", "closed", "pointmass", "driven"]) if not fast else "chain"
    Th = np.diag([0.02, 0.09, 0.09])
    if rng.random() < 0.5:
        # the inertia tensor given in a body basis that is not principal (products of inertia): the mass matrix is not diagonal
        from cardillo.math import Exp_SO3 as _Exp
        Rp = _Exp(np.array([rng.uniform(-1, 1) for _ in range(3)]))
        Th = Rp @ np.diag([0.02, 0.07, 0.09]) @ Rp.T
        Th = 0.5 * (Th + Th.T)
        desc.append("products of inertia")
    L = 1.0
    if kind0 == "pointmass":
        # point-mass pendulum(s): spherical pendulum on a fixed-distance constraint, optionally a second mass
        r0 = np.array([0.6, 0.0, -0.8])
        v0 = np.cross(np.array([0.3, 1.0, 0.2]), r0)          # perpendicular to r0
        pm = PointMass(1.0, q0=r0, u0=v0, name="pm0")
        system.add(pm, FixedDistance(system.origin, pm), Force(np.array([0, 0, -9.81]), pm, name="g0"))
        desc.append("pm-fixed-distance")
        if rng.random() < 0.5:
            pm2 = PointMass(0.5, q0=r0 + np.array([0.0, 0.5, 0.0]), u0=v0.copy(), name="pm1")
            system.add(pm2, FixedDistance(pm, pm2), Force(np.array([0, 0, -9.81 * 0.5]), pm2, name="g1"))
            desc.append("pm-pm-fixed-distance")
        if rng.random() < 0.5:
            system.add(Spring(TwoPointInteraction(system.origin, pm, B_r_CP1=np.array([1.0, 0, 0])), 8.0, l_ref=1.0, compliance_form=rng.random() < 0.6, name="sp"))
            desc.append("spring")
        system.assemble(options=_opts())
        return system, desc
    if kind0 == "driven":
        # a link hinged to a frame whose prescribed motion starts late (at rest during the first steps) and is smooth afterwards
        from cardillo.discrete import Frame
        ts, T = 0.004, 0.05
        amp = np.array([rng.uniform(0.2, 0.6), rng.uniform(-0.5, 0.5), rng.uniform(-0.3, 0.3)])
        def s0(t):
            x = min(max((t - ts) / T, 0.0), 1.0)
            return 10 * x**3 - 15 * x**4 + 6 * x**5
        def s1(t):
            x = (t - ts) / T
            return 0.0 if x <= 0 or x >= 1 else (30 * x**2 - 60 * x**3 + 30 * x**4) / T
        def s2(t):
            x = (t - ts) / T
            return 0.0 if x <= 0 or x >= 1 else (60 * x - 180 * x**2 + 120 * x**3) / T**2
        frame = Frame(r_OP=lambda t: amp * s0(t), r_OP_t=lambda t: amp * s1(t), r_OP_tt=lambda t: amp * s2(t), name="driver")
        P = rand_unit_quat(rng)
        A = quat_to_matrix(P)
        link = RigidBody(1.0, Th, q0=np.concatenate([A @ np.array([0.5 * L, 0, 0]), P]), u0=np.zeros(6), name="link0")
        if rng.random() < 0.5:
            j = Revolute(frame, link, axis=rng.randrange(3), r_OJ0=np.zeros(3), A_IJ0=A.copy(), name="rev0")
        else:
            j = Spherical(frame, link, r_OJ0=np.zeros(3), name="sph0")
        system.add(frame, link, j, Force(np.array([0.0, 0.0, -9.81]), link, name="grav0"))
        desc.append("driven-" + type(j).__name__)
        system.assemble(options=_opts())
        return system, desc
    nl = rng.randint(1, 3) if not fast else 2
    at_rest = kind0 == "closed"
    joint_pos = np.zeros(3)
    joint_vel = np.zeros(3)
    prev = system.origin
    Om_prev = np.zeros(3)
    links = []
    for i in range(nl):
        P = rand_unit_quat(rng)
        A = quat_to_matrix(P)
        kind = rng.choice(["revolute", "revolute", "spherical", "cylindrical", "prismatic"]) if not fast else "revolute"
        if i == 0 and rng.random() < 0.1 and nl > 1 and not fast:
            kind = "rigid"
        axis = rng.randrange(3)
        slide = np.zeros(3)
        if kind in ("revolute", "cylindrical"):
            rate = rng.uniform(-1.5, 1.5) if not fast else (7.0 if i == 0 else 1.0)
            om_rel = A[:, axis] * rate
        elif kind == "spherical":
            om_rel = np.array([rng.uniform(-1, 1) for _ in range(3)])
        else:
            om_rel = np.zeros(3)
        if kind in ("cylindrical", "prismatic"):
            slide = A[:, axis] * rng.uniform(-0.5, 0.5)
        if at_rest:
            om_rel = np.zeros(3); slide = np.zeros(3)
        Om = Om_prev + om_rel
        r_OC = joint_pos + A @ np.array([0.5 * L, 0, 0])
        v_C = joint_vel + np.cross(Om, r_OC - joint_pos) + slide
        link = RigidBody(1.0 + 0.5 * i, Th, q0=np.concatenate([r_OC, P]), u0=np.concatenate([v_C, A.T @ Om]), name=f"link{i}")
        kw = dict(r_OJ0=joint_pos.copy(), A_IJ0=A.copy())
        if kind == "revolute":
            j = Revolute(prev, link, axis=axis, name=f"rev{i}", **kw)
        elif kind == "spherical":
            j = Spherical(prev, link, r_OJ0=joint_pos.copy(), name=f"sph{i}")
        elif kind == "cylindrical":
            j = Cylindrical(prev, link, axis, **kw); j.name = f"cyl{i}"
        elif kind == "prismatic":
            j = Prismatic(prev, link, axis, **kw); j.name = f"pri{i}"
        else:
            j = RigidConnection(prev, link, name=f"rig{i}", **kw)
        system.add(link, j, Force(np.array([0.3, 0.0, -9.81 * link.mass]), link, name=f"grav{i}"))
        desc.append(kind)
        if kind == "revolute" and rng.random() < 0.4:
            system.add(KelvinVoigtElement(j, 4.0, 0.3, l_ref=0.1, compliance_form=rng.random() < 0.5, name=f"kv{i}")); desc.append("kv-rev")
        links.append(link)
        joint_vel = v_C + np.cross(Om, A @ np.array([0.5 * L, 0, 0]))
        joint_pos = r_OC + A @ np.array([0.5 * L, 0, 0])
        prev, Om_prev = link, Om
    if kind0 == "closed":
        # close the chain: the tip keeps its distance to a point of the environment
        system.add(FixedDistance(system.origin, links[-1], B1_r_P1J1=joint_pos + np.array([0.4, 0.7, 0.2]), B2_r_P2J2=np.array([0.5 * L, 0, 0])))
        desc.append("closure")
    if rng.random() < 0.6 or fast:
        law = Spring(TwoPointInteraction(system.origin, links[-1], B_r_CP1=np.array([0.0, 2.0, 0.0])), 12.0, l_ref=2.0, compliance_form=(rng.random() < 0.6) and not fast, name="spring")
        system.add(law); desc.append("spring-c" if hasattr(law, "nla_c") else "spring-f")
    system.assemble(options=_opts())
    return system, desc


def coarse_chain(phis, rates, m=1.0, l=1.0):
    """planar chain of bars on revolute joints with given relative joint angles / rates (fast motion for coarse steps)"""
    from cardillo import System
    from cardillo.constraints import Revolute
    from cardillo.discrete import RigidBody
    from cardillo.forces import Force
    from cardillo.math import Exp_SO3, Spurrier, cross3

    Theta = np.diag([m * l**2 / 12, 1e-2, m * l**2 / 12])
    system = System()
    prev, r_J, v_J, phi, om = system.origin, np.zeros(3), np.zeros(3), 0.0, 0.0
    for i, (dphi, rate) in enumerate(zip(phis, rates)):
        A_IJ = Exp_SO3(np.array([0, 0, phi]))
        phi += dphi; om += rate
        A_IB = Exp_SO3(np.array([0, 0, phi]))
        Om = np.array([0, 0, om])
        r_C = r_J - 0.5 * l * A_IB[:, 1]
        v_C = v_J + cross3(Om, r_C - r_J)
        rb = RigidBody(m, Theta, np.concatenate([r_C, Spurrier(A_IB)]), np.concatenate([v_C, A_IB.T @ Om]), name=f"bar{i}")
        system.add(rb, Revolute(prev, rb, axis=2, r_OJ0=r_J, A_IJ0=A_IJ, name=f"joint{i}"), Force(np.array([0, -9.81 * m, 0]), rb, name=f"gravity{i}"))
        r_J_new = r_J - l * A_IB[:, 1]
        v_J = v_J + cross3(Om, r_J_new - r_J)
        r_J, prev = r_J_new, rb
    system.assemble()
    return system


def classify(r, thr):
    if not np.isfinite(r):
        return "violated"
    return "ok" if r <= thr else ("violated" if r > 100 * thr else "borderline")


def solve(name, system, t1, dt):
    from cardillo.solver import Moreau, BackwardEuler, Rattle, DualStormerVerlet, ScipyIVP, ScipyDAE

    with warnings.catch_warnings(), _quiet():
        warnings.simplefilter("ignore")
        if name == "ScipyIVP":
            return ScipyIVP(system, t1, dt, rtol=1e-9, atol=1e-10).solve()
        if name == "ScipyIVP(no consistent initial conditions)":
            # a legal way to assemble: nothing is precomputed for the initial time, what the wrapper reports there has to be solved for
            from cardillo.solver import SolverOptions
            system.assemble(options=SolverOptions(compute_consistent_initial_conditions=False))
            return ScipyIVP(system, t1, dt, rtol=1e-9, atol=1e-10).solve()
        if name == "DualStormerVerlet(accelerated=False)":
            return DualStormerVerlet(system, t1, dt, options=_opts(), accelerated=False).solve()
        if name == "ScipyDAE":
            return ScipyDAE(system, t1, dt, rtol=1e-8, atol=1e-9).solve()
        cls = dict(Moreau=Moreau, BackwardEuler=BackwardEuler, Rattle=Rattle, DualStormerVerlet=DualStormerVerlet)[name]
        return cls(system, t1, dt, options=_opts()).solve()


def quat_residual(system, q):
    r = 0.0
    for c in system.contributions:
        if type(c).__name__ == "RigidBody":
            P = q[c.qDOF][3:]
            r = max(r, abs(P @ P - 1.0))
    return r


def step_records(system, sol, solver, dt, tag, rid0, loose=1.0):
    """one record per stored step (k >= 1); loose: factor on the thresholds for runs with the default solver tolerances (1e-6)"""
    recs = []
    t, q, u = np.asarray(sol.t), np.asarray(sol.q), np.asarray(sol.u)
    nla = system.nla_g
    scale = 1.0 + np.max(np.abs(u)) if len(u) else 1.0
    gmax_first = gmax_last = 0.0
    n = len(t)
    # the ODE wrapper reports accelerations and multipliers at EVERY output time, the first one included; the fixed-step schemes are judged on the steps they made
    for k in range(0 if solver == "ScipyIVP" else 1, n):
        viol, border, vals = [], [], {}
        def put(block, r, thr):
            c = classify(r, thr)
            vals[block] = float(r)
            if c == "violated":
                viol.append(block)
            elif c == "borderline":
                border.append(block)
        g = np.max(np.abs(system.g(t[k], q[k]))) if nla else 0.0
        gd = np.max(np.abs(system.g_dot(t[k], q[k], u[k]))) if nla else 0.0
        if solver in ("Rattle", "BackwardEuler", "DualStormerVerlet"):
            put("g", g, 1e-7 * loose)
        if solver == "Rattle":
            put("gdot", gd, 1e-7 * scale * loose)
        if solver == "Moreau":
            tm = t[k - 1] + 0.5 * dt
            qm = q[k - 1] + 0.5 * dt * system.q_dot(t[k - 1], q[k - 1], u[k - 1])
            put("gdot_mid", np.max(np.abs(system.g_dot(tm, qm, u[k]))) if nla else 0.0, 1e-8 * scale)
        if solver in ("Rattle", "BackwardEuler", "DualStormerVerlet", "Moreau"):
            put("quat", quat_residual(system, q[k]), 1e-12)
        if solver == "ScipyDAE":
            put("g", g, 1e-6)
            put("gdot", gd, 1e-6 * scale)
            if k <= n // 3:
                gmax_first = max(gmax_first, g, gd)
            if k >= n - n // 3:
                gmax_last = max(gmax_last, g, gd)
        if solver == "ScipyIVP":
            ud = np.asarray(sol.u_dot)[k]
            la_g = np.asarray(sol.la_g)[k]
            la_c = np.asarray(sol.la_c)[k] if system.nla_c else np.zeros(0)
            la_gamma = np.asarray(sol.la_gamma)[k] if system.nla_gamma else np.zeros(0)
            res = system.M(t[k], q[k]) @ ud - system.h(t[k], q[k], u[k]) - system.W_g(t[k], q[k]) @ la_g
            if system.nla_c:
                res = res - system.W_c(t[k], q[k]) @ la_c
                # the reported compliance forces satisfy their law
                put("eom_c", np.max(np.abs(system.c(t[k], q[k], u[k], la_c))), 1e-8 * scale)
            if system.nla_gamma:
                res = res - system.W_gamma(t[k], q[k]) @ la_gamma
            if system.nla_tau:
                res = res - system.W_tau(t[k], q[k]) @ system.la_tau(t[k], q[k], u[k])
            fs = 1.0 + np.max(np.abs(system.h(t[k], q[k], u[k])))
            put("eom", np.max(np.abs(res)), 1e-8 * fs)
            put("gddot", np.max(np.abs(system.g_ddot(t[k], q[k], u[k], ud))) if nla else 0.0, 1e-7 * fs * scale)
        if "eom_c" in viol:
            viol.remove("eom_c"); viol.append("eom")
        border = [b for b in border if b != "eom_c"]
        recs.append(dict(id=rid0 + len(recs), solver=solver, step=k, violated=viol, borderline=border, vals=vals, tag=tag))
    if solver == "ScipyDAE" and recs:
        drift = gmax_last > 10 * gmax_first + 1e-6
        if drift:
            recs[-1]["violated"].append("drift")
        recs[-1]["vals"]["drift"] = [gmax_first, gmax_last]
    return recs


SOLVERS = ["Rattle", "BackwardEuler", "DualStormerVerlet", "Moreau", "ScipyDAE", "ScipyIVP", "ScipyIVP(no consistent initial conditions)", "DualStormerVerlet(accelerated=False)"]


def run(ctx):
    ctx.level = "exploration"
    rng = ctx.rng
    r_t = check_only(ctx, "Scheme", {"Mode": '"table"'}, invariants=("TableOK",), tag="scheme_table")
    nsys = 14 if ctx.thorough else 5
    dts = [1e-3, 1e-2, 5e-2] if ctx.thorough else [2e-3, 2e-2]
    nsteps = 25 if ctx.thorough else 12
    records, wheres = [], {}
    runs = {}
    notjudged = {}
    systems = []
    for i in range(nsys):
        for _ in range(10):
            try:
                with warnings.catch_warnings(), _quiet():
                    warnings.simplefilter("ignore")
                    state = rng.getstate()
                    system, desc = gen_system(rng)
                systems.append((state, desc, False))
                break
            except AssertionError:
                continue
    # at least one driven system (prescribed motion that starts after the first step)
    if not any(d and d[0].startswith("driven") for _, d, _ in systems):
        for _ in range(200):
            state = rng.getstate()
            try:
                with warnings.catch_warnings(), _quiet():
                    warnings.simplefilter("ignore")
                    _, desc = gen_system(rng)
            except AssertionError:
                continue
            if desc and desc[0].startswith("driven"):
                systems.append((state, desc, False))
                break
    # whatever the seed: at least one system with a force law in compliance form, one with products of inertia, one closed chain, one point-mass system
    wanted = {"compliance form": lambda d: "spring-c" in d, "products of inertia": lambda d: "products of inertia" in d, "closed chain": lambda d: "closure" in d,
              "point masses": lambda d: any(str(x).startswith("pm") for x in d)}
    for what, has in wanted.items():
        if any(has(d) for _, d, _ in systems):
            continue
        for _ in range(400):
            state = rng.getstate()
            try:
                with warnings.catch_warnings(), _quiet():
                    warnings.simplefilter("ignore")
                    _, desc = gen_system(rng)
            except AssertionError:
                continue
            if has(desc):
                systems.append((state, desc, False))
                break
    # the fast two-bar pendulum with a coarse step (Newton may fail there: only converged steps may be stored)
    state = rng.getstate()
    systems.append((state, ["fast two-bar revolute pendulum"], True))
    for si, (state, desc, fast) in enumerate(systems):
        for solver in SOLVERS:
            for dt in ([0.1, 0.05] if fast else dts):
                if fast and solver not in ("BackwardEuler", "Rattle", "Moreau"):
                    continue
                rng2 = type(rng)(0)
                rng2.setstate(state)
                try:
                    with warnings.catch_warnings(), _quiet():
                        warnings.simplefilter("ignore")
                        system, _ = gen_system(rng2, fast=fast)
                    sol = solve(solver, system, nsteps * dt, dt)
                except Exception as ex:
                    # a loud failure (raised non-convergence, singular matrix) is not the subject of this property
                    notjudged[type(ex).__name__] = notjudged.get(type(ex).__name__, 0) + 1
                    continue
                tag = dict(system=si, parts=desc, solver=solver, dt=dt, rows=len(sol.t))
                try:
                    recs = step_records(system, sol, solver.split("(")[0], dt, tag, len(records) + 1)
                except Exception as ex:
                    ctx.violation(f"{solver}:evaluate:{type(ex).__name__}", f"evaluating the residuals of {tag} raised {type(ex).__name__}: {ex}", tag)
                    continue
                for r in recs:
                    wheres[r["id"]] = r
                records.extend(recs)
                runs[solver] = runs.get(solver, 0) + 1
    # fast planar chains with a coarse step and the default solver options: Newton may fail after some steps; whatever is stored must be converged
    from cardillo.solver import BackwardEuler, Rattle, SolverOptions
    for phis, rates in (((1.0, -0.5), (7.0, 1.0)), ((0.3, 0.8), (5.0, -3.0)), ((2.0,), (9.0,)), ((0.5, 0.5, -1.0), (4.0, 2.0, -6.0))):
        for cls in (BackwardEuler, Rattle):
            for dt in (0.1, 0.05):
                try:
                    with warnings.catch_warnings(), _quiet():
                        warnings.simplefilter("ignore")
                        system = coarse_chain(phis, rates)
                        sol = cls(system, 3.0 if ctx.thorough else 2.0, dt, options=SolverOptions()).solve()
                except Exception as ex:
                    notjudged[type(ex).__name__] = notjudged.get(type(ex).__name__, 0) + 1
                    continue
                tag = dict(system="coarse", parts=[f"planar chain rates {rates}"], solver=cls.__name__, dt=dt, rows=len(sol.t))
                recs = step_records(system, sol, cls.__name__, dt, tag, len(records) + 1, loose=1e3)
                for r in recs:
                    wheres[r["id"]] = r
                records.extend(recs)
                runs[cls.__name__ + "(coarse)"] = runs.get(cls.__name__ + "(coarse)", 0) + 1
    if not records:
        raise tlc.MachineryError("no step records produced")
    slim = [dict(id=r["id"], solver=r["solver"], violated=r["violated"]) for r in records]
    slim += [dict(id=0, solver="Rattle", violated=["gdot"]), dict(id=-1, solver="Moreau", violated=["g"])]
    bad, rt = batch_validate(ctx, "Scheme", slim, {"Mode": '"trace"'}, "scheme_trace")
    if bad.pop(0, None) is None or bad.pop(-1, None) is not None:
        raise tlc.MachineryError("self-test failed: the scheme table did not judge the two synthetic records as expected")
    for rid, clause in bad.items():
        w = wheres[rid]
        ctx.violation(f"{w['solver']}:{clause}", f"{clause}: {w['solver']} dt={w['tag']['dt']} step {w['step']} of system {w['tag']['parts']}: residuals {w['vals']}", w)
    nb = sum(1 for r in records if r["borderline"])
    ctx.log(f"[C17] {len(systems)} systems, runs per solver {runs}, {len(records)} stored steps judged by TLC, {len(bad)} rejected, {nb} with a borderline block; "
            f"runs that ended loudly (not judged): {notjudged}")
    nontrivial = {(r["solver"], repr(sorted(r["tag"].items(), key=str)), r["step"]) for r in records if r["step"] > 0}
    ctx.coverage = {"evaluations": len(records), "distinct_nontrivial": len(nontrivial),
                    "rule": "every stored step of every (solver, system, step size) run is one record (the residual blocks of the scheme evaluated at the stored "
                            "state) judged by TLC's trace mode of Scheme.tla; non-trivial = a step after the initial row; distinct by (solver, run tag, step)",
                    "states": r_t.distinct + rt.distinct, "transitions": max(r_t.generated + rt.generated, 1), "traces_validated_against_impl": len(records),
                    "samples": [{k: records[0][k] for k in ("solver", "step", "vals", "tag")}], "runs": runs, "borderline_steps": nb, "not_judged": notjudged,
                    "step_sizes": dts, "systems": [d for _, d, _ in systems]}
    ctx.assumptions = ["solver tolerances 1e-10; a block is 'ok' below its threshold (1e-7 absolute for g, 1e-7..1e-8 relative to the velocity scale for g_dot, 1e-12 for |P|^2-1, "
                       "1e-6 for the DAE wrapper, 1e-8 / 1e-7 relative to the force scale for the ODE wrapper), 'violated' above 100x the threshold, not judged in between",
                       "runs that raise (non-convergence, singular matrices) are not judged here (C21)"]


def replay(ctx, path):
    run(ctx)
