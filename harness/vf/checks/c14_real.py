"""C14 on real contribution classes: the per-contribution index sets partition the global spaces, every
System evaluation equals the dense sum of the contributions' own local quantities, and a second assemble()
leaves layout and evaluations unchanged."""
from __future__ import annotations

import contextlib
import io
import warnings

import numpy as np

from ..scenarios import random_real_system
from ..stubs import DOF_ATTR, N_ATTR

OWN = {"q": "my_qDOF", "u": "my_uDOF"}


def _snapshot_layout(system):
    out = {}
    for c in system.contributions:
        d = {}
        for f, a in DOF_ATTR.items():
            if hasattr(c, a):
                d[a] = np.asarray(getattr(c, a)).tolist()
        for a in ("qDOF", "uDOF"):
            if hasattr(c, a):
                d[a] = np.asarray(getattr(c, a)).tolist()
        out[c.name] = d
    out["__totals__"] = {f: getattr(system, a) for f, a in N_ATTR.items()}
    return out


def _dense(x):
    return x.toarray() if hasattr(x, "toarray") else np.asarray(x)


def _idx(c, space):
    if space == "myq":
        return np.asarray(c.my_qDOF)
    if space == "q":
        return np.asarray(c.qDOF)
    if space == "u":
        return np.asarray(c.uDOF)
    return np.asarray(getattr(c, DOF_ATTR[space]))


def _largs(names, c, glob):
    out = []
    for n in names:
        if n in ("t", "t2"):
            out.append(glob[n])
        elif n in ("q", "q2"):
            out.append(glob[n][c.qDOF])
        elif n in ("u", "u2", "u_dot"):
            out.append(glob[n][c.uDOF])
        elif n in ("0u", "0u_dot"):
            out.append(np.zeros(len(c.uDOF)))
        else:
            out.append(glob[n][_idx(c, n)])
    return out


def evaluate_all(system, table, glob, skip):
    """dict method -> (system value dense, reference dense) for every table row whose local calls succeed"""
    res = {}
    total = {f: getattr(system, a) for f, a in N_ATTR.items()}
    sz = dict(total)
    sz["myq"] = total["q"]
    for row in table:
        m = row["m"]
        if m in skip:
            continue
        owners = [c for c in system.contributions if hasattr(c, row["prop"]) and callable(getattr(c, row["prop"]))]
        mode = row["mode"]
        try:
            with warnings.catch_warnings():
                warnings.simplefilter("ignore")
                if mode == "scalar":
                    ref = sum(getattr(c, row["loc"])(*_largs(row["largs"], c, glob)) for c in owners)
                elif mode in ("assign", "accum"):
                    ref = np.zeros(sz[row["row"]])
                    for c in owners:
                        v = np.asarray(getattr(c, row["loc"])(*_largs(row["largs"], c, glob))).reshape(-1)
                        if mode == "assign":
                            ref[_idx(c, row["row"])] = v
                        else:
                            ref[_idx(c, row["row"])] += v
                elif mode in ("xi_N", "xi_F"):
                    ref = np.zeros(sz[row["row"]])
                    for c in owners:
                        e = c.e_N if mode == "xi_N" else c.e_F
                        post = getattr(c, row["loc"])(*_largs(["t2", "q2", "u2"], c, glob))
                        pre = getattr(c, row["loc"])(*_largs(["t", "q", "u"], c, glob))
                        ref[_idx(c, row["row"])] = post + e * pre
                else:
                    ref = np.zeros((sz[row["row"]], sz[row["col"]]))
                    for c in owners:
                        if mode == "massmat" and getattr(c, "constant_mass_matrix", False):
                            v = c.M(system.t0, system.q0[c.qDOF])
                        elif m == "c_la_c":
                            v = c.c_la_c()
                        else:
                            v = getattr(c, row["loc"])(*_largs(row["largs"], c, glob))
                        v = _dense(v)
                        r, cc = _idx(c, row["row"]), _idx(c, row["col"])
                        v = np.asarray(v, dtype=float).reshape(len(r), len(cc))
                        np.add.at(ref, (r[:, None], cc[None, :]), v)
        except Exception as ex:
            res[m] = ("local-raises", f"{type(ex).__name__}: {ex}")
            continue
        try:
            with warnings.catch_warnings():
                warnings.simplefilter("ignore")
                got = _dense(getattr(system, m)(*[glob[a] for a in row["args"]]))
        except Exception as ex:
            res[m] = ("system-raises", f"{type(ex).__name__}: {ex}")
            continue
        res[m] = ("ok", got, ref)
    return res


def run(ctx, table):
    from cardillo.solver import SolverOptions

    rng = ctx.rng
    n = 25 if not ctx.thorough else 200
    opts = SolverOptions(compute_consistent_initial_conditions=False)
    done = 0
    local_raises = {}
    for k in range(n):
        system, desc = random_real_system(rng)
        rep = {"contributions": desc, "order": [c.name for c in system.contributions]}
        try:
            with warnings.catch_warnings():
                warnings.simplefilter("ignore")
                system.assemble(options=opts)
        except Exception as ex:
            ctx.violation(f"real:assemble-raises:{type(ex).__name__}", f"assemble raised {type(ex).__name__}: {ex} for {desc}", rep)
            continue
        lay1 = _snapshot_layout(system)
        # partition: own index sets tile the global spaces in list order
        ok = True
        for f, a in DOF_ATTR.items():
            pos = 0
            for c in system.contributions:
                if hasattr(c, a) and hasattr(c, N_ATTR[f]):
                    arr = np.asarray(getattr(c, a)).tolist()
                    if arr != list(range(pos, pos + len(arr))) or len(arr) != getattr(c, N_ATTR[f]):
                        ctx.violation(f"real:partition:{f}", f"{c.name}.{a} = {arr} does not continue the tiling at {pos} for {desc}", rep)
                        ok = False
                    pos += len(arr)
            if pos != getattr(system, N_ATTR[f]):
                ctx.violation(f"real:total:{f}", f"system.{N_ATTR[f]} = {getattr(system, N_ATTR[f])} but the members own {pos} for {desc}", rep)
                ok = False
        if not ok:
            continue
        def vec(m):
            return np.array([rng.uniform(-1, 1) for _ in range(m)])
        T = lay1["__totals__"]
        q = system.q0 + 0.1 * vec(T["q"])
        glob = {"t": 0.3, "t2": 0.4, "q": q, "q2": q + 0.05 * vec(T["q"]), "u": vec(T["u"]), "u2": vec(T["u"]), "u_dot": vec(T["u"]),
                "la_c": vec(T["la_c"]), "la_g": vec(T["la_g"]), "la_gamma": vec(T["la_gamma"]), "la_N": vec(T["la_N"]), "la_F": vec(T["la_F"])}
        # the revolute angle tracker is stateful: g_q_T_mu_q uses numerical differentiation only (slow) -> skipped
        skip = {"g_q_T_mu_q"}
        ev1 = evaluate_all(system, table, glob, skip)
        for m, r in ev1.items():
            if r[0] == "local-raises":
                local_raises[m] = local_raises.get(m, 0) + 1
            elif r[0] == "system-raises":
                ctx.violation(f"real:{m}:system-raises", f"system.{m} raised {r[1]} although every contribution's local call succeeds; {desc}", rep)
            else:
                got, ref = r[1], r[2]
                if np.shape(got) != np.shape(ref) or not np.allclose(got, ref, rtol=1e-12, atol=1e-12):
                    ctx.violation(f"real:{m}", f"system.{m} differs from the sum of local quantities (max diff {np.max(np.abs(np.asarray(got) - ref)) if np.shape(got) == np.shape(ref) else 'shape'}); {desc}", rep)
        # second assemble without any change
        try:
            with warnings.catch_warnings():
                warnings.simplefilter("ignore")
                system.assemble(options=opts)
        except Exception as ex:
            kinds = sorted({type(c).__name__ for c in system.contributions})
            key = "real:reassemble-raises:" + ("Sphere2Plane" if "Sphere2Plane" in kinds else "other")
            ctx.violation(key, f"second assemble() raised {type(ex).__name__}: {ex}; {desc}", rep)
            continue
        lay2 = _snapshot_layout(system)
        if lay1 != lay2:
            diff = [k2 for k2 in lay1 if lay1[k2] != lay2.get(k2)]
            ctx.violation("real:reassemble-layout", f"layout changed by a second assemble() for {diff}; {desc}", rep)
            continue
        system.reset()
        ev2 = evaluate_all(system, table, glob, skip)
        for m, r in ev2.items():
            r1 = ev1.get(m)
            if r[0] == "ok" and r1 and r1[0] == "ok":
                if np.shape(r[1]) != np.shape(r1[1]) or not np.allclose(r[1], r1[1], rtol=1e-12, atol=1e-12):
                    ctx.violation(f"real:reassemble:{m}", f"system.{m} changed after a second assemble(); {desc}", rep)
        # third assembly after a same-size reorder: a mass contribution is removed and added again (it moves to the end of the list, every
        # index space is permuted, the totals stay the same); everything derived from the old layout must be rebuilt
        movable = [c for c in system.contributions[:-1] if type(c).__name__ in ("RigidBody", "PointMass")]
        if movable:
            mv = movable[rng.randrange(len(movable))]
            try:
                with warnings.catch_warnings(), contextlib.redirect_stdout(io.StringIO()):
                    warnings.simplefilter("ignore")
                    system.remove(mv)
                    system.add(mv)
                    system.assemble(options=opts)
            except Exception as ex:
                ctx.violation(f"real:reorder-raises:{type(ex).__name__}", f"remove + add + assemble raised {type(ex).__name__}: {ex}; {desc}", rep)
                continue
            lay3 = _snapshot_layout(system)
            T3 = lay3["__totals__"]
            if T3 != T:
                ctx.violation("real:reorder-totals", f"totals changed by moving {mv.name} to the end of the list: {T} -> {T3}; {desc}", rep)
                continue
            q3 = system.q0 + 0.1 * vec(T3["q"])
            glob3 = dict(glob, q=q3, q2=q3 + 0.05 * vec(T3["q"]))
            ev3 = evaluate_all(system, table, glob3, skip)
            for m, r3 in ev3.items():
                if r3[0] == "system-raises":
                    ctx.violation(f"real:reorder:{m}:system-raises", f"system.{m} raised {r3[1]} after moving {mv.name} to the end of the list; {desc}", rep)
                elif r3[0] == "ok":
                    got, ref = r3[1], r3[2]
                    if np.shape(got) != np.shape(ref) or not np.allclose(got, ref, rtol=1e-12, atol=1e-12):
                        ctx.violation(f"real:reorder:{m}", f"system.{m} differs from the sum of local quantities after {mv.name} was removed, added again and the system re-assembled; {desc}", rep)
        done += 1
    ctx.notes.append(f"real systems: {done}/{n} fully checked; local calls that raised (not judged here): {local_raises}")
    ctx.log(f"[C14] real systems: {done}/{n} assembled twice and compared; local-raises {local_raises}")
    return done
