"""C18 Nonsmooth integrators satisfy the discrete Signorini-Coulomb laws.

Decide: spec/ContactLaw.tla -- the laws per scheme class over abstract values (sign classes of gap, restituted gap
        rate and normal percussion; friction percussion inside / on / outside the Coulomb disk; slip; opposing),
        plus the lemma that the prox fixed point the code iterates is equivalent to the complementarity statement
        (model checked on an integer lattice, normal and one-dimensional Coulomb case).
Bind:   trace validation: seeded random scenes of spheres and planes (rigid bodies and point masses, sphere-plane
        and sphere-sphere contacts, restitution 0..1, friction 0..1, step sizes over two decades) are simulated
        with Moreau, RATTLE, backward Euler and dual Stoermer-Verlet; for every stored step and contact the harness
        recomputes the quantities of that scheme's law from the solution (midpoint configuration, restituted rates,
        stage-1 percussions from the hook), classifies them with tolerances tied to the solver options, and TLC
        evaluates the law on every record.
"""
from __future__ import annotations

import contextlib
import io
import math
import warnings

import numpy as np

from .. import tlc, runs


def _quiet():
    return contextlib.redirect_stdout(io.StringIO())


TOL = dict(fp=1e-10)


def _opts():
    from cardillo.solver import SolverOptions

    return SolverOptions(fixed_point_atol=1e-10, fixed_point_rtol=1e-10, newton_atol=1e-10, newton_rtol=1e-10,
                         fixed_point_max_iter=20000, newton_max_iter=50)


# ----------------------------------------------------------------------------------------------- scenes
def scene(rng, kind):
    """returns (system, description, energy_applies)"""
    from cardillo import System
    from cardillo.discrete import RigidBody, PointMass
    from cardillo.contacts import Sphere2Plane, Sphere2Sphere
    from cardillo.forces import Force

    system = System()
    desc = {"kind": kind}
    if kind == "tip":
        # a bar standing on one tip (contact point with a body-fixed offset) that falls over while the tip stays on the plane:
        # a persistent contact whose force direction W_N changes with the orientation in every step
        from cardillo.math import Exp_SO3, Spurrier
        e_N, mu = 0.0, rng.choice([0.0, 0.3])
        tilt = rng.uniform(0.2, 0.5)
        A = Exp_SO3(tilt * np.array([np.cos(0.7), np.sin(0.7), 0.0]))
        b = np.array([0.0, 0.0, -0.5])
        pos = np.array([0.0, 0.0, -(A @ b)[2]])
        body = RigidBody(1.0, np.diag([0.09, 0.09, 0.01]), q0=np.concatenate([pos, Spurrier(A)]), u0=np.zeros(6), name="bar")
        c = Sphere2Plane(system.origin, body, mu=mu, r=0.0, B_r_CP=b, e_N=e_N, e_F=0.0, name="tipcontact")
        system.add(body, c, Force(np.array([0, 0, -9.81]), body, name="g"))
        with warnings.catch_warnings(), _quiet():
            warnings.simplefilter("ignore")
            system.assemble(options=_opts())
        desc.update(e_N=e_N, mu=mu, mus=[mu], bodies=["RigidBody"])
        return system, desc, False
    bodies = []
    gravity = kind != "free_collision"
    nb = {"ball_plane": 1, "balls_plane": rng.choice([2, 3]), "free_collision": 2, "alternate": 2, "mixed_mu": 3, "inhomogeneous": rng.choice([1, 2])}[kind]
    radii = []
    frictionless = kind == "free_collision"
    e_N = rng.choice([0.0, 0.3, 0.7, 1.0]) if not frictionless else rng.choice([0.0, 0.5, 1.0])
    mu = 0.0 if frictionless else rng.choice([0.0, 0.2, 0.6, 1.0])
    if kind == "inhomogeneous":
        # balls with unequal principal inertias at oblique orientations, spinning and sliding obliquely: the two tangential directions of a contact
        # see different Delassus entries (different prox parameters), the slip is not along a tangent axis
        e_N, mu = rng.choice([0.0, 0.3]), rng.choice([0.2, 0.5])
    if kind == "alternate":
        # two bouncing balls far apart whose impacts alternate: the set of closed contacts changes to a
        # different set of the same size while nothing is closed in between
        e_N, mu = 0.8, rng.choice([0.3, 0.6])
    # mixed_mu: a frictionless contact is registered BEFORE frictional ones and all are closed together (persistent sliding)
    mus = [mu] * nb
    if kind == "mixed_mu":
        e_N = 0.0
        mus = [0.0, rng.choice([0.3, 0.5]), rng.choice([0.2, 0.7])]
        mu = max(mus)
    desc.update(e_N=e_N, mu=mu, mus=mus)
    for i in range(nb):
        r = rng.choice([0.08, 0.1, 0.15])
        radii.append(r)
        if kind == "free_collision":
            pos = np.array([0.6 * i, 0.05 * i * rng.uniform(-1, 1), 0.04 * i * rng.uniform(-1, 1)])
            vel = np.array([1.0 - 2.0 * i, rng.uniform(-0.1, 0.1), rng.uniform(-0.1, 0.1)])
        elif kind == "alternate":
            pos = np.array([1.5 * i, 0.0, r + (0.02 if i == 0 else 0.09)])
            vel = np.array([rng.uniform(0.5, 1.0) * (1 - 2 * i), rng.uniform(-0.5, 0.5), -0.2])
        elif kind == "mixed_mu":
            pos = np.array([0.6 * i, 0.0, r])
            vel = np.array([rng.uniform(0.5, 1.5), rng.uniform(-0.5, 0.5), 0.0])
        else:
            pos = np.array([0.35 * i + rng.uniform(-0.02, 0.02), rng.uniform(-0.02, 0.02), r + rng.choice([0.0, 0.003, 0.02, 0.08])])
            vel = np.array([rng.uniform(-1, 1), rng.uniform(-0.5, 0.5), rng.choice([0.0, -0.3, -1.0])])
            if pos[2] - r == 0.0:
                vel[2] = 0.0 if rng.random() < 0.7 else abs(vel[2])
        if kind == "inhomogeneous":
            from cardillo.math import Exp_SO3, Spurrier
            pos = np.array([0.5 * i, 0.0, r])
            vel = np.array([rng.uniform(0.6, 1.5) * rng.choice([1, -1]), rng.uniform(0.4, 1.0) * rng.choice([1, -1]), 0.0])
            om = np.array([rng.uniform(-6, 6) for _ in range(3)])
            A0 = Exp_SO3(np.array([rng.uniform(-1, 1) for _ in range(3)]))
            m_ = 1.0 + i
            b = RigidBody(m_, 0.4 * m_ * r * r * np.diag([0.55, 1.0, 1.7]), q0=np.concatenate([pos, Spurrier(A0)]), u0=np.concatenate([vel, A0.T @ om]), name=f"b{i}")
        elif rng.random() < 0.6:
            om = np.array([rng.uniform(-3, 3) for _ in range(3)]) if not frictionless else np.zeros(3)
            b = RigidBody(1.0 + i, 0.4 * (1.0 + i) * r * r * np.eye(3), q0=np.concatenate([pos, [1.0, 0, 0, 0]]), u0=np.concatenate([vel, om]), name=f"b{i}")
        else:
            b = PointMass((5.0 - 2 * i) if kind == "mixed_mu" else 1.0 + i, q0=pos, u0=vel, name=f"b{i}")
        bodies.append(b)
    system.add(*bodies)
    contacts = []
    if kind != "free_collision":
        for i, b in enumerate(bodies):
            c = Sphere2Plane(system.origin, b, mu=mus[i], r=radii[i], e_N=e_N, e_F=0.0, name=f"p{i}")
            contacts.append(c)
    for i in range(nb if kind != "mixed_mu" else 0):
        for j in range(i + 1, nb):
            c = Sphere2Sphere(bodies[i], bodies[j], radii[i], radii[j], mu=mu, e_N=e_N, e_F=0.0, name=f"s{i}{j}")
            contacts.append(c)
    system.add(*contacts)
    if gravity:
        for i, b in enumerate(bodies):
            system.add(Force(np.array([0, 0, -9.81 * b.mass]), b, name=f"g{i}"))
    with warnings.catch_warnings(), _quiet():
        warnings.simplefilter("ignore")
        system.assemble(options=_opts())
    desc["bodies"] = [type(b).__name__ for b in bodies]
    return system, desc, (kind == "free_collision")


# ----------------------------------------------------------------------------------------------- classes
def sgn(x, tol):
    """sign class with a borderline band of a factor 10 around the threshold"""
    if abs(x) <= tol:
        return "zero", False
    if abs(x) <= 10 * tol:
        return ("pos" if x > 0 else "neg"), True
    return ("pos" if x > 0 else "neg"), False


def friction_classes(PF, PN, mu, xiF):
    nP = float(np.linalg.norm(PF))
    R = mu * max(PN, 0.0)
    tol = 1e-6 * (1 + R)
    border = False
    if nP > R + tol:
        fric = "outside"
        border = nP <= R + 10 * tol
    elif nP >= R - tol:
        fric = "boundary"
    else:
        fric = "inside"
        border = nP >= R - 10 * tol
    nx = float(np.linalg.norm(xiF))
    slip = nx > 1e-5
    if 1e-6 < nx <= 1e-5 * 10 and not slip:
        border = True
    if 1e-5 < nx <= 1e-4:
        border = True
    opposes = True
    if slip and nP > 0:
        c = float(PF @ xiF) / (nP * nx)
        opposes = c <= -(1 - 1e-4)
        if -(1 - 1e-4) < c <= -(1 - 1e-3):
            border = True
    return fric, slip, opposes, border


def records_for(system, sol, solver, accept_events, dt, energy_applies, tag, bases0=None):
    """one record per (step, normal contact).  bases0: reference contact bases of the sphere-sphere contacts as assembled; the solvers
    transport them in step_callback after every step, and the stored friction percussions of step k refer to the basis that was in
    effect during step k, so the harness replays the same transport while it walks through the stored steps."""
    recs = []
    s2s = [c for c in system.contributions if hasattr(c, "reference_contact_basis")]
    for c in s2s:
        if bases0 is not None and c.name in bases0:
            c.reference_contact_basis = bases0[c.name].copy()
            c.t1t2_cache.clear(); c.t1t2_q1_q2_cache.clear()
    t, q, u = sol.t, sol.q, sol.u
    PN, PF = sol.P_N, sol.P_F
    contacts = system.get_contribution_list("g_N")
    umax = 1.0 + float(np.max(np.abs(u)))
    Pscale = 1.0 + float(np.max(np.abs(PN))) if PN.size else 1.0
    # kinetic energy from the mass matrix (System.E_kin only sums the contributions that report one)
    ekin = [0.5 * float(u[k] @ (system.M(t[k], q[k], format="csr") @ u[k])) for k in range(len(t))]
    for k in range(1, len(t)):
        tn, tn1 = t[k - 1], t[k]
        qn, un, qn1, un1 = q[k - 1], u[k - 1], q[k], u[k]
        if solver in ("Moreau",):
            tm = tn + 0.5 * dt
            qm = qn + 0.5 * dt * system.q_dot(tn, qn, un)
        elif solver == "DualStormerVerlet":
            tm = tn + 0.5 * dt
            qm = qn.copy()
            for _ in range(200):
                qm2 = qn + 0.5 * dt * system.q_dot(tm, qm, un)
                if np.max(np.abs(qm2 - qm)) < 1e-15:
                    qm = qm2
                    break
                qm = qm2
        if solver in ("Moreau", "DualStormerVerlet"):
            gap = system.g_N(tm, qm)
            xiN = system.xi_N(tm, tm, qm, qm, un, un1)
            xiF = system.xi_F(tm, tm, qm, qm, un, un1) if system.nla_F else np.zeros(0)
            closed = gap <= (1e-8 if solver == "Moreau" else 0.0)
            scheme = "vel"
        elif solver == "BackwardEuler":
            gap = system.g_N(tn1, qn1)
            xiN = np.zeros(system.nla_N)
            xiF = system.gamma_F(tn1, qn1, un1) if system.nla_F else np.zeros(0)
            closed = gap <= 1e-7
            scheme = "pos"
        else:  # Rattle
            gap = system.g_N(tn1, qn1)
            xiN = system.xi_N(tn, tn1, qn, qn1, un, un1)
            xiF = system.xi_F(tn, tn1, qn, qn1, un, un1) if system.nla_F else np.zeros(0)
            ev = accept_events[k - 1]
            closed = np.asarray(ev["I_N"], dtype=bool)
            PN1 = np.asarray(ev["P_N1"], dtype=float)
            scheme = "rattle"
        ke_up = ekin[k] > ekin[k - 1] * (1 + 1e-9) + 1e-12
        for c in contacts:
            for iN in c.la_NDOF:
                border = False
                gs, b1 = sgn(float(gap[iN]), 1e-7); border |= b1
                xs, b2 = sgn(float(xiN[iN]), 1e-6 * umax)
                ps, b3 = sgn(float(PN[k][iN]), 1e-8 * Pscale); border |= b3
                is_closed = bool(closed[iN])
                # closedness itself is borderline when the gap of the scheme's test is within the band
                if scheme != "rattle" and 0 < abs(float(gap[iN]) - (1e-8 if solver == "Moreau" else (1e-7 if solver == "BackwardEuler" else 0.0))) < 1e-9:
                    border = True
                if is_closed:
                    border |= b2
                rec = {"id": len(recs) + tag, "scheme": scheme, "closed": is_closed, "gap": gs, "xi": xs, "PN": ps,
                       "PN1": "zero", "hasF": False, "fric": "inside", "slip": False, "opposes": True,
                       "energyApplies": bool(energy_applies), "keUp": bool(ke_up), "borderline": False,
                       "_info": {"step": k, "contact": c.name, "gap": float(gap[iN]), "xi_N": float(xiN[iN]), "P_N": float(PN[k][iN]),
                                 "E_kin_before": float(ekin[k - 1]), "E_kin_after": float(ekin[k])}}
                if scheme == "rattle":
                    p1, b4 = sgn(float(PN1[iN]), 1e-8 * Pscale)
                    rec["PN1"] = p1
                    border |= b4
                    rec["_info"]["P_N1"] = float(PN1[iN])
                if hasattr(c, "friction_laws") and getattr(c, "nla_F", 0) > 0:
                    for i_N, i_F, law in c.friction_laws:
                        if len(i_N) and c.la_NDOF[i_N][0] == iN:
                            fdof = c.la_FDOF[i_F]
                            fr, slip, opp, b5 = friction_classes(PF[k][fdof], float(PN[k][iN]), law.r, xiF[fdof])
                            rec.update(hasF=True, fric=fr, slip=bool(slip), opposes=bool(opp))
                            border |= b5
                            rec["_info"].update(P_F=PF[k][fdof].tolist(), xi_F=np.asarray(xiF[fdof]).tolist(), mu=law.r)
                if ke_up and energy_applies and ekin[k] <= ekin[k - 1] * (1 + 1e-7) + 1e-10:
                    border = True
                rec["borderline"] = bool(border)
                recs.append(rec)
        for c in s2s:
            c.step_callback(t[k], q[k][c.qDOF].copy(), u[k][c.uDOF].copy())
    return recs


SOLVERS = ["Moreau", "Rattle", "BackwardEuler", "DualStormerVerlet"]


def run(ctx):
    ctx.level = "exploration"
    rng = ctx.rng
    from cardillo.solver import Moreau, Rattle, BackwardEuler, DualStormerVerlet
    cls = {"Moreau": Moreau, "Rattle": Rattle, "BackwardEuler": BackwardEuler, "DualStormerVerlet": DualStormerVerlet}
    # part 1: the lemma
    import os
    cfg = os.path.join(ctx.scratch, "cl_lemma.cfg")
    open(cfg, "w").write('SPECIFICATION Spec\nCONSTANTS\n  Mode = "lemma"\n  LMax = 5\nINVARIANT Lemma\n')
    r = tlc.run_tlc("ContactLaw", cfg, scratch=ctx.scratch, timeout=600)
    tlc.require_ok(r, "ContactLaw lemma")
    if r.violated:
        ctx.violation("spec:lemma", "TLC: the prox fixed point is not equivalent to the complementarity statement", {"stdout": r.stdout[-2000:]})
    # part 2: scenes
    nscenes = 16 if not ctx.thorough else 96
    dts = [1e-3, 3e-3, 1e-2, 3e-2]
    allrecs = []
    meta = {}
    nruns = nfail = 0
    samples = []
    for si in range(nscenes):
        kind = ["ball_plane", "balls_plane", "free_collision", "alternate", "balls_plane", "mixed_mu", "tip", "inhomogeneous"][si % 8]
        state = rng.getstate()
        dt = dts[si % len(dts)]
        nsteps = 50 if kind != "free_collision" else int(min(200, max(30, 0.5 / dt)))
        if kind == "alternate":
            dt, nsteps = 1e-2, 70
        for solver in SOLVERS:
            rng.setstate(state)
            system, desc, energy_applies = scene(rng, kind)
            bases0 = {c.name: np.array(c.reference_contact_basis, dtype=float).copy() for c in system.contributions if hasattr(c, "reference_contact_basis")}
            if solver == "DualStormerVerlet" and energy_applies is False and desc["mu"] > 0 and any(b == "RigidBody" for b in desc["bodies"]):
                pass
            mk = (lambda S=cls[solver], sysm=system: S(sysm, nsteps * dt, dt, options=_opts()))
            with warnings.catch_warnings():
                warnings.simplefilter("ignore")
                rr = runs.record_run(mk, system, solver, False, nsteps)
            nruns += 1
            if rr.exc is not None or rr.sol is None or len(rr.sol.t) < 3:
                nfail += 1
                ctx.notes.append(f"scene {si} ({kind}, dt={dt}) {solver}: {type(rr.exc).__name__ if rr.exc else 'short run'} (loud, not judged here)")
                continue
            acc = [e for e in rr.raw if e["e"] == "accept"]
            try:
                recs = records_for(system, rr.sol, solver, acc, dt, energy_applies and desc["mu"] == 0.0 and desc["e_N"] <= 1.0, tag=len(allrecs) + 1, bases0=bases0)
            except Exception as ex:
                raise tlc.MachineryError(f"cannot evaluate records for {solver} scene {si}: {type(ex).__name__}: {ex}")
            # ids must be consecutive over the whole batch
            for j, rec in enumerate(recs):
                rec["id"] = len(allrecs) + 1
                meta[rec["id"]] = {"scene": si, "kind": kind, "dt": dt, "solver": solver, "desc": desc, **rec.pop("_info")}
                allrecs.append(rec)
        if len(samples) < 3:
            samples.append({"scene": si, "kind": kind, "dt": dt, "desc": desc})
    if not allrecs:
        raise tlc.MachineryError("no contact records produced")
    rejected, rt = runs.batch_validate(ctx, "ContactLaw", allrecs, {"Mode": '"trace"', "LMax": 1}, "contactlaw")
    judged = sum(1 for x in allrecs if not x["borderline"])
    closed = sum(1 for x in allrecs if x["closed"] and not x["borderline"])
    sliding = sum(1 for x in allrecs if x["slip"] and x["hasF"] and x["PN"] == "pos" and not x["borderline"])
    for rid, clause in rejected.items():
        m = meta[rid]
        key = f"{m['solver']}:{clause[:60].replace(' ', '_')}"
        if clause.startswith("kinetic energy increased"):
            # identified by solver, kind of scene and kind of contact (sphere-sphere s.., sphere-plane p..)
            key = f"{m['solver']}:{m['kind']}:{'sphere-sphere' if str(m['contact']).startswith('s') else 'sphere-plane'}:kinetic_energy_increased_in_a_frictionless_impact"
        ctx.violation(key, f"{m['solver']} scene {m['scene']} ({m['kind']}, dt={m['dt']}, e_N={m['desc']['e_N']}, mu={m['desc']['mu']}) step {m['step']} "
                      f"contact {m['contact']}: {clause}; gap={m.get('gap'):.3e} xi_N={m.get('xi_N'):.3e} P_N={m.get('P_N'):.3e} "
                      f"P_F={m.get('P_F')} xi_F={m.get('xi_F')}", {"record": allrecs[rid - 1], "meta": m})
    ctx.log(f"[C18] {nruns} runs ({nfail} ended loudly), {len(allrecs)} step-contact records, {judged} judged ({closed} closed, {sliding} sliding), {len(rejected)} rejected")
    if closed < 20 or sliding < 5:
        raise tlc.MachineryError(f"scenes too tame: only {closed} closed / {sliding} sliding records")
    ctx.coverage = {"evaluations": len(allrecs), "distinct_nontrivial": closed, "samples": samples,
                    "rule": "one record per stored step and normal contact; non-trivial = contact closed (by the scheme's own test) and not borderline",
                    "records_judged": judged, "records_sliding": sliding, "runs": nruns, "runs_ended_loudly": nfail,
                    "states": r.distinct + rt.distinct, "traces_validated_against_impl": nruns - nfail}
    ctx.assumptions = ["the decisive comparisons are float thresholds computed by the harness (zero: gap 1e-7, rate 1e-6(1+|u|), percussion 1e-8(1+|P|)) with solver "
                       "tolerances 1e-10; values within a factor 10 of a threshold are borderline and not judged",
                       "TLC contributes the law per scheme, the prox/complementarity lemma and total coverage of the recorded steps",
                       "e_F = 0 in all scenes"]


def replay(ctx, path):
    run(ctx)
