"""C13 Finite-element basis, quadrature and connectivity are correct.

Decide: spec/Mesh.tla -- connectivity from first principles (node a of element e, component i of node n),
        element lookup on integer knot partitions, Lagrange basis values and derivatives as exact fractions,
        exact integrals of monomials; TLC checks partition of unity, zero-sum derivatives, the Kronecker
        property, the shared-node property of neighbouring elements and coverage for every case.
Bind:   every case (one TLC state) is replayed: Mesh1D / LagrangeKnotVector / LagrangeBasis / gauss / lobatto
        are built with the same parameters; integer arrays are compared exactly, basis values after scaling
        with the spec's denominator, quadrature sums at 1e-12 relative.
"""
from __future__ import annotations

import os
import warnings

import numpy as np

from .. import tlc


def _conn(ctx, c, e):
    from cardillo.rods.discretization.lagrange import LagrangeKnotVector
    from cardillo.rods.discretization.mesh1D import Mesh1D

    basis = "Lagrange_Disc" if c["disc"] else "Lagrange"
    key = f"conn:{basis}:p={c['p']}:nel={c['nel']}:dim={c['dim']}"
    kv = LagrangeKnotVector(c["p"], c["nel"])
    m = Mesh1D(kv, c["p"] + 1, dim_q=c["dim"], derivative_order=1, basis=basis, quadrature="Gauss")
    rep = {"case": c}
    if m.nnodes != e["nnodes"]:
        ctx.violation(key + ":nnodes", f"nnodes {m.nnodes}, spec {e['nnodes']}", rep)
        return
    for name, exp in (("elDOF", e["elDOF"]), ("nodalDOF", e["nodalDOF"]), ("nodalDOF_element", e["nodalDOF_element"])):
        got = np.asarray(getattr(m, name))
        expa = np.asarray(exp)
        if got.shape != expa.shape or not np.array_equal(got, expa):
            ctx.violation(key + ":" + name, f"{name} = {got.tolist()[:2]}..., spec {expa.tolist()[:2]}...", rep)
            return
    if not np.array_equal(np.asarray(m.elDOF_u), np.asarray(e["elDOF"])):
        ctx.violation(key + ":elDOF_u", "elDOF_u differs from elDOF for dim_u = dim_q", rep)


def _lookup(ctx, c, e, cache):
    from cardillo.rods.discretization.lagrange import LagrangeKnotVector
    from cardillo.rods.discretization.mesh1D import Mesh1D

    knots = [k / 2.0 for k in c["knots"]]
    nel = len(knots) - 1
    xi = c["xi"] / 2.0
    rep = {"case": c}
    for degree in (1, 2, 3):
        key = f"lookup:p={degree}:knots={knots}"
        ck = (degree, tuple(knots))
        if ck not in cache:
            try:
                scale = knots[-1]
                uniform = all(abs(knots[i] - i * scale / nel) < 1e-15 for i in range(nel + 1))
                cache[ck] = LagrangeKnotVector(degree, nel, data=None if (uniform and scale == 1.0) else np.array(knots))
            except Exception as ex:
                cache[ck] = ex
        kv = cache[ck]
        if isinstance(kv, Exception):
            ctx.violation(f"lookup:construct:p={degree}", f"LagrangeKnotVector(degree={degree}, nel={nel}, data={knots}) raised {type(kv).__name__}: {kv}", rep)
            continue
        got = kv.element_number(xi)
        el = int(np.asarray(got).ravel()[0])
        if el != e["el"]:
            ctx.violation(key + ":element", f"element_number({xi}) = {el}, spec {e['el']} for knots {knots}", rep)
            continue
        a, b = kv.element_interval(el)
        if not (a <= xi <= b) or (a, b) != (knots[el], knots[el + 1]):
            ctx.violation(key + ":interval", f"element_interval({el}) = [{a}, {b}] does not contain xi = {xi} / is not [{knots[el]}, {knots[el+1]}]", rep)
            continue
        # the mesh's own (memoised) basis evaluation: at a knot shared by two elements each element must see its
        # own end node (Kronecker property per requested element), whatever was asked before
        mk = ("mesh",) + ck
        if mk not in cache:
            cache[mk] = Mesh1D(kv, degree + 1, dim_q=3, derivative_order=1, basis="Lagrange", quadrature="Gauss")
        mesh = cache[mk]
        if xi in knots:
            i = knots.index(xi)
            asks = []
            if i > 0:
                asks.append((i - 1, degree))      # last node of the element on the left
            if i < nel:
                asks.append((i, 0))               # first node of the element on the right
            asks.append((None, 0 if (i < nel) else degree))
            for (ask_el, one_at) in asks + asks[::-1]:
                N = np.asarray(mesh.eval_basis(xi, ask_el))[0].ravel()
                expN = np.zeros(degree + 1); expN[one_at] = 1.0
                if not np.allclose(N, expN, atol=1e-12):
                    ctx.violation(f"meshbasis:p={degree}:knot", f"Mesh1D.eval_basis({xi}, el={ask_el}) = {N.tolist()}, Kronecker property demands {expN.tolist()} (knots {knots})", rep)
                    break


def _basis(ctx, c, e):
    from cardillo.rods.discretization.lagrange import LagrangeBasis

    p, a, ln, r, s = c["p"], c["a"], c["len"], c["r"], c["s"]
    b = a + ln
    xi = a + ln * r / s
    if r == s:
        xi = float(b)
    key = f"basis:p={p}"
    rep = {"case": c}
    basis = LagrangeBasis(p, interval=[float(a), float(b)])
    try:
        val = np.asarray(basis(xi)).ravel()
        der = np.asarray(basis.deriv(xi, n=1)).ravel()
    except Exception as ex:
        ctx.violation(key + ":raises", f"LagrangeBasis({p}) on [{a},{b}] at {xi} raised {type(ex).__name__}: {ex}", rep)
        return
    den = float(e["den"])
    ev = np.array(e["val"], dtype=float) / den
    ed = np.array(e["der"], dtype=float) / den / ln
    if val.shape != ev.shape or not np.allclose(val, ev, rtol=0, atol=1e-11):
        ctx.violation(key + ":value", f"basis values {val.tolist()} on [{a},{b}] at xi={xi}, exact {ev.tolist()}", rep)
    elif not np.allclose(der, ed, rtol=1e-10, atol=1e-10):
        ctx.violation(key + ":derivative", f"basis derivatives {der.tolist()} on [{a},{b}] at xi={xi}, exact {ed.tolist()}", rep)


def _quad(ctx, c, e):
    from cardillo.rods.discretization.gauss import gauss, lobatto

    a, b = float(c["a"]), float(c["a"] + c["len"])
    rule = gauss if c["rule"] == "gauss" else lobatto
    key = f"quad:{c['rule']}:n={c['n']}"
    rep = {"case": c}
    try:
        with warnings.catch_warnings():
            warnings.simplefilter("ignore")
            x, w = rule(c["n"], interval=np.array([a, b]))
    except Exception as ex:
        ctx.violation(key + ":raises", f"{c['rule']}({c['n']}, [{a},{b}]) raised {type(ex).__name__}: {ex}", rep)
        return
    x = np.real(np.asarray(x)); w = np.real(np.asarray(w))
    got = float(np.sum(w * x ** c["k"]))
    exact = e["num"] / e["den"]
    scale = max(abs(exact), c["len"] * max(abs(a), abs(b), 1.0) ** c["k"] * 1e-3, 1e-300)
    if len(x) != c["n"] or abs(got - exact) > 1e-11 * max(scale, abs(exact)) + 1e-13:
        ctx.violation(key + f":k={c['k']}", f"{c['rule']} rule with {c['n']} points integrates x^{c['k']} over [{a},{b}] to {got!r}, exact {exact!r}", rep)
    if np.any(x < a - 1e-12) or np.any(x > b + 1e-12) or abs(np.sum(w) - (b - a)) > 1e-12 * (b - a):
        ctx.violation(key + ":points", f"points outside [{a},{b}] or weights do not sum to the length: {x.tolist()}, sum w = {np.sum(w)}", rep)


def run(ctx):
    ctx.level = "model_checking"
    cfg = os.path.join(ctx.scratch, "mesh.cfg")
    P, NEL, QN = (5, 12, 7)
    open(cfg, "w").write(f"SPECIFICATION Spec\nCONSTANTS\n  MaxP = {P}\n  MaxNel = {NEL}\n  MaxQuadN = {QN}\nINVARIANT CaseOK\n")
    dot = os.path.join(ctx.scratch, "mesh")
    r = tlc.run_tlc("Mesh", cfg, scratch=ctx.scratch, dump_dot=dot, timeout=1200)
    tlc.require_ok(r, "Mesh")
    if r.violated:
        ctx.violation(f"spec:{r.violated}", f"TLC: {r.violated} violated", {"stdout": r.stdout[-3000:]})
    g = tlc.parse_dot(dot + ".dot")
    counts = {}
    cache = {}
    samples = []
    for nid in g.init:
        st = g.nodes[nid]
        c, e = st["case"], st["expected"]
        k = c["kind"]
        counts[k] = counts.get(k, 0) + 1
        try:
            if k == "conn":
                _conn(ctx, c, e)
            elif k == "lookup":
                _lookup(ctx, c, e, cache)
            elif k == "basis":
                _basis(ctx, c, e)
            else:
                _quad(ctx, c, e)
        except Exception as ex:
            ctx.violation(f"{k}:raises", f"case {c} raised {type(ex).__name__}: {ex}", {"case": c})
        if counts[k] == 2:
            samples.append({"case": c, "expected": e if k != "conn" else {"nnodes": e["nnodes"], "elDOF[0]": e["elDOF"][0]}})
    ctx.log(f"[C13] cases replayed: {counts}")
    ctx.coverage = {"states": r.distinct, "transitions": max(r.generated, 1), "traces_validated_against_impl": sum(counts.values()),
                    "samples": samples, "exhaustive": True, "cases": counts,
                    "rule": "degrees 1..5 x element counts 1..12 x dims {3,4,7} x {continuous, discontinuous}; 8 knot partitions x all (half-)integer "
                            "parameters x degrees 1..3; basis degree 1..5 x intervals x rational points r/s; Gauss n=1..7, Lobatto n=2..7 x all admissible monomials x intervals"}
    ctx.assumptions = ["basis values compared at 1e-11 absolute against exact fractions; quadrature at 1e-11 relative (Gauss nodes are irrational)",
                       "non-uniform knot vectors are passed as corner-node data"]


def replay(ctx, path):
    run(ctx)
