"""C13 Finite-element basis, quadrature and connectivity are correct.

Decide: spec/Mesh.tla -- connectivity from first principles (node a of element e, component i of node n),
        element lookup on integer knot partitions, Lagrange basis values and derivatives as exact fractions,
        exact integrals of monomials; TLC checks partition of unity, zero-sum derivatives, the Kronecker
        property, the shared-node property of neighbouring elements and coverage for every case.
Bind:   every case (one TLC state) is replayed: Mesh1D / LagrangeKnotVector / LagrangeBasis / gauss / lobatto
        are built with the same parameters; integer arrays are compared exactly, basis values after scaling
        with the spec's denominator, quadrature sums at 1e-12 relative.
"""
from __future__ import annotations

import os
import warnings

import numpy as np

from .. import tlc


def _conn(ctx, c, e):
    from cardillo.rods.discretization.lagrange import LagrangeKnotVector
    from cardillo.rods.discretization.mesh1D import Mesh1D

    basis = "Lagrange_Disc" if c["disc"] else "Lagrange"
    key = f"conn:{basis}:p={c['p']}:nel={c['nel']}:dim={c['dim']}"
    kv = LagrangeKnotVector(c["p"], c["nel"])
    m = Mesh1D(kv, c["p"] + 1, dim_q=c["dim"], derivative_order=1, basis=basis, quadrature="Gauss")
    rep = {"case": c}
    if m.nnodes != e["nnodes"]:
        ctx.violation(key + ":nnodes", f"nnodes {m.nnodes}, spec {e['nnodes']}", rep)
        return
    for name, exp in (("elDOF", e["elDOF"]), ("nodalDOF", e["nodalDOF"]), ("nodalDOF_element", e["nodalDOF_element"])):
        got = np.asarray(getattr(m, name))
        expa = np.asarray(exp)
        if got.shape != expa.shape or not np.array_equal(got, expa):
            ctx.violation(key + ":" + name, f"{name} = {got.tolist()[:2]}..., spec {expa.tolist()[:2]}...", rep)
            return
    if not np.array_equal(np.asarray(m.elDOF_u), np.asarray(e["elDOF"])):
        ctx.violation(key + ":elDOF_u", "elDOF_u differs from elDOF for dim_u = dim_q", rep)


def _lookup(ctx, c, e, cache):
    from cardillo.rods.discretization.lagrange import LagrangeKnotVector
    from cardillo.rods.discretization.mesh1D import Mesh1D

    knots = [k / 2.0 for k in c["knots"]]
    nel = len(knots) - 1
    xi = c["xi"] / 2.0
    rep = {"case": c}
    for degree in (1, 2, 3):
        key = f"lookup:p={degree}:knots={knots}"
        ck = (degree, tuple(knots))
        if ck not in cache:
            try:
                scale = knots[-1]
                uniform = all(abs(knots[i] - i * scale / nel) < 1e-15 for i in range(nel + 1))
                cache[ck] = LagrangeKnotVector(degree, nel, data=None if (uniform and scale == 1.0) else np.array(knots))
            except Exception as ex:
                cache[ck] = ex
        kv = cache[ck]
        if isinstance(kv, Exception):
            ctx.violation(f"lookup:construct:p={degree}", f"LagrangeKnotVector(degree={degree}, nel={nel}, data={knots}) raised {type(kv).__name__}: {kv}", rep)
            continue
        # several parameters at once, in any order, the end point among them (it belongs to the last element wherever it stands)
        for seq, exp_seq in (([knots[-1], xi], [nel - 1, e["el"]]), ([xi, knots[-1], xi], [e["el"], nel - 1, e["el"]]), ((knots[-1], knots[0]), [nel - 1, 0])):
            try:
                gs = [int(v) for v in np.asarray(kv.element_number(seq)).ravel()]
            except Exception as ex:
                ctx.violation(key + ":element:sequence:raises", f"element_number({list(seq)}) raised {type(ex).__name__}: {ex} for knots {knots}", rep)
                break
            if gs != exp_seq:
                ctx.violation(key + ":element:sequence", f"element_number({list(seq)}) = {gs}, spec {exp_seq} for knots {knots}", rep)
                break
        got = kv.element_number(xi)
        el = int(np.asarray(got).ravel()[0])
        if el != e["el"]:
            ctx.violation(key + ":element", f"element_number({xi}) = {el}, spec {e['el']} for knots {knots}", rep)
            continue
        a, b = kv.element_interval(el)
        if not (a <= xi <= b) or (a, b) != (knots[el], knots[el + 1]):
            ctx.violation(key + ":interval", f"element_interval({el}) = [{a}, {b}] does not contain xi = {xi} / is not [{knots[el]}, {knots[el+1]}]", rep)
            continue
        # the mesh's own (memoised) basis evaluation: at a knot shared by two elements each element must see its
        # own end node (Kronecker property per requested element), whatever was asked before
        mk = ("mesh",) + ck
        if mk not in cache:
            cache[mk] = Mesh1D(kv, degree + 1, dim_q=3, derivative_order=1, basis="Lagrange", quadrature="Gauss")
            cache["tables"] = cache.get("tables", 0) + _mesh_tables(ctx, kv, degree, knots, rep)
        mesh = cache[mk]
        if xi in knots:
            i = knots.index(xi)
            asks = []
            if i > 0:
                asks.append((i - 1, degree))      # last node of the element on the left
            if i < nel:
                asks.append((i, 0))               # first node of the element on the right
            asks.append((None, 0 if (i < nel) else degree))
            for (ask_el, one_at) in asks + asks[::-1]:
                N = np.asarray(mesh.eval_basis(xi, ask_el))[0].ravel()
                expN = np.zeros(degree + 1); expN[one_at] = 1.0
                if not np.allclose(N, expN, atol=1e-12):
                    ctx.violation(f"meshbasis:p={degree}:knot", f"Mesh1D.eval_basis({xi}, el={ask_el}) = {N.tolist()}, Kronecker property demands {expN.tolist()} (knots {knots})", rep)
                    break


def lag(p, nu):
    """Lagrange basis of degree p with equally spaced nodes on [0, 1] at nu and its nu-derivative: Mesh.tla's L_j = prod_{m # j} (nu p - m) / (j - m)"""
    val = np.ones(p + 1); der = np.zeros(p + 1)
    for j in range(p + 1):
        for m in range(p + 1):
            if m != j:
                val[j] *= (nu * p - m) / (j - m)
        for k in range(p + 1):
            if k == j:
                continue
            t = p / (j - k)
            for m in range(p + 1):
                if m not in (j, k):
                    t *= (nu * p - m) / (j - m)
            der[j] += t
    return val, der


def _mesh_tables(ctx, kv, degree, knots, rep):
    """the tables a mesh precomputes on a (possibly non-uniform) partition: quadrature points inside their elements, weights summing to the element
    lengths, composite exactness for monomials, shape-function tables equal to the Lagrange basis of the element at the quadrature points"""
    from cardillo.rods.discretization.mesh1D import Mesh1D

    nel = len(knots) - 1
    n = 0
    for quad in ("Gauss", "Lobatto"):
        nq = degree + 1
        key = f"meshtables:{quad}:p={degree}"
        try:
            with warnings.catch_warnings():
                warnings.simplefilter("ignore")
                m = Mesh1D(kv, nq, dim_q=3, derivative_order=1, basis="Lagrange", quadrature=quad)
        except Exception as ex:
            ctx.violation(key + ":raises", f"Mesh1D on knots {knots} raised {type(ex).__name__}: {ex}", rep)
            continue
        n += 1
        qp, wp = np.real(np.asarray(m.qp)), np.real(np.asarray(m.wp))
        bad = None
        for el in range(nel):
            a, b = knots[el], knots[el + 1]
            if np.any(qp[el] < a - 1e-12) or np.any(qp[el] > b + 1e-12):
                bad = f"quadrature points {qp[el].tolist()} of element {el} lie outside [{a}, {b}]"
            elif abs(np.sum(wp[el]) - (b - a)) > 1e-12 * (b - a):
                bad = f"weights of element {el} sum to {np.sum(wp[el])}, its length is {b - a}"
            if bad:
                break
            for i in range(nq):
                val, der = lag(degree, (qp[el, i] - a) / (b - a))
                if not np.allclose(np.asarray(m.N)[el, i], val, rtol=0, atol=1e-10):
                    bad = f"N[{el}, {i}] = {np.asarray(m.N)[el, i].tolist()} is not the Lagrange basis of element {el} at its quadrature point {qp[el, i]}: {val.tolist()}"
                elif not np.allclose(np.asarray(m.N_xi)[el, i], der / (b - a), rtol=1e-9, atol=1e-9):
                    bad = f"N_xi[{el}, {i}] = {np.asarray(m.N_xi)[el, i].tolist()} is not the derivative of the Lagrange basis of element {el} at {qp[el, i]}: {(der / (b - a)).tolist()}"
                if bad:
                    break
            if bad:
                break
        if bad is None:
            kmax = 2 * nq - 1 if quad == "Gauss" else 2 * nq - 3
            for k in range(kmax + 1):
                got = float(np.sum(wp * qp ** k))
                exact = (knots[-1] ** (k + 1) - knots[0] ** (k + 1)) / (k + 1)
                if abs(got - exact) > 1e-11 * max(abs(exact), 1.0):
                    bad = f"the composite {quad} rule of the mesh integrates x^{k} over [{knots[0]}, {knots[-1]}] to {got!r}, exact {exact!r}"
                    break
        if bad:
            ctx.violation(key, f"{bad} (knots {knots})", rep)
    return n


def _interleaved(ctx, cache):
    """several live meshes of one degree on different partitions, asked alternately for the same element index at fresh points"""
    n = 0
    by_degree = {}
    for k, v in cache.items():
        if k[0] == "mesh":
            by_degree.setdefault(k[1], []).append((list(k[2]), v))
    for degree, meshes in sorted(by_degree.items()):
        meshes.sort(key=lambda kv_: kv_[0])
        for rnd, frac in enumerate((0.25, 0.6, 0.85, 0.1)):
            for el in range(3):
                for knots, mesh in meshes + meshes[::-1]:
                    if el >= len(knots) - 1:
                        continue
                    a, b = knots[el], knots[el + 1]
                    nu = frac + 0.01 * rnd + 0.001 * len(knots)
                    xi = a + (b - a) * nu
                    n += 1
                    try:
                        N = np.asarray(mesh.eval_basis(xi, el))
                    except Exception as ex:
                        ctx.violation(f"meshbasis:p={degree}:interleaved:raises", f"Mesh1D.eval_basis({xi}, {el}) on knots {knots} raised {type(ex).__name__}: {ex}", {"knots": knots})
                        continue
                    val, der = lag(degree, (xi - a) / (b - a))
                    if not np.allclose(N[0].ravel(), val, rtol=0, atol=1e-10) or not np.allclose(N[1].ravel(), der / (b - a), rtol=1e-9, atol=1e-9):
                        ctx.violation(f"meshbasis:p={degree}:interleaved", f"Mesh1D.eval_basis({xi}, el={el}) on knots {knots}, asked while other meshes of the same degree are in use, "
                                      f"= {N[0].ravel().tolist()}, the element's Lagrange basis gives {val.tolist()}", {"knots": knots, "xi": xi, "el": el})
                        return n
    return n


def _basis(ctx, c, e):
    from cardillo.rods.discretization.lagrange import LagrangeBasis

    p, a, ln, r, s = c["p"], c["a"], c["len"], c["r"], c["s"]
    b = a + ln
    xi = a + ln * r / s
    if r == s:
        xi = float(b)
    key = f"basis:p={p}"
    rep = {"case": c}
    basis = LagrangeBasis(p, interval=[float(a), float(b)])
    try:
        val = np.asarray(basis(xi)).ravel()
        der = np.asarray(basis.deriv(xi, n=1)).ravel()
    except Exception as ex:
        ctx.violation(key + ":raises", f"LagrangeBasis({p}) on [{a},{b}] at {xi} raised {type(ex).__name__}: {ex}", rep)
        return
    den = float(e["den"])
    ev = np.array(e["val"], dtype=float) / den
    ed = np.array(e["der"], dtype=float) / den / ln
    if val.shape != ev.shape or not np.allclose(val, ev, rtol=0, atol=1e-11):
        ctx.violation(key + ":value", f"basis values {val.tolist()} on [{a},{b}] at xi={xi}, exact {ev.tolist()}", rep)
    elif not np.allclose(der, ed, rtol=1e-10, atol=1e-10):
        ctx.violation(key + ":derivative", f"basis derivatives {der.tolist()} on [{a},{b}] at xi={xi}, exact {ed.tolist()}", rep)


def _quad(ctx, c, e):
    from cardillo.rods.discretization.gauss import gauss, lobatto

    a, b = float(c["a"]), float(c["a"] + c["len"])
    rule = gauss if c["rule"] == "gauss" else lobatto
    key = f"quad:{c['rule']}:n={c['n']}"
    rep = {"case": c}
    try:
        with warnings.catch_warnings():
            warnings.simplefilter("ignore")
            x, w = rule(c["n"], interval=np.array([a, b]))
    except Exception as ex:
        ctx.violation(key + ":raises", f"{c['rule']}({c['n']}, [{a},{b}]) raised {type(ex).__name__}: {ex}", rep)
        return
    x = np.real(np.asarray(x)); w = np.real(np.asarray(w))
    got = float(np.sum(w * x ** c["k"]))
    exact = e["num"] / e["den"]
    scale = max(abs(exact), c["len"] * max(abs(a), abs(b), 1.0) ** c["k"] * 1e-3, 1e-300)
    if len(x) != c["n"] or abs(got - exact) > 1e-11 * max(scale, abs(exact)) + 1e-13:
        ctx.violation(key + f":k={c['k']}", f"{c['rule']} rule with {c['n']} points integrates x^{c['k']} over [{a},{b}] to {got!r}, exact {exact!r}", rep)
    if np.any(x < a - 1e-12) or np.any(x > b + 1e-12) or abs(np.sum(w) - (b - a)) > 1e-12 * (b - a):
        ctx.violation(key + ":points", f"points outside [{a},{b}] or weights do not sum to the length: {x.tolist()}, sum w = {np.sum(w)}", rep)


def run(ctx):
    ctx.level = "model_checking"
    cfg = os.path.join(ctx.scratch, "mesh.cfg")
    P, NEL, QN = (5, 12, 7)
    open(cfg, "w").write(f"SPECIFICATION Spec\nCONSTANTS\n  MaxP = {P}\n  MaxNel = {NEL}\n  MaxQuadN = {QN}\nINVARIANT CaseOK\n")
    dot = os.path.join(ctx.scratch, "mesh")
    r = tlc.run_tlc("Mesh", cfg, scratch=ctx.scratch, dump_dot=dot, timeout=1200)
    tlc.require_ok(r, "Mesh")
    if r.violated:
        ctx.violation(f"spec:{r.violated}", f"TLC: {r.violated} violated", {"stdout": r.stdout[-3000:]})
    g = tlc.parse_dot(dot + ".dot")
    counts = {}
    cache = {}
    samples = []
    for nid in g.init:
        st = g.nodes[nid]
        c, e = st["case"], st["expected"]
        k = c["kind"]
        counts[k] = counts.get(k, 0) + 1
        try:
            if k == "conn":
                _conn(ctx, c, e)
            elif k == "lookup":
                _lookup(ctx, c, e, cache)
            elif k == "basis":
                _basis(ctx, c, e)
            else:
                _quad(ctx, c, e)
        except Exception as ex:
            ctx.violation(f"{k}:raises", f"case {c} raised {type(ex).__name__}: {ex}", {"case": c})
        if counts[k] == 2:
            samples.append({"case": c, "expected": e if k != "conn" else {"nnodes": e["nnodes"], "elDOF[0]": e["elDOF"][0]}})
    ninter = _interleaved(ctx, cache)
    counts["mesh tables (Gauss / Lobatto) on the lookup partitions"] = cache.get("tables", 0)
    counts["interleaved basis evaluations on live meshes"] = ninter
    ctx.log(f"[C13] cases replayed: {counts}")
    ctx.coverage = {"states": r.distinct, "transitions": max(r.generated, 1), "traces_validated_against_impl": sum(counts.values()),
                    "samples": samples, "exhaustive": True, "cases": counts,
                    "rule": "degrees 1..5 x element counts 1..12 x dims {3,4,7} x {continuous, discontinuous}; 8 knot partitions x all (half-)integer "
                            "parameters x degrees 1..3; basis degree 1..5 x intervals x rational points r/s; Gauss n=1..7, Lobatto n=2..7 x all admissible monomials x intervals"}
    ctx.assumptions = ["basis values compared at 1e-11 absolute against exact fractions; quadrature at 1e-11 relative (Gauss nodes are irrational)",
                       "non-uniform knot vectors are passed as corner-node data",
                       "the tables a Mesh1D precomputes (qp, wp, N, N_xi) on the lookup partitions are compared with the element's Lagrange basis in the spec's product form "
                       "(floats, 1e-10) and with exact monomial integrals; live meshes of one degree are asked alternately for the same element index"]


def replay(ctx, path):
    run(ctx)
