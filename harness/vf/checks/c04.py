"""C04 Rigid body, point mass and frame kinematics are self-consistent.

Decide: spec/RigidKinematics.tla -- position, velocity, acceleration of a body point, the kinematic equation, the
        gyroscopic force and all their partial derivatives as integer numerators over powers of s = |P|^2; TLC
        checks (as cleared polynomial identities on the lattice, derivatives by exact stencils, never by the
        formulas of the code) that the velocity is the rate of the position along the kinematic equation, the
        acceleration the rate of the velocity, the quaternion length is kept, gyroscopic forces do no work and the
        mass matrix is SPD; for frames with the polynomial motion r(t), P(t) = P0 + t P1 that the stated angular
        velocity / acceleration are those of R(P(t)).
Bind:   every lattice case is evaluated on ONE long-lived RigidBody (memoised methods as shipped), on Frames built
        from the polynomial motion with analytic derivatives, and on PointMass; every routine's output times its
        denominator must be the spec's integers (1e-9); each point is re-evaluated at a translated position at the
        same time and orientation; the property's clauses are also evaluated on the code's own outputs.
"""
from __future__ import annotations

import numpy as np

from ..cases import enumerate_cases, check_only, Cmp
from ..lattice import quat_N

T_EVAL = 0.75
SHIFT = np.array([5.0, -7.0, 11.0])
MASS = 3.0


def _blk(M, rows, cols):
    return np.asarray(M)[np.ix_(rows, cols)] if False else np.asarray(M)[rows][:, cols]


def _rigid(ctx, cmp, body, c, e):
    P = np.array(c["P"], dtype=float)
    r = np.array(c["r"], dtype=float)
    b = np.array(c["b"], dtype=float)
    u = np.array(list(c["v"]) + list(c["w"]), dtype=float)
    ud = np.array(list(c["a"]) + list(c["psi"]), dtype=float)
    q = np.concatenate([r, P])
    s = float(e["s"])
    w = {"P": c["P"], "b": c["b"], "w": c["w"], "psi": c["psi"]}
    t = T_EVAL
    k = "rigid"
    Z3 = np.zeros((3, 3))
    I3 = np.eye(3)
    # position: evaluated, then re-evaluated at a translated position (same t, P, b), then again at the original
    cmp.eq(k, "r_OP", body.r_OP(t, q.copy(), B_r_CP=b.copy()) * s, e["r_OP"], w)
    q2 = q.copy(); q2[:3] += SHIFT
    cmp.eq(k, "r_OP(translated)", body.r_OP(t, q2, B_r_CP=b.copy()) * s, np.array(e["r_OP"]) + s * SHIFT, w)
    cmp.eq(k, "r_OP(default offset)", body.r_OP(t, q.copy()), r, w)
    r_q = body.r_OP_q(t, q.copy(), B_r_CP=b.copy())
    cmp.eq(k, "r_OP_q[:, :3]", r_q[:, :3], I3, w)
    cmp.eq(k, "r_OP_q[:, 3:]", r_q[:, 3:].T * s * s, e["r_OP_P"], w)
    # orientation
    cmp.eq(k, "A_IB", body.A_IB(t, q.copy()) * s, e["A"], w)
    A_q = body.A_IB_q(t, q.copy())
    cmp.eq(k, "A_IB_q[:, :, :3]", A_q[:, :, :3], np.zeros((3, 3, 3)), w)
    cmp.eq(k, "A_IB_q[:, :, 3:]", np.moveaxis(A_q[:, :, 3:], 2, 0) * s * s, e["A_P"], w)
    # velocity
    v = body.v_P(t, q.copy(), u.copy(), B_r_CP=b.copy())
    cmp.eq(k, "v_P", v * s, e["v_P"], w)
    u2 = u.copy(); u2[:3] += SHIFT
    cmp.eq(k, "v_P(other v)", body.v_P(t, q.copy(), u2, B_r_CP=b.copy()) * s, np.array(e["v_P"]) + s * SHIFT, w)
    v_q = body.v_P_q(t, q.copy(), u.copy(), B_r_CP=b.copy())
    cmp.eq(k, "v_P_q[:, :3]", v_q[:, :3], Z3, w)
    cmp.eq(k, "v_P_q[:, 3:]", v_q[:, 3:].T * s * s, e["v_P_P"], w)
    J = body.J_P(t, q.copy(), B_r_CP=b.copy())
    cmp.eq(k, "J_P[:, :3]", J[:, :3], I3, w)
    cmp.eq(k, "J_P[:, 3:]", J[:, 3:].T * s, e["J_P_w"], w)
    J_q = body.J_P_q(t, q.copy(), B_r_CP=b.copy())
    cmp.eq(k, "J_P_q[:, :3, :]", J_q[:, :3, :], np.zeros((3, 3, 7)), w)
    cmp.eq(k, "J_P_q[:, 3:, :3]", J_q[:, 3:, :3], np.zeros((3, 3, 3)), w)
    cmp.eq(k, "J_P_q[:, 3:, 3:]", np.transpose(J_q[:, 3:, 3:], (1, 2, 0)) * s * s, e["J_P_wP"], w)
    # acceleration
    a = body.a_P(t, q.copy(), u.copy(), ud.copy(), B_r_CP=b.copy())
    cmp.eq(k, "a_P", a * s, e["a_P"], w)
    a_q = body.a_P_q(t, q.copy(), u.copy(), ud.copy(), B_r_CP=b.copy())
    cmp.eq(k, "a_P_q[:, :3]", a_q[:, :3], Z3, w)
    cmp.eq(k, "a_P_q[:, 3:]", a_q[:, 3:].T * s * s, e["a_P_P"], w)
    a_u = body.a_P_u(t, q.copy(), u.copy(), ud.copy(), B_r_CP=b.copy())
    cmp.eq(k, "a_P_u[:, :3]", a_u[:, :3], Z3, w)
    cmp.eq(k, "a_P_u[:, 3:]", a_u[:, 3:].T * s, e["a_P_w"], w)
    kap = body.kappa_P(t, q.copy(), u.copy(), B_r_CP=b.copy())
    cmp.eq(k, "kappa_P", kap * s, e["kappa_P"], w)
    kap_q = body.kappa_P_q(t, q.copy(), u.copy(), B_r_CP=b.copy())
    cmp.eq(k, "kappa_P_q[:, :3]", kap_q[:, :3], Z3, w)
    cmp.eq(k, "kappa_P_q[:, 3:]", kap_q[:, 3:].T * s * s, e["kappa_P_P"], w)
    kap_u = body.kappa_P_u(t, q.copy(), u.copy(), B_r_CP=b.copy())
    cmp.eq(k, "kappa_P_u[:, :3]", kap_u[:, :3], Z3, w)
    cmp.eq(k, "kappa_P_u[:, 3:]", kap_u[:, 3:].T * s, e["a_P_w"], w)
    # kinematic equation
    qd = body.q_dot(t, q.copy(), u.copy())
    cmp.eq(k, "q_dot[:3]", qd[:3], u[:3], w)
    cmp.eq(k, "q_dot[3:]", qd[3:] * 2, e["qdotP2"], w)
    qd_q = body.q_dot_q(t, q.copy(), u.copy())
    cmp.eq(k, "q_dot_q[:3, :]", qd_q[:3, :], np.zeros((3, 7)), w)
    cmp.eq(k, "q_dot_q[3:, :3]", qd_q[3:, :3], np.zeros((4, 3)), w)
    cmp.eq(k, "q_dot_q[3:, 3:]", qd_q[3:, 3:].T * 2, e["qdot_P"], w)
    qd_u = body.q_dot_u(t, q.copy())
    cmp.eq(k, "q_dot_u[:3, :]", qd_u[:3, :], np.hstack([I3, Z3]), w)
    cmp.eq(k, "q_dot_u[3:, :3]", qd_u[3:, :3], np.zeros((4, 3)), w)
    cmp.eq(k, "q_dot_u[3:, 3:]", qd_u[3:, 3:] * 2, e["Ti"], w)
    # angular velocity / acceleration of the body's rotation are the generalized ones
    cmp.eq(k, "B_Omega", body.B_Omega(t, q.copy(), u.copy()), c["w"], w)
    cmp.eq(k, "B_Psi", body.B_Psi(t, q.copy(), u.copy(), ud.copy()), c["psi"], w)
    cmp.eq(k, "B_J_R", body.B_J_R(t, q.copy()), np.hstack([Z3, I3]), w)
    cmp.eq(k, "B_Omega_q", body.B_Omega_q(t, q.copy(), u.copy()), np.zeros((3, 7)), w)
    cmp.eq(k, "B_Psi_q", body.B_Psi_q(t, q.copy(), u.copy(), ud.copy()), np.zeros((3, 7)), w)
    cmp.eq(k, "B_Psi_u", body.B_Psi_u(t, q.copy(), u.copy(), ud.copy()), np.zeros((3, 6)), w)
    cmp.eq(k, "B_J_R_q", body.B_J_R_q(t, q.copy()), np.zeros((3, 6, 7)), w)
    # forces and mass matrix
    h = body.h(t, q.copy(), u.copy())
    cmp.eq(k, "h[:3]", h[:3], np.zeros(3), w)
    cmp.eq(k, "h[3:]", h[3:], e["h"], w)
    h_u = body.h_u(t, q.copy(), u.copy())
    cmp.eq(k, "h_u[:3, :], h_u[:, :3]", np.concatenate([h_u[:3, :].ravel(), h_u[:, :3].ravel()]), np.zeros(36), w)
    cmp.eq(k, "h_u[3:, 3:]", h_u[3:, 3:].T, e["h_w"], w)
    M = np.asarray(body.M(t, q.copy()))
    Mexp = np.zeros((6, 6)); Mexp[:3, :3] = MASS * I3; Mexp[3:, 3:] = np.array(e["theta"], dtype=float)
    cmp.eq(k, "M", M, Mexp, w)
    # the property's clauses on the code's own outputs (floats, 1e-10 relative)
    sc = 1.0 + np.max(np.abs(v)) + np.max(np.abs(a))
    rel = [
        ("v_P = r_OP_q q_dot", r_q @ qd, v),
        ("v_P = J_P u", J @ u, v),
        ("a_P = v_P_q q_dot + J_P u_dot", v_q @ qd + J @ ud, a),
        ("a_P = kappa_P + J_P u_dot", kap + J @ ud, a),
        ("P . P_dot = 0", np.array([P @ qd[3:]]), np.zeros(1)),
        ("u . h = 0", np.array([u @ h]), np.zeros(1)),
    ]
    for name, lhs, rhs in rel:
        if not np.allclose(lhs, rhs, rtol=0, atol=1e-10 * sc * (1 + s)):
            ctx.violation(f"rigid:clause:{name}", f"{name} violated at {w}: {np.asarray(lhs).tolist()} vs {np.asarray(rhs).tolist()}", {"where": w})
    try:
        np.linalg.cholesky(M)
        if not np.array_equal(M, M.T):
            raise np.linalg.LinAlgError("not symmetric")
    except np.linalg.LinAlgError as ex:
        ctx.violation("rigid:clause:M SPD", f"mass matrix not symmetric positive definite: {ex}", {"where": w})


def _poly_frame(c):
    """Frame with r(t) = R0 + R1 t + R2 t^2 and A_IB(t) = R(P0 + t P1), derivatives analytic (harness' own formulas)."""
    from cardillo.discrete import Frame

    R0 = np.array([1.0, -2, 0]); R1 = np.array([0.0, 3, 1]); R2 = np.array([2.0, 0, -1])
    P0 = np.array(c["P0"], dtype=float); P1 = np.array(c["P1"], dtype=float)

    def parts(t):
        P = P0 + t * P1
        s = P @ P
        s_t = 2 * P @ P1
        s_tt = 2 * P1 @ P1
        N = quat_N(P)
        Np, Nm = quat_N(P + P1), quat_N(P - P1)
        N_t = (Np - Nm) / 2
        N_tt = Np + Nm - 2 * N
        return s, s_t, s_tt, N, N_t, N_tt

    def A(t):
        s, s_t, s_tt, N, N_t, N_tt = parts(t)
        return N / s

    def A_t(t):
        s, s_t, s_tt, N, N_t, N_tt = parts(t)
        return (N_t * s - N * s_t) / s**2

    def A_tt(t):
        s, s_t, s_tt, N, N_t, N_tt = parts(t)
        return (N_tt * s - N * s_tt) / s**2 - 2 * s_t * (N_t * s - N * s_t) / s**3

    return Frame(r_OP=lambda t: R0 + R1 * t + R2 * t * t, r_OP_t=lambda t: R1 + 2 * R2 * t, r_OP_tt=lambda t: 2 * R2,
                 A_IB=A, A_IB_t=A_t, A_IB_tt=A_tt)


def _frame(ctx, cmp, c, e):
    fr = _poly_frame(c)
    t = float(c["t"])
    b = np.array(c["b"], dtype=float)
    s = float(e["s"])
    w = {"P0": c["P0"], "P1": c["P1"], "t": c["t"], "b": c["b"]}
    k = "frame"
    nq = np.array([])
    cmp.eq(k, "A_IB", fr.A_IB(t, nq) * s, e["A"], w)
    cmp.eq(k, "r_OP", fr.r_OP(t, nq, B_r_CP=b.copy()) * s, e["r_OP"], w)
    cmp.eq(k, "r_OP(default offset)", fr.r_OP(t, nq), e["r"], w)
    cmp.eq(k, "v_P", fr.v_P(t, nq, nq, B_r_CP=b.copy()) * s * s, e["v_P"], w)
    cmp.eq(k, "a_P", fr.a_P(t, nq, nq, nq, B_r_CP=b.copy()) * s**3, e["a_P"], w, tol=1e-8)
    cmp.eq(k, "kappa_P", fr.kappa_P(t, nq, nq, B_r_CP=b.copy()) * s**3, e["a_P"], w, tol=1e-8)
    cmp.eq(k, "B_Omega", fr.B_Omega(t, nq, nq) * s, e["Omega"], w)
    cmp.eq(k, "B_Psi", fr.B_Psi(t, nq, nq, nq) * s * s, e["Psi"], w)
    cmp.eq(k, "B_kappa_R", fr.B_kappa_R(t, nq, nq) * s * s, e["Psi"], w)
    for name, val, shape in (("r_OP_q", fr.r_OP_q(t, nq, B_r_CP=b), (3, 0)), ("v_P_q", fr.v_P_q(t, nq, nq, B_r_CP=b), (3, 0)),
                             ("J_P", fr.J_P(t, nq, B_r_CP=b), (3, 0)), ("a_P_q", fr.a_P_q(t, nq, nq, nq, B_r_CP=b), (3, 0)),
                             ("a_P_u", fr.a_P_u(t, nq, nq, nq, B_r_CP=b), (3, 0)), ("B_J_R", fr.B_J_R(t, nq), (3, 0)),
                             ("J_P_q", fr.J_P_q(t, nq, B_r_CP=b), (3, 0, 0)), ("A_IB_q", fr.A_IB_q(t, nq), (3, 3, 0))):
        if np.shape(val) != shape:
            ctx.violation(f"frame:{name}:shape", f"Frame.{name} has shape {np.shape(val)}, a frame has no coordinates: {shape}", {"where": w})


def _constant_frame(ctx, cmp):
    """a frame given by constants: at rest"""
    from cardillo.discrete import Frame
    from ..lattice import octahedral_group

    n = 0
    for A in octahedral_group()[::5]:
        r = np.array([1.0, -2, 3])
        fr = Frame(r_OP=r, A_IB=A.astype(float))
        b = np.array([2.0, 1, -1])
        w = {"A": A.tolist()}
        for t in (0.0, 1.5):
            cmp.eq("frame0", "r_OP", fr.r_OP(t, B_r_CP=b), r + A @ b, w)
            cmp.eq("frame0", "v_P", fr.v_P(t, B_r_CP=b), np.zeros(3), w)
            cmp.eq("frame0", "a_P", fr.a_P(t, B_r_CP=b), np.zeros(3), w)
            cmp.eq("frame0", "B_Omega", fr.B_Omega(t), np.zeros(3), w)
            cmp.eq("frame0", "B_Psi", fr.B_Psi(t), np.zeros(3), w)
            n += 1
    return n


def _point(ctx, cmp, c, e):
    from cardillo.discrete import PointMass

    pm = PointMass(float(c["m"]))
    q = np.array(c["r"], dtype=float); u = np.array(c["v"], dtype=float); ud = np.array(c["a"], dtype=float)
    b = np.array(c["b"], dtype=float)
    w = dict(c)
    k = "point"
    t = T_EVAL
    cmp.eq(k, "r_OP", pm.r_OP(t, q.copy(), B_r_CP=b.copy()), e["r_OP"], w)
    cmp.eq(k, "r_OP_q", pm.r_OP_q(t, q.copy(), B_r_CP=b.copy()), np.eye(3), w)
    cmp.eq(k, "v_P", pm.v_P(t, q.copy(), u.copy(), B_r_CP=b.copy()), e["v_P"], w)
    cmp.eq(k, "v_P_q", pm.v_P_q(t, q.copy(), u.copy(), B_r_CP=b.copy()), np.zeros((3, 3)), w)
    cmp.eq(k, "J_P", pm.J_P(t, q.copy(), B_r_CP=b.copy()), np.eye(3), w)
    cmp.eq(k, "J_P_q", pm.J_P_q(t, q.copy(), B_r_CP=b.copy()), np.zeros((3, 3, 3)), w)
    cmp.eq(k, "a_P", pm.a_P(t, q.copy(), u.copy(), ud.copy(), B_r_CP=b.copy()), e["a_P"], w)
    cmp.eq(k, "a_P_q", pm.a_P_q(t, q.copy(), u.copy(), ud.copy(), B_r_CP=b.copy()), np.zeros((3, 3)), w)
    cmp.eq(k, "a_P_u", pm.a_P_u(t, q.copy(), u.copy(), ud.copy(), B_r_CP=b.copy()), np.zeros((3, 3)), w)
    cmp.eq(k, "q_dot", pm.q_dot(t, q.copy(), u.copy()), u, w)
    cmp.eq(k, "q_dot_u", pm.q_dot_u(t, q.copy()), np.eye(3), w)
    cmp.eq(k, "M", pm.M(t, q.copy()), e["M"], w)
    cmp.eq(k, "2 E_kin", [2 * pm.E_kin(t, q.copy(), u.copy())], [e["ekin2"]], w)
    cmp.eq(k, "E_kin = u M u / 2", [pm.E_kin(t, q.copy(), u.copy())], [0.5 * u @ np.asarray(pm.M(t, q)) @ u], w)


def run(ctx):
    from cardillo.discrete import RigidBody

    ctx.level = "model_checking"
    gmax = 3 if ctx.thorough else 2
    stride = 3 if ctx.thorough else 5
    # identities on the whole grid (no dump), then the thinned set of binding cases
    import time
    t0 = time.time()
    r_all = check_only(ctx, "RigidKinematics", {"GMax": gmax, "Stride": 1, "Bind": "FALSE"}, tag="rk_identities")
    t1 = time.time()
    r, cases = enumerate_cases(ctx, "RigidKinematics", {"GMax": gmax, "Stride": stride, "Bind": "TRUE"}, tag="rk_cases")
    ctx.log(f"[C04] TLC identities {t1 - t0:.0f}s, case enumeration + parse {time.time() - t1:.0f}s")
    cmp = Cmp(ctx)
    body = None
    counts = {"rigid": 0, "frame": 0, "point": 0}
    samples = []
    # rigid cases in a deterministic order in which consecutive cases often share the quaternion and the offset
    cases.sort(key=lambda st: repr(sorted(st["case"].items())))
    for st in cases:
        c, e = st["case"], st["expected"]
        kind = c["kind"]
        counts[kind] += 1
        try:
            if kind == "rigid":
                if body is None:
                    body = RigidBody(MASS, np.array(e["theta"], dtype=float))
                _rigid(ctx, cmp, body, c, e)
            elif kind == "frame":
                _frame(ctx, cmp, c, e)
            else:
                _point(ctx, cmp, c, e)
        except Exception as ex:
            ctx.violation(f"{kind}:raises", f"evaluation of case {c} raised {type(ex).__name__}: {ex}", {"case": c})
        if counts[kind] == 5:
            samples.append({"case": c, "expected": {k: e[k] for k in list(e)[:4]}})
    counts["constant_frame"] = _constant_frame(ctx, cmp)
    ctx.log(f"[C04] identities on the full grid: {r_all.distinct} states; cases replayed {counts}; {cmp.n} routine outputs compared, {cmp.bad} differ")
    ctx.coverage = {"states": r_all.distinct + r.distinct, "transitions": max(r_all.generated + r.generated, 1),
                    "traces_validated_against_impl": sum(counts.values()), "samples": samples, "exhaustive": True,
                    "cases": counts, "routine_outputs_compared": cmp.n, "grid": f"-{gmax}..{gmax}", "stride": stride,
                    "rule": "identities: every nonzero integer quaternion of the grid x offsets x angular velocities x angular accelerations; "
                            "binding: every stride-th quaternion; frames: 3 x 3 polynomial quaternion motions x 3 times x 2 offsets; point masses: all"}
    ctx.assumptions = ["the routines compute rational functions of (P, u, u_dot, B_r_CP) without branching on magnitudes; agreement on the grid then extends to all inputs",
                       "scaled code values within 1e-9 relative of the spec's integers (1e-8 for s^3-scaled frame accelerations)",
                       "frames are supplied with analytic first and second derivatives of a polynomial-quaternion motion"]


def replay(ctx, path):
    run(ctx)
