"""C08 Force-element and actuator Jacobians are exact (claimed on rational configurations).

Decide: spec/ForceJacobians.tla -- dual numbers a + eps b over exact rationals (sqrt with a given, checked root; the angle of a planar
        vector through its derivative only).  Layer 1: two-point distance / revolute angle with rate and force direction; layer 2:
        spring, Kelvin-Voigt (both forms), Maxwell, motor, PD, PID, dead and follower forces and moments.  The eps part of a quantity
        evaluated with the state moved by eps along a direction IS its derivative along that direction.  TLC checks the dual results
        against closed forms on a lattice (identities) and rejects the as-found Maxwell column.
Bind:   (code -> spec) real TwoPointInteraction / Revolute objects between rigid bodies, point masses and frames, with every law and
        actuator class, assembled into Systems and evaluated at rational states (integer positions and velocities, integer quaternions
        of several lengths incl. non-octahedral ones, Pythagorean point separations).  One record per (element, state, coordinate
        direction of q or u): the direction data of points / bases / velocities / subsystem Jacobians from the subsystems' own routines
        and the matching columns of l_q, l_dot_q, l_dot_u, W_l_q, h_q, h_u, c_q, c_u, c_la_c, Wla_c_q, Wla_tau_q, Wla_tau_u, q_dot_q.
        TLC recomputes every record and names the first routine that differs.  The System-level matrices are compared with the
        scatter of the local ones.
"""
from __future__ import annotations

import copy
import warnings
from fractions import Fraction

import numpy as np

from .. import tlc
from ..cases import check_only
from ..lattice import octahedral_group
from ..runs import batch_validate
from .c05 import make_sub, oct_quats, kinematics
from .c06 import PYTH

DEN = 1 << 20
BIG = 1500.0


class NotRational(Exception):
    pass


def fr(x):
    x = float(x)
    if not np.isfinite(x):
        raise NotRational(f"value {x!r} is not finite")
    if abs(x) > BIG:
        raise NotRational(f"value {x!r} is too large for the lattice")
    f = Fraction(x).limit_denominator(DEN)
    return [f.numerator, f.denominator]


def fv(v):
    return [fr(x) for x in np.asarray(v, dtype=float).ravel()]


def resid(val):
    """None if every entry is a rational with a denominator below 2^20 up to rounding (1e-11), else the worst entry and its distance"""
    worst = None
    for x in np.asarray(val, dtype=float).ravel():
        f = Fraction(float(x)).limit_denominator(DEN)
        r = abs(float(x) - f.numerator / f.denominator)
        if not (r <= 1e-11 * (1 + abs(x))) and (worst is None or r > worst[1]):
            worst = (float(x), r)
    return worst


def fm(M):
    return [fv(row) for row in np.asarray(M, dtype=float)]


Z3 = [[0, 1]] * 3


def quat_pool():
    pool = [q * s for q in oct_quats() for s in (1.0, 2.0)]
    for P in ((2, 1, 0, 0), (1, 0, 2, 0), (2, 0, 0, -1), (1, 1, 1, 0), (1, -2, 0, 0), (0, 1, 1, -1), (2, 1, 1, 0)):
        pool.append(np.array(P, dtype=float))
    return pool


def iv(rng, lo=-2, hi=3):
    return np.array([rng.randint(lo, hi) for _ in range(3)], dtype=float)


def state_of(sub, rng, quats):
    if sub.kind == "rigid":
        return np.concatenate([iv(rng), quats[rng.randrange(len(quats))]]), np.concatenate([iv(rng), iv(rng, -2, 2)])
    if sub.kind == "point":
        return iv(rng), iv(rng)
    return np.zeros(0), np.zeros(0)


def add_subs(system, kinds, rng, quats):
    subs = [make_sub(k, rng, quats) for k in kinds]
    for s in subs:
        if s.kind == "origin":
            s.obj = system.origin
        else:
            system.add(s.obj)
    return subs


def assemble(system):
    from cardillo.solver import SolverOptions

    with warnings.catch_warnings():
        warnings.simplefilter("ignore")
        system.assemble(options=SolverOptions(compute_consistent_initial_conditions=False))


# ------------------------------------------------------------------------------------------- element records
LAWS = [("spring", True), ("spring", False), ("kv", True), ("kv", False), ("maxwell", False)]
ACTS = ["motor", "pd", "pid"]


def make_law(sub_obj, law_name, compliance, k, d, lref, holder):
    from cardillo.force_laws import Spring, KelvinVoigtElement, MaxwellElement
    from cardillo.actuators import Motor, PDcontroller, PIDcontroller

    if law_name == "spring":
        return Spring(sub_obj, k=float(k), l_ref=lref, compliance_form=compliance)
    if law_name == "kv":
        return KelvinVoigtElement(sub_obj, k=float(k), d=float(d), l_ref=lref, compliance_form=compliance)
    if law_name == "maxwell":
        return MaxwellElement(sub_obj, stiffness=float(k), viscosity=float(d), l_ref=lref, q0=np.array([0.0]))
    if law_name == "motor":
        return Motor(sub_obj, lambda t: holder["tau0"])
    if law_name == "pd":
        return PDcontroller(sub_obj, float(k), float(d), lambda t: np.array([holder["tau0"], holder["tau1"]]))
    if law_name == "pid":
        return PIDcontroller(sub_obj, float(k), float(holder["ki"]), float(d), lambda t: np.array([holder["tau0"], holder["tau1"]]))
    raise ValueError(law_name)


def element_outputs(inter, law, law_name, compliance, t, q, u, internal, lac):
    """everything the interaction and the element report at (t, q, u), as dense arrays; q, u in the interaction's local order"""
    nq, nu = len(q), len(u)
    # prelude (results discarded): a sibling instance of the interaction's class on the same subsystems is asked at the same (t, q, u), and the
    # interaction itself at the same (q, u) at another time -- neither may leave anything behind that changes the values recorded next
    sib = getattr(inter, "_vf_sibling", None)
    for obj_, tt in ((inter, t - 0.375), (inter, t + 1.0), (sib, t)):      # the sibling last: nothing is called between it and the record
        if obj_ is None:
            continue
        for name, args in ((("l", (tt, q)),) if not hasattr(obj_, "n_full_rotations") else ()) + (("l_q", (tt, q)), ("l_dot", (tt, q, u)), ("l_dot_q", (tt, q, u)), ("l_dot_u", (tt, q, u)), ("W_l", (tt, q)), ("W_l_q", (tt, q))):      # (the tracked angle of a Revolute joint is history dependent by design: not asked here)
            try:
                getattr(obj_, name)(*[a.copy() if isinstance(a, np.ndarray) else a for a in args])
            except Exception:
                pass
    o = dict(l=float(inter.l(t, q.copy())), ldot=float(inter.l_dot(t, q.copy(), u.copy())), W=np.asarray(inter.W_l(t, q.copy())).reshape(nu),
             lq=np.asarray(inter.l_q(t, q.copy())).reshape(nq), ldotq=np.asarray(inter.l_dot_q(t, q.copy(), u.copy())).reshape(nq),
             ldotu=np.asarray(inter.l_dot_u(t, q.copy(), u.copy())).reshape(nu), Wq=np.asarray(inter.W_l_q(t, q.copy())).reshape(nu, nq))
    has_internal = law_name in ("maxwell", "pid")
    ql = np.concatenate([[internal], q]) if has_internal else q
    nql = len(ql)
    if law_name in ("spring", "kv") and compliance:
        la = np.array([lac])
        o.update(c=float(np.asarray(law.c(t, ql.copy(), u.copy(), la)).ravel()[0]), cq=np.asarray(law.c_q(t, ql.copy(), u.copy(), la)).reshape(nql),
                 cu=np.asarray(law.c_u(t, ql.copy(), u.copy(), la)).reshape(nu), cla=float(np.asarray(law.c_la_c()).ravel()[0]),
                 Wc=np.asarray(law.W_c(t, ql.copy())).reshape(nu), Wlacq=np.asarray(law.Wla_c_q(t, ql.copy(), la)).reshape(nu, nql))
    elif law_name in ("spring", "kv", "maxwell"):
        la = law.la_c(t, ql.copy(), u.copy()) if law_name != "maxwell" else law.force(t, ql.copy(), u.copy())
        o.update(la=float(np.asarray(la).ravel()[0]), h=np.asarray(law.h(t, ql.copy(), u.copy())).reshape(nu),
                 hq=np.asarray(law.h_q(t, ql.copy(), u.copy())).reshape(nu, nql))
        if hasattr(law, "h_u"):
            o["hu"] = np.asarray(law.h_u(t, ql.copy(), u.copy())).reshape(nu, nu)
    else:
        la = np.asarray(law.la_tau(t, ql.copy(), u.copy())).reshape(1)
        Wt = np.asarray(law.W_tau(t, ql.copy())).reshape(nu, 1)
        o.update(la=float(la[0]), h=(Wt @ la).reshape(nu), hq=np.asarray(law.Wla_tau_q(t, ql.copy(), u.copy())).reshape(nu, nql),
                 hu=np.asarray(law.Wla_tau_u(t, ql.copy(), u.copy())).reshape(nu, nu))
    if has_internal:
        o["qd"] = float(np.asarray(law.q_dot(t, ql.copy(), u.copy())).ravel()[0])
        o["qdq"] = np.asarray(law.q_dot_q(t, ql.copy(), u.copy())).reshape(nql)
    return o, has_internal


def direction_records(base, o, has_internal, dirs, records, wheres, where, compliance_form):
    """one record per direction; dirs: list of (label, kind 'q'|'u'|'i', local index, direction data)"""
    off = 1 if has_internal else 0
    for label, kind, idx, dd in dirs:
        rec = dict(base)
        rec.update(dd)
        has = []

        def put(name, val, vec=False):
            rec["o_" + name] = fv(val) if vec else fr(val)
            has.append(name)
            res = resid(val)
            if res is not None:
                off_lattice.append((name, res))
        off_lattice = []
        if base["sub"] == "two":
            put("l", o["l"])
        put("ldot", o["ldot"]); put("W", o["W"], True)
        if "la" in o:
            put("la", o["la"]); put("h", o["h"], True)
        if "c" in o:
            put("c", o["c"]); put("cla", o["cla"])
        if "qd" in o:
            put("qd", o["qd"])
        if kind == "q":
            put("lq", o["lq"][idx]); put("ldotq", o["ldotq"][idx]); put("Wq", o["Wq"][:, idx], True)
            if "hq" in o:
                put("hq", o["hq"][:, off + idx], True)
            if "cq" in o:
                put("cq", o["cq"][off + idx]); put("Wlacq", o["Wlacq"][:, off + idx], True)
            if "qdq" in o:
                put("qdq", o["qdq"][off + idx])
        elif kind == "u":
            put("ldotq", o["ldotu"][idx])
            if "hu" in o:
                put("hq", o["hu"][:, idx], True)
            if "cu" in o:
                put("cq", o["cu"][idx])
        else:   # the element's internal coordinate
            if "hq" in o:
                put("hq", o["hq"][:, 0], True)
            if "qdq" in o:
                put("qdq", o["qdq"][0])
        rec["has"] = has
        rec["id"] = len(records) + 1
        rec["kind"] = "E"
        records.append(rec)
        wheres[rec["id"]] = dict(where, direction=label)
        if off_lattice:
            wheres[rec["id"]]["_off_lattice"] = off_lattice


def law_params(rng, law_name, compliance):
    k = rng.choice([2, 3, 5]); d = rng.choice([1, 2, 4])
    holder = dict(tau0=0.0, tau1=float(rng.choice([0, 1, -2])), ki=rng.choice([1, 3]))
    return k, d, holder


def base_record(sub, law_name, k, d, holder, lref, ld, lac):
    return dict(sub=sub, law=law_name, k=[k, 1], d=[d, 1], ki=[int(holder["ki"]), 1], lref=fr(lref), ld=fr(ld), dld=[0, 1],
                tau0=fr(holder["tau0"]) if law_name == "motor" else [0, 1], tau1=fr(holder["tau1"]), lac=fr(lac))


def zero_dir(nu, sub):
    z = dict(dv=Z3, dJ=[Z3] * nu)
    if sub == "two":
        z["dr"] = Z3
    else:
        z.update(dea1=Z3, deb1=Z3, dec1=Z3, dea2=Z3)
    return z


def two_point_case(ctx, rng, quats, kinds, law_name, compliance, records, wheres, nstates):
    from cardillo import System
    from cardillo.interactions import TwoPointInteraction

    system = System(t0=0.0)
    subs = add_subs(system, kinds, rng, quats)
    B = [iv(rng, -1, 2) if hasattr(s.obj, "A_IB") and s.kind != "point" else np.zeros(3) for s in subs]
    mov = 1 if subs[1].kind in ("rigid", "point") else (0 if subs[0].kind in ("rigid", "point") else None)
    if mov is None:
        return 0
    # initial configuration with a Pythagorean point separation (the default l_ref is then rational)
    p0 = [np.asarray(s.obj.r_OP(0.0, s.q0(), s.xi, B[i])) for i, s in enumerate(subs)]
    shift = p0[0] + PYTH[rng.randrange(len(PYTH))] - p0[1]
    subs[mov].obj.q0 = np.array(subs[mov].obj.q0, dtype=float)
    subs[mov].obj.q0[:3] += shift if mov == 1 else -shift
    tpi = TwoPointInteraction(subs[0].obj, subs[1].obj, B_r_CP1=B[0], B_r_CP2=B[1])
    k, d, holder = law_params(rng, law_name, compliance)
    lref = float(rng.choice([0.0, 1.0, 0.5, 2.0]))
    if law_name in ACTS:       # controllers measure the elongation from their set point tau0
        holder["tau0"] = lref if law_name != "motor" else float(rng.choice([1.0, -2.0, 0.5]))
    law = make_law(tpi, law_name, compliance, k, d, lref, holder)
    if law_name in ACTS:       # actuators do not run their subsystem's assembler callback: the interaction is a contribution of its own
        system.add(tpi)
    system.add(law)
    assemble(system)
    # a sibling interaction between the same subsystems (other points): it sees the same local (t, q) and is evaluated right before every record
    try:
        sib = TwoPointInteraction(subs[0].obj, subs[1].obj, B_r_CP1=B[0] + np.array([0.5, -1.0, 0.25]), B_r_CP2=B[1] + np.array([-0.75, 0.5, 1.0]))
        sib.assembler_callback()
        tpi._vf_sibling = sib
    except Exception:
        pass
    n = 0
    first = None
    for _ in range(nstates):
        t = max(s.t_eval for s in subs)
        st = [list(state_of(s, rng, quats)) for s in subs]
        pts = [np.asarray(subs[i].obj.r_OP(t, st[i][0], subs[i].xi, B[i])) for i in range(2)]
        p = PYTH[rng.randrange(len(PYTH))]
        sh = pts[0] + p - pts[1]
        if mov == 1:
            st[1][0][:3] += sh
        else:
            st[0][0][:3] -= sh
        q = np.concatenate([x[0] for x in st]); u = np.concatenate([x[1] for x in st])
        nqs = [len(x[0]) for x in st]; nus = [len(x[1]) for x in st]
        nu = sum(nus)
        ld = float(rng.choice([0.0, 1.0, -0.5])); lac = float(rng.choice([1.0, -2.0, 3.5]))
        where = dict(element=law_name, compliance=compliance, on="TwoPointInteraction", subsystems=list(kinds), t=t, q=q.tolist(), u=u.tolist(),
                     k=k, d=d, l_ref=lref, internal=ld, la_c=lac, B_r_CP=[b.tolist() for b in B])
        K = [kinematics(subs[i].obj, t, st[i][0], st[i][1], np.zeros(nus[i]), subs[i].xi, B[i], np.eye(3)) for i in range(2)]
        sg = (-1.0, 1.0)
        base = base_record("two", law_name, k, d, holder, lref, ld, lac)
        r12 = K[1]["r"] - K[0]["r"]
        l = float(np.sqrt(r12 @ r12))
        base.update(r=fv(r12), l=fr(l), v=fv(K[1]["v"] - K[0]["v"]),
                    J=[fv(sg[b] * K[b]["udirs"][j]["v"]) for b in range(2) for j in range(nus[b])])
        o, has_internal = element_outputs(tpi, law, law_name, compliance, t, q, u, ld, lac)
        if first is None:
            first = (o, (t, q.copy(), u.copy(), ld, lac), where)
        dirs = []
        for b in range(2):
            for kx in range(nqs[b]):
                dd = zero_dir(nu, "two")
                dq = K[b]["qdirs"][kx]
                dd["dr"] = fv(sg[b] * dq["r"]); dd["dv"] = fv(sg[b] * dq["v"])
                dJ = [Z3] * nu
                for j in range(nus[b]):
                    dJ[sum(nus[:b]) + j] = fv(sg[b] * K[b]["dd"][j][kx]["v"])
                dd["dJ"] = dJ
                dirs.append((f"q[{sum(nqs[:b]) + kx}] (subsystem {b + 1})", "q", sum(nqs[:b]) + kx, dd))
        for b in range(2):
            for j in range(nus[b]):
                dd = zero_dir(nu, "two")
                dd["dv"] = fv(sg[b] * K[b]["udirs"][j]["v"])
                dirs.append((f"u[{sum(nus[:b]) + j}] (subsystem {b + 1})", "u", sum(nus[:b]) + j, dd))
        if has_internal:
            dd = zero_dir(nu, "two"); dd["dld"] = [1, 1]
            dirs.append(("internal coordinate", "i", 0, dd))
        direction_records(base, o, has_internal, dirs, records, wheres, where, compliance)
        system_level(ctx, system, law, law_name, compliance, tpi, t, q, u, ld, lac, where)
        n += 1
    repeat_first(ctx, tpi, law, law_name, compliance, first)
    return n


def repeat_first(ctx, inter, law, law_name, compliance, first):
    """history: after the other states the element is asked for the first state again and must report the same arrays, bit for bit"""
    if first is None:
        return
    o1, (t, q, u, ld, lac), where = first
    o2, _ = element_outputs(inter, law, law_name, compliance, t, q, u, ld, lac)
    for k in o1:
        if where["on"] == "Revolute" and k in ("l", "la", "h", "hq", "c", "qd"):
            continue        # the joint angle is history dependent by design (full-turn counter, C25), and so is everything that contains its value
        if not np.array_equal(np.asarray(o1[k]), np.asarray(o2[k])):
            ctx.violation(f"{law_name}{'(c)' if compliance else ''}:{where['on']}:history:{k}",
                          f"{k} evaluated again at the first state (after evaluations at other states) differs from its first evaluation "
                          f"(max diff {np.max(np.abs(np.asarray(o1[k], dtype=float) - np.asarray(o2[k], dtype=float))):.3e}) at {where}", where)
            return


def revolute_case(ctx, rng, quats, kinds, law_name, compliance, records, wheres, nstates):
    from cardillo import System
    from cardillo.constraints import Revolute

    system = System(t0=0.0)
    subs = add_subs(system, kinds, rng, quats)
    axis = rng.randrange(3)
    A_IJ0 = octahedral_group()[rng.randrange(24)].astype(float)
    r_OJ0 = iv(rng)
    joint = Revolute(subs[0].obj, subs[1].obj, axis, angle0=float(rng.choice([0.0, 0.5])), r_OJ0=r_OJ0, A_IJ0=A_IJ0)
    A_K, B_r = [], []
    for s in subs:
        o = s.obj
        A0 = np.asarray(o.A_IB(0.0, s.q0(), s.xi))
        r0 = np.asarray(o.r_OP(0.0, s.q0(), s.xi))
        A_K.append(A0.T @ A_IJ0); B_r.append(A0.T @ (r_OJ0 - r0))
    k, d, holder = law_params(rng, law_name, compliance)
    law = make_law(joint, law_name, compliance, k, d, 0.0, holder)
    system.add(joint, law)
    assemble(system)
    ia, ib = joint.plane_axes
    n = 0
    first = None
    for _ in range(nstates):
        t = max(s.t_eval for s in subs)
        for _try in range(50):
            st = [list(state_of(s, rng, quats)) for s in subs]
            K = [kinematics(subs[i].obj, t, st[i][0], st[i][1], np.zeros(len(st[i][1])), subs[i].xi, B_r[i], A_K[i]) for i in range(2)]
            x = K[1]["E"][:, ia] @ K[0]["E"][:, ia]; y = K[1]["E"][:, ia] @ K[0]["E"][:, ib]
            if x * x + y * y > 1e-6:
                break
        else:
            continue
        q = np.concatenate([x_[0] for x_ in st]); u = np.concatenate([x_[1] for x_ in st])
        nqs = [len(x_[0]) for x_ in st]; nus = [len(x_[1]) for x_ in st]
        nu = sum(nus)
        # the angle is transcendental: choose the reference so that the elongation is a lattice number
        e = float(rng.choice([0.0, 0.5, -1.0, 0.75]))
        lval = float(joint.l(t, q.copy()))
        ref = lval - e
        if law_name in ("spring", "kv", "maxwell"):
            law.l_ref = ref
        else:
            holder["tau0"] = ref if law_name != "motor" else float(rng.choice([1.0, -2.0, 0.5]))
        ld = float(rng.choice([0.0, 1.0, -0.5])); lac = float(rng.choice([1.0, -2.0, 3.5]))
        where = dict(element=law_name, compliance=compliance, on="Revolute", axis=axis, subsystems=list(kinds), t=t, q=q.tolist(), u=u.tolist(),
                     k=k, d=d, elongation=e, internal=ld, la_c=lac, tau=[holder["tau0"], holder["tau1"]])
        sg = (-1.0, 1.0)
        base = base_record("rev", law_name, k, d, holder, 0.0, ld, lac)
        base.update(l=fr(e), ea1=fv(K[0]["E"][:, ia]), eb1=fv(K[0]["E"][:, ib]), ec1=fv(K[0]["E"][:, axis]), ea2=fv(K[1]["E"][:, ia]),
                    v=fv(K[1]["O"] - K[0]["O"]), J=[fv(sg[b] * K[b]["udirs"][j]["O"]) for b in range(2) for j in range(nus[b])])
        o, has_internal = element_outputs(joint, law, law_name, compliance, t, q, u, ld, lac)
        if first is None:
            first = (o, (t, q.copy(), u.copy(), ld, lac), where, dict(l_ref=getattr(law, "l_ref", None), tau0=holder["tau0"]))
        dirs = []
        for b in range(2):
            for kx in range(nqs[b]):
                dd = zero_dir(nu, "rev")
                dq = K[b]["qdirs"][kx]
                if b == 0:
                    dd["dea1"] = fv(dq["E"][:, ia]); dd["deb1"] = fv(dq["E"][:, ib]); dd["dec1"] = fv(dq["E"][:, axis])
                else:
                    dd["dea2"] = fv(dq["E"][:, ia])
                dd["dv"] = fv(sg[b] * dq["O"])
                dJ = [Z3] * nu
                for j in range(nus[b]):
                    dJ[sum(nus[:b]) + j] = fv(sg[b] * K[b]["dd"][j][kx]["O"])
                dd["dJ"] = dJ
                dirs.append((f"q[{sum(nqs[:b]) + kx}] (subsystem {b + 1})", "q", sum(nqs[:b]) + kx, dd))
        for b in range(2):
            for j in range(nus[b]):
                dd = zero_dir(nu, "rev")
                dd["dv"] = fv(sg[b] * K[b]["udirs"][j]["O"])
                dirs.append((f"u[{sum(nus[:b]) + j}] (subsystem {b + 1})", "u", sum(nus[:b]) + j, dd))
        if has_internal:
            dd = zero_dir(nu, "rev"); dd["dld"] = [1, 1]
            dirs.append(("internal coordinate", "i", 0, dd))
        direction_records(base, o, has_internal, dirs, records, wheres, where, compliance)
        system_level(ctx, system, law, law_name, compliance, joint, t, q, u, ld, lac, where)
        n += 1
    if first is not None:
        # the reference the first state was evaluated with
        if law_name in ("spring", "kv", "maxwell"):
            law.l_ref = first[3]["l_ref"]
        holder["tau0"] = first[3]["tau0"]
        repeat_first(ctx, joint, law, law_name, compliance, first[:3])
    return n


def system_level(ctx, system, law, law_name, compliance, inter, t, q_loc, u_loc, internal, lac, where):
    """the matrices System assembles equal the scatter of what the contributions report (the element among them)"""
    q = np.array(system.q0, dtype=float); u = np.array(system.u0, dtype=float)
    q[inter.qDOF] = q_loc; u[inter.uDOF] = u_loc
    if law_name in ("maxwell", "pid"):
        q[law.my_qDOF] = internal
    la_c = np.full(system.nla_c, lac)
    key = f"{law_name}:{where['on']}:System"

    def scatter(meth, shape, cols, args):
        M = np.zeros(shape)
        for c in system.contributions:
            if hasattr(c, meth):
                a = [x[getattr(c, n_)] if n_ else x for x, n_ in args(c)]
                blk = np.asarray(getattr(c, meth)(t, *a))
                rows = getattr(c, "la_cDOF", None) if meth.startswith("c_") else (c.my_qDOF if meth.startswith("q_dot") else c.uDOF)
                cdx = getattr(c, cols)
                M[np.ix_(rows, cdx)] += blk.reshape(len(rows), len(cdx))
        return M
    checks = [("h_q", (system.nu, system.nq), "qDOF", lambda c: [(q, "qDOF"), (u, "uDOF")], lambda: system.h_q(t, q, u)),
              ("h_u", (system.nu, system.nu), "uDOF", lambda c: [(q, "qDOF"), (u, "uDOF")], lambda: system.h_u(t, q, u)),
              ("q_dot_q", (system.nq, system.nq), "qDOF", lambda c: [(q, "qDOF"), (u, "uDOF")], lambda: system.q_dot_q(t, q, u)),
              ("Wla_tau_q", (system.nu, system.nq), "qDOF", lambda c: [(q, "qDOF"), (u, "uDOF")], lambda: system.Wla_tau_q(t, q, u)),
              ("Wla_tau_u", (system.nu, system.nu), "uDOF", lambda c: [(q, "qDOF"), (u, "uDOF")], lambda: system.Wla_tau_u(t, q, u))]
    if system.nla_c:
        checks += [("c_q", (system.nla_c, system.nq), "qDOF", lambda c: [(q, "qDOF"), (u, "uDOF"), (la_c, "la_cDOF")], lambda: system.c_q(t, q, u, la_c)),
                   ("c_u", (system.nla_c, system.nu), "uDOF", lambda c: [(q, "qDOF"), (u, "uDOF"), (la_c, "la_cDOF")], lambda: system.c_u(t, q, u, la_c)),
                   ("Wla_c_q", (system.nu, system.nq), "qDOF", lambda c: [(q, "qDOF"), (la_c, "la_cDOF")], lambda: system.Wla_c_q(t, q, la_c))]
    for meth, shape, cols, args, call in checks:
        try:
            S = call()
            S = np.asarray(S.toarray() if hasattr(S, "toarray") else S).reshape(shape)
            L = scatter(meth, shape, cols, args)
        except Exception as ex:
            ctx.violation(f"{key}:{meth}:raises:{type(ex).__name__}", f"System.{meth} raised {type(ex).__name__}: {ex} at {where}", where)
            continue
        if not np.all(np.isfinite(S)) or not (np.max(np.abs(S - L), initial=0.0) <= 1e-12 * (1 + np.max(np.abs(L), initial=0.0))):
            ctx.violation(f"{key}:{meth}", f"System.{meth} is not the scatter of the contributions' {meth} (max diff {np.max(np.abs(S - L)):.3e}) at {where}", where)


# ------------------------------------------------------------------------------------------- loads
def load_records(ctx, rng, quats, records, wheres, nstates):
    from cardillo import System
    from cardillo.forces import Force, B_Force, Moment, B_Moment

    n = 0
    for cls_name, kind in (("Force", "rigid"), ("Force", "point"), ("B_Force", "rigid"), ("Moment", "rigid"), ("B_Moment", "rigid")):
        cls = dict(Force=Force, B_Force=B_Force, Moment=Moment, B_Moment=B_Moment)[cls_name]
        system = System(t0=0.0)
        subs = add_subs(system, [kind], rng, quats)
        sub = subs[0]
        B = iv(rng, -1, 2) if kind == "rigid" else np.zeros(3)
        F = iv(rng, -3, 3)
        if not F.any():
            F[0] = 1.0
        f = cls(F, sub.obj, B_r_CP=B) if "Force" in cls_name else cls(F, sub.obj)
        system.add(f)
        assemble(system)
        for _ in range(nstates):
            q, u = state_of(sub, rng, quats)
            nq, nu = len(q), len(u)
            where = dict(element=cls_name, subsystem=kind, B_r_CP=B.tolist(), load=F.tolist(), q=q.tolist(), u=u.tolist())
            try:
                K = kinematics(sub.obj, 0.0, q, u, np.zeros(nu), sub.xi, B if "Force" in cls_name else np.zeros(3), np.eye(3))
                h = np.asarray(f.h(0.0, q.copy(), u.copy())).reshape(nu)
                hq = np.asarray(f.h_q(0.0, q.copy(), u.copy())).reshape(nu, nq)
                follower = cls_name == "B_Force"
                if follower:
                    A = np.asarray(sub.obj.A_IB(0.0, q)); A_q = np.asarray(sub.obj.A_IB_q(0.0, q))
                if cls_name == "B_Moment":
                    BJ = np.asarray(sub.obj.B_J_R(0.0, q)).reshape(3, nu); BJ_q = np.asarray(sub.obj.B_J_R_q(0.0, q)).reshape(3, nu, nq)
                for kx in range(nq):
                    if cls_name in ("Force", "B_Force"):
                        J = [fv(K["udirs"][j]["v"]) for j in range(nu)]; dJ = [fv(K["dd"][j][kx]["v"]) for j in range(nu)]
                    elif cls_name == "Moment":
                        J = [fv(K["udirs"][j]["O"]) for j in range(nu)]; dJ = [fv(K["dd"][j][kx]["O"]) for j in range(nu)]
                    else:
                        J = [fv(BJ[:, j]) for j in range(nu)]; dJ = [fv(BJ_q[:, j, kx]) for j in range(nu)]
                    rec = dict(id=len(records) + 1, kind="F", follower=follower, F=fv(F), J=J, dJ=dJ,
                               A=fm(A) if follower else [Z3] * 3, dA=fm(A_q[:, :, kx]) if follower else [Z3] * 3,
                               o_h=fv(h), o_hq=fv(hq[:, kx]), has=["h", "hq"])
                    records.append(rec); wheres[rec["id"]] = dict(where, direction=f"q[{kx}]")
                    off = [(nm, r_) for nm, r_ in (("h", resid(h)), ("hq", resid(hq[:, kx]))) if r_ is not None]
                    if off:
                        wheres[rec["id"]]["_off_lattice"] = off
                n += 1
                # System level
                S = np.asarray(system.h_q(0.0, q, u).toarray())
                L = np.zeros((system.nu, system.nq))
                for c in system.contributions:
                    if hasattr(c, "h_q"):
                        L[np.ix_(c.uDOF, c.qDOF)] += np.asarray(c.h_q(0.0, q[c.qDOF], u[c.uDOF])).reshape(len(c.uDOF), len(c.qDOF))
                if not (np.max(np.abs(S - L), initial=0.0) <= 1e-12 * (1 + np.max(np.abs(L), initial=0.0))):
                    ctx.violation(f"{cls_name}:{kind}:System:h_q", f"System.h_q is not the scatter of the contributions' h_q at {where}", where)
            except NotRational as ex:
                ctx.violation(f"{cls_name}:{kind}:not-rational", f"{ex} at {where}", where)
            except Exception as ex:
                ctx.violation(f"{cls_name}:{kind}:raises:{type(ex).__name__}", f"{type(ex).__name__}: {ex} at {where}", where)
    return n


TWO_PAIRS = [("point", "rigid"), ("rigid", "rigid"), ("origin", "rigid"), ("rigid", "point"), ("tframe", "rigid"), ("point", "point")]
REV_PAIRS = [("origin", "rigid"), ("rigid", "rigid"), ("rigid", "rframe"), ("rframe", "rigid"), ("tframe", "rigid")]


def run(ctx):
    ctx.level = "model_checking"
    rng = ctx.rng
    r_id = check_only(ctx, "ForceJacobians", {"Mode": '"identities"', "Impl": '"intended"'}, invariants=("IdentitiesOK",), tag="fj_identities")
    import os
    cfg = os.path.join(ctx.scratch, "fj_as_found.cfg")
    with open(cfg, "w") as f:
        f.write('SPECIFICATION Spec\nCONSTANTS\n  Mode = "identities"\n  Impl = "as_found"\nINVARIANT IdentitiesOK\n')
    r_af = tlc.run_tlc("ForceJacobians", cfg, scratch=ctx.scratch, timeout=1200)
    if r_af.violated != "IdentitiesOK":
        raise tlc.MachineryError("the as-found Maxwell column is not rejected by the identities of ForceJacobians")
    quats = quat_pool()
    records, wheres = [], {}
    counts = {}
    nstates = 3 if ctx.thorough else 2        # every element object is evaluated at several states (at the same t), then at the first one again
    nrep = 8 if ctx.thorough else 1
    for rep in range(nrep):
        # actuators are supported on Revolute joints only (on a TwoPointInteraction their shape conventions do not fit: outside the property's quantifier)
        for law_name, compliance in LAWS:
            for kinds in TWO_PAIRS:
                where = dict(element=law_name, compliance=compliance, on="TwoPointInteraction", subsystems=list(kinds))
                key = f"{law_name}{'(c)' if compliance else ''}:TwoPoint:{'-'.join(kinds)}"
                try:
                    n = two_point_case(ctx, rng, quats, kinds, law_name, compliance, records, wheres, nstates)
                    counts[key.split(":")[0] + ":TwoPoint"] = counts.get(key.split(":")[0] + ":TwoPoint", 0) + n
                except NotRational as ex:
                    ctx.violation(f"{key}:not-rational", f"{ex} at {where}", where)
                except Exception as ex:
                    ctx.violation(f"{key}:raises:{type(ex).__name__}", f"{type(ex).__name__}: {ex} at {where}", where)
        for law_name, compliance in LAWS + [(a, False) for a in ACTS]:
            for kinds in REV_PAIRS:
                where = dict(element=law_name, compliance=compliance, on="Revolute", subsystems=list(kinds))
                key = f"{law_name}{'(c)' if compliance else ''}:Revolute:{'-'.join(kinds)}"
                try:
                    n = revolute_case(ctx, rng, quats, kinds, law_name, compliance, records, wheres, nstates)
                    counts[key.split(":")[0] + ":Revolute"] = counts.get(key.split(":")[0] + ":Revolute", 0) + n
                except NotRational as ex:
                    ctx.violation(f"{key}:not-rational", f"{ex} at {where}", where)
                except Exception as ex:
                    ctx.violation(f"{key}:raises:{type(ex).__name__}", f"{type(ex).__name__}: {ex} at {where}", where)
    nload = load_records(ctx, rng, quats, records, wheres, 6 if ctx.thorough else 2)
    if not records:
        raise tlc.MachineryError("no records produced")
    # binding self-test: corrupted copies must be rejected
    tests = []
    e1 = copy.deepcopy(next(r for r in records if r["kind"] == "E" and "hq" in r["has"])); e1["id"] = 0; e1["o_hq"][0][0] += 977; tests.append(e1)
    e2 = copy.deepcopy(next(r for r in records if r["kind"] == "E" and "Wq" in r["has"])); e2["id"] = -1; e2["o_Wq"][-1][0] += 977; tests.append(e2)
    e3 = copy.deepcopy(next(r for r in records if r["kind"] == "F")); e3["id"] = -2; e3["o_hq"][0][0] += 977; tests.append(e3)
    bad, rt = batch_validate(ctx, "ForceJacobians", records + tests, {"Mode": '"trace"', "Impl": '"intended"'}, "fj_trace")
    for tid in (0, -1, -2):
        if bad.pop(tid, None) is None:
            raise tlc.MachineryError("self-test failed: a corrupted Jacobian record was accepted by the trace specification")
    # reported values that are not rationals of the lattice at all (TLC compares the nearest one, which may hide a small deviation)
    for rid, w in wheres.items():
        if rid not in bad and w.get("_off_lattice"):
            nm, (x, r_) = w["_off_lattice"][0]
            el = w.get("element"); on = w.get("on", w.get("subsystem", ""))
            ctx.violation(f"{el}{'(c)' if w.get('compliance') else ''}:{on}:{nm}:not-rational",
                          f"the reported {nm} contains {x!r}, which is not a rational of the lattice (distance {r_:.2e} to the nearest one with denominator < 2^20; "
                          f"the true value is one) (direction {w.get('direction')}): { {k: v for k, v in w.items() if k != '_off_lattice'} }", {k: v for k, v in w.items() if k != "_off_lattice"})
    seen = set()
    for rid, clause in bad.items():
        w = wheres[rid]
        el = w.get("element"); on = w.get("on", w.get("subsystem", ""))
        key = f"{el}{'(c)' if w.get('compliance') else ''}:{on}:{clause.split(' is ')[0][:60]}"
        if (key, w.get("direction", "")[:1]) in seen and len(seen) > 40:
            continue
        seen.add((key, w.get("direction", "")[:1]))
        ctx.violation(key, f"{clause} (direction {w.get('direction')}): {w}", w)
    ctx.log(f"[C08] identities: {r_id.distinct} lattice cases; {len(records)} direction records validated by TLC ({sum(counts.values())} element states, "
            f"{nload} load states); {len(bad)} rejected")
    ctx.coverage = {"states": r_id.distinct + rt.distinct, "transitions": max(r_id.generated + rt.generated, 1), "traces_validated_against_impl": len(records),
                    "element_states": counts, "load_states": nload,
                    "samples": [{"where": wheres[1], "has": records[0]["has"]}],
                    "rule": "5 law variants x 6 two-point pairings + (5 laws + 3 actuators) x 2 revolute pairings, every coordinate direction of q "
                            "(incl. internal coordinates) and u; Force/B_Force/Moment/B_Moment on rigid bodies and point masses, every q direction"}
    ctx.assumptions = ["states are rational: integer positions/velocities, integer quaternions (octahedral and others, several lengths), Pythagorean "
                       "point separations; the revolute angle's reference is chosen so that the elongation is a lattice number",
                       "direction data of the subsystems (r_OP_q, v_P_q, J_P, J_P_q, A_IB_q, B_Omega_q, B_J_R_q) are taken from the subsystems' own "
                       "routines, whose exactness is decided under C04",
                       "floats become rationals by Fraction.limit_denominator(2^20); TLC compares exactly"]


def replay(ctx, path):
    run(ctx)
