"""C20 Solver results honour the Solution contract.

Decide: spec/TimeGrid.tla -- exact (tick) arithmetic of the time grid: number of steps = index of the first grid
        point at or after t1 (two definitions checked to agree by TLC on the whole lattice), rows of complete
        and truncated runs, and the field-name -> dimension table.  SolverRun.tla (C21) ties rows to accepted steps.
Bind:   every lattice state (t0, t1, dt, m) becomes runs of all solvers with the decimal literals a user would
        type (ticks of 0.1, 0.01, 0.001, 0.25, 1/64); the returned Solution is compared with the spec: number of
        rows, t[0], t[k] = t0 + k dt, every field's shape, iterator records, save/load round trip.  Truncated
        runs (m < N) are produced with the fault hooks on the solvers that return truncated results.
"""
from __future__ import annotations

import json
import os
from decimal import Decimal

import numpy as np

from .. import tlc, runs
from .. import scenarios as S

TICKS = ["0.1", "0.01", "0.001", "0.25", "0.015625"]


def lit(k, tick):
    """the float a user gets by typing the decimal literal of k ticks"""
    return float(str(Decimal(k) * Decimal(tick)))


def _systems():
    return {
        "mass_spring": lambda t0: S.sys_mass_spring(t0=t0, k=2.0),          # nla_c = 1 (soft spring: large steps still converge)
        "pendulum": lambda t0: S.sys_pendulum(t0=t0, omega0=0.05, phi0=-1.5707963267948966),   # nla_g = 5, nla_S = 1 (hanging, nearly at rest)
        "ball": lambda t0: S.sys_ball_on_plane(t0=t0, mu=0.3, vx=0.0),      # nla_N = 1, nla_F = 2 (resting)
    }


def _solver(name, system, t1, dt):
    from cardillo.solver import Moreau, BackwardEuler, Rattle, DualStormerVerlet, ScipyIVP, ScipyDAE

    cls = {"Moreau": Moreau, "BackwardEuler": BackwardEuler, "Rattle": Rattle, "DualStormerVerlet": DualStormerVerlet,
           "ScipyIVP": ScipyIVP, "ScipyDAE": ScipyDAE}[name]
    return lambda: cls(system, t1, dt)


def check_solution(ctx, sol, system, t0, dt, rows, key, rep, fielddim, uniform=True):
    """returns True if everything matched"""
    ok = True
    t = np.asarray(sol.t, dtype=float)
    if len(t) != rows:
        last = t[-1] if len(t) else None
        ctx.violation(key + ":rows", f"{len(t)} time instants, spec {rows} (last t = {last!r}) for {rep['case']}", rep)
        return False
    if t[0] != t0:
        ctx.violation(key + ":t0", f"t[0] = {t[0]!r}, initial time {t0!r} for {rep['case']}", rep)
        ok = False
    if uniform:
        exp = t0 + dt * np.arange(rows)
        if not np.allclose(t, exp, rtol=0, atol=1e-12 * (1 + abs(t0) + rows * dt)):
            ctx.violation(key + ":grid", f"t = {t.tolist()} is not t0 + k dt = {exp.tolist()} for {rep['case']}", rep)
            ok = False
    fields = {k: v for k, v in vars(sol).items() if k not in ("system", "solver_summary", "t") and v is not None}
    for name, v in fields.items():
        a = np.asarray(v)
        if a.ndim == 0:
            continue
        if a.shape[0] != rows:
            ctx.violation(key + f":field-rows:{name}", f"field {name} has shape {a.shape}, {rows} instants for {rep['case']}", rep)
            ok = False
            continue
        if name in fielddim:
            w = getattr(system, fielddim[name])
            if a.ndim != 2 or a.shape[1] != w:
                ctx.violation(key + f":field-width:{name}", f"field {name} has shape {a.shape}, system.{fielddim[name]} = {w} for {rep['case']}", rep)
                ok = False
    # iterator: one record per instant, equal to the rows
    try:
        recs = list(sol)
    except Exception as ex:
        ctx.violation(key + ":iterator-raises", f"iterating the solution raised {type(ex).__name__}: {ex} for {rep['case']}", rep)
        return False
    if len(recs) != rows:
        ctx.violation(key + ":iterator-count", f"iterator yields {len(recs)} records for {rows} instants for {rep['case']}", rep)
        ok = False
    else:
        for i, rec in enumerate(recs):
            if rec.t != t[i]:
                ctx.violation(key + ":iterator-t", f"record {i} has t = {rec.t!r}, row has {t[i]!r}", rep)
                ok = False
                break
            for name, v in fields.items():
                a = np.asarray(v)
                if a.ndim >= 1 and a.shape[0] == rows and hasattr(rec, name):
                    if not np.array_equal(np.asarray(getattr(rec, name)), a[i]):
                        ctx.violation(key + f":iterator-field:{name}", f"record {i}.{name} differs from row {i} for {rep['case']}", rep)
                        ok = False
                        break
    # two iterations over the same solution that are alive at the same time are independent of each other
    try:
        import itertools
        pairs = list(zip(sol, itertools.islice(sol, 1, None)))
        if len(pairs) != rows - 1 or any(a.t != t[i] or b.t != t[i + 1] for i, (a, b) in enumerate(pairs)):
            ctx.violation(key + ":iterator-concurrent", f"zip(sol, islice(sol, 1, None)) yields {len(pairs)} pairs with times {[(a.t, b.t) for a, b in pairs[:3]]} for {rows} instants "
                          f"(consecutive records expected) for {rep['case']}", rep)
            ok = False
        nested = sum(1 for _a in sol for _b in sol) if rows <= 12 else rows * rows
        if nested != rows * rows:
            ctx.violation(key + ":iterator-concurrent", f"a nested loop over the solution visits {nested} combinations of {rows} x {rows} for {rep['case']}", rep)
            ok = False
    except Exception as ex:
        ctx.violation(key + ":iterator-concurrent:raises", f"iterating twice at the same time raised {type(ex).__name__}: {ex} for {rep['case']}", rep)
        ok = False
    # save / load
    path = os.path.join(ctx.scratch, "sol.pkl")
    try:
        from cardillo.solver import load_solution

        sol.save(path)
        sol2 = load_solution(path)
        for name, v in {**fields, "t": sol.t}.items():
            if not np.array_equal(np.asarray(getattr(sol2, name)), np.asarray(v)):
                ctx.violation(key + f":saveload:{name}", f"field {name} differs after save/load for {rep['case']}", rep)
                ok = False
        missing = [k for k in vars(sol) if k not in vars(sol2)]
        if missing:
            ctx.violation(key + ":saveload:missing", f"fields {missing} lost by save/load for {rep['case']}", rep)
            ok = False
    except Exception as ex:
        ctx.violation(key + ":saveload-raises", f"save/load raised {type(ex).__name__}: {ex} for {rep['case']}", rep)
        ok = False
    return ok


def saveload_session(ctx, solA, solB):
    """a session that saves and loads several times: what load_solution returns is what the file holds at that moment -- whatever was loaded or saved
    before, however the path is spelled, and whatever was done to objects loaded earlier"""
    from pathlib import Path
    from cardillo.solver import load_solution
    from cardillo.solver.solution import save_solution

    def same(x, y):
        names = [k for k, v in vars(y).items() if isinstance(v, np.ndarray)]
        return all(np.array_equal(np.asarray(getattr(x, k, None)), np.asarray(getattr(y, k))) for k in names) and len(names) > 0

    d = os.path.join(ctx.scratch, "session")
    os.makedirs(d, exist_ok=True)
    f = os.path.join(d, "run.pkl")
    rel = os.path.relpath(f)
    steps = 0
    try:
        refA = {k: np.array(v, copy=True) for k, v in vars(solA).items() if isinstance(v, np.ndarray)}
        save_solution(solA, f)
        L1 = load_solution(f); steps += 1
        if not same(L1, solA):
            ctx.violation("session:load-after-save", "the loaded solution differs from the saved one", {"step": 1}); return steps
        L1.q -= 1.0                                   # the user post-processes what was loaded
        L1.t += 5.0
        L2 = load_solution(f); steps += 1
        if L2 is L1 or not all(np.array_equal(np.asarray(getattr(L2, k)), v) for k, v in refA.items()):
            ctx.violation("session:second-load", "a second load of the same file returns the object that was loaded (and modified) before instead of the file's content", {"step": 2}); return steps
        if not all(np.array_equal(np.asarray(getattr(solA, k)), v) for k, v in refA.items()):
            ctx.violation("session:saved-object-changed", "modifying a loaded solution changed the solution that was saved", {"step": 2}); return steps
        # the file is overwritten under another spelling of its path
        load_solution(Path(f)); steps += 1
        save_solution(solB, str(f))
        L3 = load_solution(Path(f)); steps += 1
        if not same(L3, solB):
            ctx.violation("session:load-after-overwrite", "after the file was overwritten (path given as str, loaded as Path) load_solution returns the old content", {"step": 4}); return steps
        load_solution(f); steps += 1
        solA.save(rel)
        L4 = load_solution(f); steps += 1
        if not all(np.array_equal(np.asarray(getattr(L4, k)), v) for k, v in refA.items()):
            ctx.violation("session:load-after-overwrite", "after the file was overwritten (relative path) load_solution with the absolute path returns the old content", {"step": 6}); return steps
    except Exception as ex:
        ctx.violation(f"session:raises:{type(ex).__name__}", f"save/load session raised {type(ex).__name__}: {ex}", {"step": steps})
    return steps


def run(ctx):
    ctx.level = "model_checking"
    rng = ctx.rng
    # 1. the lattice
    span = 24 if not ctx.thorough else 40
    cfg = os.path.join(ctx.scratch, "tg.cfg")
    fout = os.path.join(ctx.scratch, "fields.json")
    with open(cfg, "w") as f:
        f.write(f"SPECIFICATION Spec\nCONSTANTS\n  MaxT0 = 3\n  MaxDt = 4\n  MaxSpan = {span}\n  BigT0 = {{25, 100, 1000}}\n"
                "  LongRuns <- LongRunsDefault\n"
                "INVARIANT CountsAgree\nINVARIANT StartsAtT0\nINVARIANT StepIsDt\nINVARIANT EndsAtFirstPointAtOrAfterT1\nINVARIANT Truncated\n")
    dot = os.path.join(ctx.scratch, "tg")
    r = tlc.run_tlc("TimeGrid", cfg, scratch=ctx.scratch, dump_dot=dot, env={"FIELDS_OUT": fout}, workers=8, timeout=900)
    tlc.require_ok(r, "TimeGrid")
    if r.violated:
        ctx.violation(f"spec:{r.violated}", f"TLC: {r.violated} violated", {"stdout": r.stdout[-3000:]})
    fielddim = json.load(open(fout))
    g = tlc.parse_dot(dot + ".dot")
    states = [g.nodes[i] for i in g.init]
    ctx.log(f"[C20] lattice: {len(states)} states (t0, t1, dt, m)")
    complete = [s for s in states if s["m"] == -(-(s["t1"] - s["t0"]) // s["dt"])]
    trunc = [s for s in states if s not in complete and s["m"] >= 1]
    rng.shuffle(complete)
    rng.shuffle(trunc)
    systems = _systems()
    solvers = ["Moreau", "BackwardEuler", "Rattle", "DualStormerVerlet", "ScipyIVP", "ScipyDAE"]
    per_solver = 40 if not ctx.thorough else 400
    nrun = nok = 0
    kept = []
    n_notjudged = 0
    samples = []
    seen = set()
    for si, sn in enumerate(solvers):
        k = 0
        for st in complete:
            if k >= per_solver:
                break
            tick = TICKS[(k + si) % len(TICKS)]
            n = -(-(st["t1"] - st["t0"]) // st["dt"])
            if n > (30 if not ctx.thorough else 45):
                continue
            sysname = list(systems)[k % 3]
            if sn in ("ScipyIVP", "ScipyDAE") and sysname == "ball":
                sysname = "pendulum"          # the wrappers do not treat contacts
            t0, t1, dt = lit(st["t0"], tick), lit(st["t1"], tick), lit(st["dt"], tick)
            case = {"solver": sn, "system": sysname, "tick": tick, "t0": t0, "t1": t1, "dt": dt, "ticks": [st["t0"], st["t1"], st["dt"]], "expected_steps": n}
            rep = {"case": case}
            k += 1
            system = systems[sysname](t0)
            rr = runs.record_run(_solver(sn, system, t1, dt), system, sn, False, n)
            nrun += 1
            key = f"{sn}:t0={t0}:t1={t1}:dt={dt}"
            nonconv = any(e["e"] == "site" and not e["ok"] for e in rr.events)
            if rr.exc is not None:
                if nonconv or "converge" in str(rr.exc):
                    n_notjudged += 1          # a loud non-convergence is not a contract matter (C21)
                    continue
                ctx.violation(key + ":raises", f"{sn} raised {type(rr.exc).__name__}: {rr.exc} for {case}", rep)
                continue
            if nonconv and len(rr.sol.t) < n + 1 and rr.warn_texts:
                n_notjudged += 1              # announced truncation: "unless the run was truncated"
                continue
            if sn == "Moreau" and len(kept) < 2 and (not kept or len(kept[0].t) != len(rr.sol.t)):
                kept.append(rr.sol)             # (for the save / load session below, whatever the verdict on its rows)
            if check_solution(ctx, rr.sol, system, t0, dt, n + 1, key, rep, fielddim):
                nok += 1
            seen.add((sn, tick, st["t0"], st["t1"], st["dt"]))
            if len(samples) < 3:
                samples.append(case)
    nsess = saveload_session(ctx, kept[0], kept[1]) if len(kept) == 2 else 0
    if not nsess and not ctx.violations:
        raise tlc.MachineryError("no two solutions for the save/load session")
    # 2. truncated runs: BackwardEuler returns the accepted steps when the first Newton solve of step m+1 fails
    ntr = 0
    for st in trunc[: (15 if not ctx.thorough else 150)]:
        tick = TICKS[ntr % len(TICKS)]
        t0, t1, dt = lit(st["t0"], tick), lit(st["t1"], tick), lit(st["dt"], tick)
        m = st["m"]
        system = systems["mass_spring"](t0)
        rr = runs.record_run(_solver("BackwardEuler", system, t1, dt), system, "BackwardEuler", False, m, faults={"fsolve": [m]})
        case = {"solver": "BackwardEuler", "system": "mass_spring", "tick": tick, "t0": t0, "t1": t1, "dt": dt, "truncated_after": m}
        key = f"BackwardEuler:truncated:t0={t0}:t1={t1}:dt={dt}:m={m}"
        nrun += 1
        ntr += 1
        if rr.exc is not None:
            ctx.violation(key + ":raises", f"raised {type(rr.exc).__name__}: {rr.exc} for {case}", {"case": case})
            continue
        if check_solution(ctx, rr.sol, system, t0, dt, m + 1, key, {"case": case}, fielddim):
            nok += 1
    # 2b. adaptive wrappers stopped early by the integrator: whatever was reached must be a consistent Solution
    from cardillo.solver import ScipyIVP, ScipyDAE
    for sn, cls in (("ScipyIVP", ScipyIVP), ("ScipyDAE", ScipyDAE)):
        for t0 in (0.0, 0.25):
            system = S.sys_blowup(t0=t0, tc=t0 + 0.105)
            rr = runs.record_run(lambda: cls(system, t0 + 0.2, 0.01), system, sn, False, 20)
            case = {"solver": sn, "system": "blowup", "t0": t0, "t1": t0 + 0.2, "dt": 0.01}
            nrun += 1
            if rr.exc is not None:
                n_notjudged += 1
                continue
            rows = len(rr.sol.t)
            if not (1 <= rows < 21):
                raise tlc.MachineryError(f"blow-up scenario did not truncate {sn}: {rows} rows")
            if check_solution(ctx, rr.sol, system, t0, 0.01, rows, f"{sn}:stopped-early:t0={t0}", {"case": case}, fielddim):
                nok += 1
    # 2c. the whole lattice x all ticks on the solvers that expose their grid at construction (cheap, exhaustive)
    from cardillo.solver import Moreau
    ngrid = 0
    sysfree = {}
    for st in complete:
        long_run = st["dt"] >= 100           # the LongRuns family: fine ticks of 1e-6
        late_run = st["t0"] >= 10 ** 6       # ... and its late initial times, in ticks of 1e-3
        for tick in (["0.001"] if late_run else ["0.000001"] if long_run else TICKS):
            t0, t1, dt = lit(st["t0"], tick), lit(st["t1"], tick), lit(st["dt"], tick)
            n = -(-(st["t1"] - st["t0"]) // st["dt"])
            if t0 not in sysfree:
                sysfree[t0] = S.sys_free_mass(t0=t0)
            system = sysfree[t0]
            import contextlib, io, warnings as _w
            with contextlib.redirect_stdout(io.StringIO()), _w.catch_warnings():
                _w.simplefilter("ignore")
                objs = [("Moreau", Moreau(system, t1, dt), "t"), ("ScipyIVP", ScipyIVP(system, t1, dt), "t_eval"), ("ScipyDAE", ScipyDAE(system, t1, dt), "t_eval")]
            for sn, o, attr in objs:
                if hasattr(o, "pbar"):
                    o.pbar.close()
                grid = getattr(o, attr, None)
                if grid is None:
                    continue
                ngrid += 1
                exp = t0 + dt * np.arange(n + 1)
                if len(grid) != n + 1 or not np.allclose(grid, exp, rtol=0, atol=1e-12 * (1 + abs(t1))):
                    ctx.violation(f"{sn}:grid-at-construction:t0={t0}:t1={t1}:dt={dt}",
                                  f"{sn} plans {len(grid)} instants ending at {grid[-1]!r}; the first grid point at or after t1={t1} is "
                                  f"t0 + {n} dt (tick {tick}, ticks {st['t0']},{st['t1']},{st['dt']})", {"case": {"solver": sn, "t0": t0, "t1": t1, "dt": dt}})
    ctx.log(f"[C20] {ngrid} grids checked at construction over the whole lattice x {len(TICKS)} tick values")
    # 2d. long runs carried out: a thousand steps, the final time just before / on / just after a grid point
    for st in [s_ for s_ in complete if (s_["dt"] >= 100 or s_["t0"] >= 10 ** 6) and -(-(s_["t1"] - s_["t0"]) // s_["dt"]) <= 1100]:
        tick = "0.001" if st["t0"] >= 10 ** 6 else "0.000001"
        t0, t1, dt = lit(st["t0"], tick), lit(st["t1"], tick), lit(st["dt"], tick)
        n = -(-(st["t1"] - st["t0"]) // st["dt"])
        system = S.sys_free_mass(t0=t0)
        rr = runs.record_run(_solver("Moreau", system, t1, dt), system, "Moreau", False, n)
        case = {"solver": "Moreau", "system": "free_mass", "tick": tick, "t0": t0, "t1": t1, "dt": dt, "ticks": [st["t0"], st["t1"], st["dt"]], "expected_steps": n}
        nrun += 1
        if rr.exc is not None:
            ctx.violation(f"Moreau:long:t1={t1}:dt={dt}:raises", f"raised {type(rr.exc).__name__}: {rr.exc} for {case}", {"case": case})
            continue
        if check_solution(ctx, rr.sol, system, t0, dt, n + 1, f"Moreau:long:t0={t0}:t1={t1}:dt={dt}", {"case": case}, fielddim):
            nok += 1
    # 3. static solver: n load steps -> n + 1 rows on [0, 1]
    from cardillo.solver import Newton
    for n in ([1, 2, 3, 7] if not ctx.thorough else list(range(1, 15))):
        system = S.sys_static_spring(n % 2 == 0)
        rr = runs.record_run(lambda: Newton(system, n_load_steps=n, verbose=False), system, "Newton", False, n + 1)
        case = {"solver": "Newton", "n_load_steps": n}
        nrun += 1
        if rr.exc is not None:
            ctx.violation(f"Newton:n={n}:raises", f"raised {type(rr.exc).__name__}: {rr.exc}", {"case": case})
            continue
        if check_solution(ctx, rr.sol, system, 0.0, 1.0 / n, n + 1, f"Newton:n={n}", {"case": case}, fielddim):
            nok += 1
    ctx.log(f"[C20] {nrun} solver runs compared with the lattice ({ntr} truncated), {nok} fully conforming")
    ctx.coverage = {"states": r.distinct, "transitions": max(r.generated, 1), "traces_validated_against_impl": nrun,
                    "samples": samples, "exhaustive": ctx.thorough, "lattice_states": len(states), "not_judged_nonconvergent": n_notjudged, "distinct_cases_run": len(seen) + ntr, "grids_checked_at_construction": ngrid,
                    "rule": "lattice of (t0, t1, dt) in ticks x tick values 0.1/0.01/0.001/0.25/1/64 as decimal literals x 6 dynamic solvers x 3 "
                            "systems with different dimension signatures; truncated runs through the fault hooks; static solver by load-step count"}
    ctx.assumptions = ["only inputs on the decimal/dyadic lattice are generated, so the exact step count is unambiguous",
                       "t[k] compared with t0 + k dt at 1e-12 absolute (accumulated rounding of the solvers' own time stepping)",
                       "the quick tier samples the lattice (seeded), the thorough tier runs up to 400 states per solver",
                       "save/load session: save, load, modify the loaded object, load again, overwrite under another spelling of the path (str / Path / relative), load again"]


def replay(ctx, path):
    run(ctx)
