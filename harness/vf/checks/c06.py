"""C06 Contact gaps and slip velocities are geometric and consistently differentiated.

Decide: spec/ContactKernel.tla -- PART P: sphere against a plane of constant orientation (gap = signed distance of the sphere
        surface, slip = tangential relative velocity of the touching material points, scaled by the anisotropy), rates and all
        derivatives defined by exact stencils along the flow; PART S: sphere against sphere on configurations with integer centre
        distance, in exact rational arithmetic, derivatives obtained by differentiating the polynomial identities d^2 = r.r,
        m^2 = w.w; TLC checks the definitions against closed forms and geometric facts (mode "identities").
Bind:   (code -> spec) real Sphere2Plane / Sphere2Sphere contacts between lattice subsystems (rigid bodies, point masses, frames,
        nodal rod cross-sections) are assembled and evaluated at lattice states; sphere centres, their motion and the derivative
        directions come from the subsystems' own kinematic routines; together with the contact's outputs they form one trace record
        that TLC recomputes from the kernel (mode "trace").  Every contact method the System exposes is called on the assembled
        systems: it must return a value or raise NotImplementedError.
"""
from __future__ import annotations

import copy
import itertools
import warnings

import numpy as np

from .. import tlc
from ..cases import check_only
from ..lattice import octahedral_group
from ..runs import batch_validate
from .c05 import make_sub, kinematics, ints, find_scale, oct_quats, OffLattice, TooBig, Sub, GEN_QUATS, GEN_CANDS, sample_generic
from ..lattice import quat_to_matrix

CANDS = sorted(2 ** a * 3 ** b for a in range(13) for b in range(5))
SYSTEM_METHODS = ["g_N", "g_N_q", "W_N", "g_N_dot", "g_N_ddot", "xi_N", "xi_N_q", "chi_N", "g_N_dot_u", "Wla_N_q", "gamma_F", "gamma_F_dot",
                  "xi_F", "xi_F_q", "gamma_F_q", "gamma_F_u", "gamma_F_dot_q", "gamma_F_dot_u", "W_F", "Wla_F_q"]


def kin2(o, t, q, u, ud, xi, B_r):
    """kinematics() plus the q- and u-directions of the acceleration level"""
    K = kinematics(o, t, q, u, ud, xi, B_r, np.eye(3))
    has_A = hasattr(o, "A_IB")
    nq, nu = len(q), len(u)
    A = np.asarray(o.A_IB(t, q, xi)) if has_A else np.eye(3)
    A_q = np.asarray(o.A_IB_q(t, q, xi)) if has_A else np.zeros((3, 3, nq))
    BP = np.asarray(o.B_Psi(t, q, u, ud, xi)) if has_A else np.zeros(3)
    BP_q = np.asarray(o.B_Psi_q(t, q, u, ud, xi)).reshape(3, nq) if has_A else np.zeros((3, nq))
    BP_u = np.asarray(o.B_Psi_u(t, q, u, ud, xi)).reshape(3, nu) if has_A else np.zeros((3, nu))
    a_q = np.asarray(o.a_P_q(t, q, u, ud, xi, B_r)).reshape(3, nq)
    a_u = np.asarray(o.a_P_u(t, q, u, ud, xi, B_r)).reshape(3, nu)
    for k in range(nq):
        K["qdirs"][k]["a"] = a_q[:, k]
        K["qdirs"][k]["Y"] = A_q[:, :, k] @ BP + A @ BP_q[:, k]
    for j in range(nu):
        K["udirs"][j]["a"] = a_u[:, j]
        K["udirs"][j]["Y"] = (A @ BP_u)[:, j]
    return K


def system_api(ctx, system, where, counts):
    """every contact method the System exposes returns a value or declares itself unimplemented"""
    t = system.t0
    q, u = system.q0.copy(), system.u0.copy()
    ud = np.zeros(system.nu)
    laN, laF = np.ones(system.nla_N), np.ones(system.nla_F)
    args = dict(g_N=(t, q), g_N_q=(t, q), W_N=(t, q), g_N_dot=(t, q, u), g_N_ddot=(t, q, u, ud), xi_N=(t, t, q, q, u, u), xi_N_q=(t, q, u), chi_N=(t, q),
                g_N_dot_u=(t, q), Wla_N_q=(t, q, laN), gamma_F=(t, q, u), gamma_F_dot=(t, q, u, ud), xi_F=(t, t, q, q, u, u), xi_F_q=(t, q, u),
                gamma_F_q=(t, q, u), gamma_F_u=(t, q), gamma_F_dot_q=(t, q, u, ud), gamma_F_dot_u=(t, q, u, ud), W_F=(t, q), Wla_F_q=(t, q, laF))
    recs = []
    for m in SYSTEM_METHODS:
        try:
            with warnings.catch_warnings():
                warnings.simplefilter("ignore")
                getattr(system, m)(*args[m])
            out = "value"
        except NotImplementedError:
            out = "NotImplementedError"
        except Exception as ex:
            out = type(ex).__name__
        counts[out] = counts.get(out, 0) + 1
        recs.append(dict(kind="A", method=m, outcome=out, where=where))
    return recs


# --------------------------------------------------------------------------------- sphere - plane
def build_plane(ctx, rng, plane_kind, sub_kind, quats, friction):
    from cardillo import System
    from cardillo.contacts import Sphere2Plane
    from cardillo.solver import SolverOptions

    iv = lambda lo=-2, hi=3: np.array([rng.randint(lo, hi) for _ in range(3)], dtype=float)
    system = System(t0=0.0)
    if plane_kind == "origin":
        frame = system.origin
        tev = 0.0
    elif plane_kind == "tilted":      # translating frame whose constant basis is a rational rotation that is not axis-aligned
        from cardillo.discrete import Frame
        a, b, c_ = iv(), iv(), iv(-1, 1)
        A = quat_to_matrix(GEN_QUATS[rng.randrange(len(GEN_QUATS))]) @ octahedral_group()[rng.randrange(24)].astype(float)
        frame = Frame(r_OP=lambda t: a + b * t + c_ * t * t, r_OP_t=lambda t: b + 2 * c_ * t, r_OP_tt=lambda t: 2 * c_, A_IB=A)
        tev = float(rng.choice([0, 1, 2]))
        system.add(frame)
    else:
        pl = make_sub("tframe", rng, quats)
        frame = pl.obj
        tev = pl.t_eval
        system.add(frame)
    sub = make_sub(sub_kind, rng, quats)
    if sub.kind != "origin":
        system.add(sub.obj)
    rho = rng.choice([0, 1, 2])
    if sub.kind in ("rigid", "point") and rng.random() < 0.6:
        sub.obj.radius = 3.0          # bodies may carry geometry of their own (the meshed Sphere / Cylinder / Capsule do): the contact uses its arguments
    al = [1, 1] if rng.random() < 0.4 else [rng.choice([1, 2, 3]), rng.choice([1, 2])]
    B = iv(-1, 2) if hasattr(sub.obj, "A_IB") and sub.kind not in ("point",) else np.zeros(3)
    mu = 0.5 if friction else 0.0
    c = Sphere2Plane(frame, sub.obj, mu=mu, r=float(rho), xi=sub.xi, B_r_CP=B, e_N=0.5, e_F=0.0, anisotropy=np.array(al, dtype=float))
    system.add(c)
    # a second live contact of the same class on the same body against another plane: it sees the same local (t, q) and is evaluated right before
    # every record of the first one (instances must not share state)
    from cardillo.discrete import Frame as _Frame
    plane2 = _Frame(r_OP=np.array([0.5, -1.5, -9.0]), A_IB=quat_to_matrix(GEN_QUATS[1]) @ octahedral_group()[7].astype(float), name=f"plane2_{rng.randrange(10**9)}")
    comp = Sphere2Plane(plane2, sub.obj, mu=mu, r=1.5, xi=sub.xi, B_r_CP=B + 0.25, e_N=0.5, e_F=0.0, name=f"companion_{rng.randrange(10**9)}")
    system.add(plane2, comp)
    c._vf_companion = comp
    system.assemble(options=SolverOptions(compute_consistent_initial_conditions=False))
    return system, c, frame, sub, rho, al, B, max(tev, sub.t_eval)


def _evaluate_companion(c, t, q, u, ud, friction):
    """the companion contact (another instance of the class on the same subsystems' coordinates) is asked for everything first"""
    comp = getattr(c, "_vf_companion", None)
    if comp is None:
        return
    for name, args in (("g_N", (t, q)), ("g_N_q", (t, q)), ("g_N_dot", (t, q, u)), ("g_N_ddot", (t, q, u, ud)), ("W_N", (t, q)), ("g_N_dot_u", (t, q)), ("g_N_dot_q", (t, q, u)),
                       ("Wla_N_q", (t, q, np.ones(1)))) + ((("gamma_F", (t, q, u)), ("gamma_F_q", (t, q, u)), ("gamma_F_dot", (t, q, u, ud)), ("W_F", (t, q)), ("gamma_F_u", (t, q)),
                                                          ("Wla_F_q", (t, q, np.ones(2)))) if friction else ()):
        f = getattr(comp, name, None)
        if callable(f):
            try:
                f(*[a.copy() if isinstance(a, np.ndarray) else a for a in args])
            except (NotImplementedError, AttributeError):
                pass


def plane_record(ctx, rid, rng, c, frame, sub, rho, al, B, t, friction, where, generic=False):
    """one Sphere2Plane evaluation as a record of integers.  The plane basis is F / s, lengths (and translational velocities, accelerations) are
    multiples of 1 / S, every derivative direction carries a factor of its own: gap-level quantities then carry s S, friction-level quantities
    s^2 S (times the direction factors); on axis-aligned planes with bodies at octahedral orientations all factors are 1."""
    q, u, ud = sample_generic(sub, rng) if generic else sub.sample(rng)
    K = kin2(sub.obj, t, q, u, ud, sub.xi, B)
    w = dict(where, t=t, q=q.tolist(), u=u.tolist(), u_dot=ud.tolist(), radius=rho, anisotropy=al, B_r_CP=B.tolist())
    I = lambda x, what, sc=1.0: ints(ctx, x, what, w, sc)
    F = np.asarray(frame.A_IB(t), dtype=float)
    rQ, vQ, aQ = np.asarray(frame.r_OP(t), dtype=float), np.asarray(frame.v_P(t), dtype=float), np.asarray(frame.a_P(t), dtype=float)
    s = find_scale([F], GEN_CANDS)
    S = find_scale([K["r"], K["v"], K["a"], rQ, vQ, aQ], GEN_CANDS)
    if s is None or S is None:
        raise OffLattice(f"plane basis / contact point kinematics are not rational with small denominators at {w}")
    cN, cF = float(s * S), float(s * s * S)
    rec = dict(id=rid, kind="P", friction=bool(friction), p=dict(F=I(F, "plane basis", s), rho=int(rho), al=[int(a) for a in al], s=int(s), S=int(S)))
    rec["X"] = dict(rP=I(K["r"], "r_OP", S), rQ=I(rQ, "r_OQ", S))
    rec["U"] = dict(vP=I(K["v"], "v_P", S), vQ=I(vQ, "v_Q", S), O=I(K["O"], "Omega"))
    rec["A"] = dict(aP=I(K["a"], "a_P", S), aQ=I(aQ, "a_Q", S), Y=I(K["Y"], "Psi"))
    laN = rng.choice([1, 2, -1]); laF = [rng.choice([1, -2, 3]), rng.choice([2, -1])]
    rec["laN"] = laN; rec["laF"] = laF
    nq, nu = len(q), len(u)
    _evaluate_companion(c, t, q, u, ud, friction)
    sc1 = lambda x, what="scalar": I(np.atleast_1d(x).ravel(), what)[0]
    rec["gN"] = sc1(c.g_N(t, q.copy()) * cN, "g_N"); rec["gNdot"] = sc1(c.g_N_dot(t, q.copy(), u.copy()) * cN, "g_N_dot")
    rec["gNddot"] = sc1(c.g_N_ddot(t, q.copy(), u.copy(), ud.copy()) * cN, "g_N_ddot")
    gN_q = np.asarray(c.g_N_q(t, q.copy())).reshape(1, nq); gNd_q = np.asarray(c.g_N_dot_q(t, q.copy(), u.copy())).reshape(1, nq)
    W_N = np.asarray(c.W_N(t, q.copy())).reshape(nu, 1); gNd_u = np.asarray(c.g_N_dot_u(t, q.copy())).reshape(1, nu)
    WlaN = np.asarray(c.Wla_N_q(t, q.copy(), np.array([float(laN)]))).reshape(nu, nq)
    if friction:
        rec["gF"] = I(c.gamma_F(t, q.copy(), u.copy()), "gamma_F", cF); rec["gFdot"] = I(c.gamma_F_dot(t, q.copy(), u.copy(), ud.copy()), "gamma_F_dot", cF)
        gF_q = np.asarray(c.gamma_F_q(t, q.copy(), u.copy())).reshape(2, nq); gFd_q = np.asarray(c.gamma_F_dot_q(t, q.copy(), u.copy(), ud.copy())).reshape(2, nq)
        W_F = np.asarray(c.W_F(t, q.copy())).reshape(nu, 2); gF_u = np.asarray(c.gamma_F_u(t, q.copy())).reshape(2, nu)
        gFd_u = np.asarray(c.gamma_F_dot_u(t, q.copy(), u.copy(), ud.copy())).reshape(2, nu)
        WlaF = np.asarray(c.Wla_F_q(t, q.copy(), np.array(laF, dtype=float))).reshape(nu, nq)
    else:
        rec["gF"] = [0, 0]; rec["gFdot"] = [0, 0]
    Z3 = [0, 0, 0]
    ku = []
    for j in range(nu):
        d = K["udirs"][j]
        sc = find_scale([S * d["v"], d["O"], S * d["a"], d["Y"]], GEN_CANDS)
        if sc is None:
            raise OffLattice(f"derivative directions along u[{j}] are not rational with small denominators at {w}")
        ku.append(sc)
    kappa, qd = [], []
    for k in range(nq):
        d = K["qdirs"][k]
        sc = find_scale([S * d["r"], S * d["v"], d["O"], S * d["a"], d["Y"]] + [ku[j] * S * K["dd"][j][k]["v"] for j in range(nu)] + [ku[j] * K["dd"][j][k]["O"] for j in range(nu)],
                        CANDS if not generic else GEN_CANDS)
        if sc is None:
            raise OffLattice(f"derivative directions along q[{k}] are not on the lattice at {w}")
        kappa.append(sc)
        e = dict(dX=dict(rP=I(d["r"], "r_OP_q", sc * S), rQ=Z3), dU=dict(vP=I(d["v"], "v_P_q", sc * S), vQ=Z3, O=I(d["O"], "Omega_q", sc)),
                 dA=dict(aP=I(d["a"], "a_P_q", sc * S), aQ=Z3, Y=I(d["Y"], "Psi_q", sc)),
                 gNq=sc1(gN_q[0, k] * sc * cN, "g_N_q"), gNdotq=sc1(gNd_q[0, k] * sc * cN, "g_N_dot_q"))
        if friction:
            e["gFq"] = I(gF_q[:, k], "gamma_F_q", sc * cF); e["gFdotq"] = I(gFd_q[:, k], "gamma_F_dot_q", sc * cF)
        else:
            e["gFq"] = [0, 0]; e["gFdotq"] = [0, 0]
        qd.append(e)
    udl = []
    for j in range(nu):
        d = K["udirs"][j]
        sc = ku[j]
        e = dict(dU=dict(vP=I(d["v"], "J_P", sc * S), vQ=Z3, O=I(d["O"], "J_R", sc)), dA=dict(aP=I(d["a"], "a_P_u", sc * S), aQ=Z3, Y=I(d["Y"], "Psi_u", sc)),
                 wN=sc1(W_N[j, 0] * sc * cN, "W_N"), gNdotu=sc1(gNd_u[0, j] * sc * cN, "g_N_dot_u"))
        if friction:
            e["wF"] = I(W_F[j, :], "W_F", sc * cF); e["gFu"] = I(gF_u[:, j], "gamma_F_u", sc * cF); e["gFdotu"] = I(gFd_u[:, j], "gamma_F_dot_u", sc * cF)
        else:
            e["wF"] = [0, 0]; e["gFu"] = [0, 0]; e["gFdotu"] = [0, 0]
        udl.append(e)
    wla = []
    for j in range(nu):
        for k in range(nq):
            d = K["dd"][j][k]
            f = ku[j] * kappa[k]
            wla.append(dict(j=j + 1, k=k + 1, ddU=dict(vP=I(d["v"], "J_P_q", f * S), vQ=Z3, O=I(d["O"], "J_R_q", f)),
                            wlaN=sc1(WlaN[j, k] * f * cN, "Wla_N_q"), wlaF=sc1(WlaF[j, k] * f * cF, "Wla_F_q") if friction else 0))
    rec["qdirs"] = qd; rec["udirs"] = udl; rec["wla"] = wla
    return rec, w


# --------------------------------------------------------------------------------- sphere - sphere
PYTH = [np.array(p, dtype=float) for p in set(
    [tuple(s * x for s, x in zip(sg, perm)) for base in [(3, 4, 0), (2, 0, 0), (5, 0, 0), (3, 0, 0)] for perm in set(itertools.permutations(base)) for sg in itertools.product((1, -1), repeat=3)])]


def isq(x):
    r = int(round(np.sqrt(x)))
    return r if r * r == int(round(x)) else 0


def build_spheres(ctx, rng, kinds, quats, friction):
    from cardillo import System
    from cardillo.contacts import Sphere2Sphere
    from cardillo.discrete import Frame, RigidBody, PointMass
    from cardillo.solver import SolverOptions

    iv = lambda lo=-2, hi=3: np.array([rng.randint(lo, hi) for _ in range(3)], dtype=float)
    system = System(t0=0.0)
    # initial configuration: centres separated along a coordinate axis (the reference contact basis is then integer)
    c1 = iv()
    ax = rng.randrange(3)
    sep = np.zeros(3); sep[ax] = rng.choice([3, -4, 5])
    c2 = c1 + sep
    subs = []
    fr_data = None
    for i, (k, c0) in enumerate(zip(kinds, (c1, c2))):
        if k == "rigid":
            P0 = quats[rng.randrange(len(quats))]
            o = RigidBody(2.0, np.diag([2.0, 3.0, 4.0]), q0=np.concatenate([c0, P0]), u0=np.zeros(6), name=f"s{i}_{rng.randrange(10**9)}")

            def sample(rng, centre, o=o):
                P = quats[rng.randrange(len(quats))] * rng.choice([1, 1, -1])
                return np.concatenate([centre, P]), np.concatenate([iv(), iv(-2, 2)]), np.concatenate([iv(), iv(-1, 2)])
            subs.append(Sub(k, o, sample))
            system.add(o)
        elif k == "point":
            o = PointMass(1.5, q0=c0.copy(), u0=np.zeros(3), name=f"p{i}_{rng.randrange(10**9)}")
            subs.append(Sub(k, o, lambda rng, centre: (centre.copy(), iv(), iv())))
            system.add(o)
        elif k == "tframe":
            # moving sphere on a frame: its centre is c0 at t = 0 and c0 + shift at t = 1 (both evaluated with the same q of the partner)
            b = iv(); cc = iv(-1, 1)
            A = octahedral_group()[rng.randrange(24)].astype(float)
            fr_data = dict(a=c0.copy(), b=b, c=cc, i=i)
            fd = fr_data      # the motion parameters b, c are re-chosen after assembly (the position at t0 = 0 stays)
            o = Frame(r_OP=lambda t, fd=fd: fd["a"] + fd["b"] * t + fd["c"] * t * t, r_OP_t=lambda t, fd=fd: fd["b"] + 2 * fd["c"] * t,
                      r_OP_tt=lambda t, fd=fd: 2 * fd["c"], A_IB=A)
            subs.append(Sub(k, o, lambda rng, centre: (np.zeros(0), np.zeros(0), np.zeros(0))))
            system.add(o)
        else:
            raise ValueError(k)
    rho1, rho2 = rng.choice([1, 2]), rng.choice([1, 2])
    c = Sphere2Sphere(subs[0].obj, subs[1].obj, float(rho1), float(rho2), 0.5 if friction else 0.0, e_N=0.5, e_F=0.0)
    system.add(c)
    if fr_data is not None:
        # a second prescribed sphere touching the same free body: both contacts see the same local (t, q) (frames have no coordinates)
        i = fr_data["i"]
        frame2 = Frame(r_OP=c1 + np.array([7.0, -5.0, 3.0]), name=f"sphere2_{rng.randrange(10**9)}")
        pair = (frame2, subs[1].obj) if i == 0 else (subs[0].obj, frame2)
        comp = Sphere2Sphere(pair[0], pair[1], 1.5, 0.5, 0.5 if friction else 0.0, e_N=0.5, e_F=0.0, name=f"companion_{rng.randrange(10**9)}")
        system.add(frame2, comp)
        c._vf_companion = comp
    system.assemble(options=SolverOptions(compute_consistent_initial_conditions=False))
    return system, c, subs, rho1, rho2, fr_data


def rat(ctx, x, K, what, w):
    """value * K must be an integer: returns [num, K]"""
    v = ints(ctx, np.atleast_1d(np.asarray(x, dtype=float)).ravel(), what, w, float(K))
    return [[int(n), int(K)] for n in v]


def admissible(tref):
    return [p for p in PYTH if isq(np.cross(tref, p) @ np.cross(tref, p)) > 0]


def sphere_record(ctx, rid, rng, c, subs, rho1, rho2, fr_data, t, friction, where, given=None):
    tref = np.round(np.asarray(c.reference_contact_basis)[:, 1], 12)
    if not np.all(np.isin(tref, (-1.0, 0.0, 1.0))) or abs(np.abs(tref).sum() - 1) > 1e-12:
        return None, "reference basis is not axis aligned"
    iv = lambda lo=-2, hi=3: np.array([rng.randint(lo, hi) for _ in range(3)], dtype=float)
    # centres: Pythagorean separation with integer |tref x r|
    centres = [None, None]
    for _ in range(200):
        r12 = PYTH[rng.randrange(len(PYTH))]
        m = isq(np.cross(tref, r12) @ np.cross(tref, r12))
        if m == 0:
            continue
        if fr_data is None:
            centres[0] = iv(); centres[1] = centres[0] + r12
        else:
            i = fr_data["i"]
            cf = fr_data["a"] + fr_data["b"] * t + fr_data["c"] * t * t
            centres[i] = cf
            centres[1 - i] = cf + r12 if i == 0 else cf - r12
        break
    else:
        return None, "no admissible separation"
    st = [subs[i].sample(rng, centres[i]) for i in range(2)]
    if given is not None:
        centres, st = given
    K = [kin2(subs[i].obj, t, st[i][0], st[i][1], st[i][2], None, np.zeros(3)) for i in range(2)]
    q = np.concatenate([x[0] for x in st]); u = np.concatenate([x[1] for x in st]); ud = np.concatenate([x[2] for x in st])
    nq = [len(x[0]) for x in st]; nu = [len(x[1]) for x in st]
    w = dict(where, t=t, q=q.tolist(), u=u.tolist(), u_dot=ud.tolist(), radii=[rho1, rho2])
    I = lambda x, what, sc=1.0: ints(ctx, x, what, w, sc)
    r12 = K[1]["r"] - K[0]["r"]
    d = isq(r12 @ r12); m = isq(np.cross(tref, r12) @ np.cross(tref, r12))
    if d == 0 or m == 0:
        return None, "state not on the Pythagorean lattice"
    rho = [rho1, rho2]
    sg = [-1.0, 1.0]
    rec = dict(id=rid, kind="S", friction=bool(friction), g=dict(tr=I(tref, "t2_ref"), d=d, m=m, rho1=int(rho1), rho2=int(rho2)))
    rec["Z"] = dict(r=I(r12, "r12"), v=I(K[1]["v"] - K[0]["v"], "v12"), Os=I(rho1 * K[0]["O"] + rho2 * K[1]["O"], "Os"))
    rec["Acc"] = dict(a=I(K[1]["a"] - K[0]["a"], "a12"), Ys=I(rho1 * K[0]["Y"] + rho2 * K[1]["Y"], "Ys"))
    laN = rng.choice([1, 2, -1]); laF = [rng.choice([1, -2, 3]), rng.choice([2, -1])]
    rec["laN"] = laN; rec["laF"] = laF
    _evaluate_companion(c, t, q, u, ud, friction)
    KK = 2 * d ** 4 * m ** 3
    R1 = lambda x, what, sc=1: rat(ctx, x, KK * sc, what, w)[0]
    R2 = lambda x, what, sc=1: rat(ctx, x, KK * sc, what, w)
    rec["gN"] = R1(c.g_N(t, q.copy()), "g_N"); rec["gNdot"] = R1(c.g_N_dot(t, q.copy(), u.copy()), "g_N_dot")
    rec["gNddot"] = R1(c.g_N_ddot(t, q.copy(), u.copy(), ud.copy()), "g_N_ddot")
    gN_q = np.asarray(c.g_N_q(t, q.copy())).reshape(1, sum(nq))
    W_N = np.asarray(c.W_N(t, q.copy())).reshape(sum(nu), 1); gNd_u = np.asarray(c.g_N_dot_u(t, q.copy())).reshape(1, sum(nu))
    WlaN = np.asarray(c.Wla_N_q(t, q.copy(), np.array([float(laN)]))).reshape(sum(nu), sum(nq))
    if friction:
        rec["gF"] = R2(c.gamma_F(t, q.copy(), u.copy()), "gamma_F"); rec["gFdot"] = R2(c.gamma_F_dot(t, q.copy(), u.copy(), ud.copy()), "gamma_F_dot")
        gF_q = np.asarray(c.gamma_F_q(t, q.copy(), u.copy())).reshape(2, sum(nq))
        W_F = np.asarray(c.W_F(t, q.copy())).reshape(sum(nu), 2); gF_u = np.asarray(c.gamma_F_u(t, q.copy())).reshape(2, sum(nu))
        WlaF = np.asarray(c.Wla_F_q(t, q.copy(), np.array(laF, dtype=float))).reshape(sum(nu), sum(nq))
    else:
        rec["gF"] = [[0, 1], [0, 1]]; rec["gFdot"] = [[0, 1], [0, 1]]
    Z0 = [[0, 1], [0, 1]]
    kappa, qd = [], []
    for b in range(2):
        for k in range(nq[b]):
            dd = K[b]["qdirs"][k]
            col = sum(nq[:b]) + k
            sc = find_scale([dd["r"], dd["v"], dd["O"]] + [K[b]["dd"][j][k]["v"] for j in range(nu[b])] + [K[b]["dd"][j][k]["O"] for j in range(nu[b])], CANDS)
            if sc is None:
                raise OffLattice(f"derivative directions of subsystem {b + 1} along q[{k}] are not on the lattice at {w}")
            kappa.append(sc)
            e = dict(dZ=dict(r=I(sg[b] * dd["r"], "r_OP_q", sc), v=I(sg[b] * dd["v"], "v_P_q", sc), Os=I(rho[b] * dd["O"], "Omega_q", sc)),
                     gNq=R1(gN_q[0, col] * sc, "g_N_q"))
            e["gFq"] = R2(gF_q[:, col] * sc, "gamma_F_q") if friction else Z0
            qd.append(e)
    udl = []
    for b in range(2):
        for j in range(nu[b]):
            dd = K[b]["udirs"][j]
            row = sum(nu[:b]) + j
            e = dict(dZ=dict(r=[0, 0, 0], v=I(sg[b] * dd["v"], "J_P"), Os=I(rho[b] * dd["O"], "J_R")), wN=R1(W_N[row, 0], "W_N"), gNdotu=R1(gNd_u[0, row], "g_N_dot_u"))
            e["wF"] = R2(W_F[row, :], "W_F") if friction else Z0
            e["gFu"] = R2(gF_u[:, row], "gamma_F_u") if friction else Z0
            udl.append(e)
    wla = []
    for bj in range(2):
        for j in range(nu[bj]):
            row = sum(nu[:bj]) + j
            for bk in range(2):
                for k in range(nq[bk]):
                    col = sum(nq[:bk]) + k
                    ddZ = dict(r=[0, 0, 0], v=[0, 0, 0], Os=[0, 0, 0])
                    if bj == bk:
                        dd = K[bj]["dd"][j][k]
                        ddZ = dict(r=[0, 0, 0], v=I(sg[bj] * dd["v"], "J_P_q", kappa[col]), Os=I(rho[bj] * dd["O"], "J_R_q", kappa[col]))
                    wla.append(dict(j=row + 1, k=col + 1, ddZ=ddZ, wlaN=R1(WlaN[row, col] * kappa[col], "Wla_N_q"),
                                    wlaF=R1(WlaF[row, col] * kappa[col], "Wla_F_q") if friction else [0, 1]))
    rec["qdirs"] = qd; rec["udirs"] = udl; rec["wla"] = wla
    return (rec, w, (centres, st)), None


PLANE_PAIRS = [("origin", "rigid"), ("tframe", "rigid"), ("origin", "point"), ("tframe", "point"), ("tframe", "tframe"), ("origin", "rod1"), ("tframe", "rodm"),
               ("tilted", "rigid"), ("tilted", "point"), ("tilted", "tframe"), ("tilted", "rod1"), ("tilted", "rigid*"), ("origin", "rigid*")]
SPHERE_PAIRS = [("rigid", "rigid"), ("point", "rigid"), ("rigid", "point"), ("point", "point"), ("tframe", "rigid"), ("rigid", "tframe"), ("tframe", "point")]


def run(ctx):
    ctx.level = "model_checking"
    rng = ctx.rng
    r_id = check_only(ctx, "ContactKernel", {"Mode": '"identities"'}, invariants=("IdentitiesOK",), tag="ck_identities")
    quats = oct_quats()
    nrep = 30 if ctx.thorough else 2
    nstates = 4 if ctx.thorough else 2
    records, wheres, api = [], {}, []
    counts = {"P": 0, "S": 0}
    outcomes = {}
    skipped = {}

    def guarded(key, where, f):
        try:
            return f()
        except TooBig:
            skipped["too large"] = skipped.get("too large", 0) + 1
        except OffLattice as ex:
            ctx.violation(f"{key}:off-lattice", str(ex), where)
        except NotImplementedError as ex:
            ctx.violation(f"{key}:not-implemented", f"{where}: a routine of the property's list is not implemented: {ex!r}", where)
        except Exception as ex:
            ctx.violation(f"{key}:raises:{type(ex).__name__}", f"evaluating {where} raised {type(ex).__name__}: {ex}", where)
        return None

    for friction in (True, False):
        for plane_kind, sub_kind in PLANE_PAIRS:
            for rep in range(nrep if friction else 1):
                where = dict(contact="Sphere2Plane", plane=plane_kind, subsystem=sub_kind, friction=friction)
                key = f"Sphere2Plane:{plane_kind}-{sub_kind}"
                generic = sub_kind.endswith("*")         # the body at rational orientations that are not octahedral
                sub_kind = sub_kind.rstrip("*")
                b = guarded(key + ":build", where, lambda: build_plane(ctx, rng, plane_kind, sub_kind, quats, friction))
                if b is None:
                    continue
                system, c, frame, sub, rho, al, B, t = b
                if rep == 0:
                    api += system_api(ctx, system, where, outcomes)
                for si in range(nstates):
                    rid = len(records) + 1
                    out = guarded(key, where, lambda: plane_record(ctx, rid, rng, c, frame, sub, rho, al, B, t, friction, where, generic=generic))
                    if out is not None:
                        records.append(out[0]); wheres[rid] = out[1]; counts["P"] += 1
        for kinds in SPHERE_PAIRS:
            for rep in range(nrep if friction else 1):
                where = dict(contact="Sphere2Sphere", subsystems=list(kinds), friction=friction)
                key = f"Sphere2Sphere:{'-'.join(kinds)}"
                rstate = rng.getstate()
                b = guarded(key + ":build", where, lambda: build_spheres(ctx, rng, kinds, quats, friction))
                if b is None:
                    continue
                system, c, subs, rho1, rho2, fr_data = b
                last_state = None
                if rep == 0:
                    api += system_api(ctx, system, where, outcomes)
                given = None
                if fr_data is not None:
                    # a sphere on a moving frame: the frame's motion is chosen such that the separation is on the lattice at t = 0 and at t = 1
                    # with the partner's coordinates unchanged (consecutive evaluations that differ in the time only)
                    tref = np.round(np.asarray(c.reference_contact_basis)[:, 1], 12)
                    adm = admissible(tref)
                    if len(adm) >= 2:
                        p0, p1 = adm[rng.randrange(len(adm))], adm[rng.randrange(len(adm))]
                        i = fr_data["i"]
                        sgn = 1.0 if i == 0 else -1.0           # r12 = partner - frame (i = 0) or frame - partner (i = 1)
                        fr_data["c"] = np.array([rng.randint(-1, 1) for _ in range(3)], dtype=float)
                        fr_data["b"] = sgn * (p0 - p1) - fr_data["c"]
                        centres = [None, None]
                        centres[i] = fr_data["a"].copy()
                        centres[1 - i] = fr_data["a"] + sgn * p0
                        st = [subs[k].sample(rng, centres[k]) for k in range(2)]
                        given = [centres, st]
                for si in range(nstates):
                    rid = len(records) + 1
                    t = float(si % 2) if fr_data is not None else 0.0
                    g = None
                    if given is not None:
                        cen = list(given[0]); cen[fr_data["i"]] = fr_data["a"] + fr_data["b"] * t + fr_data["c"] * t * t
                        g = (cen, given[1])
                    out = guarded(key, where, lambda: sphere_record(ctx, rid, rng, c, subs, rho1, rho2, fr_data, t, friction, where, given=g))
                    if out is None:
                        continue
                    res, why = out
                    if res is None:
                        skipped[why] = skipped.get(why, 0) + 1
                        continue
                    records.append(res[0]); wheres[rid] = res[1]; counts["S"] += 1
                    last_state = (t, res[2][1])
                # history: evaluate at A, let step_callback transport the reference basis at another state B, evaluate at A again: the
                # contact must answer like a twin with the same step_callback history that was never evaluated at A before
                if friction and last_state is not None and fr_data is None:
                    def history():
                        tA, stA = last_state
                        qA = np.concatenate([x[0] for x in stA]); uA = np.concatenate([x[1] for x in stA]); udA = np.concatenate([x[2] for x in stA])
                        qB = qA.copy()
                        mv = 0 if len(stA[0][0]) >= 3 else len(stA[0][0])
                        qB[mv:mv + 3] += np.array([0.7, -1.3, 0.4])
                        rng2 = type(rng)(0); rng2.setstate(rstate)
                        _, c2, _, _, _, _ = build_spheres(ctx, rng2, kinds, quats, friction)
                        laF = np.array([0.3, -0.4])
                        ev = lambda cc: [np.asarray(cc.gamma_F(tA, qA.copy(), uA.copy())), np.asarray(cc.gamma_F_q(tA, qA.copy(), uA.copy())), np.asarray(cc.W_F(tA, qA.copy())),
                                         np.asarray(cc.Wla_F_q(tA, qA.copy(), laF)), np.asarray(cc.gamma_F_dot(tA, qA.copy(), uA.copy(), udA.copy()))]
                        ev(c)                                   # (the original has been evaluated at A; make sure every routine was)
                        c.step_callback(tA, qB.copy(), uA.copy()); c2.step_callback(tA, qB.copy(), uA.copy())
                        got, ref = ev(c), ev(c2)
                        for name, g_, r_ in zip(("gamma_F", "gamma_F_q", "W_F", "Wla_F_q", "gamma_F_dot"), got, ref):
                            if g_.shape != r_.shape or not (np.max(np.abs(g_ - r_)) <= 1e-12 * (1 + np.max(np.abs(r_)))):
                                ctx.violation(f"{key}:history:{name}", f"{name} evaluated at a state, then after step_callback at another state, again at the first state differs from a twin "
                                              f"contact that was not evaluated before ({where})", dict(where, q=qA.tolist(), q_step=qB.tolist()))
                        return True
                    if guarded(key + ":history", where, history):
                        counts["S-history"] = counts.get("S-history", 0) + 1
    if counts["P"] == 0 or counts["S"] == 0:
        raise tlc.MachineryError(f"no contact records produced: {counts}, skipped {skipped}")
    # system API table: judged by the specification as well
    for a in api:
        a["id"] = len(records) + 1
        wheres[a["id"]] = dict(a["where"], method=a["method"], outcome=a["outcome"])
        del a["where"]
        records.append(a)
    # self-test: corrupted copies must be rejected
    c1 = copy.deepcopy(next(r for r in records if r["kind"] == "P")); c1["id"] = 0; c1["gNdot"] += 977
    c2 = copy.deepcopy(next(r for r in records if r["kind"] == "S")); c2["id"] = -1; c2["gNdot"][0] += 977
    bad, rt = batch_validate(ctx, "ContactKernel", records + [c1, c2], {"Mode": '"trace"'}, "ck_trace")
    if bad.pop(0, None) is None or bad.pop(-1, None) is None:
        raise tlc.MachineryError("self-test failed: a corrupted contact record was accepted by the trace specification")
    for rid, clause in bad.items():
        w = wheres[rid]
        if clause.startswith("MACHINERY"):
            raise tlc.MachineryError(f"{clause}: {w}")
        if "method" in w:
            ctx.violation(f"System.{w['method']}:{w['contact']}:{w['outcome']}", f"System.{w['method']} on a system with a {w['contact']} contact "
                          f"({'with' if w['friction'] else 'without'} friction) ended with {w['outcome']}: {clause}", w)
        else:
            pair = w.get("subsystems") or [w.get("plane"), w.get("subsystem")]
            ctx.violation(f"{w['contact']}:{'-'.join(pair)}:{clause}", f"{clause}: {w['contact']} {pair} friction={w['friction']} at t={w['t']}, q={w['q']}, u={w['u']}", w)
    ctx.log(f"[C06] kernel identities: {r_id.distinct} lattice cases; records validated by TLC: {counts}, system API calls {len(api)} {outcomes}; "
            f"{len(bad)} rejected; skipped {skipped}")
    ctx.coverage = {"states": r_id.distinct + rt.distinct, "transitions": max(r_id.generated + rt.generated, 1),
                    "traces_validated_against_impl": len(records), "samples": [{"where": wheres[1]}],
                    "records": counts, "system_api_outcomes": outcomes, "skipped": skipped,
                    "plane_pairings": [list(p) for p in PLANE_PAIRS], "sphere_pairings": [list(p) for p in SPHERE_PAIRS],
                    "rule": "sphere-plane: 7 pairings x friction on/off x radii {0,1,2} x anisotropy x offsets x lattice states; sphere-sphere: 7 pairings x friction on/off x "
                            "Pythagorean separations; every System contact method called on every assembled system kind"}
    ctx.assumptions = ["planes have constant octahedral orientation and translate polynomially (the property's quantifier); orientations of bodies are octahedral, realised by integer quaternions",
                       "sphere-sphere states have integer centre distance and integer |t2_ref x r12|, the reference contact basis is the axis-aligned one computed at assembly",
                       "the convention t1 || t2_ref x n, t2 = n x t1 of the sphere-sphere contact basis is part of the specification"]


def replay(ctx, path):
    run(ctx)
