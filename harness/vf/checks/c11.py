"""C11 Rod discretization derivatives and nodal interpolation are consistent (claimed for the rational part).

Decide: spec/RodKinematics.tla -- the element's cross-section kinematics (centreline, orientation by quaternion interpolation or by
        interpolation of nodal rotation matrices, strain measures, r_OP, v_P, B_Omega) and the nodal kinematic equation, stated once in
        dual numbers over exact rationals; moving one nodal coordinate by eps yields the true column of every Jacobian.  TLC checks on a
        lattice that the quaternion family interpolates rotations (to first order too), that the curvature formula is the axial vector
        of A^T A', that a node's cross-section has the nodal values, that q_dot keeps |P|^2, and rejects the as-found q_dot_u.
Bind:   (code -> spec) real rod elements (Quaternion and R12 interpolation, displacement-based and mixed, polynomial degree 1 and 2) at
        rational states (integer nodal positions / velocities, integer nodal quaternions of several lengths, not unit) and rational
        parameters xi (nodal and in between): per coordinate direction of q_e and u_e one record with the columns of _deval, r_OP_q,
        A_IB_q, v_P_q, J_P, J_P_q, B_J_R; per node and quaternion / angular velocity component one record with q_dot, q_dot_q, q_dot_u,
        g_S, g_S_q (all interpolations incl. SE3).  TLC recomputes every record.
        Float supplements: q_dot is linear in u and q_dot_u its matrix; M symmetric positive semidefinite, E_kin = u^T M u / 2,
        gyroscopic forces power-free (also on rods with graded and curved references, whose element matrices differ); the SE(3)
        family's cross-section Jacobians against central differences (outside the rational core).
        The element's weak form (f_int_el / f_int_el_qe of the displacement-based rods, W_c_el la_c / Wla_c_el_qe / c_el / c_el_qe of
        the mixed rods) is a sum over quadrature points of expressions in those quantities; it is recorded from rods whose abscissae
        are rational (the genuine one-point rule of the linear elements; for the quadratic elements rational abscissae are written
        into the rod's quadrature tables, which are data, and the reference strains are recomputed by the rod) and recomputed by TLC.
Not covered (restriction): the internally constrained rods (g_el, W_g_el), the SE(3) interpolation (transcendental), a_P derivatives;
        the weak form is not checked AT the irrational Gauss abscissae of the quadratic elements.
"""
from __future__ import annotations

import copy
import os
import warnings
from fractions import Fraction

import numpy as np

from .. import tlc
from ..cases import check_only
from ..lattice import octahedral_group
from ..runs import batch_validate_parallel
from .c08 import fr, fv, resid, quat_pool, iv, NotRational

XIS = [0.0, 0.25, 0.5, 0.75, 1.0, 0.125, 0.625]


def make_rod(interp, mixed, degree, rng, A0=None, constraints=None):
    from cardillo.rods import RectangularCrossSection, Simo1986, CrossSectionInertias
    from cardillo.rods.cosseratRod import make_CosseratRod

    Rod = make_CosseratRod(interpolation=interp, mixed=mixed, polynomial_degree=degree, constraints=constraints)
    cs = RectangularCrossSection(0.1, 0.2)
    mat = Simo1986(np.array([5.0, 1.0, 1.0]), np.array([0.5, 2.0, 2.0]))
    A0 = octahedral_group()[rng.randrange(24)].astype(float) if A0 is None else A0
    with warnings.catch_warnings():
        warnings.simplefilter("ignore")
        Q = Rod.straight_configuration(2, 2.0, r_OP0=iv(rng), A_IB0=A0)
        rod = Rod(cs, mat, 2, Q=Q, q0=Q.copy(), cross_section_inertias=CrossSectionInertias(1.5, cs), name=f"rod{rng.randrange(10**9)}")
        from cardillo import System
        from cardillo.solver import SolverOptions

        system = System()
        system.add(rod)
        system.assemble(options=SolverOptions(compute_consistent_initial_conditions=False))
    return rod


def rod_state(rod, rng, quats):
    q = np.zeros(rod.nq); u = np.zeros(rod.nu)
    for node in range(rod.nnodes_r):
        q[rod.nodalDOF_r[node]] = iv(rng)
        u[rod.nodalDOF_r[node]] = iv(rng)
    for node in range(rod.nnodes_p):
        q[rod.nodalDOF_p[node]] = quats[rng.randrange(len(quats))]
        u[rod.nodalDOF_p_u[node]] = iv(rng, -2, 2)
    return q, u


def where_is(rod, k, kind):
    """(node, comp) of the element coordinate k of q_e (kind 'q') or u_e (kind 'u'); comp 1..3 centreline, 4.. orientation"""
    for node in range(rod.nnodes_element_r):
        idx = list(rod.nodalDOF_element_r[node])
        if k in idx:
            return node + 1, idx.index(k) + 1
    arr = rod.nodalDOF_element_p if kind == "q" else rod.nodalDOF_element_p_u
    for node in range(rod.nnodes_element_p):
        idx = list(arr[node])
        if k in idx:
            return node + 1, 3 + idx.index(k) + 1
    raise tlc.MachineryError(f"element coordinate {k} not found")


def section_records(ctx, rod, interp, rng, quats, q, u, xi, Br, records, wheres, where):
    el = rod.element_number(xi)
    qe = q[rod.elDOF[el]].copy(); ue = u[rod.elDOF_u[el]].copy()
    nn = rod.nnodes_element_r
    nq, nu = rod.nq_element, rod.nu_element
    N, Nxi = rod.basis_functions_r(xi)
    N = np.asarray(N, dtype=float).ravel(); Nxi = np.asarray(Nxi, dtype=float).ravel()
    P = [qe[rod.nodalDOF_element_p[n]] for n in range(nn)]
    if interp == "quat":
        Pc = sum(N[n] * P[n] for n in range(nn))
        if Pc @ Pc < 0.2:
            return 0
    base = dict(kind="X", interp=interp, N=fv(N), Nxi=fv(Nxi), r=[fv(qe[rod.nodalDOF_element_r[n]]) for n in range(nn)], P=[fv(p) for p in P],
                v=[fv(ue[rod.nodalDOF_element_r[n]]) for n in range(nn)], om=[fv(ue[rod.nodalDOF_element_p_u[n]]) for n in range(nn)], Br=fv(Br))
    t = 0.0
    ev = rod._eval(qe.copy(), xi, N, Nxi)
    dev = rod._deval(qe.copy(), xi, N, Nxi)
    vals = dict(r=ev[0], A=np.asarray(ev[1]).ravel(), Gam=ev[2], Kap=ev[3], rOP=rod.r_OP(t, qe.copy(), xi, Br), vP=rod.v_P(t, qe.copy(), ue.copy(), xi, Br),
                BOm=rod.B_Omega(t, qe.copy(), ue.copy(), xi))
    # _deval must report the same values as _eval
    for a, b, nm in zip(ev, dev[:4], ("r_OP", "A_IB", "B_Gamma_bar", "B_Kappa_bar")):
        if not np.array_equal(np.asarray(a), np.asarray(b)):
            ctx.violation(f"{where['rod']}:_deval:{nm}", f"_deval and _eval report different {nm} at {where} xi={xi}", dict(where, xi=xi))
    A_chk = np.asarray(rod.A_IB(t, qe.copy(), xi))
    if not np.allclose(A_chk, np.asarray(ev[1]), rtol=0, atol=1e-14):
        ctx.violation(f"{where['rod']}:A_IB", f"A_IB differs from the orientation of _eval at {where} xi={xi}", dict(where, xi=xi))
    r_q = np.asarray(dev[4]).reshape(3, nq); A_qe = np.asarray(dev[5]).reshape(3, 3, nq)
    G_q = np.asarray(dev[6]).reshape(3, nq); K_q = np.asarray(dev[7]).reshape(3, nq)
    rOP_q = np.asarray(rod.r_OP_q(t, qe.copy(), xi, Br)).reshape(3, nq)
    vP_q = np.asarray(rod.v_P_q(t, qe.copy(), ue.copy(), xi, Br)).reshape(3, nq)
    A_q = np.asarray(rod.A_IB_q(t, qe.copy(), xi)).reshape(3, 3, nq)
    BOm_q = np.asarray(rod.B_Omega_q(t, qe.copy(), ue.copy(), xi)).reshape(3, nq)
    JP = np.asarray(rod.J_P(t, qe.copy(), xi, Br)).reshape(3, nu)
    JP_q = np.asarray(rod.J_P_q(t, qe.copy(), xi, Br)).reshape(3, nu, nq)
    BJR = np.asarray(rod.B_J_R(t, qe.copy(), xi)).reshape(3, nu)
    ucol = {}
    for j in range(nu):
        ucol[where_is(rod, j, "u")] = j
    order = [ucol[(n, c)] for n in range(1, nn + 1) for c in range(1, 7)]
    n0 = len(records)

    def emit(rec, outs, label):
        has = []
        off = []
        for name, val in outs.items():
            if name in ("dJP", "JP"):
                rec["o_" + name] = [fv(col) for col in val]
                rs = [resid(col) for col in val]
                rs = [x for x in rs if x is not None]
                if rs:
                    off.append((name, rs[0]))
            else:
                rec["o_" + name] = fv(val)
                rs = resid(val)
                if rs is not None:
                    off.append((name, rs))
            has.append(name)
        rec["has"] = has
        rec["id"] = len(records) + 1
        records.append(rec)
        wheres[rec["id"]] = dict(where, xi=xi, element=int(el), direction=label)
        if off:
            wheres[rec["id"]]["_off_lattice"] = off
    # q directions (every coordinate in the thorough tier, a sample otherwise)
    ks = list(range(nq))
    if not ctx.thorough:
        ks = sorted(rng.sample(ks, min(len(ks), 7)))
    kjp = set(ks) if ctx.thorough else set(rng.sample(ks, 2))     # J_P_q is the expensive clause (one dual evaluation per column of J_P)
    for k in ks:
        node, comp = where_is(rod, k, "q")
        rec = dict(base, dk="q", dnode=node, dcomp=comp)
        outs = dict(vals)
        outs.update(dr=r_q[:, k], dA=A_qe[:, :, k].ravel(), dAq=A_q[:, :, k].ravel(), dGam=G_q[:, k], dKap=K_q[:, k], drOP=rOP_q[:, k], dvP=vP_q[:, k],
                    dBOm=BOm_q[:, k])
        if k in kjp:
            outs["dJP"] = [JP_q[:, j, k] for j in order]
        emit(rec, outs, f"q_e[{k}] = node {node} comp {comp}")
    js = list(range(nu))
    if not ctx.thorough:
        js = sorted(rng.sample(js, min(len(js), 5)))
    for i, j in enumerate(js):
        node, comp = where_is(rod, j, "u")
        rec = dict(base, dk="u", dnode=node, dcomp=comp)
        outs = dict(vP=vals["vP"], BOm=vals["BOm"], dvP=JP[:, j], dBOm=BJR[:, j])
        if i == 0:
            outs["JP"] = [JP[:, jj] for jj in order]
        emit(rec, outs, f"u_e[{j}] = node {node} comp {comp}")
    return len(records) - n0


# TLC's integers are 32 bit and the weak form multiplies three normalised quantities: for the quadratic elements the substituted
# abscissae are element nodes (the interpolated quaternion is then a nodal one; N' still mixes all nodes); the linear elements keep
# their genuine one-point rule (midpoint, N = (1/2, 1/2))
RATIONAL_POINTS = {2: ([0.0, 0.5], [0.5, 1.0]), 3: ([0.0, 0.5, 1.0], [0.0, 0.5, 1.0])}


def rationalise_quadrature(rod, mixed):
    """The Gauss rules with more than one point have irrational abscissae.  Points and weights are data of the rod: the abscissae are
    replaced by rational ones (weights kept), the shape-function tables and the reference strains are recomputed with the rod's own
    routines.  The one-point rule (midpoint) is left as it is."""
    nqp = rod.nquadrature
    if nqp == 1:
        return False
    if nqp not in RATIONAL_POINTS:
        raise tlc.MachineryError(f"no rational substitute for a {nqp}-point rule")
    for el in range(rod.nelement):
        a, b = rod.element_interval(el)
        for i, s_ in enumerate(RATIONAL_POINTS[nqp][el % 2]):
            xi = float(a + (b - a) * s_)
            rod.qp[el, i] = xi
            N, N_xi = rod.basis_functions_r(xi, el)
            rod.N_r[el, i] = np.asarray(N).ravel(); rod.N_r_xi[el, i] = np.asarray(N_xi).ravel()
            N, N_xi = rod.basis_functions_p(xi, el)
            rod.N_p[el, i] = np.asarray(N).ravel(); rod.N_p_xi[el, i] = np.asarray(N_xi).ravel()
            if mixed:
                rod.N_la_c[el, i] = np.asarray(rod.basis_functions_la_c(xi, el)).ravel()[: rod.N_la_c.shape[2]]
    rod._eval_cache.clear(); rod._deval_cache.clear()
    rod.set_reference_strains(rod.Q)
    if mixed:
        rod._c_la_c_coo()
    return True


def weak_records(ctx, rod, interp, mixed, rng, q, records, wheres, where, value_only=False, la_c=None, out=None):
    """internal forces (displacement based) / W_c la_c and compliance residual (mixed) of every element and their q_e-Jacobians"""
    nn = rod.nnodes_element_r
    nq, nu = rod.nq_element, rod.nu_element
    n0 = len(records)
    Ei = np.diag(np.asarray(rod.material_model.C_n)); Fi = np.diag(np.asarray(rod.material_model.C_m))
    ucol = {}
    for j in range(nu):
        ucol[where_is(rod, j, "u")] = j
    order = [ucol[(n, c)] for n in range(1, nn + 1) for c in range(1, 7)]
    for el in range(rod.nelement):
        qe = q[rod.elDOF[el]].copy()
        P = [qe[rod.nodalDOF_element_p[n]] for n in range(nn)]
        ok = True
        qps = []
        if mixed:
            nla = rod.nnodes_element_la_c
            la_ce = np.array([float(rng.randint(-2, 3)) for _ in range(rod.nla_c_element)]) if la_c is None else np.asarray(la_c[rod.elDOF_la_c[el]], dtype=float)
        for i in range(rod.nquadrature):
            N = np.asarray(rod.N_r[el, i], dtype=float)
            if interp == "quat":
                Pc = sum(N[n] * P[n] for n in range(nn))
                if Pc @ Pc < 0.2:
                    ok = False
            g = dict(N=fv(N), Nxi=fv(rod.N_r_xi[el, i]), Np=fv(rod.N_p[el, i]), Npxi=fv(rod.N_p_xi[el, i]), w=fr(rod.qw[el, i]), J=fr(rod.J[el, i]),
                     Gam0=fv(rod.B_Gamma0[el, i]), Kap0=fv(rod.B_Kappa0[el, i]), n=fv(np.zeros(3)), m=fv(np.zeros(3)), Nla=[[1, 1]])
            if mixed:
                Nla = np.asarray(rod.N_la_c[el, i], dtype=float).ravel()
                lac = sum(Nla[n] * la_ce[rod.nodalDOF_element_la_c[n]] for n in range(nla))
                # the independent stress fields carry the impressed components only (the others are constraint forces)
                Bn = np.zeros(3); Bm = np.zeros(3)
                Bn[rod.mixed_n] = lac[: rod.nmixed_n]; Bm[rod.mixed_m] = lac[rod.nmixed_n:]
                g.update(n=fv(Bn), m=fv(Bm), Nla=fv(Nla))
            qps.append(g)
        if not ok:
            continue
        base = dict(kind="W", interp=interp, form="mixed" if mixed else "db", Ei=fv(Ei), Fi=fv(Fi), N=qps[0]["N"], Nxi=qps[0]["Nxi"], qps=qps,
                    r=[fv(qe[rod.nodalDOF_element_r[n]]) for n in range(nn)], P=[fv(p) for p in P],
                    v=[fv(np.zeros(3))] * nn, om=[fv(np.zeros(3))] * nn, Br=fv(np.zeros(3)))
        if mixed:
            full = rod.nmixed == 6
            f = np.asarray(rod.W_c_el(qe.copy(), el)) @ la_ce
            f_q = np.asarray(rod.Wla_c_el_qe(qe.copy(), la_ce.copy(), el)).reshape(nu, nq)
            c = np.asarray(rod.c_el(qe.copy(), la_ce.copy(), el)).ravel()
            c_q = np.asarray(rod.c_el_qe(qe.copy(), la_ce.copy(), el)).reshape(len(c), nq)
            corder = [int(rod.nodalDOF_element_la_c[n][k]) for n in range(nla) for k in range(6)] if full else []
        else:
            f = np.asarray(rod.f_int_el(qe.copy(), el)).ravel()
            f_q = np.asarray(rod.f_int_el_qe(qe.copy(), el)).reshape(nu, nq)
        ks = list(range(nq))
        if not ctx.thorough:
            ks = sorted(rng.sample(ks, min(len(ks), 6)))
        if value_only:
            ks = [None]
        if out is not None:
            out.append(dict(el=el, f=f[order].copy(), c=c[corder].copy() if mixed and full else None))
        for k in ks:
            node, comp = where_is(rod, k, "q") if k is not None else (0, 0)
            rec = dict(base, dk="q" if k is not None else "none", dnode=node, dcomp=comp)
            outs = dict(f=f[order])
            if k is not None:
                outs["df"] = f_q[order, k]
            if mixed and full:
                outs["c"] = c[corder]
                if k is not None:
                    outs["dc"] = c_q[corder, k]
            off = []
            for name, val in outs.items():
                rec["o_" + name] = fv(val)
                rs = resid(val)
                if rs is not None:
                    off.append((name, rs))
            rec["has"] = list(outs)
            rec["id"] = len(records) + 1
            records.append(rec)
            wheres[rec["id"]] = dict(where, element=int(el), direction=f"q_e[{k}] = node {node} comp {comp}" if k is not None else "(values)", quadrature_points=[float(x) for x in rod.qp[el]],
                                     **({"la_ce": la_ce.tolist()} if mixed else {}))
            if off:
                wheres[rec["id"]]["_off_lattice"] = off
    return len(records) - n0


def node_records(ctx, rod, rng, q, u, records, wheres, where):
    t = 0.0
    qd = np.asarray(rod.q_dot(t, q.copy(), u.copy()))
    qd_q = rod.q_dot_q(t, q.copy(), u.copy()); qd_q = np.asarray(qd_q.toarray() if hasattr(qd_q, "toarray") else qd_q)
    qd_u = rod.q_dot_u(t, q.copy()); qd_u = np.asarray(qd_u.toarray() if hasattr(qd_u, "toarray") else qd_u)
    gS = np.asarray(rod.g_S(t, q.copy())).ravel()
    gS_q = rod.g_S_q(t, q.copy()); gS_q = np.asarray(gS_q.toarray() if hasattr(gS_q, "toarray") else gS_q)
    n0 = len(records)
    nodes = list(range(rod.nnodes_p))
    if not ctx.thorough:
        nodes = rng.sample(nodes, min(2, len(nodes)))
    for node in nodes:
        ip = rod.nodalDOF_p[node]; iu = rod.nodalDOF_p_u[node]
        base = dict(kind="K", P=fv(q[ip]), om=fv(u[iu]))
        # which row of g_S belongs to this node: the one whose gradient lives on the node's quaternion
        rows = [r for r in range(gS_q.shape[0]) if np.any(gS_q[r, ip] != 0) or np.allclose(q[ip], 0)]
        row = rows[0] if len(rows) == 1 else node
        for c in range(4):
            rec = dict(base, dk="q", dcomp=c + 1, o_qd=fv(qd[ip]), o_dqd=fv(qd_q[np.ix_(ip, [ip[c]])].ravel()), o_gS=fr(gS[row]), o_dgS=fr(gS_q[row, ip[c]]),
                       has=["qd", "dqd", "gS", "dgS"], id=len(records) + 1)
            records.append(rec); wheres[rec["id"]] = dict(where, node=int(node), direction=f"P[{c}]")
        for c in range(3):
            rec = dict(base, dk="u", dcomp=c + 1, o_qd=fv(qd[ip]), o_dqd=fv(qd_u[np.ix_(ip, [iu[c]])].ravel()), has=["qd", "dqd"], id=len(records) + 1)
            records.append(rec); wheres[rec["id"]] = dict(where, node=int(node), direction=f"omega[{c}]")
    # float supplements: q_dot is linear in u with matrix q_dot_u; centreline rows
    B = np.zeros_like(qd_u)
    for j in range(rod.nu):
        e = np.zeros(rod.nu); e[j] = 1.0
        B[:, j] = rod.q_dot(t, q.copy(), e)
    if not (np.max(np.abs(B - qd_u)) <= 1e-12 * (1 + np.max(np.abs(B)))):
        jbad = int(np.argmax(np.max(np.abs(B - qd_u), axis=0)))
        ctx.violation(f"{where['rod']}:q_dot_u:matrix", f"q_dot_u is not the matrix of the linear map u -> q_dot(q, u) (column {jbad}, max diff "
                      f"{np.max(np.abs(B - qd_u)):.3e}) at {where}", where)
    if not (np.max(np.abs(B @ u - qd)) <= 1e-11 * (1 + np.max(np.abs(qd)))):
        ctx.violation(f"{where['rod']}:q_dot:linear", f"q_dot(q, u) is not linear in u at {where}", where)
    return len(records) - n0


def inertia_checks(ctx, rod, q, u, where):
    t = 0.0
    M = rod.M(t, q.copy()); M = np.asarray(M.toarray() if hasattr(M, "toarray") else M)
    key = f"{where['rod']}:inertia"
    if not (np.max(np.abs(M - M.T)) <= 1e-12 * (1 + np.max(np.abs(M)))):
        ctx.violation(key + ":symmetry", f"the mass matrix is not symmetric at {where}", where)
        return
    ev = np.linalg.eigvalsh(0.5 * (M + M.T))
    if not (ev.min() >= -1e-10 * max(1.0, ev.max())):
        ctx.violation(key + ":psd", f"the mass matrix has the eigenvalue {ev.min()} at {where}", where)
    E = rod.E_kin(t, q.copy(), u.copy())
    if not (abs(E - 0.5 * u @ M @ u) <= 1e-10 * (1 + abs(E))):
        ctx.violation(key + ":E_kin", f"E_kin = {E} but u^T M u / 2 = {0.5 * u @ M @ u} at {where}", where)
    pw = 0.0
    for el in range(rod.nelement):
        qe = q[rod.elDOF[el]]; ue = u[rod.elDOF_u[el]]
        pw += float(np.asarray(rod.f_gyr_el(t, qe.copy(), ue.copy(), el)) @ ue)
    scale = 1 + float(np.max(np.abs(u))) ** 3
    if not (abs(pw) <= 1e-10 * scale):
        ctx.violation(key + ":gyroscopic-power", f"the gyroscopic forces deliver the power {pw} at {where}", where)


def make_graded_rod(interp, mixed, rng, nel=3, curved=False):
    """a rod whose elements have different reference lengths (and, if curved, a spiral reference): the element matrices differ"""
    import math
    from cardillo import System
    from cardillo.rods import RectangularCrossSection, Simo1986, CrossSectionInertias
    from cardillo.rods.cosseratRod import make_CosseratRod
    from cardillo.solver import SolverOptions

    Rod = make_CosseratRod(interpolation=interp, mixed=mixed)
    cs = RectangularCrossSection(0.1, 0.2)
    mat = Simo1986(np.array([5.0, 1.0, 2.0]), np.array([0.5, 2.0, 3.0]))
    if curved:
        r = lambda xi: (0.5 + 2 * xi) * np.array([math.cos(2 * xi), math.sin(2 * xi), 0.0])
        A = lambda xi: np.array([[math.cos(2 * xi + math.pi / 2), -math.sin(2 * xi + math.pi / 2), 0.0], [math.sin(2 * xi + math.pi / 2), math.cos(2 * xi + math.pi / 2), 0.0], [0, 0, 1.0]])
    else:
        r = lambda xi: np.array([2.0 * xi * xi, 0.0, 0.0])
        A = lambda xi: np.eye(3)
    with warnings.catch_warnings():
        warnings.simplefilter("ignore")
        Q = Rod.pose_configuration(nel, r, A)
        rod = Rod(cs, mat, nel, Q=Q, q0=Q.copy(), cross_section_inertias=CrossSectionInertias(7.0, cs), name=f"rod{rng.randrange(10**9)}")
        system = System()
        system.add(rod)
        system.assemble(options=SolverOptions(compute_consistent_initial_conditions=False))
    return rod


def nodal_history(ctx, rng, quats):
    """nodal interpolation after element-wise post-processing: a fresh rod of every family is first asked element by element, with the element
    number given, at both ends of every element (surface points, strains of displacement-based rods) -- at an interior knot the left element
    sees its last node, the right one its first --, then the cross-sections at all nodal parameters must have the nodal position, orientation
    and velocity; then the elements are asked again and must return their own end nodes."""
    from cardillo.math import Exp_SO3_quat
    n = 0
    for interp_name, degree in (("Quaternion", 2), ("Quaternion", 1), ("R12", 2), ("SE3", 1)):
        for mixed in (False, True):
            name = f"{interp_name}[p={degree},mixed={mixed}]"
            try:
                rod = make_rod(interp_name, mixed, degree, rng)
                q, u = rod_state(rod, rng, quats)
                where = dict(rod=name, history="element-wise post-processing with explicit element numbers, then nodal parameters", q=q.tolist(), u=u.tolist())
                p_ = rod.polynomial_degree_r
                la_c = np.zeros(getattr(rod, "nla_c", 0))
                ends = []
                for el in range(rod.nelement):
                    a, b = (float(x) for x in rod.element_interval(el))
                    for xi, node in ((a, el * p_), (b, (el + 1) * p_)):
                        ends.append((el, xi, node))
                        if not mixed:
                            rod.eval_strains(0.0, q, la_c, None, xi, el=el)
                        rod.basis_functions_r(xi, el)          # what the export helpers (surface, surface_normal) evaluate first
                Br = np.array([1.0, -2.0, 0.5])
                worst, what = 0.0, ""
                for node in range(rod.nnodes_r):
                    el, a_ = divmod(node, p_)
                    if el == rod.nelement:
                        el, a_ = rod.nelement - 1, p_
                    x0, x1 = (float(x) for x in rod.element_interval(el))
                    xi = x0 if a_ == 0 else (x1 if a_ == p_ else x0 + a_ * (x1 - x0) / p_)
                    qe = q[rod.local_qDOF_P(xi)]; ue = u[rod.local_uDOF_P(xi)]
                    r_n = q[rod.nodalDOF_r[node]]; A_n = Exp_SO3_quat(q[rod.nodalDOF_p[node]], normalize=True)
                    v_n = u[rod.nodalDOF_r_u[node]]; O_n = u[rod.nodalDOF_p_u[node]]
                    v_c = v_n + A_n @ np.cross(O_n, Br)
                    for nm, d in (("r_OP", np.abs(np.asarray(rod.r_OP(0.0, qe, xi)) - r_n).max()), ("A_IB", np.abs(np.asarray(rod.A_IB(0.0, qe, xi)) - A_n).max()),
                                  ("v_P", np.abs(np.asarray(rod.v_P(0.0, qe, ue, xi, Br)) - v_c).max()),
                                  ("J_P", np.abs(np.asarray(rod.J_P(0.0, qe, xi, Br)).reshape(3, -1) @ ue - v_c).max())):
                        n += 1
                        if not (d <= 1e-10) and not (d <= worst):
                            worst, what = float(d), f"{nm} at the nodal parameter xi = {xi} of node {node} differs from the nodal value by {d:.3e}"
                if what:
                    ctx.violation(f"{name}:nodal-interpolation:after-elementwise-postprocessing", f"{what} at {where}", where)
                    continue
                # and the other way round: the elements asked again see their own end nodes
                for el, xi, node in ends:
                    N = np.asarray(rod.basis_functions_r(xi, el)[0]).ravel()
                    expN = np.zeros(p_ + 1); expN[node - el * p_] = 1.0
                    n += 1
                    if N.shape != expN.shape or not (np.abs(N - expN).max() <= 1e-12):
                        ctx.violation(f"{name}:basis_functions_r:element-end", f"basis_functions_r({xi}, el={el}) = {N.tolist()} does not select node {node} "
                                      f"of the element at {where}", where)
                        break
            except Exception as ex:
                ctx.violation(f"{name}:nodal-history:raises:{type(ex).__name__}", f"{type(ex).__name__}: {ex}", {"rod": name})
    return n


def jacobian_history(ctx, rng, quats):
    """the assembled Jacobians of the internal forces (h_q, displacement-based rods, both material laws) and of the compliance equations (c_q, mixed rods)
    against central differences -- at a state that differs from the state evaluated just before in the nodal POSITIONS only (same nodal quaternions):
    what is remembered from the earlier evaluation must not enter"""
    from cardillo import System
    from cardillo.rods import RectangularCrossSection, Simo1986, Harsch2021, CrossSectionInertias
    from cardillo.rods.cosseratRod import make_CosseratRod
    from cardillo.solver import SolverOptions

    n = 0
    cs = RectangularCrossSection(0.1, 0.2)
    E, F = np.array([5.0, 1.0, 2.0]), np.array([0.5, 2.0, 1.5])
    dense = lambda M: np.asarray(M.toarray() if hasattr(M, "toarray") else M, dtype=float)
    for interp, mixed, degree, mat in (("Quaternion", False, 2, Simo1986(E, F)), ("Quaternion", False, 2, Harsch2021(E, F)), ("R12", False, 2, Harsch2021(E, F)),
                                       ("Quaternion", False, 1, Harsch2021(E, F)), ("Quaternion", True, 2, Simo1986(E, F)), ("R12", True, 1, Simo1986(E, F))):
        name = f"{interp}[p={degree},mixed={mixed},{type(mat).__name__}]"
        try:
            with warnings.catch_warnings():
                warnings.simplefilter("ignore")
                Rod = make_CosseratRod(interpolation=interp, mixed=mixed, polynomial_degree=degree)
                nel = 2
                Q = Rod.straight_configuration(nel, 1.5, r_OP0=np.array([0.2, -0.1, 0.3]))
                rod = Rod(cs, mat, nel, Q=Q, q0=Q.copy(), cross_section_inertias=CrossSectionInertias(1.0, cs), name=f"jh{rng.randrange(10**9)}")
                system = System(); system.add(rod)
                system.assemble(options=SolverOptions(compute_consistent_initial_conditions=False))
            q1 = np.asarray(Q, dtype=float).copy()
            for node in range(rod.nnodes_r):
                q1[rod.nodalDOF_r[node]] += 0.15 * np.array([rng.uniform(-1, 1) for _ in range(3)])
            for node in range(rod.nnodes_p):
                P = q1[rod.nodalDOF_p[node]] + 0.2 * np.array([rng.uniform(-1, 1) for _ in range(4)])
                q1[rod.nodalDOF_p[node]] = P * rng.choice([1.0, 1.2, 0.8])
            q2 = q1.copy()
            for node in range(rod.nnodes_r):
                q2[rod.nodalDOF_r[node]] += 0.1 * np.array([rng.uniform(-1, 1) for _ in range(3)])      # positions only
            u0 = np.zeros(rod.nu)
            if mixed:
                la = np.array([rng.uniform(-1, 1) for _ in range(rod.nla_c)])
                fun = lambda q: np.asarray(rod.c(0.0, q.copy(), u0.copy(), la.copy()), dtype=float)
                jac = lambda q: dense(rod.c_q(0.0, q.copy(), u0.copy(), la.copy()))
                what = "c_q"
            else:
                fun = lambda q: np.asarray(rod.h(0.0, q.copy(), u0.copy()), dtype=float)
                jac = lambda q: dense(rod.h_q(0.0, q.copy(), u0.copy()))
                what = "h_q"
            jac(q1)                                   # the evaluation before
            J = jac(q2)
            num = np.zeros_like(J)
            hstep = 1e-6
            for k in range(len(q2)):
                e = np.zeros(len(q2)); e[k] = hstep
                num[:, k] = (fun(q2 + e) - fun(q2 - e)) / (2 * hstep)
            n += 1
            err = float(np.max(np.abs(J - num)))
            if not (err <= 1e-5 * (1 + np.max(np.abs(num)))):
                ctx.violation(f"{name}:{what}:central-difference", f"{what} of the rod differs from central differences by {err:.2e} (scale {np.max(np.abs(num)):.2e}) at a state that differs from the "
                              f"previously evaluated one in the nodal positions only", dict(rod=name, q_before=q1.tolist(), q=q2.tolist()))
        except Exception as ex:
            ctx.violation(f"{name}:jacobian-history:raises:{type(ex).__name__}", f"{type(ex).__name__}: {ex}", {"rod": name})
    return n


def se3_supplement(ctx, rng):
    """SE(3) interpolation (transcendental, outside the rational core): the cross-section Jacobians against central differences"""
    n = 0
    for mixed in (False, True):
        rod = make_rod("SE3", mixed, 1, rng)
        name = f"SE3[p=1,mixed={mixed}]"
        for _ in range(2):
            q = np.asarray(rod.Q, dtype=float).copy()
            for node in range(rod.nnodes_r):
                q[rod.nodalDOF_r[node]] += np.array([rng.uniform(-0.3, 0.3) for _ in range(3)])
            for node in range(rod.nnodes_p):
                P = q[rod.nodalDOF_p[node]] + np.array([rng.uniform(-0.25, 0.25) for _ in range(4)])
                q[rod.nodalDOF_p[node]] = P * rng.choice([1.0, 1.4, 0.8])
            u = np.array([rng.uniform(-1, 1) for _ in range(rod.nu)])
            for xi in (0.0, 0.3, 0.5, 0.85, 1.0):
                el = rod.element_number(xi)
                qe = q[rod.elDOF[el]].copy(); ue = u[rod.elDOF_u[el]].copy()
                Br = np.array([rng.uniform(-1, 1) for _ in range(3)])
                N, Nxi = rod.basis_functions_r(xi)
                where = dict(rod=name, xi=xi, qe=qe.tolist(), ue=ue.tolist(), B_r_CP=Br.tolist())
                funs = {"r_OP_q": (lambda x: np.asarray(rod.r_OP(0.0, x, xi, Br)), lambda: np.asarray(rod.r_OP_q(0.0, qe.copy(), xi, Br))),
                        "A_IB_q": (lambda x: np.asarray(rod.A_IB(0.0, x, xi)), lambda: np.asarray(rod.A_IB_q(0.0, qe.copy(), xi))),
                        "v_P_q": (lambda x: np.asarray(rod.v_P(0.0, x, ue, xi, Br)), lambda: np.asarray(rod.v_P_q(0.0, qe.copy(), ue.copy(), xi, Br))),
                        "J_P_q": (lambda x: np.asarray(rod.J_P(0.0, x, xi, Br)), lambda: np.asarray(rod.J_P_q(0.0, qe.copy(), xi, Br))),
                        "_deval:B_Gamma_bar_qe": (lambda x: np.asarray(rod._eval(x, xi, N, Nxi)[2]), lambda: np.asarray(rod._deval(qe.copy(), xi, N, Nxi)[6])),
                        "_deval:B_Kappa_bar_qe": (lambda x: np.asarray(rod._eval(x, xi, N, Nxi)[3]), lambda: np.asarray(rod._deval(qe.copy(), xi, N, Nxi)[7]))}
                for nm, (f, jac) in funs.items():
                    try:
                        J = jac()
                        f0 = f(qe.copy())
                        num = np.zeros(f0.shape + (len(qe),))
                        h = 1e-6
                        for k in range(len(qe)):
                            e = np.zeros(len(qe)); e[k] = h
                            num[..., k] = (f(qe + e) - f(qe - e)) / (2 * h)
                        n += 1
                        if not (np.max(np.abs(J.reshape(num.shape) - num)) <= 1e-6 * (1 + np.max(np.abs(num)))):
                            ctx.violation(f"{name}:{nm}:central-difference", f"{nm} differs from central differences of its function by {np.max(np.abs(J.reshape(num.shape) - num)):.2e} at {where}", where)
                    except Exception as ex:
                        ctx.violation(f"{name}:{nm}:raises:{type(ex).__name__}", f"{type(ex).__name__}: {ex} at {where}", where)
    return n


def run(ctx):
    ctx.level = "model_checking"
    rng = ctx.rng
    r_id = check_only(ctx, "RodKinematics", {"Mode": '"identities"', "Impl": '"intended"', "Thin": "FALSE" if ctx.thorough else "TRUE"}, invariants=("IdentitiesOK",), tag="rk_identities")
    cfg = os.path.join(ctx.scratch, "rk_as_found.cfg")
    with open(cfg, "w") as f:
        f.write('SPECIFICATION Spec\nCONSTANTS\n  Mode = "identities"\n  Impl = "as_found"\n  Thin = TRUE\nINVARIANT IdentitiesOK\n')
    r_af = tlc.run_tlc("RodKinematics", cfg, scratch=ctx.scratch, timeout=1200)
    if r_af.violated != "IdentitiesOK":
        raise tlc.MachineryError("the as-found q_dot_u (normalised quaternion) is not rejected by the identities of RodKinematics")
    import time as _t
    t_id = _t.time() - ctx.t0
    quats = [p for p in quat_pool() if p @ p <= 9]
    records, wheres = [], {}
    counts = {}
    variants = [("Quaternion", "quat", False, 1), ("Quaternion", "quat", True, 2), ("R12", "r12", False, 1), ("R12", "r12", True, 2),
                ("Quaternion", "quat", False, 2), ("R12", "r12", False, 2), ("SE3", None, False, 1),
                # mixed rods with internal constraints: the independent stress fields carry the remaining (impressed) components only
                ("Quaternion", "quat", True, 2, [0]), ("R12", "r12", True, 1, [0, 2]), ("Quaternion", "quat", True, 1, [0, 4, 5]), ("R12", "r12", True, 2, [1, 3])]
    nstates = 6 if ctx.thorough else 2
    nxi = 4 if ctx.thorough else 2
    from .c05 import oct_quats
    small_quats = oct_quats()
    substituted = []
    for var in variants:
        (interp_name, interp, mixed, degree) = var[:4]
        constraints = var[4] if len(var) > 4 else None
        name = f"{interp_name}[p={degree},mixed={mixed}" + (f",constraints={constraints}]" if constraints else "]")
        try:
            rod = make_rod(interp_name, mixed, degree, rng, constraints=constraints)
            rod_w = None
            if interp is not None:
                rod_w = make_rod(interp_name, mixed, degree, rng, constraints=constraints)      # a second rod of the family carries the weak-form records
                if rationalise_quadrature(rod_w, mixed):
                    substituted.append(name)
        except tlc.MachineryError:
            raise
        except Exception as ex:
            ctx.violation(f"{name}:build:{type(ex).__name__}", f"building the rod {name} raised {type(ex).__name__}: {ex}", {"rod": name})
            continue
        for si in range(nstates):
            q, u = rod_state(rod, rng, quats)
            where = dict(rod=name, q=q.tolist(), u=u.tolist())
            try:
                n = node_records(ctx, rod, rng, q, u, records, wheres, where)
                counts[name + ":nodes"] = counts.get(name + ":nodes", 0) + n
                inertia_checks(ctx, rod, q, u, where)
                if interp is None:
                    continue
                qw_, _ = rod_state(rod_w, rng, small_quats)        # TLC's integers are 32 bit: the weak form squares the denominators once more
                n = weak_records(ctx, rod_w, interp, mixed, rng, qw_, records, wheres, dict(rod=name, q=qw_.tolist()))
                counts[name + ":weak-form"] = counts.get(name + ":weak-form", 0) + n
                if constraints:
                    continue        # the cross-section kinematics of these rods are those of the unconstrained ones
                xis = [XIS[0], XIS[4]][: 1 + si % 2] + rng.sample(XIS[1:4] + XIS[5:], nxi)
                for xi in xis:
                    Br = iv(rng, -1, 2)
                    w2 = dict(where, B_r_CP=Br.tolist())
                    n = section_records(ctx, rod, interp, rng, quats, q, u, float(xi), Br, records, wheres, w2)
                    counts[name + ":sections"] = counts.get(name + ":sections", 0) + n
            except NotRational as ex:
                ctx.violation(f"{name}:not-rational", f"{ex} at {where}", where)
            except tlc.MachineryError:
                raise
            except Exception as ex:
                ctx.violation(f"{name}:raises:{type(ex).__name__}", f"{type(ex).__name__}: {ex} at {where}", where)
    t_rec = _t.time() - ctx.t0
    # inertia terms on rods whose elements differ (graded and curved references), all families; SE(3) cross-sections in floats
    ngraded = 0
    for interp_name in ("Quaternion", "R12", "SE3"):
        for mixed in (False, True):
            for curved in (False, True):
                name = f"{interp_name}[mixed={mixed},graded{',curved' if curved else ''}]"
                try:
                    rodg = make_graded_rod(interp_name, mixed, rng, curved=curved)
                    qg, ug = rod_state(rodg, rng, quats)
                    inertia_checks(ctx, rodg, qg, ug, dict(rod=name, q=qg.tolist(), u=ug.tolist()))
                    ngraded += 1
                except Exception as ex:
                    ctx.violation(f"{name}:raises:{type(ex).__name__}", f"{type(ex).__name__}: {ex}", {"rod": name})
    nse3 = se3_supplement(ctx, rng)
    counts["nodal interpolation after element-wise post-processing"] = nodal_history(ctx, rng, quats)
    counts["assembled Jacobians after an evaluation with the same quaternions"] = jacobian_history(ctx, rng, quats)
    counts["graded rods (inertia)"] = ngraded
    counts["SE3 central differences"] = nse3
    if not records:
        raise tlc.MachineryError("no rod records produced")
    tests = []
    e1 = copy.deepcopy(next(r for r in records if r["kind"] == "X" and "dKap" in r["has"])); e1["id"] = 0; e1["o_dKap"][0][0] += 977; tests.append(e1)
    e2 = copy.deepcopy(next(r for r in records if r["kind"] == "X" and "dJP" in r["has"])); e2["id"] = -1; e2["o_dJP"][-1][0][0] += 977; tests.append(e2)
    e3 = copy.deepcopy(next(r for r in records if r["kind"] == "K" and r["dk"] == "u")); e3["id"] = -2; e3["o_dqd"][1][0] += 977; tests.append(e3)
    e4 = copy.deepcopy(next(r for r in records if r["kind"] == "W" and r["form"] == "db")); e4["id"] = -3; e4["o_df"][-1][0] += 977; tests.append(e4)
    e5 = copy.deepcopy(next(r for r in records if r["kind"] == "W" and r["form"] == "mixed" and "dc" in r["has"])); e5["id"] = -4; e5["o_dc"][0][0] += 977; tests.append(e5)
    bad, rts = batch_validate_parallel(ctx, "RodKinematics", tests + records, {"Mode": '"trace"', "Impl": '"intended"', "Thin": "TRUE"}, "rk_trace")
    for tid in (0, -1, -2, -3, -4):
        if bad.pop(tid, None) is None:
            raise tlc.MachineryError("self-test failed: a corrupted rod record was accepted by the trace specification")
    for rid, w in wheres.items():
        if rid not in bad and w.get("_off_lattice"):
            nm, (x, r_) = w["_off_lattice"][0]
            w2 = {k: v for k, v in w.items() if k != "_off_lattice"}
            ctx.violation(f"{w['rod']}:{nm}:not-rational", f"the reported {nm} contains {x!r}, which is not a rational of the lattice (distance {r_:.2e} to the nearest one "
                          f"with denominator < 2^20; the true value is one) (direction {w.get('direction')}): {w2}", w2)
    seen = {}
    for rid, clause in bad.items():
        w = {k: v for k, v in wheres[rid].items() if k != "_off_lattice"}
        key = f"{w['rod']}:{clause.split(' is ')[0][:60]}"
        seen[key] = seen.get(key, 0) + 1
        if seen[key] > 3:
            continue
        ctx.violation(key, f"{clause} (direction {w.get('direction')}): {w}", w)
    ctx.log(f"[C11] wall: identities {t_id:.0f}s, records {t_rec - t_id:.0f}s, trace validation {_t.time() - ctx.t0 - t_rec:.0f}s")
    ctx.log(f"[C11] identities: {r_id.distinct} lattice cases; {len(records)} records validated by TLC {counts}; {len(bad)} rejected")
    ctx.coverage = {"states": r_id.distinct + sum(r.distinct for r in rts), "transitions": max(r_id.generated + sum(r.generated for r in rts), 1), "traces_validated_against_impl": len(records),
                    "records": counts, "rational_quadrature_substituted_for": substituted, "samples": [{"where": {k: v for k, v in wheres[1].items() if k != "_off_lattice"}, "has": records[0]["has"]}],
                    "rule": "7 rod variants (Quaternion / R12 / SE3 interpolation, displacement-based / mixed, degree 1 / 2, two elements) x rational states with "
                            "non-unit integer nodal quaternions x parameters xi (nodes and in between) x coordinate directions of q_e and u_e; node records "
                            "for every component of the nodal quaternion and angular velocity"}
    ctx.assumptions = ["shape-function values N, N' are taken from the rod's basis_functions_r (mesh layer decided under C13)",
                       "claimed for the rational part only: cross-section kinematics and strain measures at rational xi (Quaternion and R12 interpolation), "
                       "kinematic equation and unit-quaternion condition, weak form at rational quadrature abscissae; the SE(3) interpolation and the internally "
                       "constrained rods are not covered",
                       "the derivative routines treat quadrature abscissae and weights as data: for the quadratic elements rational abscissae (element nodes) are "
                       "written into the rod's tables and the reference strains recomputed with the rod's own set_reference_strains",
                       "floats become rationals by Fraction.limit_denominator(2^20); TLC compares exactly"]


def replay(ctx, path):
    run(ctx)
