"""C22 Nonlinear and fixed-point helpers honour their convergence contract.

Decide: spec/NewtonHelper.tla -- the Newton iteration of fsolve and the plain fixed-point helper as state
        machines over dyadic-exact problem families; TLC checks the contracts (success iff the scaled
        criterion holds at the returned point, warning iff not, iteration budget; a returned fixed point
        meets the given tolerance, else the helper raises) for every problem and rejects the as-found helper.
Bind:   every behaviour of the state graph (one per problem) is replayed into the real helper and
        (success, nit, nfev, warned, x, fun) / (x, niter, raised) compared exactly with the spec's terminal
        state.  The momentum helper and the finite-difference routine are driven over the spec's problem
        spaces and judged by the contract / the exact expected derivative.
"""
from __future__ import annotations

import math
import os
import warnings

import numpy as np

from .. import tlc


def dy(a):
    """dyadic <<m, e>> -> float (exact)"""
    return float(a[0]) * 2.0 ** (-int(a[1]))


RHO = {"1": 1.0, "1/2": 0.5, "2": 2.0, "-1": -1.0}


def _final_states(g):
    out = g.out_edges()
    res = []
    for s in g.init:
        cur = s
        n = 0
        while out.get(cur):
            cur = g.edges[out[cur][0]][1]
            n += 1
            if n > 100:
                raise tlc.MachineryError("behaviour does not terminate")
        res.append(g.nodes[cur])
    return res


def _graph(ctx, algo, impl="intended"):
    cfg = os.path.join(ctx.scratch, f"nh_{algo}_{impl}.cfg")
    with open(cfg, "w") as f:
        f.write(f'SPECIFICATION Spec\nCONSTANTS\n  Algo = "{algo}"\n  Impl = "{impl}"\n'
                "INVARIANT NewtonContract\nINVARIANT FixRaises\nINVARIANT FprimeAccuracy\nPROPERTY FixReturned\n")
    dot = os.path.join(ctx.scratch, f"nh_{algo}_{impl}")
    r = tlc.run_tlc("NewtonHelper", cfg, scratch=ctx.scratch, dump_dot=dot, workers=8, timeout=1200)
    return r, dot


def _newton(ctx, st, rng):
    from scipy.sparse import csc_array
    from scipy.sparse.linalg import splu
    from cardillo.math.fsolve import fsolve
    from cardillo.solver import SolverOptions

    p = st["prob"]
    n = p["n"]
    A = 2.0 ** p["jexp"]
    d = dy(p["d"])
    rho = RHO[p["rho"]]
    xs = np.array([rng.randint(-8, 8) / 8.0 for _ in range(n)])
    signs = np.array([rng.choice([-1.0, 1.0]) for _ in range(n)])
    x0 = xs + d * signs
    fun = lambda x: A * (x - xs)
    J = csc_array(np.eye(n) * (A / rho))
    kw = {}
    nm = False
    if p["jac"] == "callable":
        jac = lambda x: J
    elif p["jac"] == "chord":
        jac = lambda x: J
        kw["inexact"] = True
    elif p["jac"] == "lu":
        jac = splu(J)
    else:
        jac = None
        nm = rng.choice(["2-point", "3-point", "cs"])
    opts = SolverOptions(newton_atol=dy(p["atol"]), newton_rtol=dy(p["rtol"]), newton_max_iter=p["maxit"],
                         numerical_jacobian_method=nm if nm else False, numerical_jacobian_eps=2.0 ** -10)
    rep = {"problem": p, "xs": xs.tolist(), "x0": x0.tolist(), "numerical": nm}
    with warnings.catch_warnings(record=True) as w:
        warnings.simplefilter("always")
        try:
            sol = fsolve(fun, x0.copy(), jac=jac, options=opts, **kw)
        except Exception as ex:
            ctx.violation(f"newton:{p['jac']}:raises", f"fsolve raised {type(ex).__name__}: {ex} on {_pshort(p)}", rep)
            return
    warned = any("fsolve is not converged" in str(x.message) for x in w)
    exp_success = st["status"] == "converged"
    kexp = st["k"]
    xexp = xs + (x0 - xs) * (1.0 - rho) ** kexp
    tol = 0.0 if not nm else 1e-9
    problems = []
    if bool(sol.success) != exp_success:
        problems.append(f"success={sol.success}, spec {exp_success}")
    if warned != st["warned"]:
        problems.append(f"warned={warned}, spec {st['warned']}")
    if sol.nit != kexp:
        problems.append(f"nit={sol.nit}, spec {kexp}")
    if not np.allclose(sol.x, xexp, rtol=tol, atol=tol):
        problems.append(f"x={sol.x.tolist()}, spec {xexp.tolist()}")
    if not np.allclose(np.abs(sol.fun), abs(dy(st["r"])), rtol=tol, atol=tol):
        problems.append(f"|fun|={np.abs(sol.fun).tolist()}, spec {abs(dy(st['r']))}")
    if not nm and sol.nfev != kexp + 1:
        problems.append(f"nfev={sol.nfev}, spec {kexp + 1}")
    # the contract itself, evaluated independently at the returned point
    scale = dy(p["atol"]) + np.abs(fun(x0)) * dy(p["rtol"])
    crit = np.linalg.norm(fun(sol.x) / scale) / math.sqrt(n)
    if abs(crit - 1.0) > 1e-9:
        if bool(sol.success) != (crit < 1):
            problems.append(f"success={sol.success} but the scaled criterion at the returned point is {crit:.3e}")
        if (not sol.success) and not warned:
            problems.append("not converged but no warning")
    if problems:
        ctx.violation(f"newton:{p['jac']}:{p['rho']}", "; ".join(problems) + f" on {_pshort(p)}", rep)


def _styled(pure, rng):
    """the same map written in the styles a caller may legitimately use: pure, in-place (mutates and returns
    its argument), partial (mutates its argument, returns a new array) and buffer (returns one persistent output array)"""
    style = rng.choice(["pure", "inplace", "partial", "buffer"])
    if style == "pure":
        f = lambda x: pure(x)
    elif style == "buffer":
        # the map writes into and returns ONE persistent preallocated array (np.dot(..., out=buf) style): successive results share their memory
        buf = {}
        def f(x):
            y = pure(x)
            if "a" not in buf:
                buf["a"] = np.empty_like(np.asarray(y, dtype=float))
            buf["a"][...] = y
            return buf["a"]
    elif style == "inplace":
        def f(x):
            x[:] = pure(x)
            return x
    else:
        def f(x):
            y = pure(x)
            x[:] = y
            return y.copy()
    f.style = style
    return f


def _pshort(p):
    return {k: (v if not isinstance(v, list) else dy(v)) for k, v in p.items()}


def _fixed(ctx, st, rng):
    from cardillo.solver.dual_stormer_verlet import fixed_point_iteration

    p = st["prob"]
    n = p["n"]
    c, d, xs = dy(p["c"]), dy(p["d"]), dy(p["xs"])
    b = xs * (1.0 - c)
    fun = _styled(lambda x: c * x + b, rng)
    x0 = np.full(n, xs + d)
    rep = {"problem": p, "map_style": fun.style}
    raised = False
    try:
        x, niter, err = fixed_point_iteration(fun, x0.copy(), atol=dy(p["atol"]), rtol=dy(p["rtol"]), max_iter=p["maxit"])
    except (ValueError, RuntimeError):
        raised = True
    except Exception as ex:
        ctx.violation("fixedpoint:raises-other", f"fixed_point_iteration raised {type(ex).__name__}: {ex} on {_pshort(p)}", rep)
        return
    exp_raise = st["status"] == "failed"
    # borderline decisions (step within 1e-9 of the scale) are not judged
    if raised != exp_raise:
        ctx.violation("fixedpoint:tolerance" if not raised else "fixedpoint:raises",
                      f"{'raised' if raised else 'returned after %d iterations' % niter}, spec "
                      f"{'raises' if exp_raise else 'returns after %d iterations' % st['k']} on {_pshort(p)}", rep)
        return
    if raised:
        return
    xexp = np.full(n, xs + dy(st["r"]))
    problems = []
    if niter != st["k"]:
        problems.append(f"niter={niter}, spec {st['k']}")
    if not np.array_equal(x, xexp):
        problems.append(f"x={x.tolist()}, spec {xexp.tolist()}")
    # contract at the returned point: the accepted step meets the given tolerance
    xprev = (x - b) / c if c != 0 else None
    if problems:
        ctx.violation("fixedpoint:tolerance", "; ".join(problems) + f" on {_pshort(p)}", rep)


def _momentum(ctx, st, rng, stats):
    from cardillo.solver.dual_stormer_verlet import fixed_point_iteration_with_momentum

    p = st["prob"]
    n = p["n"]
    c, d, xs = dy(p["c"]), dy(p["d"]), dy(p["xs"])
    # a non-uniform but still diagonal contraction, so that the momentum steps are not trivial
    cvec = np.array([c * (1.0 if i % 2 == 0 else 0.5) for i in range(n)])
    b = xs * (1.0 - cvec)
    fun = _styled(lambda x: cvec * x + b, rng)
    x0 = np.full(n, xs + d) * np.array([1.0 if i % 2 == 0 else -1.0 for i in range(n)]) if n > 1 else np.full(n, xs + d)
    atol, rtol = dy(p["atol"]), dy(p["rtol"])
    rep = {"problem": p}
    import contextlib, io
    try:
        with contextlib.redirect_stdout(io.StringIO()):
            x, niter, err = fixed_point_iteration_with_momentum(fun, x0.copy(), atol=atol, rtol=rtol, max_iter=max(p["maxit"], 2) * 6)
    except (RuntimeError, ValueError):
        stats["raised"] += 1
        return
    except Exception as ex:
        ctx.violation("momentum:raises-other", f"raised {type(ex).__name__}: {ex} on {_pshort(p)}", rep)
        return
    fx = cvec * x + b
    scale = atol + np.maximum(np.abs(x), np.abs(fx)) * rtol
    crit = np.linalg.norm((fx - x) / scale) / math.sqrt(n)
    stats["returned"] += 1
    if crit >= 1.0 + 1e-9:
        ctx.violation("momentum:returned-point", f"returned point has scaled fixed-point residual {crit:.3e} >= 1 "
                      f"(reported error {err:.3e}, {niter} iterations) on {_pshort(p)}", rep)
    # the same map started far away from its fixed point (the relative tolerance refers to the iterates, not to the initial guess)
    far = xs + np.array([(1.0 if i % 2 == 0 else -1.0) * 10.0 ** rng.uniform(2, 5) for i in range(n)])
    try:
        with contextlib.redirect_stdout(io.StringIO()):
            x, niter, err = fixed_point_iteration_with_momentum(fun, far.copy(), atol=atol, rtol=rtol, max_iter=400)
    except (RuntimeError, ValueError):
        stats["raised"] += 1
        return
    except Exception as ex:
        ctx.violation("momentum:raises-other", f"raised {type(ex).__name__}: {ex} on {_pshort(p)} started at {far.tolist()}", rep)
        return
    fx = cvec * x + b
    scale = atol + np.maximum(np.abs(x), np.abs(fx)) * rtol
    crit = np.linalg.norm((fx - x) / scale) / math.sqrt(n)
    stats["returned"] += 1
    stats["far starts"] = stats.get("far starts", 0) + 1
    if crit >= 1.0 + 1e-9:
        ctx.violation("momentum:returned-point:far-start", f"returned point has scaled fixed-point residual {crit:.3e} >= 1 "
                      f"(reported error {err:.3e}, {niter} iterations) on {_pshort(p)} started at {far.tolist()}", dict(rep, x0=far.tolist()))


def _fprime(ctx, st, rng):
    from cardillo.math.approx_fprime import approx_fprime

    p = st["prob"]
    a, b, g = p["a"], p["b"], p["g"]
    x, y, h = dy(p["x"]), dy(p["y"]), 2.0 ** -p["h"]
    f = lambda z: np.array([a * z[0] ** 2 + b * z[0] + g * z[0] * z[1], z[1] * 2.0])
    with warnings.catch_warnings():
        warnings.simplefilter("ignore")
        try:
            J = approx_fprime(np.array([x, y]), f, method=p["method"], eps=h)
        except Exception as ex:
            ctx.violation(f"fprime:{p['method']}:raises", f"approx_fprime raised {type(ex).__name__}: {ex} on {p}", {"problem": p})
            return
    exp = dy(st["r"])
    if J.shape != (2, 2) or J[0, 0] != exp or J[1, 1] != 2.0 or J[1, 0] != 0.0:
        ctx.violation(f"fprime:{p['method']}", f"approx_fprime gives d f0/dx = {J[0, 0] if J.shape == (2, 2) else J!r}, exact expected {exp} on {_pshort(p)}",
                      {"problem": p})


def _random_contract(ctx, rng, n_cases):
    """Contract clauses only, on random smooth nonlinear systems (well and ill conditioned)."""
    from scipy.sparse import csc_array
    from cardillo.math.fsolve import fsolve
    from cardillo.solver import SolverOptions

    done = 0
    for _ in range(n_cases):
        n = rng.randint(1, 6)
        nprng = np.random.default_rng(rng.randrange(2**31))
        M = nprng.normal(size=(n, n)) + n * np.eye(n)
        if rng.random() < 0.4:
            M = M @ np.diag(10.0 ** nprng.uniform(-4, 4, size=n))
        kind = rng.random()
        rowscale = np.ones(n)
        if kind < 0.35:
            # badly row-scaled system with tight tolerances: the round-off floor of the residual sits above the tolerance
            rowscale = 10.0 ** nprng.uniform(0, 13, size=n)
        cvec = nprng.normal(size=n)
        fun = lambda x: rowscale * (M @ x + 0.3 * np.sin(x) - cvec)
        jac = lambda x: csc_array(rowscale[:, None] * (M + 0.3 * np.diag(np.cos(x))))
        x0 = nprng.normal(size=n)
        if kind < 0.35:
            opts = SolverOptions(newton_atol=10.0 ** rng.uniform(-15, -9), newton_rtol=10.0 ** rng.uniform(-16, -12),
                                 newton_max_iter=rng.choice([3, 12, 25]))
            if rng.random() < 0.5:      # warm start next to the solution
                with warnings.catch_warnings():
                    warnings.simplefilter("ignore")
                    x0 = fsolve(fun, x0, jac=jac, options=SolverOptions(newton_atol=1e-3, newton_rtol=1e-3, newton_max_iter=50)).x
        elif kind > 0.93:
            # a residual that leaves its domain: Newton on log(x) - 5 from far away produces NaN
            fun = lambda x: np.log(x) - 5.0
            jac = lambda x: csc_array(np.diag(1.0 / x))
            x0 = np.full(n, 10.0 ** rng.uniform(2.5, 4))
            opts = SolverOptions(newton_atol=1e-8, newton_rtol=1e-8, newton_max_iter=rng.choice([2, 5, 20]))
        else:
            opts = SolverOptions(newton_atol=10.0 ** rng.uniform(-12, -3), newton_rtol=10.0 ** rng.uniform(-12, -3),
                                 newton_max_iter=rng.choice([1, 2, 3, 10, 25]))
        mode = rng.choice(["exact", "chord", "numerical"])
        kw = {}
        if mode == "chord":
            kw["inexact"] = True
        if mode == "numerical":
            opts.numerical_jacobian_method = rng.choice(["2-point", "3-point", "cs"])
            if n == 1:
                continue
        with warnings.catch_warnings(record=True) as w:
            warnings.simplefilter("always")
            try:
                with np.errstate(all="ignore"):
                    sol = fsolve(fun, x0.copy(), jac=jac, options=opts, **kw)
            except Exception as ex:
                if kind > 0.93:
                    done += 1      # raising on a non-finite residual is not silent
                    continue
                ctx.violation(f"newton-random:{mode}:raises", f"fsolve raised {type(ex).__name__}: {ex}", {"n": n, "mode": mode})
                continue
        warned = any("fsolve is not converged" in str(x.message) for x in w)
        with np.errstate(all="ignore"):
            scale = opts.newton_atol + np.abs(fun(x0)) * opts.newton_rtol
            crit = np.linalg.norm(fun(sol.x) / scale) / math.sqrt(n)
        done += 1
        if abs(crit - 1) < 1e-6:
            continue
        if not np.isfinite(crit):
            if sol.success or not warned:
                ctx.violation(f"newton-random:{mode}:nonfinite", f"success={sol.success} warned={warned} with a non-finite residual at the returned point",
                              {"n": n, "mode": mode, "x0": x0.tolist()})
            continue
        if bool(sol.success) != (crit < 1) or (not sol.success and not warned) or (sol.success and warned):
            ctx.violation(f"newton-random:{mode}", f"success={sol.success} warned={warned} but the scaled criterion at the returned point is {crit:.3e} "
                          f"(n={n}, max_iter={opts.newton_max_iter})", {"n": n, "mode": mode, "M": M.tolist(), "c": cvec.tolist(), "x0": x0.tolist(),
                                                                        "atol": opts.newton_atol, "rtol": opts.newton_rtol})
    return done


def run(ctx):
    ctx.level = "model_checking"
    rng = ctx.rng
    states = trans = traces = 0
    samples = []
    for algo, fn in (("newton", _newton), ("fixedpoint", _fixed), ("fprime", _fprime)):
        r, dot = _graph(ctx, algo)
        tlc.require_ok(r, f"NewtonHelper {algo}")
        if r.violated:
            ctx.violation(f"spec:{algo}:{r.violated}", f"TLC: {r.violated} violated", {"stdout": r.stdout[-3000:]})
            continue
        g = tlc.parse_dot(dot + ".dot")
        finals = _final_states(g)
        for st in finals:
            fn(ctx, st, rng)
            traces += 1
        states += r.distinct
        trans += r.generated
        samples.append({"algo": algo, "problem": _pshort(finals[len(finals) // 3]["prob"]), "expected_status": finals[len(finals) // 3]["status"],
                        "expected_iterations": finals[len(finals) // 3]["k"]})
        ctx.log(f"[C22] {algo}: {r.distinct} states, {len(finals)} problems replayed into the real helper")
    # momentum helper: contract only
    r, dot = _graph(ctx, "momentum")
    tlc.require_ok(r, "NewtonHelper momentum")
    g = tlc.parse_dot(dot + ".dot")
    stats = {"returned": 0, "raised": 0}
    for i, s in enumerate(g.init):
        if not ctx.thorough and i % 4 != ctx.seed % 4:
            continue                      # quick tier: a quarter of the problem space, chosen by the seed
        _momentum(ctx, g.nodes[s], rng, stats)
        traces += 1
    states += r.distinct
    trans += r.generated
    ctx.log(f"[C22] momentum: {len(g.init)} contractive problems, {stats}")
    # the as-found plain helper must be rejected by TLC
    ra, _ = _graph(ctx, "fixedpoint", "as_found")
    if not ra.violated:
        raise tlc.MachineryError("as_found fixed-point helper not rejected by TLC")
    nrand = _random_contract(ctx, rng, 300 if not ctx.thorough else 5000)
    ctx.log(f"[C22] random smooth systems (contract clauses only): {nrand}")
    ctx.coverage = {"states": states, "transitions": trans, "traces_validated_against_impl": traces, "samples": samples,
                    "exhaustive": True, "momentum": stats, "random_contract_cases": nrand,
                    "rule": "every problem of the spec's dyadic problem spaces (dimension, conditioning factor, tolerances, iteration "
                            "budget, Jacobian mode) is one behaviour; all are replayed"}
    ctx.assumptions = ["problems are dyadic so every iterate is exact in binary floating point",
                       "decisions within 1e-9 of the threshold are not judged (none occur in the spec's problem spaces)",
                       "numerical-Jacobian mode compared at 1e-9 instead of exactly"]


def replay(ctx, path):
    run(ctx)
