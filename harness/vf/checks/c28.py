"""C28 URDF import builds systems consistent with the described robot.

Decide: spec/UrdfFK.tla -- link trees over the octahedral lattice (joint types fixed, revolute, continuous, prismatic, planar, floating;
        origins = integer translation + rpy in quarter turns; signed coordinate axes; coordinates = quarter turns / integer displacements;
        integer rates; fixed and floating roots; inertial frames with offset and rotation); TLC computes every link's centre of mass,
        inertial basis, velocity and body-fixed angular velocity by URDF semantics, one joint per step, and checks the oracle's own
        invariants (rotations, joint axis shared by parent and child, fixed joints transmit the twist).
Bind:   (spec -> code) for every final state the harness writes the URDF, calls system_from_urdf with the requested configuration and
        velocities (entries for coordinates that are zero are omitted) and compares each imported body's r_OP, A_IB, v_P, B_Omega with
        the spec, System.g / g_dot at the initial state with zero, and Revolute.angle / angle_dot with the request.
"""
from __future__ import annotations

import contextlib
import io
import os
import warnings

import numpy as np

from .. import tlc

HALF_PI = np.pi / 2
# UrdfFKQ's table of angles with rational cosine and sine (index -> angle): quarter turns, then the 3-4-5 angles
ANGLES_Q = {0: 0.0, 1: HALF_PI, 2: np.pi, 3: -HALF_PI, 4: float(np.arctan2(4.0, 3.0)), 5: float(np.arctan2(-3.0, 4.0)), 6: float(np.arctan2(-3.0, -4.0))}
OBLIQUE = False      # set by run(): the cases come from UrdfFKQ (angles are table indices, numbers are rationals [num, den])


def ang(k):
    return ANGLES_Q[int(k)] if OBLIQUE else float(k) * HALF_PI


def num(x):
    """a number / vector / matrix of the spec as floats"""
    a = np.asarray(x, dtype=float)
    return a[..., 0] / a[..., 1] if OBLIQUE else a


def rpy_str(t):
    return " ".join(repr(ang(k)) for k in t)


def xyz_str(v):
    return " ".join(repr(float(x)) for x in v)


def write_urdf(path, case, omit_default_axis=False):
    def link(name, inert):
        return (f'  <link name="{name}">\n    <inertial>\n      <origin xyz="{xyz_str(inert["xyz"])}" rpy="{rpy_str(inert["rpy"])}"/>\n'
                f'      <mass value="2.0"/>\n      <inertia ixx="0.4" ixy="0.01" ixz="0.0" iyy="0.5" iyz="-0.02" izz="0.6"/>\n    </inertial>\n  </link>\n')
    out = ['<?xml version="1.0"?>\n<robot name="lattice">\n', link("l0", case["root"]["inert"])]
    for i, j in enumerate(case["joints"], start=1):
        out.append(link(f"l{i}", j["inert"]))
        lim = '    <limit effort="10" velocity="10" lower="-10" upper="10"/>\n' if j["type"] in ("revolute", "prismatic") else ""
        # URDF: the <axis> element is optional and defaults to (1, 0, 0)
        ax = "" if (omit_default_axis and [float(x) for x in j["axis"]] == [1.0, 0.0, 0.0]) else f'    <axis xyz="{xyz_str(j["axis"])}"/>\n'
        out.append(f'  <joint name="j{i}" type="{j["type"]}">\n    <parent link="l{j["parent"]}"/>\n    <child link="l{i}"/>\n'
                   f'    <origin xyz="{xyz_str(j["xyz"])}" rpy="{rpy_str(j["rpy"])}"/>\n{ax}{lim}  </joint>\n')
    out.append("</robot>\n")
    with open(path, "w") as f:
        f.write("".join(out))


def rpy_matrix(t):
    r, p, y = (ang(k) for k in t)
    Rx = np.array([[1, 0, 0], [0, np.cos(r), -np.sin(r)], [0, np.sin(r), np.cos(r)]])
    Ry = np.array([[np.cos(p), 0, np.sin(p)], [0, 1, 0], [-np.sin(p), 0, np.cos(p)]])
    Rz = np.array([[np.cos(y), -np.sin(y), 0], [np.sin(y), np.cos(y), 0], [0, 0, 1]])
    return Rz @ Ry @ Rx if OBLIQUE else np.round(Rz @ Ry @ Rx)


def request(case, variant):
    """configuration / velocity dictionaries a user would pass; zero coordinates are left at their defaults"""
    cfg, vel = {}, {}
    for i, j in enumerate(case["joints"], start=1):
        n = f"j{i}"
        t = j["type"]
        if t in ("revolute", "continuous"):
            if j["q"] != 0:
                cfg[n] = ang(j["q"])
            if j["qd"] != 0:
                vel[n] = float(j["qd"])
        elif t == "prismatic":
            if j["q"] != 0:
                cfg[n] = float(j["q"])
            if j["qd"] != 0:
                vel[n] = float(j["qd"])
        elif t == "planar":
            cfg[n] = np.array([j["q"], j["q2"]], dtype=float)
            vel[n] = np.array([j["qd"], j["qd2"]], dtype=float)
        elif t == "floating":
            if variant % 2 == 0:
                cfg[n] = np.concatenate([np.array(j["fr"], dtype=float), np.array([ang(k) for k in j["frpy"]])])
            else:
                from cardillo.math import Spurrier
                cfg[n] = np.concatenate([np.array(j["fr"], dtype=float), Spurrier(rpy_matrix(j["frpy"]))])
            vel[n] = np.concatenate([np.array(j["fv"], dtype=float), np.array(j["fw"], dtype=float)])
    return cfg, vel


def check_case(ctx, case, e, path, k):
    from cardillo.urdf.system_from_urdf import system_from_urdf

    root = case["root"]
    types = [j["type"] for j in case["joints"]]
    key = "+".join(sorted(set(types))) if len(set(types)) == 1 else "tree"
    if OBLIQUE:
        key = "oblique:" + key
        case = dict(case, joints=[dict(j, axis=num(j["axis"]).tolist()) for j in case["joints"]])
        e = dict(root={kk: num(v) for kk, v in e["root"].items()}, links=[{kk: num(v) for kk, v in b.items()} for b in e["links"]])
    w = dict(root=dict(r=root["r"], rpy=root["rpy"], floating=root["floating"]), joints=[{kk: j[kk] for kk in ("type", "axis", "xyz", "rpy", "q", "qd", "parent")} for j in case["joints"]])
    cfg, vel = request(case, k)
    w["configuration"] = {n: np.asarray(v).tolist() for n, v in cfg.items()}
    w["velocities"] = {n: np.asarray(v).tolist() for n, v in vel.items()}
    write_urdf(path, case, omit_default_axis=(k % 2 == 1))
    if k % 2 == 1 and any([float(x) for x in j["axis"]] == [1.0, 0.0, 0.0] and j["type"] != "planar" for j in case["joints"]):
        w["axis_element"] = "omitted where it is the URDF default (1, 0, 0)"
    import copy
    cfg_before, vel_before = copy.deepcopy(cfg), copy.deepcopy(vel)
    try:
        with warnings.catch_warnings(), contextlib.redirect_stdout(io.StringIO()), contextlib.redirect_stderr(io.StringIO()):
            warnings.simplefilter("ignore")
            system = system_from_urdf(path, r_OR=np.array(root["r"], dtype=float), A_IR=rpy_matrix(root["rpy"]), v_R=np.array(root["v"], dtype=float),
                                      R_omega_IR=np.array(root["wR"], dtype=float), configuration=cfg, velocities=vel, root_is_floating=bool(root["floating"]))
    except Exception as ex:
        ctx.violation(f"{key}:import:{type(ex).__name__}", f"system_from_urdf raised {type(ex).__name__}: {ex} for {w}", w)
        return False
    if k % 3 == 0 and (cfg_before or vel_before):
        # the caller's dictionaries are inputs: a second import with the SAME objects must build the same system
        try:
            with warnings.catch_warnings(), contextlib.redirect_stdout(io.StringIO()), contextlib.redirect_stderr(io.StringIO()):
                warnings.simplefilter("ignore")
                system2 = system_from_urdf(path, r_OR=np.array(root["r"], dtype=float), A_IR=rpy_matrix(root["rpy"]), v_R=np.array(root["v"], dtype=float),
                                           R_omega_IR=np.array(root["wR"], dtype=float), configuration=cfg, velocities=vel, root_is_floating=bool(root["floating"]))
            same = system2.nq == system.nq and np.allclose(system2.q0, system.q0, atol=1e-12) and np.allclose(system2.u0, system.u0, atol=1e-12)
        except Exception as ex:
            same = False
        if not same:
            ctx.violation(f"{key}:second-import", f"importing the same robot again with the same configuration / velocity dictionaries gives another initial state for {w}", w)
            return False
    t0, q0, u0 = system.t0, system.q0, system.u0
    ok = True

    def cmp(what, got, exp, tol=1e-9):
        nonlocal ok
        got = np.asarray(got, dtype=float); exp = np.asarray(exp, dtype=float)
        if got.shape != exp.shape or not (np.max(np.abs(got - exp)) <= tol):
            ok = False
            ctx.violation(f"{key}:{what.split(' ')[0]}", f"{what}: {np.round(got, 9).tolist()} but URDF semantics give {exp.tolist()} for {w}", w)

    bodies = [("l0", e["root"])] + [(f"l{i}", b) for i, b in enumerate(e["links"], start=1)]
    for name, b in bodies:
        if name not in system.contributions_map:
            ok = False
            ctx.violation(f"{key}:missing-link", f"link {name} was not imported for {w}", w)
            continue
        body = system.contributions_map[name]
        if not hasattr(body, "qDOF") or body.nq == 0:
            # fixed root: a frame
            cmp(f"r_OP({name}) position of the link's centre of mass", body.r_OP(t0), b["r_OC"])
            cmp(f"A_IB({name}) inertial basis of the link", body.A_IB(t0), b["A_IB"])
            continue
        q, u = q0[body.qDOF], u0[body.uDOF]
        cmp(f"r_OP({name}) position of the link's centre of mass", body.r_OP(t0, q), b["r_OC"])
        cmp(f"A_IB({name}) inertial basis of the link", body.A_IB(t0, q), b["A_IB"])
        cmp(f"v_P({name}) velocity of the link's centre of mass", body.v_P(t0, q, u), b["v_C"])
        cmp(f"B_Omega({name}) body-fixed angular velocity of the link", body.B_Omega(t0, q, u), b["B_Omega"])
    if system.nla_g:
        cmp("g(t0,q0) joint constraints at the initial state", system.g(t0, q0), np.zeros(system.nla_g), 1e-9)
        cmp("g_dot(t0,q0,u0) joint constraints on velocity level", system.g_dot(t0, q0, u0), np.zeros(system.nla_g), 1e-9)
    for i, j in enumerate(case["joints"], start=1):
        n = f"j{i}"
        if j["type"] == "floating":
            if n in system.contributions_map:
                ok = False
                ctx.violation(f"{key}:floating-joint-constrained", f"a floating joint was imported as a constraint for {w}", w)
            continue
        if n not in system.contributions_map:
            ok = False
            ctx.violation(f"{key}:missing-joint", f"joint {n} ({j['type']}) was not imported for {w}", w)
            continue
        jo = system.contributions_map[n]
        if j["type"] in ("revolute", "continuous"):
            cmp(f"angle({n}) reported joint angle", [jo.angle(t0, q0[jo.qDOF])], [ang(j["q"])])
            cmp(f"angle_dot({n}) reported joint rate", [jo.angle_dot(t0, q0[jo.qDOF], u0[jo.uDOF])], [float(j["qd"])])
    return ok


def run(ctx):
    ctx.level = "model_checking"
    states = trans = 0
    counts = {}
    nok = 0
    samples = []
    global OBLIQUE
    plan = (("UrdfFK", "single", 3 if ctx.thorough else 12), ("UrdfFK", "tree", 9 if ctx.thorough else 60),
            ("UrdfFKQ", "single", 2 if ctx.thorough else 12), ("UrdfFKQ", "chain", 1 if ctx.thorough else 4))
    path = os.path.join(ctx.scratch, "robot.urdf")
    for module, fam, stride in plan:
        OBLIQUE = module == "UrdfFKQ"
        cfg = os.path.join(ctx.scratch, f"urdf_{module}_{fam}.cfg")
        with open(cfg, "w") as f:
            f.write(f'SPECIFICATION Spec\nCONSTANTS\n  Family = "{fam}"\n  Stride = {stride}\nINVARIANT OracleOK\n')
        dot = os.path.join(ctx.scratch, f"urdf_{module}_{fam}")
        r = tlc.run_tlc(module, cfg, scratch=ctx.scratch, dump_dot=dot, timeout=3000)
        tlc.require_ok(r, f"{module} {fam}")
        if r.violated:
            ctx.violation(f"spec:{r.violated}", f"TLC: {r.violated} violated", {"stdout": r.stdout[-3000:]})
            continue
        states += r.distinct; trans += r.generated
        g = tlc.parse_dot(dot + ".dot")
        os.remove(dot + ".dot")
        finals = [st for st in g.nodes.values() if st["expected"]]
        finals.sort(key=lambda st: repr(st["case"]))
        for k, st in enumerate(finals):
            case, e = st["case"], st["expected"]
            for j in case["joints"]:
                counts[j["type"]] = counts.get(j["type"], 0) + 1
                if OBLIQUE:
                    counts["(oblique)"] = counts.get("(oblique)", 0) + 1
            if check_case(ctx, case, e, path, k):
                nok += 1
            if len(samples) < 2 and k % 97 == 5 and not OBLIQUE:
                samples.append({"joints": [{kk: j[kk] for kk in ("type", "axis", "xyz", "rpy", "q", "qd", "parent")} for j in case["joints"]], "expected_link_1": e["links"][0]})
        ctx.log(f"[C28] {module} family {fam}: {len(finals)} robots imported (stride {stride})")
    OBLIQUE = False
    total = sum(counts.values())
    if total == 0:
        raise tlc.MachineryError("no URDF cases produced")
    ctx.log(f"[C28] joints imported by type {counts}; {nok} robots agree with the URDF semantics")
    ctx.coverage = {"states": states, "transitions": max(trans, 1), "traces_validated_against_impl": nok, "samples": samples, "exhaustive": False,
                    "joints_by_type": counts,
                    "rule": "single joints: 3 roots x 6 types x 6 axes x 8 origin rotations x 3 coordinates x 2 rates; trees: 3 roots x 7^3 joint menus x 6 parent assignments; "
                            "a deterministic stride thins both families (quick 12 / 60, thorough 3 / 9); UrdfFKQ (rational angles and axes): single joints 3 roots x 6 types x 5 axes x "
                            "7 origin rotations x 3 coordinates x 2 rates (stride 12 / 2), chains of two joints from a menu of 7 with both parent assignments (stride 4 / 1)"}
    ctx.assumptions = ["rotations are octahedral (UrdfFK: rpy and joint angles multiples of a quarter turn, signed coordinate axes) or have rational sine and cosine (UrdfFKQ: the "
                       "3-4-5 angles, unit axes (3,4,0)/5, (0,-4,3)/5, (1,2,2)/3); translations and rates integers: the forward kinematics are exact integers / rationals",
                       "planar joints are generated with axis z and coordinates (x, y) in the joint frame (the importer's reading of the type); the velocity of a floating joint is (linear rate, relative "
                       "angular velocity) in the joint frame; URDF does not fix whether the linear part is the rate of the displacement or the velocity of the child-fixed point at the "
                       "joint origin, so floating joints with a relative spin are generated without displacement (both readings agree there)",
                       "a non-floating root is at rest"]


def replay(ctx, path):
    run(ctx)
