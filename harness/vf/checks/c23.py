"""C23 Static solvers return equilibria and are frame-indifferent (exploration by trace validation, like C17).

Decide: spec/Scheme.tla -- the table of residual blocks a solver enforces at every returned point, extended by the static solvers:
        Newton {equilibrium, g, c, quat, signorini, frame}, Riks {equilibrium, g, c, quat, frame}; TLC checks the table (TableOK: a
        returned point of a static solver is an equilibrium of the WHOLE model: forces, bilateral and internal constraints, compliance,
        unit quaternions) and judges every record.
Bind:   (code -> spec) static problems are solved with the real Newton and Riks solvers: cantilever rods of all formulations
        (Quaternion / SE3 / R12, displacement-based / mixed / internally constrained) clamped by a RigidConnection and loaded by tip
        forces and follower moments that grow with the load parameter, a bar on a revolute joint with a spring, a ball resting on a
        plane (static Signorini); every returned load step / arc-length point gives one record with the residual blocks evaluated from
        the returned Solution by the System's own routines (classified ok / borderline / violated against the solver tolerance).  Each
        rod problem is solved a second time after a rigid motion of the whole problem (reference, clamp, dead loads); the block
        "frame" compares the equilibria.  Runs that stop early are judged under C21 (they must say so); here the returned rows are.
"""
from __future__ import annotations

import contextlib
import copy
import io
import math
import warnings

import numpy as np

from .. import tlc
from ..cases import check_only
from ..lattice import quat_to_matrix
from ..runs import batch_validate

ATOL = 1e-8          # Newton tolerance, purely absolute (newton_rtol = 1e-14): the component-wise relative part of the default tolerance
                     # scales with the coordinates, i.e. with the placement, and with it the iteration counts that steer the arc-length steps


def _quiet():
    return contextlib.redirect_stdout(io.StringIO())


def classify(r, thr):
    r = float(r)
    if not np.isfinite(r):
        return "violated"
    return "ok" if r <= thr else ("violated" if r > 100 * thr else "borderline")


def rot(P):
    return quat_to_matrix(np.asarray(P, dtype=float))


def cantilever(interp, mixed, constraints, degree, nel, frame, loads, rng, growth=1):
    """rod clamped at xi = 0 in the frame (R0, d): reference, clamp and dead loads are moved with the frame"""
    from cardillo import System
    from cardillo.rods import RectangularCrossSection, Simo1986, CrossSectionInertias
    from cardillo.rods.cosseratRod import make_CosseratRod
    from cardillo.constraints import RigidConnection
    from cardillo.forces import Force, B_Moment
    from cardillo.solver import SolverOptions

    R0, d = frame
    Rod = make_CosseratRod(interpolation=interp, mixed=mixed, constraints=constraints, polynomial_degree=degree)
    cs = RectangularCrossSection(0.1, 0.2)
    mat = Simo1986(np.array([50.0, 10.0, 10.0]), np.array([0.5, 2.0, 1.0]))
    system = System()
    Q = Rod.straight_configuration(nel, 2.0, r_OP0=d, A_IB0=R0)
    rod = Rod(cs, mat, nel, Q=Q, q0=Q.copy(), cross_section_inertias=CrossSectionInertias(1.0, cs), name="rod")
    clamp = RigidConnection(system.origin, rod, r_OJ0=d, A_IJ0=R0, xi2=0.0, name="clamp")
    F, M = loads
    tip_f = Force(lambda t: t ** growth * (R0 @ F), rod, xi=1.0, name="tip_force")
    tip_m = B_Moment(lambda t: t ** growth * M, rod, xi=1.0, name="tip_moment")
    system.add(rod, clamp, tip_f, tip_m)
    system.assemble(options=SolverOptions(compute_consistent_initial_conditions=False))
    return system, rod


def residual_record(system, solver, t, q, la_g, la_c, la_N, rid, tag, scale):
    """the blocks of a returned point, evaluated with the System's own routines"""
    u0 = np.zeros(system.nu)
    W_g = system.W_g(t, q, format="csr"); W_c = system.W_c(t, q, format="csr"); W_N = system.W_N(t, q, format="csr")
    h = np.asarray(system.h(t, q, u0))
    eq = h + W_g @ la_g + W_c @ la_c + (W_N @ la_N if system.nla_N else 0.0)
    fs = max(1.0, scale, float(np.max(np.abs(h), initial=0.0)))
    vals = {"equilibrium": float(np.max(np.abs(eq), initial=0.0)) / fs,
            "g": float(np.max(np.abs(system.g(t, q)), initial=0.0)),
            "c": float(np.max(np.abs(system.c(t, q, u0, la_c)), initial=0.0)),
            "quat": float(np.max(np.abs(system.g_S(t, q)), initial=0.0))}
    if system.nla_N:
        vals["signorini"] = float(np.max(np.abs(np.minimum(la_N, system.g_N(t, q))), initial=0.0))
    thr = 100 * ATOL
    cls = {k: classify(v, thr) for k, v in vals.items()}
    return dict(id=rid, solver=solver, step=0, tag=tag, vals=vals, violated=[k for k, c in cls.items() if c == "violated"],
                borderline=any(c == "borderline" for c in cls.values()))


def run_static(solver, system, nsteps, max_iter=50, span=(0.0, 1.0)):
    from cardillo.solver import Newton, Riks, SolverOptions

    with warnings.catch_warnings(record=True) as wl, _quiet():
        warnings.simplefilter("always")
        if solver == "Newton":
            sol = Newton(system, n_load_steps=nsteps, verbose=False, options=SolverOptions(newton_atol=ATOL, newton_rtol=1e-14, newton_max_iter=max_iter)).solve()
        else:
            sol = Riks(system, la_arc0=0.05, la_arc_span=np.array(span, dtype=float), max_load_steps=200, options=SolverOptions(newton_atol=ATOL, newton_rtol=1e-14, newton_max_iter=max_iter)).solve()
    return sol, [str(w.message) for w in wl]


def points_of(sol, system):
    n = len(sol.t)
    z = lambda a, m: np.asarray(a) if a is not None and len(np.asarray(a)) == n else np.zeros((n, m))
    la_g = z(getattr(sol, "la_g", None), system.nla_g); la_c = z(getattr(sol, "la_c", None), system.nla_c); la_N = z(getattr(sol, "la_N", None), system.nla_N)
    for i in range(n):
        yield float(sol.t[i]), np.asarray(sol.q[i], dtype=float), la_g[i].reshape(system.nla_g), la_c[i].reshape(system.nla_c), la_N[i].reshape(system.nla_N)


def rod_nodes(rod, q):
    r = np.array([q[rod.qDOF][rod.nodalDOF_r[n]] for n in range(rod.nnodes_r)])
    A = np.array([rot(q[rod.qDOF][rod.nodalDOF_p[n]]) for n in range(rod.nnodes_p)])
    return r, A


def frame_block(rod_a, sol_a, rod_b, sol_b, R0, d):
    """max deviation of the moved problem's equilibria from the moved equilibria (positions relative to the rod length, orientations)"""
    # (with a purely absolute Newton tolerance the iteration counts, hence the arc-length steps, do not depend on the placement)
    if len(sol_a.t) != len(sol_b.t):
        return 1.0
    worst = float(np.max(np.abs(np.asarray(sol_a.t) - np.asarray(sol_b.t))))
    for qa, qb in zip(sol_a.q, sol_b.q):
        ra, Aa = rod_nodes(rod_a, np.asarray(qa)); rb, Ab = rod_nodes(rod_b, np.asarray(qb))
        worst = max(worst, float(np.max(np.abs(rb - (ra @ R0.T + d)))) / 2.0, float(np.max(np.abs(Ab - np.einsum("ij,njk->nik", R0, Aa)))))
    return worst


def rigid_body_problems(rng):
    """small static problems without rods: spring on a revolute joint, ball resting on a plane"""
    from cardillo import System
    from cardillo.discrete import RigidBody
    from cardillo.constraints import Revolute
    from cardillo.force_laws import KelvinVoigtElement
    from cardillo.forces import Force
    from cardillo.contacts import Sphere2Plane
    from cardillo.solver import SolverOptions

    out = []
    for compliance in (False, True):
        system = System()
        rb = RigidBody(1.0, np.diag([0.01, 1 / 12, 1 / 12]), q0=np.array([0.5, 0, 0, 1.0, 0, 0, 0]), name="bar")
        j = Revolute(system.origin, rb, axis=2, r_OJ0=np.zeros(3), A_IJ0=np.eye(3), name="hinge")
        kv = KelvinVoigtElement(j, 4.0, 0.0, l_ref=0.0, compliance_form=compliance, name="spring")
        system.add(rb, j, kv, Force(lambda t: t * np.array([0.0, -2.0, 0.0]), rb, B_r_CP=np.array([0.5, 0, 0]), name="load"))
        system.assemble(options=SolverOptions(compute_consistent_initial_conditions=False))
        out.append((f"bar+spring(compliance={compliance})", system, 2.0))
    system = System()
    from cardillo.discrete import PointMass
    ball = PointMass(1.0, q0=np.array([0.0, 0, 0.1]), name="ball")      # (a free rigid ball has a singular static problem: its rotation is undetermined)
    plane = Sphere2Plane(system.origin, ball, mu=0.0, r=0.1, e_N=0.0, name="floor")
    system.add(ball, plane, Force(lambda t: np.array([0.0, 0.0, -9.81 * (0.2 + 0.8 * t)]), ball, name="weight"))
    system.assemble(options=SolverOptions(compute_consistent_initial_conditions=False))
    out.append(("ball on a plane", system, 9.81))
    return out


def run(ctx):
    ctx.level = "exploration"
    rng = ctx.rng
    r_t = check_only(ctx, "Scheme", {"Mode": '"table"'}, invariants=("TableOK",), tag="scheme_table")
    records, wheres = [], {}
    runs = {}
    notjudged = {}
    combos = [("Quaternion", False, None, 2), ("Quaternion", True, None, 2), ("SE3", False, None, 1), ("SE3", True, None, 1), ("R12", False, None, 2), ("R12", True, None, 1),
              ("Quaternion", True, [1, 2], 2), ("SE3", False, [0, 1, 2], 1)]
    if not ctx.thorough:
        picks = [0, 2, 5, 6] if rng.random() < 0.5 else [1, 3, 4, 7]
        combos = [combos[i] for i in picks]
    nel = 4 if ctx.thorough else 2
    nsteps = 6 if ctx.thorough else 3
    if ctx.thorough:
        combos = combos * 3          # three different loads and placements per formulation

    def add(rec, where):
        rec["id"] = len(records) + 1
        records.append(rec); wheres[rec["id"]] = where

    # two dedicated problems: a placement turned by 170 degrees about the axis the rod is bent about (the scalar parts of the nodal quaternions change sign along the rod)
    combos = list(combos) + [("Quaternion", False, None, 2, "half-turn"), ("Quaternion", True, None, 2, "half-turn")]
    for combo in combos:
        interp, mixed, constraints, degree = combo[:4]
        half_turn = len(combo) > 4
        name = f"cantilever {interp}[p={degree},mixed={mixed},constraints={constraints}]" + (" placed at 170 degrees" if half_turn else "")
        F = np.array([0.0, rng.choice([0.15, -0.2]), rng.choice([0.1, 0.25])]); M = np.array([rng.choice([0.0, 0.1]), 0.0, rng.choice([0.2, -0.15])])
        Q0 = np.array([rng.gauss(0, 1) for _ in range(4)]); Q0 /= np.linalg.norm(Q0)
        if half_turn:
            F = np.array([0.0, 0.05, 0.0]); M = np.array([0.0, 0.0, 0.25])
            Q0 = np.array([math.cos(math.radians(85.0)), 0.0, 0.0, math.sin(math.radians(85.0))])
        R0 = rot(Q0); d = np.array([rng.uniform(-1, 1) for _ in range(3)]) * rng.choice([1.0, 1.0, 30.0])      # some placements far from the origin
        for solver in (["Newton", "Riks"] if (ctx.thorough or interp == "Quaternion") and constraints is None else ["Newton"]):
            where = dict(problem=name, solver=solver, tip_force=F.tolist(), tip_moment_body_fixed=M.tolist(), moved_by=dict(Q0=Q0.tolist(), d=d.tolist()))
            try:
                sys_a, rod_a = cantilever(interp, mixed, constraints, degree, nel, (np.eye(3), np.zeros(3)), (F, M), rng)
                sys_b, rod_b = cantilever(interp, mixed, constraints, degree, nel, (R0, d), (F, M), rng)
                sol_a, wa = run_static(solver, sys_a, nsteps)
                sol_b, wb = run_static(solver, sys_b, nsteps)
            except Exception as ex:
                notjudged[type(ex).__name__] = notjudged.get(type(ex).__name__, 0) + 1
                ctx.notes.append(f"{name}/{solver}: ended loudly with {type(ex).__name__}: {str(ex)[:120]} (not judged here)")
                continue
            runs[solver] = runs.get(solver, 0) + 2
            scale = float(np.max(np.abs(F)) + np.max(np.abs(M)))
            for label, system, sol in (("unmoved", sys_a, sol_a), ("moved", sys_b, sol_b)):
                for i, (t, q, la_g, la_c, la_N) in enumerate(points_of(sol, system)):
                    rec = residual_record(system, solver, t, q, la_g, la_c, la_N, 0, dict(problem=name, frame=label), scale)
                    rec["step"] = i
                    add(rec, dict(where, frame=label, step=i, t=t, vals=rec["vals"]))
            if len(sol_a.t) < 2 or len(sol_b.t) < 2:
                continue
            # (the arc-length constraint measures increments of the coordinates, whose norms a rigid motion preserves: the same points are expected)
            dev = frame_block(rod_a, sol_a, rod_b, sol_b, R0, d)
            if dev is not None:
                c = classify(dev, 1e-6)
                add(dict(solver=solver, step=len(sol_a.t) - 1, tag=dict(problem=name, frame="pair"), vals={"frame": dev}, violated=["frame"] if c == "violated" else [],
                         borderline=c == "borderline"), dict(where, frame="pair", vals={"frame": dev}))
            # the loaded rod must actually have moved (otherwise the run says nothing)
            tip = np.asarray(sol_a.q[-1])[rod_a.qDOF][rod_a.nodalDOF_r[-1]] - np.asarray(sol_a.q[0])[rod_a.qDOF][rod_a.nodalDOF_r[-1]]
            if np.linalg.norm(tip) < 1e-3:
                ctx.notes.append(f"{name}/{solver}: tip displacement {np.linalg.norm(tip):.2e} (load too small to be informative)")
    # runs that stop early (a load that grows like t^3, few Newton iterations allowed): the rows they return are equilibria
    nearly = 0
    for amp, nst in ((20.0, 8), (5.0, 5), (40.0, 6)):
        name = f"cantilever Quaternion[p=2,mixed=False], load {amp} t^3, at most 10 Newton iterations"
        try:
            F = np.array([0.0, 0.0, amp * 0.3]); M = np.zeros(3)
            system, rod = cantilever("Quaternion", False, None, 2, nel, (np.eye(3), np.zeros(3)), (F, M), rng, growth=3)
            sol, wl = run_static("Newton", system, nst, max_iter=10)
        except Exception as ex:
            notjudged[type(ex).__name__] = notjudged.get(type(ex).__name__, 0) + 1
            continue
        runs["Newton"] = runs.get("Newton", 0) + 1
        if len(sol.t) < nst + 1:
            nearly += 1
        for i, (t, q, la_g, la_c, la_N) in enumerate(points_of(sol, system)):
            rec = residual_record(system, "Newton", t, q, la_g, la_c, la_N, 0, dict(problem=name, frame="unmoved"), float(np.max(np.abs(F))))
            rec["step"] = i
            add(rec, dict(problem=name, solver="Newton", step=i, t=t, rows_returned=len(sol.t), load_steps=nst + 1, warnings=wl[:2], vals=rec["vals"]))
    # the arc-length solver on a span that does not start at zero
    for mixed in (False, True):
        name = f"cantilever Quaternion[p=2,mixed={mixed}], Riks on the span [-0.5, 1]"
        try:
            F = np.array([0.0, 0.2, 0.1]); M = np.array([0.0, 0.0, 0.1])
            system, rod = cantilever("Quaternion", mixed, None, 2, nel, (np.eye(3), np.zeros(3)), (F, M), rng)
            sol, wl = run_static("Riks", system, nsteps, span=(-0.5, 1.0))
        except Exception as ex:
            notjudged[type(ex).__name__] = notjudged.get(type(ex).__name__, 0) + 1
            ctx.notes.append(f"{name}: ended loudly with {type(ex).__name__}: {str(ex)[:120]} (not judged here)")
            continue
        runs["Riks"] = runs.get("Riks", 0) + 1
        for i, (t, q, la_g, la_c, la_N) in enumerate(points_of(sol, system)):
            rec = residual_record(system, "Riks", t, q, la_g, la_c, la_N, 0, dict(problem=name, frame="unmoved"), 0.3)
            rec["step"] = i
            add(rec, dict(problem=name, solver="Riks", step=i, t=t, vals=rec["vals"]))
    for name, system, scale in rigid_body_problems(rng):
        try:
            sol, _ = run_static("Newton", system, nsteps)
        except Exception as ex:
            notjudged[type(ex).__name__] = notjudged.get(type(ex).__name__, 0) + 1
            ctx.notes.append(f"{name}/Newton: ended loudly with {type(ex).__name__}: {str(ex)[:120]} (not judged here)")
            continue
        runs["Newton"] = runs.get("Newton", 0) + 1
        for i, (t, q, la_g, la_c, la_N) in enumerate(points_of(sol, system)):
            rec = residual_record(system, "Newton", t, q, la_g, la_c, la_N, 0, dict(problem=name, frame="unmoved"), scale)
            rec["step"] = i
            add(rec, dict(problem=name, solver="Newton", step=i, t=t, vals=rec["vals"]))
    if len(records) < 4:
        raise tlc.MachineryError(f"only {len(records)} static records were produced ({notjudged})")
    c1 = copy.deepcopy(records[0]); c1["id"] = 0; c1["violated"] = ["equilibrium"]
    c2 = copy.deepcopy(records[0]); c2["id"] = -1; c2["violated"] = ["frame"]
    bad, rt = batch_validate(ctx, "Scheme", records + [c1, c2], {"Mode": '"trace"'}, "static_trace")
    if bad.pop(0, None) is None or bad.pop(-1, None) is None:
        raise tlc.MachineryError("self-test failed: a record with a violated enforced block was accepted by the trace specification")
    for rid, clause in bad.items():
        w = wheres[rid]
        ctx.violation(f"{w['solver']}:{w['problem']}:{clause}", f"{clause}: {w}", w)
    nb = sum(1 for r in records if r["borderline"])
    ctx.log(f"[C23] {nearly} of 3 hard Newton runs stopped early (their rows are judged)")
    ctx.log(f"[C23] static runs per solver {runs}; {len(records)} returned points / frame pairs judged by TLC, {len(bad)} rejected, {nb} borderline; "
            f"runs that ended loudly (not judged): {notjudged}")
    nontrivial = {(r["solver"], repr(sorted(r["tag"].items())), r["step"]) for r in records if r["step"] > 0}
    ctx.coverage = {"evaluations": len(records), "distinct_nontrivial": len(nontrivial),
                    "rule": "every returned load step / arc-length point of every static run is one record (the residual blocks evaluated from the returned Solution) judged by "
                            "TLC's trace mode of Scheme.tla, plus one record per problem solved in two frames; non-trivial = a point after the unloaded one; distinct by "
                            "(solver, problem, frame, step)",
                    "states": r_t.distinct + rt.distinct, "transitions": max(r_t.generated + rt.generated, 1), "traces_validated_against_impl": len(records),
                    "samples": [{k: records[-1][k] for k in ("solver", "step", "vals", "tag")}], "runs": runs, "borderline": nb, "not_judged": notjudged}
    ctx.assumptions = ["solver tolerance 1e-8, absolute (the relative part of the default tolerance depends on the placement through |x|, and with it the iteration counts that steer the "
                       "arc-length steps: with the default, rotated problems are traced at other load parameters; not judged); a block is 'ok' below 1e-6 (equilibrium relative to the load scale), 'violated' above 1e-4, not judged in between; the frame block is "
                       "'ok' below 1e-6, 'violated' above 1e-4",
                       "runs that raise or stop early are not judged here (C21 decides that they say so); the rows they return are judged",
                       "loads are small enough for a unique equilibrium branch (tip deflections of a few tenths of the rod length)"]


def replay(ctx, path):
    run(ctx)
