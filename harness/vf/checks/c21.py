"""C21 Non-convergence is never silent.

Decide: spec/SolverRun.tla -- the intended failure policy as a transition system over recorded events
        (Begin / Site(ok) / Warn(namesT) / Accept / End); TLC explores every fault plan up to the budget for
        all solvers, both option values and representative part sets and checks NeverSilent,
        OnlyConvergedRowsWithoutCWU, NoSilentIgnore, RowsMatch.
Bind:   fault enumeration on the real solvers: for every solver x scenario x option value, every occurrence
        of every site seen in a fault-free run (and pairs under continue_with_unconverged) is forced to fail
        through the guarded hooks (fsolve gets a one-step budget and unreachable tolerances, so the real
        non-convergence path incl. its warning runs; fixed-point decisions are flipped at the gate); the
        recorded run (sites, warnings in order, accepted steps, outcome) is validated by TLC against
        spec/TraceSolverRun.tla.  Capability cases: solvers on systems with parts they do not treat.
"""
from __future__ import annotations

import itertools

import numpy as np

from .. import tlc, runs
from .. import scenarios as S

DT = 1.0 / 64
RIKS_MAX = 12      # upper bound of the arc-length steps (NSteps of the model for Riks)


def _solvers():
    from cardillo.solver import Moreau, BackwardEuler, Rattle, DualStormerVerlet, ScipyIVP, ScipyDAE, Newton, Riks

    return {"Moreau": Moreau, "BackwardEuler": BackwardEuler, "Rattle": Rattle, "DualStormerVerlet": DualStormerVerlet,
            "ScipyIVP": ScipyIVP, "ScipyDAE": ScipyDAE, "Newton": Newton, "Riks": Riks}


T0 = 0.4375      # a start time whose grid values cannot be mistaken for iteration counts in warning texts

SCENARIOS = {
    "pendulum": lambda: S.sys_pendulum(t0=T0, omega0=1.0),
    "mass_spring": lambda: S.sys_mass_spring(t0=T0),
    "ball": lambda: S.sys_ball_on_plane(t0=T0, mu=0.3, vx=1.0),
    "falling_ball": lambda: S.sys_ball_on_plane(t0=T0, mu=0.0, gap=0.002, vx=0.0, vz=-0.2, rigid=False),
    "impact_friction": lambda: S.sys_ball_on_plane(t0=T0, mu=0.5, gap=0.002, vx=1.0, vz=-0.5, rigid=True, e_N=0.5),
    "motor": lambda: S.sys_pendulum(t0=T0, motor=True),
}
DYNAMIC = ["Moreau", "BackwardEuler", "Rattle", "DualStormerVerlet", "ScipyIVP", "ScipyDAE"]


def _make(solver_name, system, nsteps, cwu, extra=None, **optkw):
    from cardillo.solver import SolverOptions

    Sv = _solvers()[solver_name]
    if solver_name == "Newton":
        return lambda: Sv(system, n_load_steps=nsteps - 1, verbose=False, options=SolverOptions(continue_with_unconverged=cwu))
    if solver_name == "Riks":
        import numpy as np
        return lambda: Sv(system, la_arc0=0.2, la_arc_span=np.array([0.0, 1.0]), max_load_steps=RIKS_MAX, options=SolverOptions(continue_with_unconverged=cwu))
    if solver_name in ("ScipyIVP", "ScipyDAE"):
        return lambda: Sv(system, system.t0 + nsteps * DT, DT, **(extra or {}))
    return lambda: Sv(system, system.t0 + nsteps * DT, DT, options=SolverOptions(continue_with_unconverged=cwu, **optkw))


def _plans(baseline_raw, cwu, nsteps, thorough, solver_name=""):
    """fault plans from the sites seen in the fault-free run: every single occurrence, and pairs under cwu"""
    occ = {}
    for r in baseline_raw:
        if r["e"] == "site" and r["site"] != "integrator":
            occ.setdefault(r["site"], []).append(r["occ"])
    if "Newton" == solver_name:
        # the first load step (load factor 0) starts at the exact solution: nothing to fail there; and its
        # time 0.0 cannot be told from other zeros in a warning text
        occ = {s: [o for o in os_ if o >= 2] for s, os_ in occ.items()}
    singles = [(s, o) for s, os_ in occ.items() for o in os_]
    plans = [{s: [o]} for s, o in singles]
    if cwu:
        pairs = list(itertools.combinations(singles, 2))
        if not thorough:
            pairs = pairs[:: max(1, len(pairs) // 6)]
        for (s1, o1), (s2, o2) in pairs:
            d = {}
            d.setdefault(s1, []).append(o1)
            d.setdefault(s2, []).append(o2)
            plans.append(d)
    return plans


def run(ctx):
    ctx.level = "fault_enumeration"
    # 1. the policy itself, all fault plans, model checked
    import os
    cfg = os.path.join(ctx.scratch, "solverrun.cfg")
    with open(cfg, "w") as f:
        f.write('SPECIFICATION Spec\nCONSTANTS\n  Solvers = {"Moreau", "BackwardEuler", "Rattle", "DualStormerVerlet", "Newton", "Riks", "ScipyIVP", "ScipyDAE"}\n'
                f'  PartSets = "{"all" if ctx.thorough else "some"}"\n  MaxSteps = {4 if ctx.thorough else 3}\n  MaxFaults = {3 if ctx.thorough else 2}\n'
                "INVARIANT NeverSilent\nINVARIANT OnlyConvergedRowsWithoutCWU\nINVARIANT NoSilentIgnore\nINVARIANT RowsMatch\nCONSTRAINT Bounded\n")
    r = tlc.run_tlc("SolverRun", cfg, scratch=ctx.scratch, timeout=3000, coverage=True)
    tlc.require_ok(r, "SolverRun model check")
    if r.violated:
        ctx.violation(f"spec:{r.violated}", f"TLC: {r.violated} violated by the policy", {"stdout": r.stdout[-3000:]})
    for a in ("Site", "Warn", "Accept", "EndReturned", "EndRaised", "Begin"):
        if a in r.coverage and r.coverage[a][1] == 0:
            raise tlc.MachineryError(f"action {a} never taken in the model: vacuous")
    ctx.log(f"[C21] policy model: {r.distinct} states, depth {r.depth}")
    # 2. fault enumeration on the real solvers
    nsteps = 3
    all_runs = []     # (tid, Run, description)
    tid = 0
    combos = []
    for sc, mk in SCENARIOS.items():
        for sn in DYNAMIC:
            combos.append((sc, mk, sn))
    combos.append(("static", lambda: S.sys_static_spring(True), "Newton"))
    combos.append(("static_c", lambda: S.sys_static_spring(False), "Newton"))
    combos.append(("static", lambda: S.sys_static_spring(True), "Riks"))
    combos.append(("static_c", lambda: S.sys_static_spring(False), "Riks"))
    n_injected = 0
    n_not_injectable = 0
    for sc, mk, sn in combos:
        for cwu in (False, True):
            if sn in ("ScipyIVP", "ScipyDAE") and cwu:
                continue          # the wrappers have no such option
            ns = nsteps + 1 if sn == "Newton" else (RIKS_MAX + 1 if sn == "Riks" else nsteps)
            try:
                system = mk()
            except Exception as ex:
                raise tlc.MachineryError(f"scenario {sc} does not assemble: {type(ex).__name__}: {ex}")
            base = runs.record_run(_make(sn, system, ns, cwu), system, sn, cwu, ns)
            tid += 1
            all_runs.append((tid, base, {"scenario": sc, "solver": sn, "cwu": cwu, "faults": {}}))
            for plan in _plans(base.raw, cwu, ns, ctx.thorough, sn):
                system = mk()
                rr = runs.record_run(_make(sn, system, ns, cwu), system, sn, cwu, ns, faults=plan)
                hit = [x for x in rr.raw if x["e"] == "site" and (x.get("injected") or (x["site"] == "fsolve" and x["occ"] in plan.get("fsolve", ()) and not x["ok"]))]
                if not hit:
                    n_not_injectable += 1      # e.g. the initial guess of that solve is the exact solution
                    continue
                tid += 1
                n_injected += 1
                all_runs.append((tid, rr, {"scenario": sc, "solver": sn, "cwu": cwu, "faults": plan}))
    # 3. the integrator site of the adaptive wrappers: a right-hand side that stops being finite
    for sn in ("ScipyIVP", "ScipyDAE"):
        system = S.sys_blowup(tc=0.105)
        rr = runs.record_run(lambda: _solvers()[sn](system, 0.2, 0.01), system, sn, False, 20)
        if not any(x["e"] == "site" and not x["ok"] for x in rr.raw):
            raise tlc.MachineryError(f"the blow-up scenario did not make {sn}'s integrator fail")
        tid += 1
        all_runs.append((tid, rr, {"scenario": "blowup", "solver": sn, "cwu": False, "faults": {"integrator": "right-hand side not finite for t > 0.105"}}))
    # 4. implicit fixed-step solvers on a right-hand side that stops being finite: the solve of that step cannot converge
    for sn in ("BackwardEuler", "Rattle"):
        for cwu in (False, True):
            for reuse in (True, False):
                system = S.sys_blowup(t0=T0, tc=T0 + 2.5 * DT)
                rr = runs.record_run(_make(sn, system, 5, cwu, reuse_lu_decomposition=reuse, fixed_point_max_iter=30), system, sn, cwu, 5)
                tid += 1
                all_runs.append((tid, rr, {"scenario": f"blowup(reuse_lu={reuse})", "solver": sn, "cwu": cwu,
                                           "faults": {"rhs": "not finite after 2.5 steps"}}))
    # 5. failures that need no injection, watched by independent observers of the helpers (site "unmet"): a static problem without equilibrium
    #    solved with the pseudo-inverse linear solvers, and a fast-spinning body whose implicit mid-point equation is no contraction
    from cardillo.math.fsolve import pinv_solve, svd_solve
    from cardillo.solver import SolverOptions, Newton, DualStormerVerlet
    n_natural = 0
    for cwu in (False, True):
        for lname, lsolve in (("pinv_solve", pinv_solve), ("svd_solve", lambda A, b: svd_solve(A, b, verbose=False))):
            for net in (True, False):
                system = S.sys_free_spring_pair(net=net)
                mk_ = lambda system=system, lsolve=lsolve, cwu=cwu: Newton(system, n_load_steps=3, verbose=False, options=SolverOptions(linear_solver=lsolve, continue_with_unconverged=cwu))
                rr = runs.record_run(mk_, system, "Newton", cwu, 4, observe=True)
                tid += 1; n_natural += 1
                all_runs.append((tid, rr, {"scenario": f"free spring pair ({'net load: no equilibrium' if net else 'self-equilibrated load'}), linear_solver={lname}", "solver": "Newton", "cwu": cwu,
                                           "faults": {"natural": "no injection"} if net else {}}))
        for omega, kw, theta in (((30.0, 30.0, 30.0), {}, (0.7, 1.3, 2.1)), ((6.0, 5.0, 6.0), dict(fixed_point_max_iter=8, fixed_point_atol=1e-10, fixed_point_rtol=1e-10), (0.7, 1.3, 2.1)),
                                 ((6.0, 5.0, 6.0), dict(fixed_point_max_iter=8, fixed_point_atol=1e-10, fixed_point_rtol=1e-10), (1.0, 1.0, 1.0)),     # no gyroscopic term: only the kinematic loop is hard
                                 ((30.0, 30.0, 30.0), dict(fixed_point_max_iter=50), (1.0, 1.0, 1.0)), ((0.3, 0.2, 0.1), {}, (0.7, 1.3, 2.1))):
            system = S.sys_spinning_body(omega=omega, t0=T0, theta=theta)
            mk_ = lambda system=system, cwu=cwu, kw=kw: DualStormerVerlet(system, system.t0 + 3 * 0.1, 0.1, options=SolverOptions(continue_with_unconverged=cwu, **kw))
            rr = runs.record_run(mk_, system, "DualStormerVerlet", cwu, 3, observe=True)
            tid += 1; n_natural += 1
            all_runs.append((tid, rr, {"scenario": f"spinning body omega={omega} inertia={theta} dt=0.1 {kw}", "solver": "DualStormerVerlet", "cwu": cwu,
                                       "faults": {"natural": "no injection"} if omega[0] > 1 else {}}))
    verdicts, rt = runs.validate_traces(ctx, [(t, r_) for t, r_, _ in all_runs])
    nbad = 0
    for t, r_, d in all_runs:
        if t in verdicts:
            line, clause = verdicts[t]
            nbad += 1
            sites = sorted(d["faults"]) if isinstance(d["faults"], dict) else []
            key = f"{d['solver']}:{d['scenario']}:cwu={d['cwu']}:{'+'.join(sites) if sites else 'nofault'}:{_short(clause)}"
            ctx.violation(key, f"{d['solver']} on '{d['scenario']}' (continue_with_unconverged={d['cwu']}, injected {d['faults']}): {clause}; "
                          f"outcome {r_.events[-1]}; warnings {r_.warn_texts[:3]}",
                          {"description": d, "events": r_.events, "warnings": r_.warn_texts})
    ctx.log(f"[C21] {len(all_runs)} recorded runs ({n_injected} with injected faults, {n_natural} scenarios that fail without injection, watched by independent observers) validated by TLC: {nbad} rejected")
    samples = [{"desc": d, "events": [(e["e"], e.get("site"), e.get("ok")) for e in r_.events][:16]} for _, r_, d in all_runs if d["faults"]][:3]
    nontrivial = len({(d["solver"], d["scenario"], d["cwu"], str(d["faults"])) for _, _, d in all_runs if d["faults"]})
    per_solver = {}
    for _, r_, d in all_runs:
        k = d["solver"] + (":faulty" if d["faults"] else ":fault-free")
        per_solver[k] = per_solver.get(k, 0) + 1
    ctx.coverage = {"evaluations": len(all_runs), "distinct_nontrivial": nontrivial, "samples": samples, "runs_per_solver": per_solver,
                    "rule": "one execution per (solver, scenario, option value, fault plan); plans = every occurrence of every site of the "
                            "fault-free run, pairs under continue_with_unconverged; non-trivial = at least one injected or provoked fault; "
                            "every execution is validated by TLC against TraceSolverRun",
                    "states": r.distinct + rt.distinct, "transitions": r.generated + rt.generated,
                    "traces_validated_against_impl": len(all_runs), "exhaustive": True, "plans_not_injectable": n_not_injectable,
                    "policy_action_coverage": {k: v[1] for k, v in r.coverage.items() if k[0].isupper()}}
    ctx.assumptions = ["runs of 3 steps (4 load steps) of 1-2 body systems; sites beyond step 3 behave like those before",
                       "a warning counts for the step in whose window it is emitted; warnings not raised from cardillo code and a fixed list of unrelated ones are ignored",
                       "'names the time': a number in the warning text equals the time of the last accepted step",
                       "DualStormerVerlet has no gated sites (its helpers raise by themselves, see C22); its helpers and fsolve are watched by observers that re-evaluate the helper's criterion at the "
                       "returned point (site 'unmet'; the fixed-point helpers with a slack factor of 10, a failed loop misses by orders of magnitude)"]


def _short(clause):
    return clause[:60].replace(" ", "_")


def replay(ctx, path):
    run(ctx)
