"""C02 Rotation charts invert each other on their whole domain.

Decide: spec/RotationCharts.tla -- the lattice of exact rational rotations R = N(P)/|P|^2 (incl. exact half-turns and rotations
        within 0.01 rad of a half-turn); Spurrier's algorithm with the square root factored out is integer arithmetic, and TLC checks
        for every lattice quaternion and every admissible branch (ties in the branch selection included) that it returns +-P/|P|.
Bind:   every lattice rotation is fed to the real Spurrier (scaled output must be one of the spec's admissible integer vectors),
        Log_SO3 / Exp_SO3 / Log_SE3 / Exp_SE3 (round trips against the spec's exact matrix and against the rotation vector
        psi(P) = 2 atan2(|p|, p0) p/|p| computed by the harness), T_SO3 / T_SO3_inv (product = identity for |psi| in [0, 2 pi),
        columns of T_SO3 = body-fixed spin of Exp_SO3 by central differences); float matrices at distances 1e-3 ... 1e-16 around
        the exact half-turns are added.  The transcendental clauses are judged by float comparison in the harness (exploration);
        the Spurrier clause is model checking.
"""
from __future__ import annotations

import numpy as np

from ..cases import enumerate_cases
from ..lattice import quat_N, quat_to_matrix


def psi_of(P):
    """rotation vector of norm <= pi of the rotation R(P) (libm trusted)"""
    P = np.asarray(P, dtype=float)
    if P[0] < 0:
        P = -P
    nrm = np.linalg.norm(P[1:])
    if nrm == 0.0:
        return np.zeros(3)
    return 2.0 * np.arctan2(nrm, P[0]) * P[1:] / nrm


def axial(M):
    return 0.5 * np.array([M[2, 1] - M[1, 2], M[0, 2] - M[2, 0], M[1, 0] - M[0, 1]])


class Judge:
    def __init__(self, ctx):
        self.ctx = ctx
        self.n = 0

    def close(self, key, what, got, exp, where, tol):
        self.n += 1
        try:
            got = np.asarray(got, dtype=float)
        except Exception as ex:
            self.ctx.violation(key + ":type", f"{what}: {type(ex).__name__}: {ex} at {where}", where)
            return False
        exp = np.asarray(exp, dtype=float)
        if got.shape != exp.shape or not np.all(np.isfinite(got)) or np.max(np.abs(got - exp)) > tol:
            dev = np.max(np.abs(got - exp)) if got.shape == exp.shape else float("nan")
            self.ctx.violation(key, f"{what}: deviation {dev:.3e} > {tol:.1e} at {where}", where)
            return False
        return True


def rotation_checks(ctx, J, R, Pref, where, kind, outs=None, s=None, log_value=True):
    """the clauses for one rotation matrix R (float), whose quaternion is Pref (float, any length)"""
    from cardillo.math import rotations as rot

    k = kind
    try:
        Q = rot.Spurrier(R.copy())
        J.close(f"{k}:Spurrier:unit", "Spurrier(R) is not a unit quaternion", [Q @ Q], [1.0], where, 1e-12)
        J.close(f"{k}:Spurrier:reproduces", "Exp_SO3_quat(Spurrier(R)) != R", rot.Exp_SO3_quat(Q.copy()), R, where, 1e-12)
        if outs is not None:
            sc = Q * np.sqrt(s)
            if not any(np.max(np.abs(sc - np.array(o, dtype=float))) <= 1e-9 * (1 + np.sqrt(s)) for o in outs):
                ctx.violation(f"{k}:Spurrier:value", f"Spurrier(R) * |P| = {np.round(sc, 9).tolist()} is none of the admissible outputs {sorted(list(o) for o in outs)} at {where}", where)
        psi = psi_of(Pref)
        J.close(f"{k}:Exp_SO3", "Exp_SO3(psi(P)) != R(P)", rot.Exp_SO3(psi.copy()), R, where, 1e-12)
        L = rot.Log_SO3(R.copy())
        J.close(f"{k}:Exp(Log)", "Exp_SO3(Log_SO3(R)) != R", rot.Exp_SO3(np.asarray(L, dtype=float)), R, where, 1e-9)
        if log_value:
            J.close(f"{k}:Log_SO3", "Log_SO3(Exp(psi)) != psi", L, psi, where, 1e-9)
        # SE(3)
        for r in (np.array([1.0, -2.0, 3.0]), np.array([0.0, 0.5, 0.0])):
            H = rot.SE3(R.copy(), r.copy())
            h = rot.Log_SE3(H.copy())
            J.close(f"{k}:Exp_SE3(Log_SE3)", "Exp_SE3(Log_SE3(H)) != H", rot.Exp_SE3(np.asarray(h, dtype=float)), H, where, 1e-8)
            if log_value:
                hh = np.concatenate([r, psi])
                J.close(f"{k}:Log_SE3(Exp_SE3)", "Log_SE3(Exp_SE3(h)) != h", rot.Log_SE3(rot.Exp_SE3(hh.copy())), hh, where, 1e-8)
    except Exception as ex:
        ctx.violation(f"{k}:raises:{type(ex).__name__}", f"{type(ex).__name__}: {ex} at {where}", where)


def tangent_checks(ctx, J, psi, where, kind):
    from cardillo.math import rotations as rot

    try:
        T = rot.T_SO3(psi.copy()); Ti = rot.T_SO3_inv(psi.copy())
        tol = 1e-8 * (1 + np.max(np.abs(Ti))) ** 2
        J.close(f"{kind}:T*Tinv", "T_SO3 @ T_SO3_inv != I", T @ Ti, np.eye(3), where, tol)
        J.close(f"{kind}:Tinv*T", "T_SO3_inv @ T_SO3 != I", Ti @ T, np.eye(3), where, tol)
        # columns of T_SO3: body-fixed spin of Exp_SO3 for the increment e_k (central difference of the code's own Exp_SO3)
        A = rot.Exp_SO3(psi.copy())
        h = 1e-6
        for kx in range(3):
            e = np.zeros(3); e[kx] = h
            dA = (rot.Exp_SO3(psi + e) - rot.Exp_SO3(psi - e)) / (2 * h)
            J.close(f"{kind}:T:spin", "T_SO3(psi) e_k is not the body-fixed spin of Exp_SO3 along e_k", T[:, kx], axial(A.T @ dA), where, 2e-8)
    except Exception as ex:
        ctx.violation(f"{kind}:raises:{type(ex).__name__}", f"{type(ex).__name__}: {ex} at {where}", where)


def purity(ctx):
    """the charts are functions of the argument's VALUE: a buffer (or a view into one) that is updated in place between two calls must
    give the result of the new value; arguments are not modified"""
    from cardillo.math import rotations as rot

    psis = [np.array(v, dtype=float) for v in ([0.3, -0.2, 0.5], [0.3, -0.2, 0.5], [1.0, 2.0, -1.5], [0.0, 0.0, 0.0], [3.0, 0.2, -0.4], [1e-7, 0, 0], [0.3, -0.2, 0.5])]
    n = 0
    vec_fns = [("Exp_SO3", rot.Exp_SO3), ("T_SO3", rot.T_SO3), ("T_SO3_inv", rot.T_SO3_inv), ("Exp_SO3_psi", rot.Exp_SO3_psi), ("T_SO3_psi", rot.T_SO3_psi)]
    for name, f in vec_fns:
        # expected values first (fresh arrays), then an uninterrupted sequence of calls on ONE buffer that is updated in place
        fresh = [np.array(f(v.copy()), dtype=float) for v in psis]
        buf = np.zeros(3)
        for v, exp in zip(psis, fresh):
            buf[:] = v
            got = np.array(f(buf), dtype=float)
            n += 1
            if not np.array_equal(got, exp) or not np.array_equal(buf, v):
                ctx.violation(f"purity:{name}", f"{name} on a buffer updated in place to {v.tolist()} returned the result of another value (or modified its argument)", {"psi": v.tolist()})
                break
    # screws: the rotational part is a view into the buffer
    fresh = [np.array(rot.Exp_SE3(np.concatenate([[1.0, -2.0, 0.5], v]))) for v in psis]
    h = np.zeros(6)
    h[:3] = [1.0, -2.0, 0.5]
    for v, exp in zip(psis, fresh):
        h[3:] = v
        got = np.array(rot.Exp_SE3(h))
        n += 1
        if not np.array_equal(got, exp):
            ctx.violation("purity:Exp_SE3", f"Exp_SE3 on a buffer whose rotational part was updated in place to {v.tolist()} returned the result of another value", {"psi": v.tolist()})
            break
    # matrices
    mats = [rot.Exp_SO3(v.copy()) for v in psis]
    for name, f, shape, mk in (("Log_SO3", rot.Log_SO3, (3, 3), lambda M: M), ("Spurrier", rot.Spurrier, (3, 3), lambda M: M),
                               ("Log_SE3", rot.Log_SE3, (4, 4), lambda M: rot.SE3(M, np.array([0.5, 1.0, -1.0])))):
        args = [np.array(mk(M), dtype=float) for M in mats]
        fresh = [np.array(f(a.copy()), dtype=float) for a in args]
        buf = np.zeros(shape)
        for a, exp, v in zip(args, fresh, psis):
            buf[:, :] = a
            got = np.array(f(buf), dtype=float)
            n += 1
            if not np.array_equal(got, exp) or not np.array_equal(buf, a):
                ctx.violation(f"purity:{name}", f"{name} on a buffer updated in place returned the result of another value (or modified its argument) at psi={v.tolist()}", {"psi": v.tolist()})
                break
    return n


def typed_arguments(ctx, which):
    """the maps are functions of the VALUE of their argument: a rotation vector, screw or matrix typed as integers (np.array([0, 0, 1])) gives what the same
    numbers typed as floats give.  which: "maps" (C02) or "derivatives" (C03)"""
    from cardillo.math import rotations as R

    psis = [np.array(v) for v in ((0, 0, 1), (1, -1, 2), (0, 2, 0), (0, 0, 0))]
    hs = [np.array(v) for v in ((1, 2, 3, 0, 0, 1), (0, -1, 2, 1, 1, 0), (2, 0, 0, 0, 0, 0))]
    As = [np.array(v) for v in (((0, -1, 0), (1, 0, 0), (0, 0, 1)), ((1, 0, 0), (0, 1, 0), (0, 0, 1)), ((0, 0, 1), (1, 0, 0), (0, 1, 0)))]
    Hs = []
    for A_, r_ in zip(As, ((1, 2, 3), (0, 0, 0), (-1, 0, 2))):
        H = np.eye(4, dtype=int); H[:3, :3] = A_; H[:3, 3] = r_
        Hs.append(H)
    Ps = [np.array(v) for v in ((1, 0, 0, 0), (1, 2, -1, 3), (0, 0, 0, 2))]
    table = {"maps": [("Exp_SO3", R.Exp_SO3, psis), ("T_SO3", R.T_SO3, psis), ("T_SO3_inv", R.T_SO3_inv, psis), ("Log_SO3", R.Log_SO3, As), ("Exp_SE3", R.Exp_SE3, hs),
                      ("Log_SE3", R.Log_SE3, Hs), ("Exp_SO3_quat", R.Exp_SO3_quat, Ps), ("Spurrier", R.Spurrier, As), ("T_SO3_quat", R.T_SO3_quat, Ps), ("T_SO3_inv_quat", R.T_SO3_inv_quat, Ps)],
             "derivatives": [("Exp_SO3_psi", R.Exp_SO3_psi, psis), ("T_SO3_psi", R.T_SO3_psi, psis), ("T_SO3_inv_psi", R.T_SO3_inv_psi, psis), ("Log_SO3_A", R.Log_SO3_A, As),
                             ("Exp_SE3_h", R.Exp_SE3_h, hs), ("Log_SE3_H", R.Log_SE3_H, Hs), ("Exp_SO3_quat_P", R.Exp_SO3_quat_P, Ps), ("T_SO3_quat_P", R.T_SO3_quat_P, Ps),
                             ("T_SO3_dot", lambda x: R.T_SO3_dot(x, np.array([1, 0, -2])), psis)]}[which]
    n = 0
    for name, f, args in table:
        for a in args:
            n += 1
            where = {"routine": name, "argument": a.tolist(), "typed as": "integers"}
            try:
                rf = np.asarray(f(a.astype(float)), dtype=float)
            except Exception:
                continue            # not in the routine's domain as floats either: nothing to compare
            try:
                ri = np.asarray(f(a.copy()))
            except Exception as ex:
                ctx.violation(f"typed:{name}:raises", f"{name} raises {type(ex).__name__}: {ex} for the argument {a.tolist()} typed as integers (as floats it returns a value)", where)
                break
            if ri.shape != rf.shape or not np.allclose(np.asarray(ri, dtype=float), rf, rtol=0, atol=1e-14):
                ctx.violation(f"typed:{name}", f"{name} of {a.tolist()} typed as integers returns {np.asarray(ri).tolist()}, typed as floats {np.round(rf, 12).tolist()}", where)
                break
    return n


def run(ctx):
    ctx.level = "exploration"
    gmax = 3 if ctx.thorough else 2
    J = Judge(ctx)
    states = trans = 0
    counts = {"grid": 0, "halfturn": 0, "perturbed": 0, "tangent": 0}
    samples = []
    distinct = set()      # distinct rotations (as the axis-angle vector, rounded) that are not the identity
    for points in ("grid", "halfturn"):
        r, cases = enumerate_cases(ctx, "RotationCharts", {"GMax": gmax, "Points": f'"{points}"'}, invariants=("SpurrierOK", "DivisionsExact"), tag=f"rc_{points}")
        states += r.distinct; trans += r.generated
        for st in cases:
            P = np.array(st["P"], dtype=float)
            e = st["expected"]
            s = float(e["s"])
            R = np.array(e["N"], dtype=float) / s
            where = {"P": st["P"]}
            kind = "half-turn" if e["half"] else ("near-half-turn" if points == "halfturn" else "lattice")
            rotation_checks(ctx, J, R, P, where, kind, outs=[tuple(o) for o in e["outs"]], s=s, log_value=not e["half"])
            counts[points] += 1
            # tangent maps: at psi(P) (|psi| <= pi) and stretched into (pi, 2 pi)
            psi = psi_of(P)
            if np.linalg.norm(psi) > 1e-12:
                distinct.add(tuple(np.round(psi, 9)))
            if counts[points] % (1 if points == "halfturn" else 7) == 0 and np.linalg.norm(psi) > 0:
                n = psi / np.linalg.norm(psi)
                for ang in (np.linalg.norm(psi), 1e-4, 1e-9, 0.5 * (np.pi + np.linalg.norm(psi)), np.pi, 4.5, 6.0, 2 * np.pi - 1e-2):
                    tangent_checks(ctx, J, ang * n, {"P": st["P"], "angle": float(ang)}, "tangent")
                    counts["tangent"] += 1
            # float matrices around an exact half-turn
            if e["half"]:
                nrm = np.linalg.norm(P[1:])
                for eps in (1e-3, 1e-6, 1e-9, 1e-12, 1e-15, 3e-17, -1e-9, -1e-15):
                    Pe = P.copy(); Pe[0] = eps * nrm
                    Re = quat_to_matrix(Pe)
                    rotation_checks(ctx, J, Re, Pe, {"P": st["P"], "p0_over_|p|": eps}, "perturbed-half-turn", log_value=abs(eps) >= 1e-6)
                    counts["perturbed"] += 1
                    distinct.add(tuple(np.round(psi_of(Pe), 9)) + (eps,))
            if len(samples) < 3 and (e["half"] or counts[points] % 211 == 0):
                samples.append({"P": st["P"], "s": e["s"], "admissible_spurrier_outputs": sorted(list(o) for o in e["outs"])})
    tangent_checks(ctx, J, np.zeros(3), {"psi": [0, 0, 0]}, "tangent")
    counts["purity_histories"] = purity(ctx)
    ctx.log(f"[C02] lattice rotations {counts}; {J.n} float comparisons")
    counts["typed"] = typed_arguments(ctx, "maps")
    ctx.coverage = {"evaluations": sum(counts.values()), "distinct_nontrivial": len(distinct),
                    "states": states, "transitions": max(trans, 1), "traces_validated_against_impl": sum(counts.values()), "samples": samples,
                    "exhaustive": True, "counts": counts, "comparisons": J.n, "grid": f"-{gmax}..{gmax}",
                    "rule": "all nonzero integer quaternions of the grid + 17 exact / near half-turns with components up to 100; 8 float perturbations per exact half-turn; "
                            "tangent maps at 8 angles in [1e-9, 2 pi - 1e-2] along every 7th lattice axis; evaluations = rotations, tangent points and purity histories "
                            "evaluated; distinct_nontrivial = distinct rotation vectors (rounded to 1e-9, perturbed half-turns counted per perturbation) other than the identity"}
    ctx.assumptions = ["the matrix handed to the routines is N(P)/s rounded once per entry (exact rational rotation up to 1 ulp)",
                       "libm's atan2/sin/cos are trusted for the oracle psi(P)",
                       "tolerances: 1e-12 for Exp_SO3 / Spurrier, 1e-9 for round trips through Log_SO3, 1e-8 for SE(3), 2e-8 for the spin by central differences; "
                       "Log_SO3 = psi is judged for rotations at least 1e-6 rad away from a half-turn (closer, the sign of psi is not determined by the matrix)"]


def replay(ctx, path):
    run(ctx)
