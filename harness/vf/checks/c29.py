"""C29 VTK export writes what was simulated.

Decide: spec/Export.tla -- the export protocol: frame selection (every frac-th row), collection names made unique among name, name1,
        name2, ... (names are token sequences so that a derived name can coincide with a requested one), one data file per frame named
        after the collection; TLC checks Listed / NoClobber for every sequence of calls up to the bound and rejects the design in which
        only the collection name is unique.
Bind:   (code -> spec) seeded random systems (tumbling rigid bodies, point masses, a moving frame, a meshed box, dead loads, a sphere-plane
        contact) are simulated; several Export sessions (random frame rates, binary / ASCII, repeated exports of the same contribution, lists,
        repeated file_name arguments) are run; the folder is read back with the VTK reader; per call the harness reports the collection
        entries and, per listed file, whether its content equals the contribution's geometry recomputed from the solution row (independent
        quaternion kinematics); TLC checks the protocol clauses on every call.
"""
from __future__ import annotations

import contextlib
import json
import io
import os
import shutil
import warnings
from xml.dom import minidom

import numpy as np

from .. import tlc
from ..lattice import quat_to_matrix
from ..runs import batch_validate
from ..scenarios import rand_unit_quat


@contextlib.contextmanager
def _quiet():
    with contextlib.redirect_stdout(io.StringIO()), contextlib.redirect_stderr(io.StringIO()):
        yield


def make_solution(rng, nsteps, dt):
    from cardillo import System
    from cardillo.discrete import RigidBody, PointMass, Frame, Box
    from cardillo.forces import Force
    from cardillo.contacts import Sphere2Plane
    from cardillo.solver import Moreau, SolverOptions

    system = System()
    U = lambda a, b: rng.uniform(a, b)
    v3 = lambda s: np.array([U(-s, s) for _ in range(3)])
    rbs = []
    for i in range(2):
        q0 = np.concatenate([v3(1.0) + np.array([0, 0, 3.0 + i]), rand_unit_quat(rng)])
        rb = RigidBody(1.0 + i, np.diag([0.2, 0.5, 0.9]), q0=q0, u0=np.concatenate([v3(1.0), v3(3.0)]), name=f"rb{i}")
        rbs.append(rb)
    pms = [PointMass(1.0, q0=v3(1.0) + np.array([3.0, 0, 2.0]), u0=v3(1.0), name=f"pm{i}") for i in range(2)]
    a, b = v3(1.0), v3(1.0)
    P0, P1 = rand_unit_quat(rng), v3(0.5)
    def A(t):
        P = P0 + t * np.concatenate([[0.0], P1])
        return quat_to_matrix(P)
    frame = Frame(r_OP=lambda t: a + b * t, r_OP_t=lambda t: b, r_OP_tt=lambda t: np.zeros(3), A_IB=A, name="moving_frame")
    dims = np.array([0.4, 0.6, 1.0])
    box = Box(RigidBody)(dimensions=dims, density=2.0, q0=np.concatenate([v3(1.0) + np.array([-3.0, 0, 4.0]), rand_unit_quat(rng)]), u0=np.concatenate([v3(1.0), v3(2.0)]), name="box")
    # a ball that rolls/slides on the plane from the start under a growing load: the contact percussion changes from step to step
    ball = RigidBody(1.0, 0.01 * np.eye(3), q0=np.array([6.0, 0, 0.1, 1, 0, 0, 0]), u0=np.array([0.5, 0, 0.0, 0, 1.0, 0]), name="ball")
    contact = Sphere2Plane(system.origin, ball, mu=0.3, r=0.1, e_N=0.5, e_F=0.0, name="contact")
    F = v3(2.0)
    Boff = v3(0.3)
    force = Force(F, rbs[0], B_r_CP=Boff, name="load")
    grav = [Force(np.array([0, 0, -9.81 * b_.mass]), b_, name=f"grav_{b_.name}") for b_ in rbs + pms + [box, ball]]
    press = Force(lambda t: np.array([0.0, 0.0, -40.0 * t]), ball, name="press")
    system.add(*rbs, *pms, frame, box, ball, contact, force, press, *grav)
    with warnings.catch_warnings(), _quiet():
        warnings.simplefilter("ignore")
        system.assemble()
        sol = Moreau(system, nsteps * dt, dt, options=SolverOptions(fixed_point_atol=1e-10, fixed_point_rtol=1e-10)).solve()
    return system, sol, dict(rbs=rbs, pms=pms, frame=frame, box=box, dims=dims, ball=ball, contact=contact, force=force, F=F, Boff=Boff, frame_fun=(lambda t: a + b * t, lambda t: b, A))


# --------------------------------------------------------------------------------- expected geometry (independent of contr.export)
def exp_rigid(body, t, q, u):
    P = q[body.qDOF][3:]
    R = quat_to_matrix(P)
    uu = u[body.uDOF]
    return dict(points=[q[body.qDOF][:3]], cell=dict(v=[uu[:3]], Omega=[R @ uu[3:]], ex=[R[:, 0]], ey=[R[:, 1]], ez=[R[:, 2]]), point={})


def exp_point(pm, t, q, u):
    return dict(points=[q[pm.qDOF]], cell=dict(v=[u[pm.uDOF]]), point={})


def expected(kind, obj, parts, t, q, u):
    if kind == "rigid":
        return exp_rigid(obj, t, q, u)
    if kind == "point":
        return exp_point(obj, t, q, u)
    if kind == "frame":
        r, v, A = parts["frame_fun"]
        R = A(t)
        return dict(points=[r(t)], cell=dict(v=[v(t)], ex=[R[:, 0]], ey=[R[:, 1]], ez=[R[:, 2]]), point={})
    if kind == "box":
        P = q[obj.qDOF][3:]
        R = quat_to_matrix(P)
        d = parts["dims"] / 2
        corners = np.array([[sx * d[0], sy * d[1], sz * d[2]] for sx in (-1, 1) for sy in (-1, 1) for sz in (-1, 1)])
        return dict(points=[q[obj.qDOF][:3] + R @ c for c in corners], cell={}, point={}, unordered=True)
    if kind == "force":
        body = parts["rbs"][0]
        R = quat_to_matrix(q[body.qDOF][3:])
        return dict(points=[q[body.qDOF][:3] + R @ parts["Boff"]], cell=dict(F=[parts["F"]]), point={})
    if kind == "contact":
        ball = parts["ball"]
        c = q[ball.qDOF][:3]
        n = np.array([0.0, 0, 1.0])
        gN = c[2] - 0.1
        PN = parts["_P_N"][parts["_row"]][obj.la_NDOF]
        return dict(points=[c - 0.1 * n, c - n * (gN + 0.1)], cell=dict(g_N=[[gN]]), point=dict(P_N=[PN, PN]))
    if kind == "rod":
        # centerline points and directors at the exported frames, evaluated with the rod's own cross-section kinematics
        qb = q[obj.qDOF]
        num = obj._verif_num_frames
        pts, d1, d2, d3 = [], [], [], []
        for xi in np.linspace(0, 1, num=num):
            qp = qb[obj.local_qDOF_P(xi)]
            pts.append(np.asarray(obj.r_OP(t, qp, xi)))
            A = np.asarray(obj.A_IB(t, qp, xi))
            d1.append(A[:, 0]); d2.append(A[:, 1]); d3.append(A[:, 2])
        return dict(points=pts, cell={}, point=dict(d1=d1, d2=d2, d3=d3))
    if kind == "list":
        out = dict(points=[], cell={}, point={})
        for k2, o2 in obj:
            e = expected(k2, o2, parts, t, q, u)
            out["points"].extend(e["points"])
            for kk, vv in e["cell"].items():
                out["cell"].setdefault(kk, []).extend(vv)
            for kk, vv in e["point"].items():
                out["point"].setdefault(kk, []).extend(vv)
        return out
    raise ValueError(kind)


def read_vtu(path):
    import vtk
    from vtk.util.numpy_support import vtk_to_numpy

    rd = vtk.vtkXMLUnstructuredGridReader()
    rd.SetFileName(str(path))
    rd.Update()
    g = rd.GetOutput()
    pts = vtk_to_numpy(g.GetPoints().GetData()).astype(float) if g.GetNumberOfPoints() else np.zeros((0, 3))
    cd = {g.GetCellData().GetArrayName(i): np.atleast_2d(vtk_to_numpy(g.GetCellData().GetArray(i)).astype(float)) for i in range(g.GetCellData().GetNumberOfArrays())}
    pd = {g.GetPointData().GetArrayName(i): np.atleast_2d(vtk_to_numpy(g.GetPointData().GetArray(i)).astype(float)) for i in range(g.GetPointData().GetNumberOfArrays())}
    return pts, cd, g.GetNumberOfCells(), pd


def matches(found, exp, tol=2e-6):
    pts, cd, ncells, pd = found
    ep = np.array(exp["points"], dtype=float).reshape(-1, 3)
    if pts.shape != ep.shape:
        return False
    if exp.get("unordered"):
        a = pts[np.lexsort(np.round(pts, 4).T)]; b = ep[np.lexsort(np.round(ep, 4).T)]
    else:
        a, b = pts, ep
    if not np.all(np.abs(a - b) <= tol * (1 + np.abs(b))):
        return False
    for k, v in exp["cell"].items():
        if k not in cd:
            return False
        ev = np.array(v, dtype=float)
        got = cd[k].reshape(ev.shape) if cd[k].size == ev.size else None
        if got is None or not np.all(np.abs(got - ev) <= tol * (1 + np.abs(ev))):
            return False
    for k, v in exp["point"].items():
        if k not in pd:
            return False
        ev = np.array(v, dtype=float)
        got = pd[k].reshape(ev.shape) if pd[k].size == ev.size else None
        if got is None or not np.all(np.abs(got - ev) <= tol * (1 + np.abs(ev))):
            return False
    return True


def unique_name(used, name):
    n, i = name, 1
    while n in used:
        n = f"{name}{i}"
        i += 1
    return n


def session(ctx, rng, system, sol, parts, records, wheres, sid, ascii_mode, calls=None):
    from cardillo.visualization import Export

    t = np.asarray(sol.t)
    rows = len(t)
    # a frame rate such that duration * fps is not close to an integer
    dur = float(t[-1] - t[0])
    # the binary session of every solution always thins the solution (every frac-th row, frac >= 2); the ASCII one may also keep every row or ask for more frames than rows
    k = rng.choice([x for x in (1, 2, 3, 5, rows // 2) if 1 <= x <= rows // 2] if not ascii_mode else [1, 2, 3, 5, rows // 2, rows, 2 * rows])
    fps = (k + 0.5) / dur
    target = int(dur * fps)
    base = os.path.join(ctx.scratch, f"export_{sid}")
    shutil.rmtree(base, ignore_errors=True)
    os.makedirs(base, exist_ok=True)
    with warnings.catch_warnings(), _quiet():
        warnings.simplefilter("ignore")
        ex = Export(base, "vtk", overwrite=True, fps=fps, solution=sol, write_ascii=ascii_mode)
    if calls is None:
        calls = default_calls(parts)
    calls = list(calls)
    rng.shuffle(calls)
    return _run_calls(ctx, rng, sol, parts, records, wheres, sid, ascii_mode, calls, ex, base, rows, target, fps, t)


def default_calls(parts):
    rb0, rb1 = parts["rbs"]
    pm0, pm1 = parts["pms"]
    return [
        ("rigid", rb0, rb0, {}), ("rigid", rb1, rb1, {}), ("rigid", rb0, rb0, {}),            # the same body twice
        ("list", [("point", pm0), ("point", pm1)], [pm0, pm1], {}),
        ("box", parts["box"], parts["box"], {}), ("rigid", parts["box"], parts["box"], {"base_export": True}),   # same contribution, two representations
        ("frame", parts["frame"], parts["frame"], {}),
        ("force", parts["force"], parts["force"], {}),
        ("contact", parts["contact"], parts["contact"], {}),
        ("rigid", rb1, rb1, {"file_name": "custom"}), ("point", pm0, pm0, {"file_name": "custom"}),              # the same file_name twice
        ("point", pm1, pm1, {"file_name": "custom1"}),                                                           # a literal name that is also the name a repeated "custom" is moved to
        ("list", [("rigid", rb1), ("rigid", rb0)], [rb1, rb0], {}),                                              # a list whose first element was exported before
    ]


def _run_calls(ctx, rng, sol, parts, records, wheres, sid, ascii_mode, calls, ex, base, rows, target, fps, t):
    used = set()
    meta = []
    for ci, (kind, spec_obj, arg, kw) in enumerate(calls, start=1):
        req = kw.get("file_name") or (arg[0].name if isinstance(arg, list) else arg.name)
        coll = unique_name(used, req)
        used.add(coll)
        err = None
        try:
            with warnings.catch_warnings(), _quiet():
                warnings.simplefilter("ignore")
                ex.export_contr(arg, **kw)
        except Exception as e:
            err = f"{type(e).__name__}: {e}"
        meta.append((ci, kind, spec_obj, req, coll, err, kw))
    folder = os.path.join(base, "vtk")
    frac = max(1, int(rows / max(1, target)))
    sel = list(range(0, rows, frac))
    q, u = np.asarray(sol.q), np.asarray(sol.u)
    parts["_P_N"] = np.asarray(getattr(sol, "P_N", np.zeros((rows, 0))))
    for ci, kind, spec_obj, req, coll, err, kw in meta:
        rid = len(records) + 1
        w = dict(session=sid, call=ci, kind=kind, requested_name=req, collection=coll, kwargs={k: str(v) for k, v in kw.items()}, fps=fps, rows=rows, ascii=ascii_mode)
        if err:
            ctx.violation(f"{kind}:export-raises", f"export_contr raised {err} for {w}", w)
            continue
        rec = dict(id=rid, call=ci, rows=rows, target=target, pvd_missing=False, entries=[], rowtimes6=[int(round(t[i] * 1e6)) for i in sel])
        pvd = os.path.join(folder, coll + ".pvd")
        if not os.path.exists(pvd):
            rec["pvd_missing"] = True
        else:
            dom = minidom.parse(pvd)
            for ei, ds in enumerate(dom.getElementsByTagName("DataSet")):
                f = os.path.join(folder, ds.getAttribute("file"))
                ent = dict(t6=int(round(float(ds.getAttribute("timestep")) * 1e6)), exists=os.path.exists(f), content_call=ci, content_frame=ei, content_ok=True)
                if ent["exists"]:
                    found = read_vtu(f)
                    row = sel[ei] if ei < len(sel) else None
                    parts["_row"] = row if row is not None else 0
                    ok = row is not None and matches(found, expected(kind, spec_obj, parts, t[row], q[row], u[row]))
                    if not ok:
                        ent["content_ok"] = False
                        # whose data is it?
                        for cj, kind2, obj2, _, _, _, _ in meta:
                            def _m(r2, kind2=kind2, obj2=obj2):
                                parts["_row"] = r2
                                return matches(found, expected(kind2, obj2, parts, t[r2], q[r2], u[r2]))
                            hit = next((fi for fi, r2 in enumerate(sel) if _m(r2)), None)
                            if hit is not None:
                                ent["content_call"], ent["content_frame"] = cj, hit
                                ent["content_ok"] = (cj == ci and hit == ei)
                                break
                rec["entries"].append(ent)
        records.append(rec)
        wheres[rid] = w
    shutil.rmtree(base, ignore_errors=True)
    return len(meta), len(sel)


def make_rod_solution(rng, rows):
    """two rods with the same number of exported frames but different discretisations, on a synthetic solution (smoothly deformed
    configurations; the export does not care where a Solution comes from)"""
    from cardillo import System
    from cardillo.rods import RectangularCrossSection, Simo1986, CrossSectionInertias
    from cardillo.rods.cosseratRod import make_CosseratRod
    from cardillo.solver import Solution, SolverOptions

    system = System()
    rods = []
    # rod_c: the degree and the frame count of rod_a on a mesh with twice as many elements (explicit ncells)
    for name, p, nel, r0 in (("rod_a", 2, 2, np.zeros(3)), ("rod_b", 1, 4, np.array([0.0, 1.0, 0.0])), ("rod_c", 2, 4, np.array([0.0, -1.0, 0.5]))):
        Rod = make_CosseratRod(interpolation="Quaternion", mixed=False, polynomial_degree=p)
        cs = RectangularCrossSection(0.1, 0.1)
        Q = Rod.straight_configuration(nel, 2.0, r_OP0=r0)
        rod = Rod(cs, Simo1986(np.array([5.0, 1.0, 1.0]), np.array([0.5, 2.0, 2.0])), nel, Q=Q, q0=Q.copy(), cross_section_inertias=CrossSectionInertias(1.0, cs), name=name)
        rod._export_dict["level"] = "centerline + directors"
        rod._verif_num_frames = p * nel + 1
        if name == "rod_c":
            rod._export_dict["ncells"] = 2
            rod._verif_num_frames = p * 2 + 1
        rods.append(rod)
    with warnings.catch_warnings(), _quiet():
        warnings.simplefilter("ignore")
        system.add(*rods)
        system.assemble(options=SolverOptions(compute_consistent_initial_conditions=False))
    t = 0.01 * np.arange(rows)
    amp = np.array([rng.uniform(-1, 1) for _ in range(system.nq)])
    q = np.array([system.q0 + 0.2 * np.sin(3.0 * tk + 0.5) * amp for tk in t])
    u = np.array([0.6 * np.cos(3.0 * tk + 0.5) * amp[: system.nu] if system.nu <= system.nq else np.zeros(system.nu) for tk in t])
    if u.shape[1] != system.nu:
        u = np.zeros((rows, system.nu))
    sol = Solution(system, t, q, u)
    return system, sol, dict(rods=rods)


def model_cfg(path, impl):
    with open(path, "w") as f:
        f.write(f'SPECIFICATION Spec\nCONSTANTS\n  Mode = "model"\n  Impl = "{impl}"\n  Names <- NamesDef\n  MaxCalls = 4\n  NFrames = 2\nINVARIANT ProtocolOK\nINVARIANT SelectionOK\n')


def run(ctx):
    ctx.level = "exploration"
    rng = ctx.rng
    cfg = os.path.join(ctx.scratch, "export_intended.cfg")
    model_cfg(cfg, "intended")
    r1 = tlc.run_tlc("Export", cfg, scratch=ctx.scratch, timeout=600)
    tlc.require_ok(r1, "Export intended")
    if r1.violated:
        ctx.violation(f"spec:{r1.violated}", "TLC: the intended export protocol violates its own property", {"stdout": r1.stdout[-2000:]})
    cfg2 = os.path.join(ctx.scratch, "export_shared.cfg")
    model_cfg(cfg2, "shared_data_names")
    r2 = tlc.run_tlc("Export", cfg2, scratch=ctx.scratch, timeout=600)
    if not r2.violated:
        raise tlc.MachineryError("the design with shared data file names was not rejected by TLC: the NoClobber property does not bite")
    records, wheres = [], {}
    nsess = 6 if ctx.thorough else 2
    ncalls = 0
    frames = []
    for sid in range(nsess):
        nsteps = rng.choice([7, 12, 20, 33])
        system, sol, parts = make_solution(rng, nsteps, 0.01)
        for ascii_mode in (False, True):
            nc, nf = session(ctx, rng, system, sol, parts, records, wheres, f"{sid}{'a' if ascii_mode else 'b'}", ascii_mode)
            ncalls += nc
            frames.append(nf)
    # rods: two rods with equal frame count and different meshes, exported one after the other (and as a list)
    for sid in range(nsess):
        rsys, rsol, rparts = make_rod_solution(rng, rng.choice([9, 14]))
        ra, rb, rc = rparts["rods"]
        rcalls = [("rod", ra, ra, {}), ("rod", rb, rb, {}), ("rod", rc, rc, {}), ("rod", ra, ra, {}), ("list", [("rod", rb), ("rod", ra)], [rb, ra], {"file_name": "both"})]
        nc, nf = session(ctx, rng, rsys, rsol, rparts, records, wheres, f"rod{sid}", bool(sid % 2), calls=rcalls)
        ncalls += nc
        frames.append(nf)
    if not records:
        raise tlc.MachineryError("no export records produced")
    import copy
    c1 = copy.deepcopy(records[0]); c1["id"] = 0; c1["entries"][0]["content_ok"] = False
    c2 = copy.deepcopy(records[0]); c2["id"] = -1; c2["entries"] = c2["entries"][:-1] if len(c2["entries"]) > 1 else []
    bad, rt = batch_validate(ctx, "Export", records + [c1, c2], {"Mode": '"trace"', "Impl": '"intended"', "Names": "{}", "MaxCalls": 0, "NFrames": 0}, "export_trace")
    if bad.pop(0, None) is None or bad.pop(-1, None) is None:
        raise tlc.MachineryError("self-test failed: a corrupted export record was accepted by the trace specification")
    for rid, clause in bad.items():
        w = wheres[rid]
        ctx.violation(f"{w['kind']}:{clause}", f"{clause}: {w}", w)
    nfiles = sum(len(r["entries"]) for r in records)
    ctx.log(f"[C29] protocol model: {r1.distinct} states (intended) / shared-name design rejected; {nsess * 2} export sessions, {ncalls} calls, {nfiles} data files read back, frames per session {frames}; {len(bad)} calls rejected")
    nontrivial = {json.dumps(r["entries"], sort_keys=True, default=str) for r in records if r.get("entries")}
    ctx.coverage = {"evaluations": len(records), "distinct_nontrivial": len(nontrivial),
                    "states": r1.distinct + rt.distinct, "transitions": max(r1.generated + rt.generated, 1), "traces_validated_against_impl": len(records),
                    "samples": [{"where": wheres[1], "entries": records[0]["entries"][:2]}], "data_files_read_back": nfiles, "frames_per_session": frames,
                    "rule": "per session 12 export calls in random order: rigid bodies (one of them twice), list of point masses, meshed box and the same box as base export, "
                            "moving frame, dead load with offset, sphere-plane contact, the same file_name twice, a list starting with an already exported body; binary and ASCII; "
                            "random frame rates (frac from 1 to rows); evaluations = export calls recorded and validated by TLC; distinct_nontrivial = calls "
                            "with a distinct, non-empty list of collection entries"}
    ctx.assumptions = ["file contents are compared with geometry recomputed by the harness (quaternion kinematics of its own) at 2e-6 relative (VTK stores points as float32)",
                       "the contact is checked on points, g_N and P_N, the box on points; rods are exported as centerline + directors on a synthetic solution and compared with the rod's own cross-section kinematics"]


def replay(ctx, path):
    run(ctx)
