"""C16 Consistent initial conditions solve the initial equations of motion.

Decide: spec/ConsistentIC.tla -- (decide) the accept/reject table over abstract facts of the initial state;
        (scene) the acceleration-level Signorini-Coulomb problem of a point mass on a plane with integer data and
        its constructive rational solution, which TLC checks against the declarative conditions of the property on
        the whole lattice; (trace) the law every recorded assembly must satisfy.
Bind:   (i) every lattice scene is assembled with the real classes and u_dot0, la_N0, la_F0 are compared with the
        spec's rationals; (ii) seeded random consistent systems (joints, force laws in both forms, actuators,
        resting / sliding contacts) are assembled, the residuals of the initial equations of motion and of the
        acceleration-level conditions are evaluated from System methods, turned into booleans and validated by TLC;
        (iii) every case of the decision table is realised by a real system and must be accepted / rejected.
"""
from __future__ import annotations

import contextlib
import io
import math
import os
import warnings

import numpy as np

from .. import tlc, runs
from ..scenarios import rand_unit_quat


def _quiet():
    return contextlib.redirect_stdout(io.StringIO())


def _opts():
    from cardillo.solver import SolverOptions

    return SolverOptions(fixed_point_atol=1e-12, fixed_point_rtol=1e-12, fixed_point_max_iter=200000)


def _scene(ctx, c, e):
    from cardillo import System
    from cardillo.discrete import PointMass
    from cardillo.contacts import Sphere2Plane
    from cardillo.forces import Force

    mu = c["mun"] / c["mud"]
    r = 0.25
    system = System()
    pm = PointMass(float(c["m"]), q0=np.array([0.5, -1.0, r]), u0=np.array([float(c["v"][0]), float(c["v"][1]), 0.0]), name="pm")
    ap = np.array(c["ap"], dtype=float)
    # the spec's force is the one seen in the plane's frame: applied force = F + m ap
    F = np.array([float(c["Ft"][0]), float(c["Ft"][1]), float(c["Fz"])]) + float(c["m"]) * ap
    if np.any(ap):
        from cardillo.discrete import Frame
        plane = Frame(r_OP=lambda t: 0.5 * ap * t * t, r_OP_t=lambda t: ap * t, r_OP_tt=lambda t: ap, name="table")
        system.add(plane)
    else:
        plane = system.origin
    system.add(pm, Sphere2Plane(plane, pm, mu=mu, r=r, e_N=0.0, e_F=0.0, name="contact"), Force(F, pm, name="F"))
    rep = {"case": c}
    key = f"scene:{e['regime']}" + (":mu=0" if mu == 0 else "") + (":accelerating-plane" if np.any(ap) else "")
    try:
        with warnings.catch_warnings(), _quiet():
            warnings.simplefilter("ignore")
            system.assemble(options=_opts())
    except Exception as ex:
        ctx.violation(key + ":raises", f"assemble raised {type(ex).__name__}: {ex} for m={c['m']}, F={F.tolist()}, mu={mu}, v={c['v'][:2]}", rep)
        return
    acc = np.array(e["accnum"], dtype=float) / e["accden"]
    laN = float(e["laN"])
    laF = np.array(e["laFnum"], dtype=float) / e["laFden"]
    got_F = system.la_F0 if system.nla_F else np.zeros(2)
    probs = []
    if not np.allclose(system.u_dot0, acc, rtol=0, atol=1e-9 * (1 + np.max(np.abs(acc)))):
        probs.append(f"u_dot0 = {system.u_dot0.tolist()}, exact {acc.tolist()}")
    if not (abs(system.la_N0[0] - laN) <= 1e-9 * (1 + laN)):
        probs.append(f"la_N0 = {system.la_N0.tolist()}, exact {laN}")
    if not np.allclose(got_F, laF, rtol=0, atol=1e-9 * (1 + np.max(np.abs(laF)))):
        probs.append(f"la_F0 = {np.asarray(got_F).tolist()}, exact {laF.tolist()}")
    if probs:
        ctx.violation(key, "; ".join(probs) + f" for m={c['m']}, F={F.tolist()}, mu={mu}, v={c['v'][:2]} (regime {e['regime']})", rep)


def _decide(ctx, c, e):
    """realise the abstract facts by a pendulum (bilateral constraints) and a ball over a plane (contact)"""
    from cardillo import System
    from cardillo.discrete import RigidBody, PointMass
    from cardillo.constraints import Revolute
    from cardillo.contacts import Sphere2Plane
    from cardillo.forces import Force

    if not c["gammaOK"]:
        return None      # the library has no stand-alone velocity-level constraint class to realise this fact
    system = System()
    L = 1.0
    r_OC = np.array([0.5 * L, 0.0, 2.0])
    if not c["gOK"]:
        r_OC = r_OC + np.array([0.0, 0.013, 0.0])
    om = 0.7
    v = np.array([0.0, om * 0.5 * L, 0.0])
    if not c["gdotOK"]:
        v = v + np.array([0.05, 0.0, 0.02])
    bar = RigidBody(1.0, np.diag([0.01, 1 / 12, 1 / 12]), q0=np.concatenate([r_OC, [1.0, 0, 0, 0]]), u0=np.concatenate([v, [0, 0, om]]), name="bar")
    joint = Revolute(system.origin, bar, axis=2, r_OJ0=np.array([0.0, 0.0, 2.0]), A_IJ0=np.eye(3), name="hinge")
    rr = 0.1
    h = {"neg": -0.004, "zero": 0.0, "pos": 0.05}[c["gap"]]
    vz = {"neg": -0.3, "zero": 0.0, "pos": 0.4}[c["gapRate"]]
    ball = PointMass(1.0, q0=np.array([3.0, 0.0, rr + h]), u0=np.array([0.2, 0.0, vz]), name="ball")
    system.add(bar, joint, ball, Sphere2Plane(system.origin, ball, mu=0.3, r=rr, e_N=0.0, e_F=0.0, name="contact"),
               Force(np.array([0, 0, -9.81]), ball, name="g"))
    outcome = "accepted"
    try:
        with warnings.catch_warnings(), _quiet():
            warnings.simplefilter("ignore")
            system.assemble(options=_opts())
    except AssertionError:
        outcome = "rejected"
    except Exception as ex:
        outcome = f"{type(ex).__name__}: {ex}"
    exp = "rejected" if e["rejected"] else "accepted"
    if outcome != exp:
        facts = {k: c[k] for k in ("gOK", "gdotOK", "gap", "gapRate")}
        ctx.violation(f"decide:{exp}", f"initial state with {facts} was {outcome}, the property demands {exp}", {"case": c})
    return True


# ----------------------------------------------------------------------------------------------- random consistent systems
def random_consistent_system(rng):
    from cardillo import System
    from cardillo.discrete import RigidBody, PointMass
    from cardillo.constraints import Revolute, Spherical, RigidConnection
    from cardillo.force_laws import Spring, KelvinVoigtElement, MaxwellElement
    from cardillo.interactions import TwoPointInteraction
    from cardillo.forces import Force, Moment
    from cardillo.contacts import Sphere2Plane
    from cardillo.actuators import Motor, PDcontroller
    from ..lattice import quat_to_matrix

    system = System()
    desc = []
    # a chain of 1..3 links hinged at the origin, initial motion = rigid rotation of each link about its joint
    nl = rng.randint(1, 3)
    L = 1.0
    loaded = rng.random() < 0.4      # the chain is at rest and its tip rests on a plane: the contact loads the joints
    joint_pos = np.array([0.0, 0.0, 3.0])
    joint_vel = np.zeros(3)
    prev = system.origin
    Th = np.diag([0.02, 0.09, 0.09])
    links = []
    Om_prev = np.zeros(3)
    for i in range(nl):
        P = rand_unit_quat(rng)
        A = quat_to_matrix(P)
        kind = rng.choice(["revolute", "spherical"]) if i > 0 or rng.random() < 0.8 else "rigid"
        axis = rng.randrange(3)
        if kind == "revolute":
            om_rel = A[:, axis] * rng.uniform(-1.5, 1.5)     # relative spin about the joint axis (joint frame = link frame)
        elif kind == "spherical":
            om_rel = np.array([rng.uniform(-1, 1) for _ in range(3)])
        else:
            om_rel = np.zeros(3)
        if loaded:
            om_rel = np.zeros(3)
        Om = Om_prev + om_rel
        r_OC = joint_pos + A @ np.array([0.5 * L, 0, 0])
        v_C = joint_vel + np.cross(Om, r_OC - joint_pos)
        link = RigidBody(1.0 + 0.5 * i, Th, q0=np.concatenate([r_OC, P]), u0=np.concatenate([v_C, A.T @ Om]), name=f"link{i}")
        if kind == "revolute":
            j = Revolute(prev, link, axis=axis, r_OJ0=joint_pos.copy(), A_IJ0=A.copy(), name=f"rev{i}")
        elif kind == "spherical":
            j = Spherical(prev, link, r_OJ0=joint_pos.copy(), name=f"sph{i}")
        else:
            j = RigidConnection(prev, link, r_OJ0=joint_pos.copy(), A_IJ0=A.copy(), name=f"rig{i}")
        system.add(link, j)
        system.add(Force(np.array([0.3, 0.0, -9.81 * link.mass]), link, name=f"grav{i}"))
        desc.append(kind)
        if kind == "revolute":
            x = rng.random()
            if x < 0.3:
                m = Motor(j, lambda t: 0.7)
                m.name = f"motor{i}"
                system.add(m); desc.append("motor")
            elif x < 0.5:
                pd = PDcontroller(j, 3.0, 0.4, lambda t: np.array([0.2, 0.0]))
                pd.name = f"pd{i}"
                system.add(pd); desc.append("pd")
            elif x < 0.8:
                system.add(KelvinVoigtElement(j, 4.0, 0.3, l_ref=0.1, compliance_form=rng.random() < 0.5, name=f"kv{i}")); desc.append("kv-rev")
        links.append((link, A, Om))
        joint_vel = v_C + np.cross(Om, A @ np.array([0.5 * L, 0, 0]))
        joint_pos = r_OC + A @ np.array([0.5 * L, 0, 0])
        prev, Om_prev = link, Om
    if loaded:
        from cardillo.discrete import Frame

        rr = 0.05
        tip = joint_pos.copy()
        plane = Frame(r_OP=tip - np.array([0.0, 0.0, rr]), name="floor")
        system.add(plane, Sphere2Plane(plane, links[-1][0], mu=rng.choice([0.0, 0.5]), r=rr, B_r_CP=np.array([0.5 * L, 0.0, 0.0]), e_N=0.0, e_F=0.0, name="tipcontact"))
        desc.append("tip-on-floor")
    # a spring / Maxwell element from the origin to the last link
    if rng.random() < 0.7:
        tpi = TwoPointInteraction(system.origin, links[-1][0], name="tpi")
        w = rng.random()
        if w < 0.4:
            law = Spring(tpi, 12.0, l_ref=2.0, compliance_form=rng.random() < 0.5, name="spring")
        elif w < 0.8:
            law = KelvinVoigtElement(tpi, 12.0, 0.8, l_ref=2.0, compliance_form=rng.random() < 0.5, name="kv")
        else:
            law = MaxwellElement(tpi, 12.0, 0.8, l_ref=2.0, q0=np.array([0.05]), name="maxwell")
        system.add(tpi, law); desc.append(type(law).__name__)
    if rng.random() < 0.4:
        system.add(Moment(np.array([0.1, -0.2, 0.3]), links[0][0], name="moment")); desc.append("moment")
    if rng.random() < 0.6:
        # an explicitly time-dependent load (the forces at the initial time depend on t0)
        system.add(Force(lambda t: np.array([0.5 * t, 1.5 - t, 0.25 * t * t]), links[-1][0], B_r_CP=np.array([0.1, 0.0, 0.2]), name="pull")); desc.append("force(t)")
    # balls resting / sliding / flying over the plane z = 0
    for b in range(rng.randint(0, 3)):
        rr = 0.1
        state = rng.choice(["rest", "slide", "fly", "separate"])
        h = 0.0 if state != "fly" else 0.3
        vz = 0.5 if state == "separate" else 0.0
        vt = np.array([rng.uniform(0.2, 1.0), rng.uniform(-1, 1)]) if state in ("slide", "fly", "separate") else np.zeros(2)
        mu = rng.choice([0.0, 0.3, 0.8])
        mb = rng.choice([1.0, 3.0, 0.5])       # unequal normal forces: a friction law that reads another contact's normal force shows
        if rng.random() < 0.5:
            body = PointMass(mb, q0=np.array([5.0 + b, 0.0, rr + h]), u0=np.array([vt[0], vt[1], vz]), name=f"ball{b}")
        else:
            om = np.array([rng.uniform(-2, 2) for _ in range(3)]) if state != "rest" else np.zeros(3)
            body = RigidBody(mb, 0.004 * mb * np.eye(3), q0=np.array([5.0 + b, 0.0, rr + h, 1.0, 0, 0, 0]), u0=np.concatenate([[vt[0], vt[1], vz], om]), name=f"ball{b}")
        pushes = np.array([rng.choice([0.0, 1.0, 6.0]), 0.0, -9.81 * mb])
        system.add(body, Sphere2Plane(system.origin, body, mu=mu, r=rr, e_N=0.0, e_F=0.0, name=f"contact{b}"), Force(pushes, body, name=f"gb{b}"))
        desc.append(f"ball-{state}-mu{mu}")
    return system, desc


def dedicated_systems(rng):
    """(builder, description, assemble options or None): orders of contacts and hard fixed points the random generator rarely draws"""
    from cardillo import System
    from cardillo.discrete import RigidBody, PointMass, Frame
    from cardillo.contacts import Sphere2Plane
    from cardillo.forces import Force
    from cardillo.math import Exp_SO3
    from cardillo.solver import SolverOptions

    out = []

    def mixed(order):
        def build():
            system = System()
            A = Exp_SO3(np.array([0.17, -0.11, 0.3]))
            plane = Frame(A_IB=A, name="plane")
            n, t1, t2 = A[:, 2], A[:, 0], A[:, 1]
            r = 0.1
            heavy = RigidBody(5.0, 0.02 * np.eye(3), q0=RigidBody.pose2q(r * n + 0.0 * t1, A), u0=np.zeros(6), name="heavy")
            light = RigidBody(0.7, 0.003 * np.eye(3), q0=RigidBody.pose2q(r * n + 1.0 * t1, A), u0=np.concatenate([0.8 * t1 + 0.5 * t2, np.zeros(3)]), name="light")
            parts = {"heavy": [heavy, Sphere2Plane(plane, heavy, mu=0.0, r=r, e_N=0.0, e_F=0.0, name="c_heavy"), Force(-9.81 * 5.0 * n, heavy, name="g_heavy")],
                     "light": [light, Sphere2Plane(plane, light, mu=0.37, r=r, e_N=0.0, e_F=0.0, name="c_light"), Force(-9.81 * 0.7 * n, light, name="g_light")]}
            system.add(plane)
            for k in order:
                system.add(*parts[k])
            return system
        return build
    for order in (("heavy", "light"), ("light", "heavy")):
        out.append((mixed(order), [f"frictionless heavy ball and frictional light sliding ball on an oblique plane, added in the order {order}"], None))

    def stool():
        system = System()
        A = Exp_SO3(np.array([0.17, -0.11, 0.0]))
        n, t1 = A[:, 2], A[:, 0]
        plane = Frame(A_IB=A, name="plane")
        h = 0.25
        Th = np.array([[0.031, 0.004, -0.002], [0.004, 0.027, 0.003], [-0.002, 0.003, 0.044]])
        body = RigidBody(2.3, Th, q0=RigidBody.pose2q(h * n, A), u0=np.zeros(6), name="stool")
        system.add(plane, body, Force(-2.3 * 9.81 * n + 0.2 * 2.3 * 9.81 * t1, body, name="load"))
        for i, f in enumerate(([0.3, 0.0, -h], [-0.2, 0.25, -h], [-0.15, -0.3, -h])):
            system.add(Sphere2Plane(plane, body, mu=0.6, r=0.0, B_r_CP=np.array(f), e_N=0.0, e_F=0.0, name=f"foot{i}"))
        return system
    def typed_ball(gap, ints):
        def build():
            system = System()
            z = 1 if ints else 1.0
            q0 = np.array([0, 0, z]) if ints else np.array([0.0, 0.0, 1.0])
            pm = PointMass(1.0, q0=q0, u0=np.array([0, 0, 0]) if ints else np.zeros(3), name="ball_typed")
            system.add(pm, Sphere2Plane(system.origin, pm, mu=0.3, r=1.0 - gap, e_N=0.0, e_F=0.0, name="contact_typed"), Force(np.array([0.5, 0.0, -9.81]), pm, name="g_typed"))
            return system
        return build
    # the initial state typed as integers (np.array([0, 0, 1])): an open contact (gap 0.5) stays open, a closed one (gap 0) closed
    for gap in (0.5, 0.0):
        for ints in (True, False):
            out.append((typed_ball(gap, ints), [f"ball at height 1 with radius {1.0 - gap} (gap {gap}), initial state typed as {'integers' if ints else 'floats'}"], None))

    # three contacts on one body: the fixed point converges slowly; budgets below and above what it needs, with and without continue_with_unconverged
    for budget in (20, 150, 100000):
        for cwu in (False, True):
            out.append((stool, [f"three-legged stool, prox_scaling=0.5, fixed_point_max_iter={budget}, continue_with_unconverged={cwu}"],
                        SolverOptions(prox_scaling=0.5, fixed_point_max_iter=budget, continue_with_unconverged=cwu, fixed_point_atol=1e-11, fixed_point_rtol=1e-11)))
    return out


def residual_record(system, rid, loose=False):
    """loose: the assembly used the default solver tolerances (1e-6): only the equations of motion and the bilateral constraints are
    judged, with a threshold of 1e-3 relative to the force scale (a stale result is off by O(1))"""
    # the state as numbers (a user may have typed integers: np.array([0, 0, 1]))
    t0, q0, u0 = system.t0, np.asarray(system.q0, dtype=float), np.asarray(system.u0, dtype=float)
    ud, la_g, la_gamma, la_c, la_N, la_F = system.u_dot0, system.la_g0, system.la_gamma0, system.la_c0, system.la_N0, system.la_F0
    M = system.M(t0, q0, format="csr")
    rhs = system.h(t0, q0, u0) + system.W_g(t0, q0, format="csr") @ la_g + system.W_gamma(t0, q0, format="csr") @ la_gamma \
        + system.W_c(t0, q0, format="csr") @ la_c + system.W_tau(t0, q0, format="csr") @ system.la_tau(t0, q0, u0) \
        + system.W_N(t0, q0, format="csr") @ la_N + system.W_F(t0, q0, format="csr") @ la_F
    scale = 1.0 + np.max(np.abs(rhs)) if rhs.size else 1.0
    res = M @ ud - rhs
    info = {"eom_residual": float(np.max(np.abs(res))) if res.size else 0.0}
    tol = (1e-3 if loose else 1e-8) * scale
    eom = info["eom_residual"] <= tol
    gdd = system.g_ddot(t0, q0, u0, ud)
    gamd = system.gamma_dot(t0, q0, u0, ud)
    info["g_ddot"] = float(np.max(np.abs(gdd))) if gdd.size else 0.0
    gddot = info["g_ddot"] <= (1e-3 if loose else 1e-7) * scale
    gammadot = (float(np.max(np.abs(gamd))) if gamd.size else 0.0) <= (1e-3 if loose else 1e-7) * scale
    if loose:
        return {"id": rid, "eom": bool(eom), "gddot": bool(gddot), "gammadot": bool(gammadot), "signorini": True, "coulomb": True}, info
    # contacts
    sig = True
    coul = True
    if system.nla_N:
        gN = system.g_N(t0, q0)
        gNd = system.g_N_dot(t0, q0, u0)
        gNdd = system.g_N_ddot(t0, q0, u0, ud)
        gF = system.gamma_F(t0, q0, u0) if system.nla_F else np.zeros(0)
        gFd = system.gamma_F_dot(t0, q0, u0, ud) if system.nla_F else np.zeros(0)
        for c in system.get_contribution_list("g_N"):
            for iN in c.la_NDOF:
                persistent = abs(gN[iN]) <= 1e-8 and abs(gNd[iN]) <= 1e-8
                lam = la_N[iN]
                if not persistent:
                    if not (abs(lam) <= 1e-9 * scale):
                        sig = False
                        info["signorini"] = f"{c.name}: la_N = {lam} on a contact that is not persistent"
                else:
                    if lam < -1e-8 * scale or gNdd[iN] < -1e-7 * scale or abs(lam * gNdd[iN]) > 1e-7 * scale * scale:
                        sig = False
                        info["signorini"] = f"{c.name}: la_N = {lam}, g_N_ddot = {gNdd[iN]}"
                if getattr(c, "nla_F", 0) > 0:
                    for i_N, i_F, law in c.friction_laws:
                        if len(i_N) and c.la_NDOF[i_N][0] == iN:
                            f = c.la_FDOF[i_F]
                            lF = la_F[f]
                            R = law.r * max(lam, 0.0)
                            nF = np.linalg.norm(lF)
                            if not persistent:
                                if nF > 1e-9 * scale:
                                    coul = False
                                    info["coulomb"] = f"{c.name}: friction force {lF.tolist()} on a contact that is not persistent"
                                continue
                            if nF > R + 1e-7 * scale:
                                coul = False
                                info["coulomb"] = f"{c.name}: |la_F| = {nF} > mu la_N = {R}"
                                continue
                            slip = np.linalg.norm(gF[f])
                            if slip > 1e-8:
                                d = gF[f] / slip
                                if R > 1e-9 and (abs(nF - R) > 1e-6 * scale or lF @ d > -(1 - 1e-6) * nF):
                                    coul = False
                                    info["coulomb"] = f"{c.name}: sliding with la_F = {lF.tolist()}, slip {gF[f].tolist()}, mu la_N = {R}"
                            else:
                                at = np.linalg.norm(gFd[f])
                                if at > 1e-6 * scale and R > 1e-9:
                                    d = gFd[f] / at
                                    if abs(nF - R) > 1e-6 * scale or lF @ d > -(1 - 1e-6) * nF:
                                        coul = False
                                        info["coulomb"] = f"{c.name}: sticking contact accelerates tangentially ({gFd[f].tolist()}) with la_F = {lF.tolist()}, mu la_N = {R}"
    return {"id": rid, "eom": bool(eom), "gddot": bool(gddot), "gammadot": bool(gammadot), "signorini": bool(sig), "coulomb": bool(coul)}, info


def run(ctx):
    ctx.level = "model_checking"
    rng = ctx.rng
    cfg = os.path.join(ctx.scratch, "cic.cfg")
    open(cfg, "w").write('SPECIFICATION Spec\nCONSTANTS\n  Mode = "cases"\nINVARIANT CaseOK\n')
    dot = os.path.join(ctx.scratch, "cic")
    r = tlc.run_tlc("ConsistentIC", cfg, scratch=ctx.scratch, dump_dot=dot, timeout=1200)
    tlc.require_ok(r, "ConsistentIC")
    if r.violated:
        ctx.violation(f"spec:{r.violated}", f"TLC: {r.violated} violated", {"stdout": r.stdout[-3000:]})
    g = tlc.parse_dot(dot + ".dot")
    nodes = [g.nodes[i] for i in g.init]
    scenes = [n for n in nodes if n["case"]["kind"] == "scene"]
    decides = [n for n in nodes if n["case"]["kind"] == "decide"]
    if not ctx.thorough:
        rng.shuffle(scenes)
        scenes = scenes[:700]
    regimes = {}
    for n in scenes:
        _scene(ctx, n["case"], n["expected"])
        regimes[n["expected"]["regime"]] = regimes.get(n["expected"]["regime"], 0) + 1
    ndec = 0
    for n in decides:
        if _decide(ctx, n["case"], n["expected"]):
            ndec += 1
    ctx.log(f"[C16] lattice scenes assembled: {regimes}; decision-table cases realised: {ndec}/{len(decides)}")
    # random consistent systems
    nsys = 40 if not ctx.thorough else 400
    recs, infos, descs = [], {}, {}
    notjudged = {}
    nfail = 0
    dedicated = dedicated_systems(rng)
    for i in range(nsys + len(dedicated)):
        if i < nsys:
            system, desc = random_consistent_system(rng)
            aopts = _opts()
        else:
            build_, desc, aopts = dedicated[i - nsys]
            system = build_()
            aopts = aopts or _opts()
        try:
            with warnings.catch_warnings(), _quiet():
                warnings.simplefilter("ignore")
                system.assemble(options=aopts)
        except AssertionError as ex:
            if "does not converge" in str(ex):
                # a loud failure of the fixed-point iteration is not a rejection of the initial state (and not silent): not judged here
                notjudged["fixed point did not converge (loud)"] = notjudged.get("fixed point did not converge (loud)", 0) + 1
                continue
            ctx.violation("random:assemble:AssertionError", f"a consistent system was rejected: AssertionError: {ex}; contributions {desc}", {"desc": desc})
            nfail += 1
            continue
        except Exception as ex:
            ctx.violation(f"random:assemble:{type(ex).__name__}", f"a consistent system was rejected: {type(ex).__name__}: {ex}; contributions {desc}", {"desc": desc})
            nfail += 1
            continue
        rec, info = residual_record(system, len(recs) + 1)
        recs.append(rec); infos[rec["id"]] = info; descs[rec["id"]] = desc
        # the same state declared the initial state of a later time: everything the assembly returns belongs to the new t0
        # (once with the tight options, once without any assemble arguments, i.e. with the default tolerances)
        for kw, loose in ((dict(options=aopts), False), ({}, True)):
            try:
                with warnings.catch_warnings(), _quiet():
                    warnings.simplefilter("ignore")
                    system.set_new_initial_state(system.q0.copy(), system.u0.copy(), t0=system.t0 + 2.0, **kw)
                rec, info = residual_record(system, len(recs) + 1, loose=loose)
                recs.append(rec); infos[rec["id"]] = dict(info, history=f"re-initialised with the same state at t0 = {system.t0}" + (" (default options)" if loose else ""))
                descs[rec["id"]] = desc + ["re-initialised"]
            except AssertionError as ex:
                if "does not converge" in str(ex):
                    # a loud failure of the fixed-point iteration is not a matter of this property (as for the first assembly)
                    kk = "re-initialisation: fixed point did not converge (loud)" + (" (default tolerances)" if loose else "")
                    notjudged[kk] = notjudged.get(kk, 0) + 1
                    continue
                ctx.violation("random:reinitialise:AssertionError", f"set_new_initial_state with the unchanged state at a later time raised AssertionError: {ex}; contributions {desc}", {"desc": desc})
            except Exception as ex:
                ctx.violation(f"random:reinitialise:{type(ex).__name__}", f"set_new_initial_state with the unchanged state at a later time raised {type(ex).__name__}: {ex}; contributions {desc}", {"desc": desc})
        # a changed state: every ball is lifted off the plane (contacts that carried load are open now); what assembly returns belongs to the new state
        balls = [c_ for c_ in system.contributions if str(getattr(c_, "name", "")).startswith("ball") and hasattr(c_, "qDOF")]
        if balls:
            try:
                qn = system.q0.copy()
                for b_ in balls:
                    qn[b_.qDOF[2]] += 0.7
                with warnings.catch_warnings(), _quiet():
                    warnings.simplefilter("ignore")
                    system.set_new_initial_state(qn, system.u0.copy(), t0=system.t0 + 1.0, options=aopts)
                rec, info = residual_record(system, len(recs) + 1)
                recs.append(rec); infos[rec["id"]] = dict(info, history="re-initialised with every ball lifted off the plane")
                descs[rec["id"]] = desc + ["re-initialised, balls lifted"]
            except AssertionError as ex:
                if "does not converge" in str(ex):
                    notjudged["re-initialisation with lifted balls: fixed point did not converge (loud)"] = notjudged.get("re-initialisation with lifted balls: fixed point did not converge (loud)", 0) + 1
                else:
                    ctx.violation("random:reinitialise-lifted:AssertionError", f"set_new_initial_state with the balls lifted raised AssertionError: {ex}; contributions {desc}", {"desc": desc})
            except Exception as ex:
                ctx.violation(f"random:reinitialise-lifted:{type(ex).__name__}", f"set_new_initial_state with the balls lifted raised {type(ex).__name__}: {ex}; contributions {desc}", {"desc": desc})
    rejected, rt = runs.batch_validate(ctx, "ConsistentIC", recs, {"Mode": '"trace"'}, "cic_trace") if recs else ({}, r)
    for rid, clause in rejected.items():
        d = descs[rid]
        tagd = "actuator" if any(x in ("motor", "pd") for x in d) else "other"
        ctx.violation(f"random:{clause[:45].replace(' ', '_')}:{tagd}", f"{clause}: {infos[rid]}; contributions {d}", {"desc": d, "info": infos[rid]})
    ctx.log(f"[C16] random consistent systems: {len(recs)} assembled and validated by TLC, {len(rejected)} rejected")
    ctx.coverage = {"states": r.distinct + rt.distinct, "transitions": max(r.generated, 1), "traces_validated_against_impl": len(scenes) + ndec + len(recs),
                    "samples": [{"case": scenes[0]["case"], "expected": scenes[0]["expected"]}, {"random_system": descs.get(1)}],
                    "exhaustive": ctx.thorough, "not_judged": notjudged, "scene_regimes": regimes, "decision_cases": ndec, "random_systems": len(recs),
                    "rule": "lattice: point mass on a plane, m x F (Pythagorean tangential part) x mu x sliding velocity; decision table: 36 realisable fact "
                            "combinations; random: hinged chains (revolute/spherical/rigid) with actuators, force laws in both forms, Maxwell elements and balls "
                            "resting / sliding / separating / flying"}
    ctx.assumptions = ["lattice solutions compared at 1e-9 with fixed_point_atol = 1e-12", "residual thresholds 1e-8..1e-6 relative to the force scale",
                       "the fact 'velocity-level bilateral constraint violated' is not realised (no stand-alone gamma constraint class)"]


def replay(ctx, path):
    run(ctx)
