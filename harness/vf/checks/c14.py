"""C14 System assembly is a faithful, repeatable scatter of its contributions.

Decide: spec/CardilloSystem.tla (registry: add/remove/pop, names, name map; assemble: DOF layout) is
        model-checked exhaustively by TLC (NamesUnique, RegistryExact, LayoutPartitions, AssembleIdempotent,
        LayoutIsFunctionOfList); spec/Scatter.tla is the table of what every System evaluation method means.
Bind:   every transition of a bounded state graph and long simulated histories are replayed into the real
        System with stub contributions whose kinds/sizes/couplings are exported from the spec.  After every
        operation: outcome, list, ncontr, NamesUnique/RegistryExact on the real object; after every assemble:
        every DOF array against the spec layout and every evaluation method of the scatter table against the
        dense reference computed from the spec layout.  Real-class systems are assembled twice as well.
"""
from __future__ import annotations

import json
import os
import warnings
import inspect

import numpy as np

from .. import tlc
from ..stubs import Stub, DOF_ATTR, N_ATTR, stubval, KIND_PROPS

FIELDS = list(DOF_ATTR)


def name_str(tokens):
    """token-sequence name of the spec -> the string the code would use"""
    tokens = list(tokens)
    if not tokens:
        return None
    if tokens == ["origin"]:
        return "cardillo_origin"
    if tokens[0] == "#":
        s = "contr" + str(tokens[1])
        rest = tokens[2:]
    else:
        s = str(tokens[0])
        rest = tokens[1:]
    for k in rest:
        s += "_contr" + str(k)
    return s


class Model:
    """constants exported by TLC from the spec modules"""

    def __init__(self, ctx, NC):
        out = os.path.join(ctx.scratch, f"system_{NC}.json")
        cfg = os.path.join(ctx.scratch, f"system_export_{NC}.cfg")
        with open(cfg, "w") as f:
            f.write(f'SPECIFICATION Spec\nCONSTANTS\n NC = {NC}\n MaxOps = 0\n MaxSuffix = 1\n Impl = "intended"\n Start = "empty"\n')
        r = tlc.run_tlc("CardilloSystem", cfg, scratch=ctx.scratch, workers=1, env={"SYSTEM_OUT": out}, timeout=120)
        tlc.require_ok(r, "export CardilloSystem constants")
        d = json.load(open(out))
        self.kinds = {c + 1: k for c, k in enumerate(d["kinds"])}
        self.subs = {c + 1: list(s) for c, s in enumerate(d["subs"])}
        self.sizes = {c + 1: s for c, s in enumerate(d["sizes"])}
        self.NC = NC


_TABLE = None


def scatter_table(ctx):
    global _TABLE
    if _TABLE is None:
        out = os.path.join(ctx.scratch, "scatter.json")
        cfg = os.path.join(ctx.scratch, "scatter.cfg")
        open(cfg, "w").write("SPECIFICATION Spec\n")
        r = tlc.run_tlc("Scatter", cfg, scratch=ctx.scratch, workers=1, env={"SCATTER_OUT": out}, timeout=120, deadlock_off=False)
        tlc.require_ok(r, "Scatter.tla (table well-formedness + export)")
        _TABLE = json.load(open(out))
    return _TABLE


class RefView:
    """index sets of one member according to the SPEC layout"""

    def __init__(self, cid, kind, layout_rng, subs_views):
        self.cid = cid
        self.kind = kind
        for f, (start, size) in layout_rng.items():
            setattr(self, DOF_ATTR[f], np.arange(start, start + size))
        if subs_views is None:
            self.qDOF = getattr(self, "my_qDOF", np.array([], dtype=int))
            self.uDOF = getattr(self, "my_uDOF", np.array([], dtype=int))
        else:
            self.qDOF = np.concatenate([v.qDOF for v in subs_views]) if subs_views else np.array([], dtype=int)
            self.uDOF = np.concatenate([v.uDOF for v in subs_views]) if subs_views else np.array([], dtype=int)
            if kind == "intlaw":
                self.qDOF = np.concatenate([self.my_qDOF, self.qDOF])

    def idx(self, space):
        if space == "myq":
            return self.my_qDOF
        if space == "q":
            return self.qDOF
        if space == "u":
            return self.uDOF
        return getattr(self, DOF_ATTR[space])


def _slice_args(names, view, glob):
    out = []
    for n in names:
        if n in ("t", "t2"):
            out.append(glob[n])
        elif n in ("q", "q2"):
            out.append(glob[n][view.qDOF])
        elif n in ("u", "u2", "u_dot"):
            out.append(glob[n][view.uDOF])
        elif n in ("0u", "0u_dot"):
            out.append(np.zeros(len(view.uDOF)))
        else:
            out.append(glob[n][view.idx(n)])
    return out


def reference(row, views, total, glob, t0q0):
    """dense reference of system method row['m'] from the spec layout"""
    mode = row["mode"]
    owners = [v for v in views if v.kind != "frame" and row["prop"] in KIND_PROPS[v.kind]]
    sz = {"myq": total["q"], "q": total["q"], "u": total["u"]}
    sz.update({f: total[f] for f in total})
    if mode == "scalar":
        return sum(stubval(v.cid, row["loc"], (), _slice_args(row["largs"], v, glob)) for v in owners)
    if mode in ("assign", "accum"):
        out = np.zeros(sz[row["row"]])
        for v in owners:
            val = stubval(v.cid, row["loc"], (len(v.idx(row["row"])),), _slice_args(row["largs"], v, glob))
            if mode == "assign":
                out[v.idx(row["row"])] = val
            else:
                out[v.idx(row["row"])] += val
        return out
    if mode in ("xi_N", "xi_F"):
        out = np.zeros(sz[row["row"]])
        e = 0.5 if mode == "xi_N" else 0.25
        for v in owners:
            n = len(v.idx(row["row"]))
            post = stubval(v.cid, row["loc"], (n,), _slice_args(["t2", "q2", "u2"], v, glob))
            pre = stubval(v.cid, row["loc"], (n,), _slice_args(["t", "q", "u"], v, glob))
            out[v.idx(row["row"])] = post + e * pre
        return out
    out = np.zeros((sz[row["row"]], sz[row["col"]]))
    for v in owners:
        r, c = v.idx(row["row"]), v.idx(row["col"])
        if mode == "massmat" and v.kind == "body":
            val = stubval(v.cid, row["loc"], (len(r), len(c)), ())
        else:
            val = stubval(v.cid, row["loc"], (len(r), len(c)), _slice_args(row["largs"], v, glob))
        for i, ri in enumerate(r):
            for j, cj in enumerate(c):
                out[ri, cj] += val[i, j]
    return out


def _dense(x):
    if hasattr(x, "toarray"):
        return x.toarray()
    return np.asarray(x)


class SystemReplayer:
    def __init__(self, ctx, model, table):
        self.ctx = ctx
        self.model = model
        self.table = table
        self.n_ops = 0
        self.n_assemble = 0
        self.n_method_evals = 0
        self.name_scheme_diverged = 0

    def replay(self, states, tag):
        from cardillo import System
        from cardillo.solver import SolverOptions

        ctx, model = self.ctx, self.model
        rng = ctx.rng
        # the same model in other units: all local quantities are integers times a power of two (exact sums), tiny and huge ones included
        from .. import stubs as _stubs
        self.nreplayed = getattr(self, "nreplayed", 0) + 1
        _stubs.UNIT = (1.0, 2.0 ** -60, 2.0 ** 40)[self.nreplayed % 3]
        system = System()
        objs = {0: system.origin}
        hist = []

        def obj(c, pref):
            if c not in objs:
                subs = [None] * len(model.subs[c])
                st = Stub(c, model.kinds[c], model.sizes[c], subs, self.table, name=name_str(pref) if pref else None)
                objs[c] = st
            return objs[c]

        def resolve_subs():
            for c, o in objs.items():
                if c != 0:
                    o._subs = [objs.get(s) for s in model.subs[c]]

        opts = SolverOptions(compute_consistent_initial_conditions=False)
        import contextlib, io
        if len(states[0]["list"]) > 1:      # Start = "full": contributions 1..NC were added unnamed, in order
            for c in list(states[0]["list"])[1:]:
                system.add(obj(c, None))
        for st in states[1:]:
            last = st["last"]
            op = last["op"]
            hist.append(_hist_entry(last))
            rep = {"history": hist, "NC": model.NC}
            got = "ok"
            try:
              with contextlib.redirect_stdout(io.StringIO()):
                if op == "add":
                    o = obj(last["c"], last["pref"])
                    if rng.randrange(2):
                        system.add(o)
                    else:
                        system.extend([o])
                elif op == "remove":
                    c = last["c"]
                    if c not in objs:
                        # removing an object that was never created: any fresh object
                        objs[c] = Stub(c, model.kinds[c], model.sizes[c], [None] * len(model.subs[c]), self.table)
                    system.remove(objs[c])
                elif op == "pop":
                    system.pop(last["i"])
                elif op == "assemble":
                    resolve_subs()
                    with warnings.catch_warnings():
                        warnings.simplefilter("ignore")
                        system.assemble(options=opts)
            except (ValueError, IndexError) as ex:
                got = type(ex).__name__
            except Exception as ex:
                ctx.violation(f"{op}:raises:{type(ex).__name__}", f"{op} raised {type(ex).__name__}: {ex} after {hist}", rep)
                return
            if got != last["outcome"]:
                ctx.violation(f"{op}:outcome", f"{op} gave {got}, spec {last['outcome']} after {hist}", rep)
                return
            self.n_ops += 1
            # --- projection: list, ncontr
            ids = [next(c for c, o in objs.items() if o is x) for x in system.contributions]
            if ids != list(st["list"]):
                ctx.violation(f"{op}:list", f"contributions are {ids}, spec {list(st['list'])} after {hist}", rep)
                return
            if system.ncontr != st["ncontr"]:
                ctx.violation(f"{op}:ncontr", f"ncontr {system.ncontr}, spec {st['ncontr']} after {hist}", rep)
                return
            # --- the property evaluated on the real object: names unique, registry exact
            names = [x.name for x in system.contributions]
            if len(set(names)) != len(names):
                ctx.violation("registry:names-not-unique", f"names {names} after {hist}", rep)
                return
            cm = system.contributions_map
            if set(cm) != set(names) or any(cm[x.name] is not x for x in system.contributions):
                ctx.violation("registry:map-not-exact",
                              f"contributions_map keys {sorted(cm)} but current contributions are named {names} after {hist}", rep)
                return
            nm = st["name"] if isinstance(st["name"], dict) else {i + 1: v for i, v in enumerate(st["name"])}
            spec_names = [name_str(nm[c]) for c in st["list"]]
            if spec_names != names:
                self.name_scheme_diverged += 1
            if op == "assemble":
                self.n_assemble += 1
                if not self._check_layout_and_scatter(system, objs, st, rep, hist):
                    return

    def _check_layout_and_scatter(self, system, objs, st, rep, hist):
        ctx, model = self.ctx, self.model
        lay = dict(st["layout"])
        total = lay["total"]
        if isinstance(lay["rng"], list):   # TLC prints a function with domain 1..n as a sequence
            lay["rng"] = {i + 1: v for i, v in enumerate(lay["rng"])}
        for f in FIELDS:
            if getattr(system, N_ATTR[f]) != total[f]:
                ctx.violation(f"layout:total:{f}", f"system.{N_ATTR[f]} = {getattr(system, N_ATTR[f])}, spec {total[f]} after {hist}", rep)
                return False
        views = {}
        order = list(st["list"])
        for c in order:
            if c == 0 or not model.subs.get(c):
                views[c] = RefView(c, "frame" if c == 0 else model.kinds[c], lay["rng"][c], None)
        for c in order:
            if c != 0 and model.subs.get(c):
                views[c] = RefView(c, model.kinds[c], lay["rng"][c], [views[s] for s in model.subs[c]])
        for c in order:
            o = objs[c]
            for f, (start, size) in lay["rng"][c].items():
                gotarr = np.asarray(getattr(o, DOF_ATTR[f]))
                if gotarr.tolist() != list(range(start, start + size)):
                    ctx.violation(f"layout:{f}", f"contribution {c} ({views[c].kind}) {DOF_ATTR[f]} = {gotarr.tolist()}, spec {list(range(start, start + size))} after {hist}", rep)
                    return False
        # --- every evaluation method against the dense reference
        rng = ctx.rng
        def vec(n):
            return np.array([float(rng.randint(-2, 2)) for _ in range(n)])
        glob = {"t": 1.0, "t2": 2.0, "q": vec(total["q"]), "q2": vec(total["q"]), "u": vec(total["u"]), "u2": vec(total["u"]),
                "u_dot": vec(total["u"]), "la_c": vec(total["la_c"]), "la_g": vec(total["la_g"]), "la_gamma": vec(total["la_gamma"]),
                "la_N": vec(total["la_N"]), "la_F": vec(total["la_F"])}
        vlist = [views[c] for c in order]
        # q0/u0 of the system must be the juxtaposition of the members' q0/u0
        q0ref = np.zeros(total["q"]); u0ref = np.zeros(total["u"])
        for c in order:
            if c != 0 and "q" in lay["rng"][c]:
                q0ref[views[c].my_qDOF] = objs[c].q0
            if c != 0 and "u" in lay["rng"][c]:
                u0ref[views[c].my_uDOF] = objs[c].u0
        if not (np.array_equal(system.q0, q0ref) and np.array_equal(system.u0, u0ref)):
            ctx.violation("scatter:q0u0", f"system.q0/u0 {system.q0.tolist()}/{system.u0.tolist()} differ from the members' {q0ref.tolist()}/{u0ref.tolist()} after {hist}", rep)
            return False
        has_mass = any(v.kind in ("body", "pmass") for v in vlist)
        for row in self.table:
            m = row["m"]
            args = [glob[a] for a in row["args"]]
            try:
                with warnings.catch_warnings():
                    warnings.simplefilter("ignore")
                    got = getattr(system, m)(*args)
            except Exception as ex:
                key = f"scatter:{m}:raises:{type(ex).__name__}" + ("" if has_mass or m != "M" else ":no-mass-contribution")
                ctx.violation(key, f"system.{m} raised {type(ex).__name__}: {ex} (members {order}) after {hist}", rep)
                continue
            ref = reference(row, vlist, total, glob, None)
            gd = _dense(got)
            self.n_method_evals += 1
            if np.shape(gd) != np.shape(ref) or not np.array_equal(gd, ref):
                ctx.violation(f"scatter:{m}", f"system.{m} differs from the dense reference (members {order}): got {np.asarray(gd).tolist()} expected {np.asarray(ref).tolist()} after {hist}", rep)
                continue
            # matrices: every output format means the same matrix (overlapping blocks are summed in all of them)
            try:
                has_format = "format" in inspect.signature(getattr(system, m)).parameters
            except (TypeError, ValueError):
                has_format = False
            if has_format:
                for fmt in ("coo", "csr", "csc", "array"):
                    try:
                        with warnings.catch_warnings():
                            warnings.simplefilter("ignore")
                            gf = _dense(getattr(system, m)(*args, format=fmt))
                    except Exception as ex:
                        ctx.violation(f"scatter:{m}:format={fmt}:raises:{type(ex).__name__}", f"system.{m}(..., format={fmt!r}) raised {type(ex).__name__}: {ex} after {hist}", rep)
                        continue
                    self.n_method_evals += 1
                    if np.shape(gf) != np.shape(ref) or not np.array_equal(gf, ref):
                        ctx.violation(f"scatter:{m}:format={fmt}", f"system.{m}(..., format={fmt!r}) differs from the dense reference (members {order}): got {np.asarray(gf).tolist()} "
                                                                  f"expected {np.asarray(ref).tolist()} after {hist}", rep)
        return True


def _hist_entry(last):
    d = {k: v for k, v in last.items()}
    if "pref" in d:
        d["pref"] = name_str(d["pref"])
    return d


def _cfg(path, NC, maxops, maxsuffix, impl="intended", start="empty"):
    with open(path, "w") as f:
        f.write(f"""SPECIFICATION Spec
CONSTANTS
  NC = {NC}
  MaxOps = {maxops}
  MaxSuffix = {maxsuffix}
  Impl = "{impl}"
  Start = "{start}"
INVARIANT NamesUnique
INVARIANT RegistryExact
INVARIANT NoDuplicates
INVARIANT LayoutPartitions
PROPERTY AssembleIdempotent
PROPERTY LayoutIsFunctionOfList
""")


def run(ctx):
    ctx.level = "model_checking"
    table = scatter_table(ctx)
    states = trans = traces = 0
    samples = []
    # 1. the design: exhaustive model check with larger constants (no dump)
    NCbig, opsbig = (4, 5) if not ctx.thorough else (5, 6)
    cfg = os.path.join(ctx.scratch, "sys_big.cfg")
    _cfg(cfg, NCbig, opsbig, 3)
    r = tlc.run_tlc("CardilloSystem", cfg, scratch=ctx.scratch, timeout=3000)
    tlc.require_ok(r, "CardilloSystem exhaustive")
    if r.violated:
        ctx.violation(f"spec:{r.violated}", f"TLC: {r.violated} violated in CardilloSystem", {"stdout": r.stdout[-4000:]})
    states += r.distinct
    trans += r.generated
    ctx.log(f"[C14] design: NC={NCbig} MaxOps={opsbig}: {r.distinct} distinct states, depth {r.depth}")
    # the as-found variant must be rejected by TLC (documents the repaired defect; see known_findings.json)
    cfg = os.path.join(ctx.scratch, "sys_asfound.cfg")
    _cfg(cfg, 3, 4, 3, "as_found")
    ra = tlc.run_tlc("CardilloSystem", cfg, scratch=ctx.scratch, timeout=600)
    if not ra.violated:
        raise tlc.MachineryError("as_found variant of CardilloSystem is not rejected by TLC: the invariants are vacuous")
    # 2. binding: edge cover of a smaller graph replayed into the real System
    NC, ops = (3, 3) if not ctx.thorough else (3, 4)
    model = Model(ctx, NC)
    cfg = os.path.join(ctx.scratch, "sys_small.cfg")
    _cfg(cfg, NC, ops, 2)
    dot = os.path.join(ctx.scratch, "sys_small")
    r = tlc.run_tlc("CardilloSystem", cfg, scratch=ctx.scratch, dump_dot=dot, timeout=1500)
    tlc.require_ok(r, "CardilloSystem small graph")
    g = tlc.parse_dot(dot + ".dot")
    walks, ncov = tlc.edge_cover_walks(g, max_len=ops + 1)
    rp = SystemReplayer(ctx, model, table)
    for (start, walk) in walks:
        sts = [g.nodes[start]] + [g.nodes[g.edges[e][1]] for e in walk]
        rp.replay(sts, "exh")
        traces += 1
        if len(samples) < 2 and len(walk) >= 3:
            samples.append({"ops": [_hist_entry(s["last"]) for s in sts[1:]]})
    states += r.distinct
    trans += r.generated
    ctx.log(f"[C14] graph NC={NC} MaxOps={ops}: {r.distinct} states, {len(g.edges)} transitions covered by {len(walks)} walks; "
            f"{rp.n_ops} ops, {rp.n_assemble} assemblies, {rp.n_method_evals} method evaluations compared")
    # 2b. all six kinds present from the start: remove/pop/add/assemble combinations
    NCf, opsf = (7, 3) if not ctx.thorough else (7, 4)
    modelf = Model(ctx, NCf)
    cfg = os.path.join(ctx.scratch, "sys_full.cfg")
    _cfg(cfg, NCf, opsf, 1, "intended", "full")
    dot = os.path.join(ctx.scratch, "sys_full")
    r = tlc.run_tlc("CardilloSystem", cfg, scratch=ctx.scratch, dump_dot=dot, timeout=1500)
    tlc.require_ok(r, "CardilloSystem full-start graph")
    if r.violated:
        ctx.violation(f"spec:{r.violated}", f"TLC: {r.violated} violated (full start)", {"stdout": r.stdout[-4000:]})
    gf = tlc.parse_dot(dot + ".dot")
    walksf, _ = tlc.edge_cover_walks(gf, max_len=opsf + 1)
    rpf = SystemReplayer(ctx, modelf, table)
    for (start, walk) in walksf:
        rpf.replay([gf.nodes[start]] + [gf.nodes[gf.edges[e][1]] for e in walk], "full")
        traces += 1
    states += r.distinct
    trans += r.generated
    ctx.log(f"[C14] graph NC={NCf} (all kinds, full start) MaxOps={opsf}: {r.distinct} states, {len(gf.edges)} transitions, {len(walksf)} walks; "
            f"{rpf.n_ops} ops, {rpf.n_assemble} assemblies, {rpf.n_method_evals} method evaluations compared")
    # 3. long simulated histories with all six kinds
    NCs, depth, num = (7, 14, 150) if not ctx.thorough else (9, 24, 1500)
    model6 = Model(ctx, NCs)
    behs = []
    for start in ("empty", "full"):
        cfg = os.path.join(ctx.scratch, f"sys_sim_{start}.cfg")
        _cfg(cfg, NCs, depth, 3, "intended", start)
        r, bs = tlc.simulate("CardilloSystem", cfg, scratch=ctx.scratch, num=num // 2, depth=depth + 1, seed=ctx.seed % 2**31, timeout=3000)
        if r.violated:
            ctx.violation(f"spec:{r.violated}", "TLC simulation: property violated", {"stdout": r.stdout[-3000:]})
        if not bs:
            raise tlc.MachineryError("no simulated CardilloSystem behaviours: " + r.stdout[-1500:])
        behs += bs
    rp2 = SystemReplayer(ctx, model6, table)
    for b in behs:
        rp2.replay([s for _, s in b], "sim")
        traces += 1
    ctx.log(f"[C14] simulation NC={NCs}: {len(behs)} histories of {depth} ops; {rp2.n_ops} ops, {rp2.n_assemble} assemblies, "
            f"{rp2.n_method_evals} method evaluations compared")
    # 4. real classes: assemble twice, layout and evaluations unchanged
    from . import c14_real
    nreal = c14_real.run(ctx, table)
    ctx.coverage = {
        "states": states, "transitions": trans, "traces_validated_against_impl": traces + nreal,
        "samples": samples, "exhaustive": True,
        "ops_replayed": rp.n_ops + rp2.n_ops + rpf.n_ops, "assemblies_checked": rp.n_assemble + rp2.n_assemble + rpf.n_assemble,
        "method_evaluations_compared": rp.n_method_evals + rp2.n_method_evals + rpf.n_method_evals,
        "scatter_methods": len(table), "real_systems": nreal,
        "name_scheme_diverged_from_spec": rp.name_scheme_diverged + rp2.name_scheme_diverged,
        "rule": "exhaustive TLC run of the registry/layout model; every transition of a smaller graph and simulated histories "
                "replayed into the real System with stub contributions (kinds/sizes/couplings exported from the spec)",
    }
    ctx.assumptions = ["stub local methods are integer valued so sums are exact",
                       "names are compared with the spec only informatively; uniqueness and registry exactness are evaluated on the real object",
                       "assembling with a member whose subsystem is not a member is a user error and not modelled"]


def replay(ctx, path):
    run(ctx)
