"""C01 Quaternion rotation kernel is algebraically exact.

Decide: spec/QuatKernel.tla -- N(P) = |P|^2 R(P) as integer polynomials; orthonormality, determinant, scale
        invariance, homomorphism, tangent map x inverse = identity, quaternion length kept, body-fixed spin = w,
        exactness of the stencil derivative, all as cleared polynomial identities checked by TLC on a grid that
        is a uniqueness set for their degree (hence for all real P); plus the integer numerators every routine
        must return at each lattice quaternion.
Bind:   the real routines (Exp_SO3_quat, Exp_SO3_quat_P, T_SO3_quat, T_SO3_inv_quat, their P-derivatives,
        quatprod, ax2skew, ax2skew_squared, skew2ax, cross3, both normalising variants) are evaluated at every
        lattice point; value x denominator must be the spec's integer within 1e-9.
"""
from __future__ import annotations

import os

import numpy as np

from .. import tlc

QFIXED = [np.array([1.0, 2, -1, 3]), np.array([0.0, 1, 1, -2]), np.array([2.0, 0, -3, 1])]
WFIXED = np.array([2.0, -1, 3])


def _cmp(ctx, key, name, got, exp, P, tol=1e-9):
    got = np.asarray(got, dtype=float)
    exp = np.asarray(exp, dtype=float)
    if got.shape != exp.shape:
        ctx.violation(f"{key}:{name}:shape", f"{name}(P={P}) has shape {got.shape}, spec {exp.shape}", {"P": P})
        return False
    err = np.max(np.abs(got - exp) / (1.0 + np.abs(exp))) if got.size else 0.0
    if not np.isfinite(err) or err > tol:
        ctx.violation(f"{key}:{name}", f"{name} at P={P}: scaled value {np.round(got, 9).tolist()} is not the exact {exp.tolist()} (rel. dev {err:.2e})", {"P": P})
        return False
    return True


def check_point(ctx, P, e, key):
    from cardillo.math import rotations as R
    from cardillo.math import algebra as A

    Pf = np.array(P, dtype=float)
    s = float(e["s"])
    p = Pf[1:]
    ok = True
    try:
        ok &= _cmp(ctx, key, "Exp_SO3_quat", R.Exp_SO3_quat(Pf.copy()) * s, e["N"], P)
        ok &= _cmp(ctx, key, "Exp_SO3_quat(normalize=False)", R.Exp_SO3_quat(Pf.copy(), normalize=False), e["Nun"], P)
        dR = R.Exp_SO3_quat_P(Pf.copy())
        ok &= _cmp(ctx, key, "Exp_SO3_quat_P", np.moveaxis(dR, 2, 0) * s * s, e["dR"], P)
        dRun = R.Exp_SO3_quat_P(Pf.copy(), normalize=False)
        ok &= _cmp(ctx, key, "Exp_SO3_quat_P(normalize=False)", np.moveaxis(dRun, 2, 0), e["dRun"], P)
        T = R.T_SO3_quat(Pf.copy())
        ok &= _cmp(ctx, key, "T_SO3_quat", T * s / 2, e["Tn"], P)
        ok &= _cmp(ctx, key, "T_SO3_quat(normalize=False)", R.T_SO3_quat(Pf.copy(), normalize=False) / 2, e["Tn"], P)
        Ti = R.T_SO3_inv_quat(Pf.copy())
        ok &= _cmp(ctx, key, "T_SO3_inv_quat", Ti * 2, e["Ti"], P)
        ok &= _cmp(ctx, key, "T_SO3_inv_quat(normalize=False)", R.T_SO3_inv_quat(Pf.copy(), normalize=False) * 2, e["Ti"], P)
        dT = R.T_SO3_quat_P(Pf.copy())
        ok &= _cmp(ctx, key, "T_SO3_quat_P", np.moveaxis(dT, 2, 0) * s * s, e["dT"], P)
        dTi = R.T_SO3_inv_quat_P(Pf.copy())
        ok &= _cmp(ctx, key, "T_SO3_inv_quat_P", np.moveaxis(dTi, 2, 0) * 2, e["dTi"], P)
        ok &= _cmp(ctx, key, "T_SO3_quat_P(normalize=False)", np.moveaxis(R.T_SO3_quat_P(Pf.copy(), normalize=False), 2, 0) / 2, e["dTun"], P)
        ok &= _cmp(ctx, key, "T_SO3_inv_quat_P(normalize=False)", np.moveaxis(R.T_SO3_inv_quat_P(Pf.copy(), normalize=False), 2, 0) * 2, e["dTi"], P)
        for i, Q in enumerate(QFIXED):
            ok &= _cmp(ctx, key, "quatprod", R.quatprod(Pf.copy(), Q.copy()), e["qprod"][i], P)
            ok &= _cmp(ctx, key, "quatprod(Q,P)", R.quatprod(Q.copy(), Pf.copy()), e["qprodr"][i], P)
        ok &= _cmp(ctx, key, "ax2skew", A.ax2skew(p.copy()), e["skew"], P)
        ok &= _cmp(ctx, key, "ax2skew_squared", A.ax2skew_squared(p.copy()), e["skewsq"], P)
        ok &= _cmp(ctx, key, "skew2ax", A.skew2ax(A.ax2skew(p.copy())), p, P)
        ok &= _cmp(ctx, key, "cross3", A.cross3(p.copy(), WFIXED.copy()), e["cross"], P)
        # the clauses of the property evaluated on the code's own outputs (floats, 1e-10)
        Rm = R.Exp_SO3_quat(Pf.copy())
        if not np.allclose(Rm @ Rm.T, np.eye(3), atol=1e-12) or abs(np.linalg.det(Rm) - 1) > 1e-12:
            ctx.violation(f"{key}:orthonormal", f"Exp_SO3_quat(P={P}) is not a rotation", {"P": P}); ok = False
        if not np.allclose(T @ Ti, np.eye(3), atol=1e-12):
            ctx.violation(f"{key}:T*Tinv", f"T_SO3_quat @ T_SO3_inv_quat != I at P={P}", {"P": P}); ok = False
        Pdot = Ti @ WFIXED
        ok &= _cmp(ctx, key, "T_SO3_inv_quat@w", Pdot * 2, e["pdot2"], P)
        Rdot = np.einsum("ijk,k->ij", dR, Pdot)
        if not np.allclose(Rm.T @ Rdot, A.ax2skew(WFIXED), atol=1e-10 * (1 + np.max(np.abs(Rdot)))):
            ctx.violation(f"{key}:body-spin", f"R^T Rdot along T_inv(P) w is not skew(w) at P={P}", {"P": P}); ok = False
        for c in (-2.0, 0.5, 7.0):
            if not np.allclose(R.Exp_SO3_quat(c * Pf), Rm, atol=1e-12):
                ctx.violation(f"{key}:scale", f"Exp_SO3_quat({c} P) != Exp_SO3_quat(P) at P={P}", {"P": P}); ok = False
        # the same lattice point at other lengths, in particular within 1e-3 ... 1e-9 of unit length and at extreme lengths:
        # R(cP) = R(P), dR/dP(cP) = dR/dP(P)/c, T(cP) = T(P)/c, T_inv(cP) = c T_inv(P)   (homogeneity of the rational kernel)
        rs = np.sqrt(s)
        scales = ((1 + 2e-6) / rs, (1 - 3e-6) / rs, (1 + 1e-9) / rs, (1 - 4e-4) / rs, 1.0 / rs, 1e-6, 3e5)
        if not ctx.thorough:        # quick tier: four lengths on every third lattice point
            scales = scales[:2] + scales[4:5] + scales[6:] if (int(abs(P[0]) + 2 * abs(P[1]) + 3 * abs(P[2]) + 5 * abs(P[3])) % 3 == 0) else ()
        for c in scales:
            Q = c * Pf
            tag = "near-unit" if abs(c * rs - 1) < 1e-2 else "rescaled"
            ok &= _cmp(ctx, f"{key}:{tag}", "Exp_SO3_quat", R.Exp_SO3_quat(Q.copy()) * s, e["N"], P)
            ok &= _cmp(ctx, f"{key}:{tag}", "Exp_SO3_quat_P", np.moveaxis(R.Exp_SO3_quat_P(Q.copy()), 2, 0) * s * s * c, e["dR"], P)
            ok &= _cmp(ctx, f"{key}:{tag}", "T_SO3_quat", R.T_SO3_quat(Q.copy()) * s / 2 * c, e["Tn"], P)
            ok &= _cmp(ctx, f"{key}:{tag}", "T_SO3_inv_quat", R.T_SO3_inv_quat(Q.copy()) * 2 / c, e["Ti"], P)
            ok &= _cmp(ctx, f"{key}:{tag}", "T_SO3_quat_P", np.moveaxis(R.T_SO3_quat_P(Q.copy()), 2, 0) * s * s * c * c, e["dT"], P)
    except Exception as ex:
        ctx.violation(f"{key}:raises", f"evaluation at P={P} raised {type(ex).__name__}: {ex}", {"P": P})
        return False
    return ok


def purity(ctx, points):
    """the routines are functions of the argument's VALUE: a buffer that is modified in place between two calls must give the
    result of the new value (histories: same array object, mutated, called again)"""
    from cardillo.math import rotations as R

    n = 0
    fns = [("Exp_SO3_quat", lambda b: R.Exp_SO3_quat(b)), ("Exp_SO3_quat_P", lambda b: R.Exp_SO3_quat_P(b)), ("T_SO3_quat", lambda b: R.T_SO3_quat(b)),
           ("T_SO3_inv_quat", lambda b: R.T_SO3_inv_quat(b)), ("T_SO3_quat_P", lambda b: R.T_SO3_quat_P(b)), ("T_SO3_inv_quat_P", lambda b: R.T_SO3_inv_quat_P(b)),
           ("quatprod(b, b)", lambda b: R.quatprod(b, b))]
    for name, f in fns:
        # expected values first (fresh arrays), then an uninterrupted sequence of calls on ONE buffer that is updated in place
        fresh = [np.array(f(np.array(P, dtype=float)), dtype=float) for P in points]
        buf = np.zeros(4)
        prev = None
        for P, exp in zip(points, fresh):
            buf[:] = P
            got = np.array(f(buf), dtype=float)
            n += 1
            if not np.array_equal(got, exp):
                ctx.violation(f"purity:{name}", f"{name} on a buffer updated in place from {prev} to {list(P)} returned the result of another value", {"P": list(P), "previous": prev})
                break
            if not np.array_equal(buf, np.array(P, dtype=float)):
                ctx.violation(f"purity:{name}:mutates-argument", f"{name} modified its argument {list(P)}", {"P": list(P)})
                break
            prev = list(P)
    return n


def _cfg(path, gmax, qmax, points, invs=True, det=True):
    with open(path, "w") as f:
        f.write(f'SPECIFICATION Spec\nCONSTANTS\n  GMax = {gmax}\n  QMax = {qmax}\n  Points = "{points}"\n')
        if invs:
            for i in ["Ortho", "ScaleInvariant", "Homomorphism", "TangentInverse", "KeepsLength", "BodySpin", "DegreeTwo", "DerivativeAnnihilatesP"] + (["DetOne"] if det else []):
                f.write(f"INVARIANT {i}\n")


def run(ctx):
    ctx.level = "model_checking"
    gmax = 2 if not ctx.thorough else 3
    states = trans = 0
    npts = nok = 0
    samples = []
    for points, det in (("grid", True), ("extra", False)):
        cfg = os.path.join(ctx.scratch, f"qk_{points}.cfg")
        _cfg(cfg, gmax, 1, points, True, det)
        dot = os.path.join(ctx.scratch, f"qk_{points}")
        r = tlc.run_tlc("QuatKernel", cfg, scratch=ctx.scratch, dump_dot=dot, timeout=3000)
        tlc.require_ok(r, f"QuatKernel {points}")
        if r.violated:
            ctx.violation(f"spec:{r.violated}", f"TLC: {r.violated} violated", {"stdout": r.stdout[-3000:]})
            continue
        states += r.distinct
        trans += r.generated
        g = tlc.parse_dot(dot + ".dot")
        for nid in g.init:
            st = g.nodes[nid]
            P = list(st["P"])
            npts += 1
            if check_point(ctx, P, st["expected"], points):
                nok += 1
            if len(samples) < 2 and points == "grid" and npts % 97 == 0:
                samples.append({"P": P, "s": st["expected"]["s"], "N": st["expected"]["N"]})
    npure = purity(ctx, [(1, 0, 0, 0), (1, 2, -1, 3), (1, 2, -1, 3), (0, 1, 1, -2), (2, 0, 0, 0), (1, 0, 0, 0), (0, 0, 0, 1), (0, 0, 0, 2), (3, -50, 20, 1)])
    ctx.log(f"[C01] {npts} lattice quaternions evaluated on the real routines (each at 8 lengths), {nok} exact; {npure} in-place buffer histories")
    ctx.coverage = {"states": states, "transitions": max(trans, 1), "traces_validated_against_impl": npts, "samples": samples,
                    "exhaustive": True, "grid": f"-{gmax}..{gmax}", "routines": 16,
                    "rule": "all nonzero integer quaternions of the grid (a uniqueness set for the cleared identities of per-variable degree <= 4) "
                            "plus 12 large-ratio points; homomorphism against all quaternions of {-1,0,1}^4"}
    ctx.assumptions = ["the implementation computes a rational function of P without branching on magnitudes (true by inspection of the routines); "
                       "agreement on the grid then extends to all P",
                       "scaled code values must be within 1e-9 relative of the spec's integers"]


def replay(ctx, path):
    run(ctx)
