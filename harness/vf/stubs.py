"""Stub contributions for the System scatter check (C14): objects that carry exactly the attributes a
kind of contribution has in spec/CardilloSystem.tla and whose local methods return deterministic
integer arrays that depend on the contribution, the method, the position in the array AND the
arguments they receive (so that a wrong argument slice is visible)."""
from __future__ import annotations

import numpy as np

DOF_ATTR = {"q": "my_qDOF", "u": "my_uDOF", "la_g": "la_gDOF", "la_gamma": "la_gammaDOF", "la_c": "la_cDOF",
            "la_tau": "la_tauDOF", "tau": "tauDOF", "la_S": "la_SDOF", "la_N": "la_NDOF", "la_F": "la_FDOF"}
N_ATTR = {"q": "nq", "u": "nu", "la_g": "nla_g", "la_gamma": "nla_gamma", "la_c": "nla_c", "la_tau": "nla_tau",
          "tau": "ntau", "la_S": "nla_S", "la_N": "nla_N", "la_F": "nla_F"}

# which system `properties` each kind implements
KIND_PROPS = {
    "body": ["q_dot", "q_dot_q", "q_dot_u", "M", "h", "h_u", "E_kin", "g_S"],
    "pmass": ["q_dot", "q_dot_q", "q_dot_u", "M", "Mu_q", "h", "h_q", "h_u", "E_kin", "E_pot"],
    "joint": ["g", "gamma"],
    "law": ["c", "c_q", "c_u", "h", "h_q", "h_u", "E_pot"],
    "contact": ["g_N", "gamma_F", "gamma_F_q"],
    "actuator": ["la_tau", "tau"],
    "intlaw": ["q_dot", "q_dot_q", "q_dot_u", "h", "h_q", "E_pot"],
}


def _mhash(method):
    return sum((i + 1) * ord(ch) for i, ch in enumerate(method)) % 97


UNIT = 1.0      # every stub value is an integer times UNIT (a power of two: the same model in other units; sums stay exact)


def stubval(cid, method, shape, args):
    """Deterministic float array of the given shape (() for scalars): integers times UNIT."""
    s = 0
    for k, a in enumerate(args):
        a = np.atleast_1d(np.asarray(a, dtype=float))
        s += (k + 1) * float(a @ np.arange(1, a.size + 1))
    base = cid * 7 + _mhash(method)
    if shape == ():
        return float((base % 7) - 3 + s) * UNIT
    out = np.empty(shape)
    it = np.ndindex(*shape)
    for idx in it:
        v = base
        for d, i in enumerate(idx):
            v += (3 + 2 * d) * i
        out[idx] = (v % 7) - 3 + s
    return out * UNIT


class Stub:
    """A contribution of a given kind.  `table` is the scatter table exported from Scatter.tla."""

    def __init__(self, cid, kind, sizes, subs, table, name=None):
        self.cid = cid
        self.kind = kind
        self._subs = subs          # list of subsystem objects (coupling kinds)
        self._sizes = {f: n for f, n in sizes.items() if n >= 0}
        for f, n in self._sizes.items():
            setattr(self, N_ATTR[f], n)
        if "q" in self._sizes:
            self.q0 = np.array([float((cid + i) % 3 - 1) for i in range(self._sizes["q"])])
        if "u" in self._sizes:
            self.u0 = np.array([float((cid + 2 * i) % 3 - 1) for i in range(self._sizes["u"])])
        if kind == "body":
            self.constant_mass_matrix = True
        if kind == "contact":
            self.e_N = np.array([0.5] * self._sizes["la_N"])
            self.e_F = np.array([0.25] * self._sizes["la_F"])
            self.friction_laws = [([0], list(range(self._sizes["la_F"])), None)]
        if name is not None:
            self.name = name
        props = KIND_PROPS[kind]
        self._props = props
        for row in table:
            if row["prop"] in props:
                self._define(row)
        if kind in ("joint", "law", "contact", "actuator", "intlaw"):
            self.assembler_callback = self._assembler_callback
        if kind == "body":
            self.step_callback = lambda t, q, u: (q, u)

    # --- coupling: take the coordinate / velocity index sets of the subsystems
    def _assembler_callback(self):
        self.qDOF = np.concatenate([np.asarray(s.qDOF, dtype=int) for s in self._subs]) if self._subs else np.array([], dtype=int)
        if self.kind == "intlaw":       # own coordinate first, then the subsystems' coordinates
            self.qDOF = np.concatenate([np.asarray(self.my_qDOF, dtype=int), self.qDOF])
        self.uDOF = np.concatenate([np.asarray(s.uDOF, dtype=int) for s in self._subs]) if self._subs else np.array([], dtype=int)

    def dim(self, space):
        if space == "myq":
            return self._sizes["q"]
        if space == "q":
            return len(self.qDOF)
        if space == "u":
            return len(self.uDOF)
        return self._sizes[space]

    def _define(self, row):
        loc = row["loc"]
        if loc in self.__dict__:
            return
        mode = row["mode"]
        cid = self.cid
        constM = self.kind == "body" and loc == "M"

        def f(*args, _row=row, _loc=loc):
            if _row["mode"] in ("scalar",):
                shape = ()
            elif _row["mode"] in ("mat", "massmat"):
                shape = (self.dim(_row["row"]), self.dim(_row["col"]))
            else:
                shape = (self.dim(_row["row"]),)
            if constM:
                args = ()
            return stubval(cid, _loc, shape, args)

        setattr(self, loc, f)


def local_args(names, contr, glob):
    """Slice the global argument vectors the way the property says a contribution sees them."""
    out = []
    for n in names:
        if n in ("t", "t2"):
            out.append(glob[n])
        elif n in ("q", "q2"):
            out.append(glob[n][contr.qDOF])
        elif n in ("u", "u2", "u_dot"):
            out.append(glob[n][contr.uDOF])
        elif n == "0u" or n == "0u_dot":
            out.append(np.zeros(len(contr.uDOF)))
        else:  # la_x
            out.append(glob[n][getattr(contr, DOF_ATTR[n])])
    return out
