"""Check context: tier/seed, scratch directory, violations / known findings, evidence file."""
from __future__ import annotations

import json
import os
import random
import shutil
import sys
import tempfile
import time

ROOT = os.path.dirname(os.path.dirname(os.path.dirname(os.path.abspath(__file__))))
EVIDENCE_DIR = os.path.join(ROOT, "evidence")
OUT_DIR = os.path.join(ROOT, "out")
# development runs against a scratch tree (tools/run_seeds.py) keep their output apart from the registered evidence
if os.environ.get("VERIF_RUN_TAG"):
    OUT_DIR = os.path.join(ROOT, "out", "runs", os.environ["VERIF_RUN_TAG"])
    EVIDENCE_DIR = os.path.join(OUT_DIR, "evidence")
KNOWN = os.path.join(ROOT, "known_findings.json")

LEVELS = ("exploration", "fault_enumeration", "model_checking", "proof", "translation_validation", "other")


def _jsonable(o):
    import numpy as np

    if isinstance(o, (np.integer,)):
        return int(o)
    if isinstance(o, (np.floating,)):
        return float(o)
    if isinstance(o, np.ndarray):
        return o.tolist()
    if isinstance(o, (set, frozenset)):
        return sorted(_jsonable(x) for x in o)
    if isinstance(o, tuple):
        return [_jsonable(x) for x in o]
    if isinstance(o, complex):
        return [o.real, o.imag]
    return str(o)


class Ctx:
    def __init__(self, pid, tier, seed):
        self.pid = pid
        self.tier = tier
        self.seed = seed
        self.rng = random.Random(seed)
        self.t0 = time.time()
        os.makedirs(OUT_DIR, exist_ok=True)
        self.scratch = tempfile.mkdtemp(prefix=f"{pid}_", dir=OUT_DIR)
        self.replay_dir = os.path.join(OUT_DIR, "replay", pid)
        shutil.rmtree(self.replay_dir, ignore_errors=True)     # replay files of earlier runs are stale
        os.makedirs(self.replay_dir, exist_ok=True)
        self.violations = []       # unlisted violations
        self.known_hits = {}       # key -> count
        self._known = self._load_known()
        self._nrep = 0
        self.level = None
        self.coverage = {}
        self.assumptions = []
        self.notes = []

    @property
    def thorough(self):
        return self.tier == "thorough"

    def _load_known(self):
        try:
            data = json.load(open(KNOWN))
        except FileNotFoundError:
            return {}
        out = {}
        for f in data.get("findings", []):
            if f.get("property") == self.pid and f.get("status") == "known":
                out[f["key"]] = f
        return out

    def log(self, *a):
        print(*a, flush=True)

    def violation(self, key, what, replay):
        """Report a divergence.  key identifies the failing input / call site / history; if it is
        listed as a known finding it is printed as KNOWN-FINDING, otherwise it is a VIOLATION."""
        if key in self._known:
            if key not in self.known_hits:
                print(f"KNOWN-FINDING: property={self.pid} {self._known[key]['what']}", flush=True)
            self.known_hits[key] = self.known_hits.get(key, 0) + 1
            return False
        self._nrep += 1
        path = os.path.join(self.replay_dir, f"{self._nrep:04d}.json")
        with open(path, "w") as f:
            json.dump({"property": self.pid, "key": key, "what": what, "tier": self.tier, "seed": self.seed,
                       "replay": replay}, f, indent=1, default=_jsonable)
        self.violations.append((key, what, path))
        if len(self.violations) <= 20:
            print(f"VIOLATION property={self.pid} replay={path}", flush=True)
            print(f"  key={key}: {what}", flush=True)
        return True

    def write_evidence(self):
        cov = dict(self.coverage)
        cov.setdefault("samples", [])
        if not cov["samples"]:
            cov["samples"] = ["(no case explored)"]
        cov["known_findings_hit"] = {k: v for k, v in self.known_hits.items()}
        ev = {
            "property_id": self.pid,
            "tier": self.tier,
            "seed": int(self.seed),
            "level": self.level or "exploration",
            "coverage": cov,
            "assumptions": list(self.assumptions),
            "wall_s": round(time.time() - self.t0, 3),
            "violations": len(self.violations),
            "notes": list(self.notes),
        }
        self.evidence_problems = evidence_problems(ev)
        os.makedirs(EVIDENCE_DIR, exist_ok=True)
        path = os.path.join(EVIDENCE_DIR, f"{self.pid}.json")
        tmp = path + ".tmp"
        with open(tmp, "w") as f:
            json.dump(ev, f, indent=1, default=_jsonable, sort_keys=True)
        os.replace(tmp, path)
        return path

    def cleanup(self):
        shutil.rmtree(self.scratch, ignore_errors=True)


def evidence_problems(ev):
    """the per-level requirements of EVIDENCE.schema.json, restated (jsonschema is not installed in /venv)"""
    cov = ev["coverage"]
    isint = lambda k, lo: isinstance(cov.get(k), int) and not isinstance(cov.get(k), bool) and cov[k] >= lo
    generic = [k for k, lo in (("evaluations", 1), ("distinct_nontrivial", 2)) if not isint(k, lo)]
    out = []
    if not (isinstance(cov.get("samples"), list) and cov["samples"]):
        out.append("coverage.samples")
    if ev["level"] in ("exploration", "fault_enumeration"):
        out += [f"coverage.{k}" for k in generic]
        if not isinstance(cov.get("rule"), str):
            out.append("coverage.rule")
    elif ev["level"] == "model_checking":
        own = all(k in cov for k in ("states", "transitions", "traces_validated_against_impl", "samples"))
        if own:
            out += [f"coverage.{k}" for k, lo in (("states", 1), ("transitions", 1), ("traces_validated_against_impl", 0)) if not isint(k, lo)]
        else:
            out += [f"coverage.{k}" for k in generic]
    return out


def trim(obj, n=3):
    """first n items of a list for evidence samples"""
    return list(obj)[:n]
