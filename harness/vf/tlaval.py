"""Parser for TLA+ values as printed by TLC (state dumps, simulation traces, dot labels).

Supported: integers, strings, TRUE/FALSE, model values / identifiers, sequences/tuples
<<..>>, sets {..}, records [a |-> v, ..], functions (k :> v @@ k :> v), intervals a..b.
Records become dict, sequences list, sets frozenset (of hashable conversions), functions
dict with python keys.  A function whose domain is 1..n is printed by TLC as a sequence.
"""
from __future__ import annotations

import re

_TOKEN = re.compile(
    r"""\s*(?:
        (?P<str>"(?:[^"\\]|\\.)*")
      | (?P<int>-?\d+)
      | (?P<sym><<|>>|\|->|:>|@@|\.\.|[\[\](){},])
      | (?P<id>[A-Za-z_][A-Za-z0-9_!]*)
    )""",
    re.X,
)


class TLAParseError(ValueError):
    pass


def tokenize(s):
    pos = 0
    out = []
    n = len(s)
    while pos < n:
        m = _TOKEN.match(s, pos)
        if not m:
            if s[pos:].strip() == "":
                break
            raise TLAParseError(f"cannot tokenize at {pos}: {s[pos:pos+40]!r}")
        pos = m.end()
        if m.group("str") is not None:
            raw = m.group("str")[1:-1]
            out.append(("str", raw.replace('\\"', '"').replace("\\\\", "\\")))
        elif m.group("int") is not None:
            out.append(("int", int(m.group("int"))))
        elif m.group("sym") is not None:
            out.append(("sym", m.group("sym")))
        else:
            out.append(("id", m.group("id")))
    return out


def _hashable(v):
    if isinstance(v, dict):
        return tuple(sorted((_hashable(k), _hashable(x)) for k, x in v.items()))
    if isinstance(v, list):
        return tuple(_hashable(x) for x in v)
    if isinstance(v, (set, frozenset)):
        return frozenset(_hashable(x) for x in v)
    return v


class _P:
    def __init__(self, toks):
        self.t = toks
        self.i = 0

    def peek(self):
        return self.t[self.i] if self.i < len(self.t) else (None, None)

    def next(self):
        tok = self.peek()
        self.i += 1
        return tok

    def expect(self, sym):
        k, v = self.next()
        if k != "sym" or v != sym:
            raise TLAParseError(f"expected {sym!r}, got {v!r} at token {self.i}")

    def value(self):
        k, v = self.next()
        if k == "int":
            nk, nv = self.peek()
            if nk == "sym" and nv == "..":
                self.next()
                k2, v2 = self.next()
                return list(range(v, v2 + 1))
            return v
        if k == "str":
            return v
        if k == "id":
            if v == "TRUE":
                return True
            if v == "FALSE":
                return False
            return v  # model value
        if k == "sym":
            if v == "<<":
                items = []
                if self.peek() == ("sym", ">>"):
                    self.next()
                    return items
                while True:
                    items.append(self.value())
                    k2, v2 = self.next()
                    if (k2, v2) == ("sym", ">>"):
                        return items
                    if (k2, v2) != ("sym", ","):
                        raise TLAParseError(f"bad tuple separator {v2!r}")
            if v == "{":
                items = []
                if self.peek() == ("sym", "}"):
                    self.next()
                    return frozenset()
                while True:
                    items.append(_hashable(self.value()))
                    k2, v2 = self.next()
                    if (k2, v2) == ("sym", "}"):
                        return frozenset(items)
                    if (k2, v2) != ("sym", ","):
                        raise TLAParseError(f"bad set separator {v2!r}")
            if v == "[":
                rec = {}
                while True:
                    k2, name = self.next()
                    if k2 != "id":
                        raise TLAParseError(f"bad record field {name!r}")
                    self.expect("|->")
                    rec[name] = self.value()
                    k3, v3 = self.next()
                    if (k3, v3) == ("sym", "]"):
                        return rec
                    if (k3, v3) != ("sym", ","):
                        raise TLAParseError(f"bad record separator {v3!r}")
            if v == "(":
                fn = {}
                while True:
                    key = _hashable(self.value())
                    self.expect(":>")
                    fn[key] = self.value()
                    k3, v3 = self.next()
                    if (k3, v3) == ("sym", ")"):
                        return fn
                    if (k3, v3) != ("sym", "@@"):
                        raise TLAParseError(f"bad function separator {v3!r}")
        raise TLAParseError(f"unexpected token {k} {v!r}")


def parse_value(s):
    p = _P(tokenize(s))
    v = p.value()
    if p.i != len(p.t):
        raise TLAParseError(f"trailing tokens in {s!r}")
    return v


_CONJ = re.compile(r"(?:^|\n)\s*/\\ ([A-Za-z_][A-Za-z0-9_]*) = ")


def parse_state(text):
    """Parse a TLC state printed as '/\\ x = ..\n/\\ y = ..' into a dict."""
    text = text.strip()
    if not text.startswith("/\\"):
        # single-variable states are printed as 'x = v'
        name, _, rest = text.partition(" = ")
        return {name.strip(): parse_value(rest)}
    ms = list(_CONJ.finditer(text))
    out = {}
    for i, m in enumerate(ms):
        end = ms[i + 1].start() if i + 1 < len(ms) else len(text)
        out[m.group(1)] = parse_value(text[m.end() : end])
    return out
