"""Exact-lattice helpers (independent of cardillo): integer quaternions, octahedral rotations,
snap-to-lattice.  These are the harness' own implementations and serve as oracles."""
from __future__ import annotations

import itertools

import numpy as np


def quat_mul(P, Q):
    p0, p = P[0], np.asarray(P[1:])
    q0, q = Q[0], np.asarray(Q[1:])
    out = np.empty(4, dtype=np.result_type(np.asarray(P).dtype, np.asarray(Q).dtype))
    out[0] = p0 * q0 - p @ q
    out[1:] = p0 * q + q0 * p + np.cross(p, q)
    return out


def quat_N(P):
    """N(P) = |P|^2 R(P): polynomial (integer for integer P) entries."""
    p0, p1, p2, p3 = P
    return np.array(
        [
            [p0 * p0 + p1 * p1 - p2 * p2 - p3 * p3, 2 * (p1 * p2 - p0 * p3), 2 * (p1 * p3 + p0 * p2)],
            [2 * (p1 * p2 + p0 * p3), p0 * p0 - p1 * p1 + p2 * p2 - p3 * p3, 2 * (p2 * p3 - p0 * p1)],
            [2 * (p1 * p3 - p0 * p2), 2 * (p2 * p3 + p0 * p1), p0 * p0 - p1 * p1 - p2 * p2 + p3 * p3],
        ]
    )


def quat_to_matrix(P):
    P = np.asarray(P, dtype=float)
    return quat_N(P) / (P @ P)


def axis_quat_exact(e, j):
    """Integer quaternion of the rotation by j quarter turns about the signed coordinate axis e."""
    e = np.asarray(e, dtype=float)
    j %= 4
    if j == 0:
        return np.array([1.0, 0.0, 0.0, 0.0])
    if j == 1:
        return np.concatenate([[1.0], e])
    if j == 2:
        return np.concatenate([[0.0], e])
    return np.concatenate([[1.0], -e])


_OCT = None


def octahedral_group():
    """The 24 proper rotation matrices with entries in {0, 1, -1} (integer arrays)."""
    global _OCT
    if _OCT is None:
        out = []
        for perm in itertools.permutations(range(3)):
            for signs in itertools.product((1, -1), repeat=3):
                M = np.zeros((3, 3), dtype=int)
                for r, (c, s) in enumerate(zip(perm, signs)):
                    M[r, c] = s
                if round(np.linalg.det(M)) == 1:
                    out.append(M)
        assert len(out) == 24
        _OCT = out
    return _OCT


def snap(x, denom=1, tol=1e-9):
    """Return (integers, max_residual) with integers = round(denom * x); residual relative."""
    a = np.asarray(x, dtype=float) * denom
    r = np.round(a)
    res = np.max(np.abs(a - r) / (1.0 + np.abs(a))) if a.size else 0.0
    return r.astype(np.int64), float(res)
