"""Run TLC / SANY / Apalache under a timeout and parse what they print.

Nothing here knows about cardillo.  Exit-code discipline: a TLC run that cannot be
interpreted raises MachineryError (the CLI turns that into exit code 2).
"""
from __future__ import annotations

import os
import re
import shutil
import subprocess
import time
from dataclasses import dataclass, field

from . import tlaval

SPEC_DIR = os.path.join(os.path.dirname(os.path.dirname(os.path.dirname(os.path.abspath(__file__)))), "spec")
JAR = "/opt/veriftools/tla/tla2tools.jar"
CP = JAR + ":/opt/veriftools/tla/CommunityModules-deps.jar"


class MachineryError(RuntimeError):
    pass


@dataclass
class TLCResult:
    ok: bool                     # completed and no error reported
    stdout: str
    generated: int = 0
    distinct: int = 0
    depth: int = 0
    violated: str | None = None  # name of violated invariant / property
    error: str | None = None
    wall_s: float = 0.0
    coverage: dict = field(default_factory=dict)   # action name -> (distinct, total)
    cmd: str = ""
    printed: list = field(default_factory=list)    # lines printed by PrintT etc.


_STATS = re.compile(r"(\d+) states generated, (\d+) distinct states found, (\d+) states left on queue")
_DEPTH = re.compile(r"The depth of the complete state graph search is (\d+)")
_INV = re.compile(r"Error: Invariant (\S+) is violated")
_PROP = re.compile(r"Error: (?:Action property|Temporal properties?) (.*?)(?: (?:is|were) violated| line)")
_COV = re.compile(r"^<(\w+) line \d+, col \d+ to line \d+, col \d+ of module (\w+)>: (\d+):(\d+)", re.M)


def run_tlc(module, cfg, *, scratch, workers=16, timeout=600, env=None, extra=(), deadlock_off=True,
            coverage=False, dump_dot=None, simulate=None, depth=None, seed=None, spec_dir=None,
            java_opts=()):
    """Run TLC on spec_dir/module.tla with config file cfg (path).  Returns TLCResult."""
    spec_dir = spec_dir or SPEC_DIR
    meta = os.path.join(scratch, "meta_%d" % (time.time_ns() % 10**12))
    os.makedirs(meta, exist_ok=True)
    cmd = ["java", "-XX:+UseParallelGC", "-Xmx8g", "-Xss256m", f"-Djava.io.tmpdir={meta}", *java_opts, "-cp", CP, "tlc2.TLC",
           "-workers", str(workers), "-metadir", meta, "-noGenerateSpecTE", "-config", cfg]
    if deadlock_off:
        cmd.append("-deadlock")
    if coverage:
        cmd += ["-coverage", "1"]
    if dump_dot:
        cmd += ["-dump", "dot,actionlabels", dump_dot]
    if simulate:
        cmd += ["-simulate", simulate]
    if depth is not None:
        cmd += ["-depth", str(depth)]
    if seed is not None:
        cmd += ["-seed", str(seed)]
    cmd += list(extra)
    cmd.append(os.path.join(spec_dir, module + ".tla"))
    e = dict(os.environ)
    if env:
        e.update({k: str(v) for k, v in env.items()})
    t0 = time.time()
    try:
        p = subprocess.run(cmd, cwd=spec_dir, env=e, capture_output=True, text=True, timeout=timeout)
    except subprocess.TimeoutExpired as ex:
        subprocess.run(["pkill", "-f", meta], capture_output=True)
        shutil.rmtree(meta, ignore_errors=True)
        out = (ex.stdout or b"")
        if isinstance(out, bytes):
            out = out.decode(errors="replace")
        r = TLCResult(ok=False, stdout=out, error="timeout", wall_s=time.time() - t0, cmd=" ".join(cmd))
        _parse_stats(r)
        return r
    shutil.rmtree(meta, ignore_errors=True)
    out = p.stdout + p.stderr
    r = TLCResult(ok=False, stdout=out, wall_s=time.time() - t0, cmd=" ".join(cmd))
    _parse_stats(r)
    m = _INV.search(out)
    if m:
        r.violated = m.group(1)
    else:
        m = _PROP.search(out)
        if m:
            r.violated = m.group(1).strip()
    if "Model checking completed. No error has been found." in out or (
        simulate and "Error:" not in out and p.returncode == 0
    ):
        r.ok = True
    elif r.violated is None:
        m = re.search(r"Error: (.*)", out)
        r.error = m.group(1) if m else f"tlc exit {p.returncode}"
    if coverage:
        for m in _COV.finditer(out):
            r.coverage[m.group(1)] = (int(m.group(3)), int(m.group(4)))
    return r


def _parse_stats(r):
    ms = _STATS.findall(r.stdout)
    if ms:
        g, d, _ = ms[-1]
        r.generated, r.distinct = int(g), int(d)
    m = _DEPTH.search(r.stdout)
    if m:
        r.depth = int(m.group(1))


def require_ok(r, what):
    if r.error:
        raise MachineryError(f"{what}: TLC failed: {r.error}\n{r.stdout[-3000:]}")
    return r


def sany(path, timeout=120):
    p = subprocess.run(["java", "-cp", CP, "tla2sany.SANY", path], capture_output=True, text=True,
                       timeout=timeout, cwd=os.path.dirname(path))
    out = p.stdout + p.stderr
    ok = p.returncode == 0 and "error" not in out.lower().replace("0 error", "")
    return ok, out


# ---------------------------------------------------------------------------------------------
# state graph (dot dump)

_NODE = re.compile(r'^(-?\d+) \[label="(.*?)"(?:,style = filled)?(?:,tooltip=".*")?\]\s*;?$')
_EDGE = re.compile(r'^(-?\d+) -> (-?\d+) \[label="(.*?)",color')


def _unescape(s):
    return s.replace("\\n", "\n").replace('\\"', '"').replace("\\\\", "\\")


@dataclass
class Graph:
    nodes: dict      # id -> state dict
    edges: list      # (src, dst, label)
    init: list       # ids of initial states

    def out_edges(self):
        o = {}
        for i, (s, d, l) in enumerate(self.edges):
            o.setdefault(s, []).append(i)
        return o


def parse_dot(path):
    nodes, edges, init = {}, [], []
    with open(path) as f:
        for line in f:
            line = line.rstrip("\n")
            m = _EDGE.match(line)
            if m:
                edges.append((m.group(1), m.group(2), _unescape(m.group(3))))
                continue
            m = _NODE.match(line)
            if m:
                nid = m.group(1)
                if nid not in nodes:
                    nodes[nid] = tlaval.parse_state(_unescape(m.group(2)))
                if "style = filled" in line:
                    init.append(nid)
    if not nodes or not init:
        raise MachineryError(f"no nodes/initial state parsed from {path}")
    return Graph(nodes, edges, init)


def edge_cover_walks(g: Graph, max_len=60, rng=None):
    """Walks (lists of edge indices starting at an initial state) that together traverse every
    edge of g at least once.  Greedy: follow uncovered edges; when stuck, take the BFS-shortest
    path to the nearest node with an uncovered out-edge; start a new walk when max_len is hit."""
    from collections import deque

    out = g.out_edges()
    covered = [False] * len(g.edges)
    remaining = len(g.edges)
    # only edges reachable from init matter (all are, by construction of the dump)
    walks = []

    def bfs_to_uncovered(start):
        seen = {start: None}
        dq = deque([start])
        while dq:
            n = dq.popleft()
            if any(not covered[e] for e in out.get(n, ())):
                path = []
                while seen[n] is not None:
                    pe = seen[n]
                    path.append(pe)
                    n = g.edges[pe][0]
                return list(reversed(path))
            for e in out.get(n, ()):
                d = g.edges[e][1]
                if d not in seen:
                    seen[d] = e
                    dq.append(d)
        return None

    guard = 0
    while remaining > 0:
        guard += 1
        if guard > 10 * len(g.edges) + 10:
            raise MachineryError("edge cover did not terminate")
        progressed = False
        for start in g.init:
            cur = start
            walk = []
            while len(walk) < max_len:
                unc = [e for e in out.get(cur, ()) if not covered[e]]
                if unc:
                    e = unc[0] if rng is None else rng.choice(unc)
                    covered[e] = True
                    remaining -= 1
                    progressed = True
                    walk.append(e)
                    cur = g.edges[e][1]
                    continue
                path = bfs_to_uncovered(cur)
                if path is None or len(walk) + len(path) + 1 > max_len:
                    break
                walk.extend(path)
                cur = g.edges[path[-1]][1] if path else cur
                if not path:
                    break
            if walk:
                walks.append((start, walk))
            if remaining == 0:
                break
        if not progressed:
            # uncovered edges not reachable within max_len from init along this greedy strategy:
            # fall back to direct BFS path + edge for each
            for start in g.init:
                path = bfs_to_uncovered(start)
                if path is not None:
                    cur = g.edges[path[-1]][1] if path else start
                    unc = [e for e in out.get(cur, ()) if not covered[e]]
                    e = unc[0]
                    covered[e] = True
                    remaining -= 1
                    walks.append((start, path + [e]))
                    progressed = True
                    break
            if not progressed:
                break
    return walks, sum(covered)


# ---------------------------------------------------------------------------------------------
# simulation traces written by  -simulate file=<prefix>,num=N

_SIM_STATE = re.compile(r"^STATE_(\d+) == *\n?(.*?)(?=^\\\*|\Z|^STATE_|^=====)", re.S | re.M)
_SIM_ACT = re.compile(r"^\\\* <?(\w+)")


def parse_sim_file(path):
    """Return list of (action_name, state_dict)."""
    txt = open(path).read()
    out = []
    act = None
    cur = None
    buf = []
    for line in txt.splitlines():
        if line.startswith("\\*"):
            m = re.match(r"\\\* <(\w+)", line)
            act_next = m.group(1) if m else line[2:].strip()
            if cur is not None:
                out.append((cur, tlaval.parse_state("\n".join(buf))))
                cur, buf = None, []
            act = act_next
        elif line.startswith("STATE_"):
            cur = act
            rest = line.split("==", 1)[1].strip()
            buf = [rest] if rest else []
        elif line.startswith("====") or line.startswith("----"):
            if cur is not None:
                out.append((cur, tlaval.parse_state("\n".join(buf))))
                cur, buf = None, []
        elif cur is not None:
            buf.append(line)
    if cur is not None and buf:
        out.append((cur, tlaval.parse_state("\n".join(buf))))
    return out


def simulate(module, cfg, *, scratch, num, depth, seed, timeout=600, env=None, spec_dir=None):
    """Run TLC in simulation mode; returns (TLCResult, list of behaviours)."""
    d = os.path.join(scratch, "sim_%d" % (time.time_ns() % 10**12))
    os.makedirs(d, exist_ok=True)
    r = run_tlc(module, cfg, scratch=scratch, workers=1, timeout=timeout, env=env,
                simulate=f"file={d}/tr,num={num}", depth=depth, seed=seed, spec_dir=spec_dir)
    behs = []
    for fn in sorted(os.listdir(d)):
        try:
            b = parse_sim_file(os.path.join(d, fn))
        except tlaval.TLAParseError as ex:
            raise MachineryError(f"cannot parse simulation file {fn}: {ex}")
        if b:
            behs.append(b)
    shutil.rmtree(d, ignore_errors=True)
    return r, behs
