"""Entry point:  python -m vf.cli <ID> --tier quick|thorough [--replay <path>]

exit 0: property held on everything explored (known findings are printed, not counted)
exit 1: at least one unlisted violation (a 'VIOLATION property=<id> replay=<path>' line each)
exit 2: machinery failure (TLC crash, timeout of a mandatory stage, self-test failed)
"""
from __future__ import annotations

import argparse
import importlib
import os
import sys
import traceback

from .core import Ctx
from .tlc import MachineryError


def main(argv=None):
    ap = argparse.ArgumentParser()
    ap.add_argument("pid")
    ap.add_argument("--tier", default=os.environ.get("VERIF_TIER", "quick"), choices=["quick", "thorough"])
    ap.add_argument("--replay", default=None)
    ap.add_argument("--keep", action="store_true", help="keep scratch directory")
    a = ap.parse_args(argv)
    seed = int(os.environ.get("VERIF_SEED", "20260921"))
    pid = a.pid.upper()
    try:
        mod = importlib.import_module(f"vf.checks.{pid.lower()}")
    except ModuleNotFoundError as ex:
        if ex.name and ex.name.startswith("vf.checks"):
            print(f"no check for {pid}", file=sys.stderr)
            return 2
        raise
    ctx = Ctx(pid, a.tier, seed)
    rc = 2
    try:
        if a.replay:
            mod.replay(ctx, a.replay)
        else:
            mod.run(ctx)
        ctx.write_evidence()
        if getattr(ctx, "evidence_problems", None) and not ctx.violations:
            raise MachineryError(f"the evidence record lacks what its level requires: {ctx.evidence_problems}")
        rc = 1 if ctx.violations else 0
        nk = sum(ctx.known_hits.values())
        print(f"[{pid}] tier={a.tier} seed={seed} violations={len(ctx.violations)} known_finding_hits={nk} "
              f"wall={ctx.coverage.get('wall_note', '')}{round(__import__('time').time() - ctx.t0, 1)}s", flush=True)
    except MachineryError as ex:
        if ctx.violations:
            # violations were already shown against the real code (VIOLATION lines with replay files are printed as they are found); that the
            # check could not complete afterwards (e.g. nothing left to build its later stages from) does not take them back
            print(f"[{pid}] the check could not be completed after {len(ctx.violations)} violation(s): {ex}", file=sys.stderr, flush=True)
            try:
                ctx.write_evidence()
            except Exception:
                pass
            print(f"[{pid}] tier={a.tier} seed={seed} violations={len(ctx.violations)} (incomplete run)", flush=True)
            rc = 1
        else:
            print(f"MACHINERY-FAILURE {pid}: {ex}", file=sys.stderr, flush=True)
            rc = 2
    except Exception:
        traceback.print_exc()
        if ctx.violations:
            print(f"[{pid}] the check could not be completed after {len(ctx.violations)} violation(s) (unexpected exception, see above)", file=sys.stderr, flush=True)
            try:
                ctx.write_evidence()
            except Exception:
                pass
            print(f"[{pid}] tier={a.tier} seed={seed} violations={len(ctx.violations)} (incomplete run)", flush=True)
            rc = 1
        else:
            print(f"MACHINERY-FAILURE {pid}: unexpected exception in the check itself", file=sys.stderr, flush=True)
            rc = 2
    finally:
        if not a.keep:
            ctx.cleanup()
    return rc


if __name__ == "__main__":
    sys.exit(main())
